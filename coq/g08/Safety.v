(* C08 — no index or slice expression of the reader can go out of range ("no header, however unusual, crashes the
   process", as far as run-time panics of ReadHeader itself are concerned).

   [panics cfg bs] replays the control flow of ReadHeader on the byte string bs (same conditions as Model.read_header,
   flat stream) and answers whether some index / slice expression ON THE PATH TAKEN would be out of range in Go:
     buf is a [232]byte array: buf[a:b] needs a <= b <= 232, buf[i] needs i < 232;
     parseV1Header(line): line[10], line[9] and line[11:] need 11 <= len(line);
     readV2Header: tr[0..11] in the IPv4 arm, tr[0..35] in the IPv6 arm, tr[offset:].
   Theorem [no_panic]: with the table obligations, panics is false for EVERY byte string. *)
From Coq Require Import Lia.
From G08 Require Import Model Spec Proofs V1Proofs InvProofs.
Open Scope N_scope.

Definition slice_ok (lo hi cap : nat) : bool := Nat.leb lo hi && Nat.leb hi cap.

Section Safety.
Variable cfg : config.
Local Notation B := (c_buf_len cfg).

(* parseV1Header(line): buf[10] (separator), buf[9] (family), buf[11:] *)
Definition parse_panics (line : str) : bool := Nat.ltb (length line) (c_addr_off cfg) || Nat.ltb (c_addr_off cfg) 11.

(* readUntilCRLF(buf, r, idx): buf[idx:idx+1] for idx < cap, buf[idx-1:idx+1], buf[0:idx-1] *)
Definition scan_static_panics (idx : nat) : bool := Nat.ltb B (c_v1_cap cfg) || Nat.ltb idx 1.

Definition tcp_panics (buf : str) (s : str) (read crlf_lo crlf_hi parse_hi idx : nat) : bool :=
  if negb (slice_ok (length buf) read B) then true else
  match rd_flat (read - length buf) s with
  | None => false
  | Some (x, s1) =>
      let buf1 := buf ++ x in
      if negb (slice_ok crlf_lo crlf_hi B) then true else
      if str_eqb (sub crlf_lo crlf_hi buf1) [CR; LF] then
        negb (slice_ok 0 parse_hi B) || parse_panics (firstn parse_hi buf1)
      else if scan_static_panics idx then true
      else match scan rd_flat (c_v1_cap cfg - idx) (rev (firstn idx buf1)) s1 with
           | SFound line _ => parse_panics line
           | _ => false
           end
  end.

Definition v1_panics (buf s : str) : bool :=
  if negb (slice_ok (c_proto_lo cfg) (c_unknown_hi cfg) B) then true else
  if str_eqb (sub (c_proto_lo cfg) (c_unknown_hi cfg) buf) (c_unknown cfg) then scan_static_panics (c_unknown_idx cfg)
  else if str_eqb (sub (c_proto_lo cfg) (c_tcp_hi cfg) buf) (c_tcp4 cfg) then
    tcp_panics buf s (c_t4_read cfg) (c_t4_crlf_lo cfg) (c_t4_crlf_hi cfg) (c_t4_parse_hi cfg) (c_t4_idx cfg)
  else if str_eqb (sub (c_proto_lo cfg) (c_tcp_hi cfg) buf) (c_tcp6 cfg) then
    tcp_panics buf s (c_t6_read cfg) (c_t6_crlf_lo cfg) (c_t6_crlf_hi cfg) (c_t6_parse_hi cfg) (c_t6_idx cfg)
  else false.

Definition v2_panics (buf s : str) : bool :=
  if negb (slice_ok (length buf) (c_v2_fixed cfg) B) || Nat.ltb (c_v2_fixed cfg) 16 then true else
  match rd_flat (c_v2_fixed cfg - length buf) s with
  | None => false
  | Some (x, s1) =>
      let buf1 := buf ++ x in
      let vc := b_at 12 buf1 in
      if negb (N.land vc 240 =? 32) then false else
      let len := be16 (b_at 14 buf1) (b_at 15 buf1) in
      if c_v2_maxlen cfg <? len then false else
      match (if len =? 0 then Some ([], s1) else rd_flat (N.to_nat len) s1) with
      | None => false
      | Some (tr, _) =>
          let cmd := N.land vc 15 in
          if cmd =? c_cmd_local cfg then false
          else if cmd =? c_cmd_proxy cfg then
            if len =? 0 then false
            else if inb (b_at 13 buf1) (c_fam_v4 cfg) then
              if Nat.ltb (length tr) (c_ipv4_len cfg) then false else Nat.ltb (length tr) 12
            else if inb (b_at 13 buf1) (c_fam_v6 cfg) then
              if Nat.ltb (length tr) (c_ipv6_len cfg) then false else Nat.ltb (length tr) 36
            else false
          else false
      end
  end.

Definition panics (bs : str) : bool :=
  if negb (slice_ok 0 (c_ident_len cfg) B) then true else
  match rd_flat (c_ident_len cfg) bs with
  | None => false
  | Some (buf, s1) =>
      if c_v2_first cfg then
        if has_prefix buf (c_v2_sig cfg) then v2_panics buf s1
        else if has_prefix buf (c_v1_sig cfg) then v1_panics buf s1
        else negb (slice_ok 0 (c_dump_hi cfg) B)
      else
        if has_prefix buf (c_v1_sig cfg) then v1_panics buf s1
        else if has_prefix buf (c_v2_sig cfg) then v2_panics buf s1
        else negb (slice_ok 0 (c_dump_hi cfg) B)
  end.

(* ------------------------------------------------------------------ proof *)
Definition cfg_bounds_ok : Prop :=
  c_buf_len cfg = 232%nat /\ c_dump_hi cfg = 14%nat.

Hypothesis Hc : cfg_common_ok cfg.
Hypothesis H1 : cfg_v1_ok cfg.
Hypothesis H2 : cfg_v2_ok cfg.
Hypothesis Hb : cfg_bounds_ok.

Lemma scan_line_len : forall fuel p rb s line s',
  scan rd_flat fuel (p :: rb) s = SFound line s' -> (length rb <= length line)%nat.
Proof.
  intros fuel p rb s line s' H. apply scan_inv in H as (m & _ & -> & _ & _ & _).
  rewrite app_length, rev_length. lia.
Qed.

Lemma tcp_no_panic buf s read lo hi phi idx minl :
  length buf = 13%nat -> tcp_branch_ok read lo hi phi idx minl -> (minl <= 107)%nat ->
  tcp_panics buf s read lo hi phi idx = false.
Proof.
  intros Hl (B1 & B2 & -> & -> & -> & ->) Hm.
  destruct H1 as (_ & _ & _ & _ & _ & _ & _ & Ecap & Eao & _). destruct Hb as [EB _].
  unfold tcp_panics, slice_ok, parse_panics, scan_static_panics. rewrite Hl, EB, Ecap, Eao. unfold V1_MAX.
  replace (Nat.leb 13 read && Nat.leb read 232) with true by (symmetry; apply andb_true_iff; split; apply Nat.leb_le; lia).
  cbn [negb].
  destruct (rd_flat (read - 13) s) as [[x s1]|] eqn:E; [|reflexivity].
  apply rd_flat_some in E as [-> Hx].
  replace (Nat.leb (read - 2) read && Nat.leb read 232) with true by (symmetry; apply andb_true_iff; split; apply Nat.leb_le; lia).
  cbn [negb].
  assert (Hb1 : length (buf ++ x) = read) by (rewrite app_length; lia).
  destruct (str_eqb _ _).
  - replace (Nat.leb 0 (read - 2) && Nat.leb (read - 2) 232) with true by (symmetry; apply andb_true_iff; split; apply Nat.leb_le; lia).
    cbn [negb orb]. rewrite firstn_length_le by lia.
    replace (Nat.ltb (read - 2) 11) with false by (symmetry; apply Nat.ltb_ge; lia). reflexivity.
  - replace (Nat.ltb 232 107) with false by reflexivity.
    replace (Nat.ltb read 1) with false by (symmetry; apply Nat.ltb_ge; lia). cbn [orb].
    rewrite <- Hb1 at 2. rewrite firstn_all.
    destruct (rev (buf ++ x)) as [|p rb] eqn:Er.
    + apply (f_equal (@length N)) in Er. rewrite rev_length in Er. simpl in Er. lia.
    + destruct (scan rd_flat (107 - read) (p :: rb) s1) as [line s2| |s2] eqn:Es; try reflexivity.
      apply scan_line_len in Es.
      assert (length rb = (read - 1)%nat).
      { apply (f_equal (@length N)) in Er. rewrite rev_length in Er. simpl in Er. lia. }
      replace (Nat.ltb (length line) 11) with false by (symmetry; apply Nat.ltb_ge; lia). reflexivity.
Qed.

Theorem no_panic bs : panics bs = false.
Proof.
  destruct Hc as (Ei & Es2 & Es1). destruct Hb as [EB ED].
  pose proof H1 as (Epl & Euh & Eth & Eu & E4 & E6 & Eui & Ecap & Eao & B4 & B6).
  pose proof H2 as (Ef & Em & E4l & E6l & El & Ep & Ef4 & Ef6).
  unfold panics, slice_ok. rewrite Ei, EB, ED. cbn [Nat.leb andb negb].
  destruct (rd_flat 13 bs) as [[buf s1]|] eqn:E; [|reflexivity].
  apply rd_flat_some in E as [-> Hl].
  assert (Hv1 : v1_panics buf s1 = false).
  { unfold v1_panics, slice_ok, scan_static_panics. rewrite Epl, Euh, Eth, EB, Eui, Ecap. cbn [Nat.leb andb negb]. unfold V1_MAX.
    destruct (str_eqb _ (c_unknown cfg)); [reflexivity|].
    destruct (str_eqb _ (c_tcp4 cfg)); [eapply tcp_no_panic; eauto; lia|].
    destruct (str_eqb _ (c_tcp6 cfg)); [eapply tcp_no_panic; eauto; lia | reflexivity]. }
  assert (Hv2 : v2_panics buf s1 = false).
  { unfold v2_panics, slice_ok. rewrite Hl, Ef, EB, E4l, E6l. cbn [Nat.leb Nat.ltb andb orb negb].
    destruct (rd_flat (16 - 13) s1) as [[x s2]|]; [|reflexivity].
    destruct (negb _); [reflexivity|]. destruct (c_v2_maxlen cfg <? _); [reflexivity|].
    destruct (if _ =? 0 then _ else _) as [[tr s3]|]; [|reflexivity].
    destruct (_ =? c_cmd_local cfg); [reflexivity|]. destruct (_ =? c_cmd_proxy cfg); [|reflexivity].
    destruct (_ =? 0); [reflexivity|].
    destruct (inb _ (c_fam_v4 cfg)); [match goal with |- (if ?c then false else ?c) = false => destruct c; reflexivity end|].
    destruct (inb _ (c_fam_v6 cfg)); [match goal with |- (if ?c then false else ?c) = false => destruct c; reflexivity end | reflexivity]. }
  destruct (c_v2_first cfg).
  - destruct (has_prefix buf (c_v2_sig cfg)); [exact Hv2|]. destruct (has_prefix buf (c_v1_sig cfg)); [exact Hv1 | reflexivity].
  - destruct (has_prefix buf (c_v1_sig cfg)); [exact Hv1|]. destruct (has_prefix buf (c_v2_sig cfg)); [exact Hv2 | reflexivity].
Qed.

End Safety.
