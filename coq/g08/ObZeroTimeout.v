(* C08 — table obligation ob_zero_timeout: a fact about the source as extracted into Tables.v on this run, discharged by closed
   computation.  One obligation per file, so that a changed source un-discharges only the theorems that need this fact. *)
From G08 Require Import Tables Cfg Spec Proofs V1Proofs InvProofs.

(* proxyproto.Listener.Accept hands the listener's ReadHeaderTimeout to the connection verbatim, so a zero / unset value
   (documented: --proxy-protocol-read-header-timeout 0 = no limit) stays zero and is not replaced by a default *)
Lemma ob_zero_timeout : t_accept_timeout_verbatim = true.
Proof. vm_compute. reflexivity. Qed.
