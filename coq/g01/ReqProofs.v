(* C01 — lemmas about the request pipeline model.  Facts about the source
   (Tables.v) enter only as hypotheses; Ob01.v discharges them. *)
From Coq Require Import Lia.
From G01 Require Import ReqE2E ViaProofs.

(* ---------- canonical keys ---------- *)
Lemma upperc_idem c : upperc (upperc c) = upperc c.
Proof.
  unfold upperc, is_lower.
  destruct ((97 <=? c) && (c <=? 122)) eqn:E; [|rewrite E; reflexivity].
  apply andb_true_iff in E as [E1 E2]. apply N.leb_le in E1, E2.
  destruct ((97 <=? c - 32) && (c - 32 <=? 122)) eqn:E'; [|reflexivity].
  apply andb_true_iff in E' as [E3 _]. apply N.leb_le in E3. lia.
Qed.

Lemma upperc_dash c : (upperc c =? 45) = (c =? 45).
Proof.
  unfold upperc, is_lower. destruct ((97 <=? c) && (c <=? 122)) eqn:E; [|reflexivity].
  apply andb_true_iff in E as [E1 E2]. apply N.leb_le in E1, E2.
  destruct (c - 32 =? 45) eqn:A; destruct (c =? 45) eqn:B; try reflexivity.
  - apply N.eqb_eq in A. lia.
  - apply N.eqb_eq in B. lia.
Qed.

Lemma lowerc_dash c : (lowerc c =? 45) = (c =? 45).
Proof.
  unfold lowerc, is_upper. destruct ((65 <=? c) && (c <=? 90)) eqn:E; [|reflexivity].
  apply andb_true_iff in E as [E1 E2]. apply N.leb_le in E1, E2.
  destruct (c + 32 =? 45) eqn:A; destruct (c =? 45) eqn:B; try reflexivity.
  - apply N.eqb_eq in A. lia.
  - apply N.eqb_eq in B. lia.
Qed.

Lemma canon_go_idem up s : canon_go up (canon_go up s) = canon_go up s.
Proof.
  revert up. induction s as [|c s IH]; intro up; [reflexivity|].
  cbn [canon_go]. destruct up.
  - rewrite upperc_idem, upperc_dash, IH. reflexivity.
  - rewrite lowerc_idem, lowerc_dash, IH. reflexivity.
Qed.

(* case changes keep token characters token characters *)
Lemma is_token_char_upperc c : is_token_char (upperc c) = is_token_char c.
Proof.
  unfold upperc. destruct (is_lower c) eqn:E; [|reflexivity].
  unfold is_lower in E. apply andb_true_iff in E as [E1 E2]. apply N.leb_le in E1, E2.
  unfold is_token_char, is_alpha, is_upper, is_lower, is_digit.
  assert (A : (65 <=? c - 32) && (c - 32 <=? 90) = true) by (apply andb_true_iff; split; apply N.leb_le; lia).
  assert (B : (97 <=? c) && (c <=? 122) = true) by (apply andb_true_iff; split; apply N.leb_le; lia).
  rewrite A, B. rewrite orb_true_r. reflexivity.
Qed.

Lemma is_token_char_lowerc c : is_token_char (lowerc c) = is_token_char c.
Proof.
  unfold lowerc. destruct (is_upper c) eqn:E; [|reflexivity].
  unfold is_upper in E. apply andb_true_iff in E as [E1 E2]. apply N.leb_le in E1, E2.
  unfold is_token_char, is_alpha, is_upper, is_lower, is_digit.
  assert (A : (97 <=? c + 32) && (c + 32 <=? 122) = true) by (apply andb_true_iff; split; apply N.leb_le; lia).
  assert (B : (65 <=? c) && (c <=? 90) = true) by (apply andb_true_iff; split; apply N.leb_le; lia).
  rewrite A, B. rewrite orb_true_r. reflexivity.
Qed.

Lemma token_canon_go up s : forallb is_token_char (canon_go up s) = forallb is_token_char s.
Proof.
  revert up. induction s as [|c s IH]; intro up; [reflexivity|].
  cbn [canon_go forallb]. rewrite IH. destruct up; [rewrite is_token_char_upperc | rewrite is_token_char_lowerc]; reflexivity.
Qed.

Lemma canon_idem s : canon (canon s) = canon s.
Proof.
  unfold canon. destruct (forallb is_token_char s) eqn:E.
  - rewrite token_canon_go, E. apply canon_go_idem.
  - rewrite E. reflexivity.
Qed.

(* ---------- deleting a list of names ---------- *)
Lemma mem_spec k l : mem k l = true <-> In k l.
Proof.
  unfold mem. rewrite existsb_exists. split.
  - intros [x [Hin E]]. apply str_eqb_eq in E. subst. exact Hin.
  - intro H. exists k. split; [exact H | apply str_eqb_refl].
Qed.

Lemma raw_get_del_names names : forall h k,
  raw_get k (fold_left (fun h n => h_del n h) names h) =
  if mem k (map canon names) then None else raw_get k h.
Proof.
  induction names as [|n r IH]; intros h k; [reflexivity|].
  cbn [fold_left map mem existsb]. rewrite IH. fold (mem k (map canon r)).
  destruct (mem k (map canon r)) eqn:E; [rewrite orb_true_r; reflexivity|]. rewrite orb_false_r.
  unfold h_del. destruct (str_eqb k (canon n)) eqn:E2.
  - apply str_eqb_eq in E2. subst. apply raw_get_del_same.
  - apply raw_get_del_other. apply str_eqb_neq. exact E2.
Qed.

Lemma raw_get_filter_key (p : str -> bool) h k :
  raw_get k (filter (fun kv => p (fst kv)) h) = if p k then raw_get k h else None.
Proof.
  induction h as [|[k' vs] r IH]; [destruct (p k); reflexivity|].
  cbn [filter fst]. destruct (p k') eqn:E.
  - cbn [raw_get]. destruct (str_eqb k k') eqn:E2.
    + apply str_eqb_eq in E2. subst. rewrite E. reflexivity.
    + exact IH.
  - rewrite IH. cbn [raw_get]. destruct (str_eqb k k') eqn:E2; [|reflexivity].
    apply str_eqb_eq in E2. subst. rewrite E. reflexivity.
Qed.

Lemma map_id_on {A} (f : A -> A) l : (forall x, In x l -> f x = x) -> map f l = l.
Proof.
  induction l as [|a l IH]; intro H; [reflexivity|]. cbn [map]. rewrite H by (left; reflexivity).
  rewrite IH; [reflexivity|]. intros x Hx. apply H. right. exact Hx.
Qed.

(* all nominated names are canonical *)
Lemma nominated_canon h n : In n (nominated h) -> canon n = n.
Proof.
  unfold nominated. rewrite in_flat_map. intros [vs [_ Hin]].
  apply in_map_iff in Hin as [v [<- _]]. apply canon_idem.
Qed.

Section Pipeline.
  (* obligations on the source *)
  Hypothesis Hhop : hop_by_hop_headers = spec_hop_list.

  Lemma removed_names_canon h : map canon (nominated h ++ hop_by_hop_headers) = removed_names h.
  Proof.
    unfold removed_names. rewrite Hhop, map_app. f_equal.
    apply map_id_on. intros n Hin. apply (nominated_canon h). exact Hin.
  Qed.

  (* header.removeHopByHopHeaders computes the documented removal *)
  Lemma hbh_pointwise h k : raw_get k (remove_hop_by_hop h) = if is_removed k h then None else raw_get k h.
  Proof. unfold remove_hop_by_hop. rewrite raw_get_del_names, removed_names_canon. reflexivity. Qed.

  Lemma hbh_is_after_removal h : hequiv (remove_hop_by_hop h) (after_removal h).
  Proof.
    intro k. rewrite hbh_pointwise. unfold after_removal.
    rewrite (raw_get_filter_key (fun k => negb (is_removed k h))). destruct (is_removed k h); reflexivity.
  Qed.
End Pipeline.


(* ---------- the single modifiers, pointwise ---------- *)
Lemma canon_consts :
  canon k_xfp = k_xfp /\ canon k_xfh = k_xfh /\ canon k_xfu = k_xfu /\ canon k_xff = k_xff /\
  canon k_cl = k_cl /\ canon k_ua = k_ua /\ canon k_connection = k_connection /\ canon k_upgrade = k_upgrade.
Proof. repeat split; reflexivity. Qed.

Lemma raw_get_h_set_same k v h : canon k = k -> raw_get k (h_set k v h) = Some [v].
Proof. intro E. unfold h_set. rewrite E. apply raw_get_set_same. Qed.

Lemma raw_get_h_set_other k k' v h : canon k' = k' -> k <> k' -> raw_get k (h_set k' v h) = raw_get k h.
Proof. intros E Hne. unfold h_set. rewrite E. apply raw_get_set_other. exact Hne. Qed.

Lemma h_get_raw k h : canon k = k -> h_get k h = match raw_get k h with Some (v :: _) => v | _ => [] end.
Proof. intro E. unfold h_get, h_values. rewrite E. destruct (raw_get k h) as [[|v vs]|]; reflexivity. Qed.

Lemma h_values_raw k h : canon k = k -> h_values k h = raw_values k h.
Proof. intro E. unfold h_values, raw_values. rewrite E. reflexivity. Qed.

Definition fwd_keys : list str := [k_xfp; k_xfh; k_xfu; k_xff].

(* NewForwardedModifier touches only the four X-Forwarded-* names *)
Lemma forwarded_others fa all r k : mem k fwd_keys = false ->
  raw_get k (q_hdr (forwarded_gen2 fa all r)) = raw_get k (q_hdr r).
Proof.
  intro Hk. unfold forwarded_gen2. destruct (str_eqb (q_method r) m_connect); [reflexivity|].
  cbn [q_hdr set_hdr].
  assert (N : k <> k_xfp /\ k <> k_xfh /\ k <> k_xfu /\ k <> k_xff).
  { unfold mem, fwd_keys in Hk. cbn [existsb] in Hk. repeat (apply orb_false_iff in Hk as [? Hk]).
    repeat split; apply str_eqb_neq; assumption. }
  destruct N as [N1 [N2 [N3 N4]]]. destruct canon_consts as [C1 [C2 [C3 [C4 _]]]].
  rewrite raw_get_h_set_other by assumption.
  destruct (fill_absent fa k_xfu _); [rewrite raw_get_h_set_other by assumption|];
    (destruct (fill_absent fa k_xfh _); [rewrite raw_get_h_set_other by assumption|]);
    (destruct (fill_absent fa k_xfp _); [rewrite raw_get_h_set_other by assumption|]); reflexivity.
Qed.

Lemma forwarded_fields fa all r : q_method (forwarded_gen2 fa all r) = q_method r /\ q_host (forwarded_gen2 fa all r) = q_host r /\
  q_scheme (forwarded_gen2 fa all r) = q_scheme r /\ q_urlstr (forwarded_gen2 fa all r) = q_urlstr r /\
  q_close (forwarded_gen2 fa all r) = q_close r /\ q_maj (forwarded_gen2 fa all r) = q_maj r /\ q_min (forwarded_gen2 fa all r) = q_min r /\
  q_remote (forwarded_gen2 fa all r) = q_remote r.
Proof. unfold forwarded_gen2. destruct (str_eqb (q_method r) m_connect); repeat split; reflexivity. Qed.

(* "filled in when absent, otherwise left alone"; absent as the source tests it (fill_absent) *)
Definition fill_spec (fa : bool) (k computed : str) (h : hmap) : option (list str) :=
  if fill_absent fa k h then Some [computed] else raw_get k h.

Lemma fill_absent_ext fa k h h' : canon k = k -> raw_get k h' = raw_get k h -> fill_absent fa k h' = fill_absent fa k h.
Proof.
  intros C E. unfold fill_absent. rewrite !h_get_raw by exact C. rewrite !h_values_raw by exact C.
  unfold raw_values. rewrite E. reflexivity.
Qed.

Lemma forwarded_fill fa all r : str_eqb (q_method r) m_connect = false ->
  raw_get k_xfp (q_hdr (forwarded_gen2 fa all r)) = fill_spec fa k_xfp (q_scheme r) (q_hdr r) /\
  raw_get k_xfh (q_hdr (forwarded_gen2 fa all r)) = fill_spec fa k_xfh (q_host r) (q_hdr r) /\
  raw_get k_xfu (q_hdr (forwarded_gen2 fa all r)) = fill_spec fa k_xfu (q_urlstr r) (q_hdr r).
Proof.
  intro Hm. unfold forwarded_gen2. rewrite Hm. cbn [q_hdr set_hdr]. unfold fill_spec.
  destruct canon_consts as [C1 [C2 [C3 [C4 _]]]].
  assert (D12 : k_xfp <> k_xfh) by discriminate. assert (D13 : k_xfp <> k_xfu) by discriminate.
  assert (D14 : k_xfp <> k_xff) by discriminate. assert (D23 : k_xfh <> k_xfu) by discriminate.
  assert (D24 : k_xfh <> k_xff) by discriminate. assert (D34 : k_xfu <> k_xff) by discriminate.
  set (h := q_hdr r).
  set (h1 := if fill_absent fa k_xfp h then h_set k_xfp (q_scheme r) h else h).
  set (h2 := if fill_absent fa k_xfh h1 then h_set k_xfh (q_host r) h1 else h1).
  set (h3 := if fill_absent fa k_xfu h2 then h_set k_xfu (q_urlstr r) h2 else h2).
  assert (G1 : raw_get k_xfp h1 = if fill_absent fa k_xfp h then Some [q_scheme r] else raw_get k_xfp h).
  { unfold h1. destruct (fill_absent fa k_xfp h); [apply raw_get_h_set_same; exact C1 | reflexivity]. }
  assert (G2a : raw_get k_xfh h1 = raw_get k_xfh h).
  { unfold h1. destruct (fill_absent fa k_xfp h); [apply raw_get_h_set_other; [exact C1 | congruence] | reflexivity]. }
  assert (G3a : raw_get k_xfu h1 = raw_get k_xfu h).
  { unfold h1. destruct (fill_absent fa k_xfp h); [apply raw_get_h_set_other; [exact C1 | congruence] | reflexivity]. }
  assert (E2 : fill_absent fa k_xfh h1 = fill_absent fa k_xfh h) by (apply fill_absent_ext; assumption).
  assert (G2 : raw_get k_xfh h2 = if fill_absent fa k_xfh h then Some [q_host r] else raw_get k_xfh h).
  { unfold h2. rewrite E2. destruct (fill_absent fa k_xfh h); [apply raw_get_h_set_same; exact C2 | exact G2a]. }
  assert (G1b : raw_get k_xfp h2 = raw_get k_xfp h1).
  { unfold h2. destruct (fill_absent fa k_xfh h1); [apply raw_get_h_set_other; [exact C2 | congruence] | reflexivity]. }
  assert (G3b : raw_get k_xfu h2 = raw_get k_xfu h).
  { unfold h2. destruct (fill_absent fa k_xfh h1); [rewrite raw_get_h_set_other; [exact G3a | exact C2 | congruence] | exact G3a]. }
  assert (E3 : fill_absent fa k_xfu h2 = fill_absent fa k_xfu h) by (apply fill_absent_ext; assumption).
  assert (G3 : raw_get k_xfu h3 = if fill_absent fa k_xfu h then Some [q_urlstr r] else raw_get k_xfu h).
  { unfold h3. rewrite E3. destruct (fill_absent fa k_xfu h); [apply raw_get_h_set_same; exact C3 | exact G3b]. }
  assert (K3 : forall k, k <> k_xfu -> raw_get k h3 = raw_get k h2).
  { intros k Hk. unfold h3. destruct (fill_absent fa k_xfu h2); [apply raw_get_h_set_other; [exact C3 | exact Hk] | reflexivity]. }
  repeat split.
  - rewrite raw_get_h_set_other by (try exact C4; congruence). rewrite K3 by congruence. rewrite G1b. exact G1.
  - rewrite raw_get_h_set_other by (try exact C4; congruence). rewrite K3 by congruence. exact G2.
  - rewrite raw_get_h_set_other by (try exact C4; congruence). exact G3.
Qed.

(* X-Forwarded-For: one field, all received values joined, then the client address *)
Lemma forwarded_xff fa r : str_eqb (q_method r) m_connect = false ->
  let ip := match split_host_port_host (q_remote r) with Some x => x | None => q_remote r end in
  let v := join comma_sp (raw_values k_xff (q_hdr r)) in
  raw_get k_xff (q_hdr (forwarded_gen2 fa true r)) = Some [if is_empty v then ip else v ++ comma_sp ++ ip].
Proof.
  intro Hm. cbn zeta. unfold forwarded_gen2. rewrite Hm. cbn [q_hdr set_hdr].
  destruct canon_consts as [C1 [C2 [C3 [C4 _]]]].
  rewrite raw_get_h_set_same by exact C4. do 2 f_equal.
  unfold xff_read. rewrite h_values_raw by exact C4.
  assert (E : forall h' : hmap, (forall k, k = k_xff -> raw_get k h' = raw_get k (q_hdr r)) ->
              raw_values k_xff h' = raw_values k_xff (q_hdr r)).
  { intros h' H. unfold raw_values. rewrite (H k_xff eq_refl). reflexivity. }
  rewrite E; [reflexivity|]. intros k ->.
  repeat match goal with
  | |- context [if ?c then h_set ?kk ?vv ?hh else ?hh] =>
      let Hc := fresh in destruct c eqn:Hc; [rewrite raw_get_h_set_other by (try assumption; discriminate)|]
  end; reflexivity.
Qed.

(* NewBadFramingModifier touches only Content-Length *)
Lemma framing_others h h' k : bad_framing h = Some h' -> k <> k_cl -> raw_get k h' = raw_get k h.
Proof.
  unfold bad_framing. intros H Hk. destruct canon_consts as [_ [_ [_ [_ [C5 _]]]]].
  set (r1 := match raw_values k_cl h with [] => Some h | _ => _ end) in H.
  assert (R1 : forall h1, r1 = Some h1 -> raw_get k h1 = raw_get k h).
  { unfold r1. intros h1 E. destruct (raw_values k_cl h); [injection E as <-; reflexivity|].
    destruct (cl_scan [] _); [|discriminate]. injection E as <-. apply raw_get_h_set_other; assumption. }
  destruct r1 as [h1|]; [|discriminate]. specialize (R1 h1 eq_refl).
  destruct (raw_values k_te h1).
  - injection H as <-. exact R1.
  - destruct (str_eqb _ _); [|discriminate]. injection H as <-. unfold h_del. rewrite C5.
    rewrite raw_get_del_other by exact Hk. exact R1.
Qed.

(* ViaModifier touches only Via *)
Lemma via_others all tag maj min h h' k : via_modify_gen all tag maj min h = ViaOk h' -> k <> via_key ->
  raw_get k h' = raw_get k h.
Proof.
  unfold via_modify_gen. intros H Hk. destruct (negb _ && _); [discriminate|]. injection H as <-.
  apply raw_get_h_set_other; [reflexivity | exact Hk].
Qed.

Lemma ua_spec h k : raw_get k (set_empty_user_agent h) =
  if str_eqb k k_ua then match raw_get k_ua h with Some vs => Some vs | None => Some [[]] end else raw_get k h.
Proof.
  unfold set_empty_user_agent. destruct (str_eqb k k_ua) eqn:E.
  - apply str_eqb_eq in E. subst. destruct (raw_get k_ua h) eqn:E2; [exact E2|].
    apply raw_get_h_set_same. reflexivity.
  - destruct (raw_get k_ua h); [reflexivity|]. apply raw_get_h_set_other; [reflexivity | apply str_eqb_neq; exact E].
Qed.

(* ---------- the composed stack ---------- *)
Definition fixed_flat_stack : list str :=
  [b "NewHopByHopModifier"; b "NewForwardedModifier"; b "NewBadFramingModifier"; b "NewViaModifier";
   b "user"; b "setBasicAuth"; b "setEmptyUserAgent"].

(* middlewareStack with the source's order, written out *)
Definition pipeline (tag : str) (r : mreq) : outcome :=
  let r1 := set_hdr r (remove_hop_by_hop (q_hdr r)) in
  let r2 := forwarded_gen2 true true r1 in
  match bad_framing (q_hdr r2) with
  | None => Refused 500
  | Some h3 =>
      match via_modify_gen true tag (q_maj r2) (q_min r2) h3 with
      | ViaRefused st _ => Refused (status_of_error_status st)
      | ViaOk h4 => Passed (set_hdr r2 (set_empty_user_agent h4))
      end
  end.

Lemma am_hbh cfg tag r : apply_mod cfg tag (b "NewHopByHopModifier") r = Passed (set_hdr r (remove_hop_by_hop (q_hdr r))).
Proof. reflexivity. Qed.
Lemma am_fwd cfg tag r : apply_mod cfg tag (b "NewForwardedModifier") r = Passed (forwarded_gen2 xfwd_fill_reads_all_lines xff_reads_all_lines r).
Proof. reflexivity. Qed.
Lemma am_frm cfg tag r : apply_mod cfg tag (b "NewBadFramingModifier") r =
  match bad_framing (q_hdr r) with Some h => Passed (set_hdr r h) | None => Refused 500 end.
Proof. reflexivity. Qed.
Lemma am_via cfg tag r : apply_mod cfg tag (b "NewViaModifier") r =
  match via_modify tag (q_maj r) (q_min r) (q_hdr r) with
  | ViaRefused st _ => Refused (status_of_error_status st)
  | ViaOk h => Passed (set_hdr r h)
  end.
Proof. reflexivity. Qed.
Lemma am_user cfg tag r : apply_mod cfg tag (b "user") r = Passed (set_hdr r (user_rules cfg r (q_hdr r))).
Proof. reflexivity. Qed.
Lemma am_auth cfg tag r : apply_mod cfg tag (b "setBasicAuth") r = Passed (set_hdr r (site_auth cfg (q_hdr r))).
Proof. reflexivity. Qed.
Lemma am_ua cfg tag r : apply_mod cfg tag (b "setEmptyUserAgent") r = Passed (set_hdr r (set_empty_user_agent (q_hdr r))).
Proof. reflexivity. Qed.

(* the httpspec part of the stack (hop-by-hop, forwarded, framing, via), written out *)
Definition core_stack (tag : str) (r : mreq) : outcome :=
  let r1 := set_hdr r (remove_hop_by_hop (q_hdr r)) in
  let r2 := forwarded_gen2 true true r1 in
  match bad_framing (q_hdr r2) with
  | None => Refused 500
  | Some h3 =>
      match via_modify_gen true tag (q_maj r2) (q_min r2) h3 with
      | ViaRefused st _ => Refused (status_of_error_status st)
      | ViaOk h4 => Passed (set_hdr r2 h4)
      end
  end.
(* ... followed by the inner group: header rules, site credentials, User-Agent sentinel *)
Definition inner_group (cfg : pcfg) (r : mreq) : mreq :=
  set_hdr r (set_empty_user_agent (site_auth cfg (user_rules cfg r (q_hdr r)))).
Definition pipeline_cfg (cfg : pcfg) (tag : str) (r : mreq) : outcome :=
  match core_stack tag r with Refused s => Refused s | Passed r1 => Passed (inner_group cfg r1) end.

Lemma user_rules_none r h : user_rules no_cfg r h = h.
Proof. unfold user_rules, no_cfg. cbn [p_connect_rules p_request_rules]. destruct (str_eqb (q_method r) m_connect); reflexivity. Qed.
Lemma site_auth_none h : site_auth no_cfg h = h.
Proof. unfold site_auth, no_cfg. cbn [p_cred]. destruct (auth_absent h); reflexivity. Qed.

Lemma pipeline_cfg_none tag r : pipeline_cfg no_cfg tag r = pipeline tag r.
Proof.
  unfold pipeline_cfg, core_stack, pipeline. cbn zeta.
  destruct (bad_framing _) as [h3|]; [|reflexivity].
  destruct (via_modify_gen true tag _ _ h3) as [st cl|h4]; [reflexivity|].
  unfold inner_group. cbn [q_hdr set_hdr]. rewrite user_rules_none, site_auth_none. reflexivity.
Qed.

Section Fixed.
  Hypothesis Hhop : hop_by_hop_headers = spec_hop_list.
  Hypothesis Hflat : flat_stack = fixed_flat_stack.
  Hypothesis Hxff : xff_reads_all_lines = true.
  Hypothesis Hfill : xfwd_fill_reads_all_lines = true.
  Hypothesis Hvia : via_reads_all_lines = true.

  Lemma modify_request_cfg_is_pipeline cfg tag r : modify_request_cfg cfg tag r = pipeline_cfg cfg tag r.
  Proof.
    unfold modify_request_cfg. rewrite Hflat. unfold fixed_flat_stack. cbn [run_mods].
    rewrite am_hbh, am_fwd, Hxff, Hfill. rewrite am_frm. unfold pipeline_cfg, core_stack. cbn zeta.
    destruct (bad_framing _) as [h3|]; [|reflexivity].
    rewrite am_via. unfold via_modify. rewrite Hvia. cbn [q_maj q_min q_hdr set_hdr].
    destruct (via_modify_gen true tag _ _ h3) as [st cl|h4]; [reflexivity|].
    rewrite am_user, am_auth, am_ua. reflexivity.
  Qed.

  Lemma modify_request_is_pipeline tag r : modify_request tag r = pipeline tag r.
  Proof. unfold modify_request. rewrite modify_request_cfg_is_pipeline. apply pipeline_cfg_none. Qed.

  (* what the pipeline leaves under each name, in terms of the header after the documented removal *)
  Lemma pipeline_passed tag r r' : pipeline tag r = Passed r' ->
    exists h3 h4,
      bad_framing (q_hdr (forwarded_gen2 true true (set_hdr r (remove_hop_by_hop (q_hdr r))))) = Some h3 /\
      via_modify_gen true tag (q_maj r) (q_min r) h3 = ViaOk h4 /\
      r' = set_hdr (forwarded_gen2 true true (set_hdr r (remove_hop_by_hop (q_hdr r)))) (set_empty_user_agent h4).
  Proof.
    unfold pipeline. cbn zeta. set (r2 := forwarded_gen2 true true _).
    assert (Em : q_maj r2 = q_maj r /\ q_min r2 = q_min r).
    { destruct (forwarded_fields true true (set_hdr r (remove_hop_by_hop (q_hdr r)))) as [_ [_ [_ [_ [_ [A [B _]]]]]]]. split; assumption. }
    destruct Em as [-> ->].
    destruct (bad_framing (q_hdr r2)) as [h3|]; [|discriminate].
    destruct (via_modify_gen true tag (q_maj r) (q_min r) h3) as [st cl|h4] eqn:E; [discriminate|].
    intro H. injection H as <-. exists h3, h4. repeat split. exact E.
  Qed.

  (* T01_end_to_end_preserved *)
  Lemma end_to_end_preserved tag r r' k :
    modify_request tag r = Passed r' ->
    is_removed k (q_hdr r) = false -> mem k doc_keys = false ->
    raw_get k (q_hdr r') = raw_get k (q_hdr r).
  Proof.
    rewrite modify_request_is_pipeline. intros H Hrem Hdoc.
    destruct (pipeline_passed tag r r' H) as [h3 [h4 [Hf [Hv ->]]]]. cbn [q_hdr set_hdr].
    unfold mem, doc_keys in Hdoc. cbn [existsb] in Hdoc.
    repeat (apply orb_false_iff in Hdoc as [? Hdoc]).
    repeat match goal with X : str_eqb _ _ = false |- _ => apply str_eqb_neq in X end.
    rewrite ua_spec. destruct (str_eqb k k_ua) eqn:E; [apply str_eqb_eq in E; contradiction|].
    rewrite (via_others true tag _ _ h3 h4 k Hv) by assumption.
    rewrite (framing_others _ h3 k Hf) by assumption.
    rewrite forwarded_others.
    - cbn [q_hdr set_hdr]. rewrite (hbh_pointwise Hhop), Hrem. reflexivity.
    - unfold mem, fwd_keys. cbn [existsb].
      repeat match goal with X : k <> _ |- _ => apply str_eqb_neq in X; rewrite ?X; clear X end. reflexivity.
  Qed.

  (* T01_hop_by_hop_removed *)
  Lemma hop_by_hop_removed tag r r' k :
    modify_request tag r = Passed r' ->
    is_removed k (q_hdr r) = true -> mem k doc_keys = false ->
    raw_get k (q_hdr r') = None.
  Proof.
    rewrite modify_request_is_pipeline. intros H Hrem Hdoc.
    destruct (pipeline_passed tag r r' H) as [h3 [h4 [Hf [Hv ->]]]]. cbn [q_hdr set_hdr].
    unfold mem, doc_keys in Hdoc. cbn [existsb] in Hdoc.
    repeat (apply orb_false_iff in Hdoc as [? Hdoc]).
    repeat match goal with X : str_eqb _ _ = false |- _ => apply str_eqb_neq in X end.
    rewrite ua_spec. destruct (str_eqb k k_ua) eqn:E; [apply str_eqb_eq in E; contradiction|].
    rewrite (via_others true tag _ _ h3 h4 k Hv) by assumption.
    rewrite (framing_others _ h3 k Hf) by assumption.
    rewrite forwarded_others.
    - cbn [q_hdr set_hdr]. rewrite (hbh_pointwise Hhop), Hrem. reflexivity.
    - unfold mem, fwd_keys. cbn [existsb].
      repeat match goal with X : k <> _ |- _ => apply str_eqb_neq in X; rewrite ?X; clear X end. reflexivity.
  Qed.

  (* method, host, URL, scheme, version and the close flag are not touched *)
  Lemma identity_fields tag r r' : modify_request tag r = Passed r' ->
    q_method r' = q_method r /\ q_host r' = q_host r /\ q_urlstr r' = q_urlstr r /\ q_scheme r' = q_scheme r /\
    q_maj r' = q_maj r /\ q_min r' = q_min r /\ q_close r' = q_close r.
  Proof.
    rewrite modify_request_is_pipeline. intro H.
    destruct (pipeline_passed tag r r' H) as [h3 [h4 [_ [_ ->]]]].
    destruct (forwarded_fields true true (set_hdr r (remove_hop_by_hop (q_hdr r)))) as [A [B [C [D [E [F [G _]]]]]]].
    cbn [q_method q_host q_urlstr q_scheme q_maj q_min q_close set_hdr] in *. repeat split; assumption.
  Qed.

  (* T01_no_user_agent_invented: the key is always present after the stack (so net/http's default is never used),
     with the client's values, or the empty value when the client sent none *)
  Lemma user_agent tag r r' : modify_request tag r = Passed r' ->
    raw_get k_ua (q_hdr r') =
      match raw_get k_ua (after_removal (q_hdr r)) with Some vs => Some vs | None => Some [[]] end.
  Proof.
    rewrite modify_request_is_pipeline. intro H.
    destruct (pipeline_passed tag r r' H) as [h3 [h4 [Hf [Hv ->]]]]. cbn [q_hdr set_hdr].
    rewrite ua_spec, str_eqb_refl.
    rewrite (via_others true tag _ _ h3 h4 k_ua Hv) by discriminate.
    rewrite (framing_others _ h3 k_ua Hf) by discriminate.
    rewrite forwarded_others by reflexivity. cbn [q_hdr set_hdr].
    rewrite (hbh_is_after_removal Hhop). reflexivity.
  Qed.

  (* T01_forwarded_filled_only_when_absent *)
  Lemma forwarded_filled tag r r' : modify_request tag r = Passed r' ->
    str_eqb (q_method r) m_connect = false ->
    let h0 := after_removal (q_hdr r) in
    raw_get k_xfp (q_hdr r') = (if is_empty (concat (raw_values k_xfp h0)) then Some [q_scheme r] else raw_get k_xfp h0) /\
    raw_get k_xfh (q_hdr r') = (if is_empty (concat (raw_values k_xfh h0)) then Some [q_host r] else raw_get k_xfh h0) /\
    raw_get k_xfu (q_hdr r') = (if is_empty (concat (raw_values k_xfu h0)) then Some [q_urlstr r] else raw_get k_xfu h0).
  Proof.
    rewrite modify_request_is_pipeline. intros H Hm. cbn zeta.
    destruct (pipeline_passed tag r r' H) as [h3 [h4 [Hf [Hv ->]]]]. cbn [q_hdr set_hdr].
    destruct (forwarded_fill true true (set_hdr r (remove_hop_by_hop (q_hdr r))) Hm) as [A [B C]].
    cbn [q_hdr q_scheme q_host q_urlstr set_hdr] in A, B, C.
    destruct canon_consts as [C1 [C2 [C3 _]]].
    assert (FS : forall k c, canon k = k -> fill_spec true k c (remove_hop_by_hop (q_hdr r)) =
                 if is_empty (concat (raw_values k (after_removal (q_hdr r)))) then Some [c]
                 else raw_get k (after_removal (q_hdr r))).
    { intros k c Ck. unfold fill_spec, fill_absent. rewrite h_values_raw by exact Ck. unfold raw_values.
      rewrite (hbh_is_after_removal Hhop). reflexivity. }
    repeat split.
    - rewrite ua_spec. change (str_eqb k_xfp k_ua) with false. cbv iota.
      rewrite (via_others true tag _ _ h3 h4 k_xfp Hv) by discriminate.
      rewrite (framing_others _ h3 k_xfp Hf) by discriminate. rewrite A. apply FS. exact C1.
    - rewrite ua_spec. change (str_eqb k_xfh k_ua) with false. cbv iota.
      rewrite (via_others true tag _ _ h3 h4 k_xfh Hv) by discriminate.
      rewrite (framing_others _ h3 k_xfh Hf) by discriminate. rewrite B. apply FS. exact C2.
    - rewrite ua_spec. change (str_eqb k_xfu k_ua) with false. cbv iota.
      rewrite (via_others true tag _ _ h3 h4 k_xfu Hv) by discriminate.
      rewrite (framing_others _ h3 k_xfu Hf) by discriminate. rewrite C. apply FS. exact C3.
  Qed.
End Fixed.

(* ---------- Via and X-Forwarded-For are appended ---------- *)
Lemma token_single s : tag_ok s = true -> items_ne s = [s].
Proof.
  intro Ht. destruct (tag_ok_facts s Ht) as [Hne [H44 [_ Hows]]].
  unfold items_ne, items. rewrite split_byte_none by exact H44. cbn [map].
  assert (E : trim_ows s = s).
  { unfold trim_ows. destruct s as [|c s]; [contradiction|].
    rewrite (drop_ows_hd (c :: s)) by (apply Hows; left; reflexivity).
    rewrite drop_ows_hd; [apply rev_involutive|].
    destruct (rev (c :: s)) as [|k rt] eqn:E.
    - exfalso. apply (f_equal (@length N)) in E. rewrite rev_length in E. discriminate.
    - apply Hows. apply in_rev. rewrite E. left. reflexivity. }
  rewrite E. destruct s; [contradiction|]. reflexivity.
Qed.

Lemma chain_single x : chain [x] = items_ne x.
Proof. unfold chain. cbn [flat_map]. apply app_nil_r. Qed.

Lemma chain_joined_plus lines e : tag_ok e = true ->
  chain [if is_empty (join comma_sp lines) then e else join comma_sp lines ++ comma_sp ++ e] = chain lines ++ [e].
Proof.
  intro He. rewrite chain_single. rewrite <- (items_ne_join lines).
  destruct (join comma_sp lines) as [|c j] eqn:E.
  - cbn [is_empty]. rewrite items_ne_nil. cbn [app]. apply token_single. exact He.
  - cbn [is_empty]. unfold comma_sp at 1. cbn [app].
    change (c :: j ++ 44 :: 32 :: e) with ((c :: j) ++ 44 :: (32 :: e)).
    rewrite items_ne_sep, items_ne_sp, (token_single e He). reflexivity.
Qed.

Section Fixed2.
  Hypothesis Hhop : hop_by_hop_headers = spec_hop_list.
  Hypothesis Hflat : flat_stack = fixed_flat_stack.
  Hypothesis Hxff : xff_reads_all_lines = true.
  Hypothesis Hfill : xfwd_fill_reads_all_lines = true.
  Hypothesis Hvia : via_reads_all_lines = true.
  Hypothesis Hst : via_loop_status = 400.
  Hypothesis Hcl : via_sets_close = true.
  Hypothesis Hsep : via_join_sep = comma_sp.
  Hypothesis Hproto : proto_table_ok = true.

  Lemma values_through tag r h3 h4 k :
    bad_framing (q_hdr (forwarded_gen2 true true (set_hdr r (remove_hop_by_hop (q_hdr r))))) = Some h3 ->
    via_modify_gen true tag (q_maj r) (q_min r) h3 = ViaOk h4 ->
    mem k fwd_keys = false -> k <> k_cl ->
    raw_get k h3 = raw_get k (after_removal (q_hdr r)).
  Proof.
    intros Hf Hv Hk Hc. rewrite (framing_others _ h3 k Hf) by exact Hc.
    rewrite forwarded_others by exact Hk. cbn [q_hdr set_hdr]. apply (hbh_is_after_removal Hhop).
  Qed.

  Lemma via_xff_appended tag r r' :
    tag_ok tag = true -> q_maj r < 10 -> q_min r < 10 -> modify_request tag r = Passed r' ->
    let h0 := after_removal (q_hdr r) in
    chain (raw_values via_key (q_hdr r')) = chain (raw_values via_key h0) ++ [elem tag (q_maj r) (q_min r)] /\
    own_elem tag (raw_values via_key h0) = false /\
    (str_eqb (q_method r) m_connect = false -> tag_ok (client_ip r) = true ->
       chain (raw_values k_xff (q_hdr r')) = chain (raw_values k_xff h0) ++ [client_ip r]).
  Proof.
    intros Ht Hm Hn H. rewrite (modify_request_is_pipeline Hflat Hxff Hfill Hvia) in H. cbn zeta.
    destruct (pipeline_passed tag r r' H) as [h3 [h4 [Hf [Hv ->]]]]. cbn [q_hdr set_hdr].
    destruct (proto_table (q_maj r) (q_min r) Hproto Hm Hn) as [Hpe Hp]. rewrite <- Hpe in Hp.
    destruct (appends_after_existing 400 true Hst Hcl Hsep tag (q_maj r) (q_min r) h3 h4 Ht Hp Hv)
      as [v [Hv1 [Hch [_ Hown]]]].
    assert (V3 : h_values via_key h3 = raw_values via_key (after_removal (q_hdr r))).
    { rewrite h_values_raw by reflexivity. unfold raw_values.
      rewrite (values_through tag r h3 h4 via_key Hf Hv) by (try reflexivity; discriminate). reflexivity. }
    assert (VO : forall k, k <> k_ua -> raw_values k (set_empty_user_agent h4) = raw_values k h4).
    { intros k Hk. unfold raw_values. rewrite ua_spec. apply str_eqb_neq in Hk. rewrite Hk. reflexivity. }
    split; [|split].
    - rewrite VO by discriminate. rewrite <- (h_values_raw via_key h4) by reflexivity.
      rewrite Hv1, Hch, V3. unfold elem. rewrite Hpe. reflexivity.
    - rewrite <- V3. exact Hown.
    - intros Hmc Hip. rewrite VO by discriminate.
      assert (X4 : raw_get k_xff h4 = raw_get k_xff (q_hdr (forwarded_gen2 true true (set_hdr r (remove_hop_by_hop (q_hdr r)))))).
      { rewrite (via_others true tag _ _ h3 h4 k_xff Hv) by discriminate.
        apply (framing_others _ h3 k_xff Hf). discriminate. }
      pose proof (forwarded_xff true (set_hdr r (remove_hop_by_hop (q_hdr r))) Hmc) as X. cbn zeta in X.
      cbn [q_hdr q_remote set_hdr] in X. rewrite <- X4 in X.
      unfold raw_values at 1. rewrite X. unfold client_ip.
      assert (RV : raw_values k_xff (remove_hop_by_hop (q_hdr r)) = raw_values k_xff (after_removal (q_hdr r))).
      { unfold raw_values. rewrite (hbh_is_after_removal Hhop). reflexivity. }
      rewrite RV. apply chain_joined_plus. exact Hip.
  Qed.
End Fixed2.

(* ---------- proxyConn.handle: scheme fix-up, upgrade detection, stack, re-add ---------- *)
Definition fixed_handle_order : list str :=
  [b "fixRequestScheme"; b "mitmHttps"; b "upgradeType"; b "modifyRequest"; b "readdUpgrade"; b "roundTrip"].

Lemma fix_scheme_hdr a r : q_hdr (fix_request_scheme a r) = q_hdr r.
Proof.
  unfold fix_request_scheme.
  repeat match goal with |- context [if ?c then _ else _] => destruct c end; reflexivity.
Qed.

(* the request as the modifier stack sees it: scheme settled, header untouched *)
Definition prep (r : mreq) : mreq := mitm_https (fix_request_scheme proxy_allow_http r).
Lemma prep_hdr r : q_hdr (prep r) = q_hdr r.
Proof. unfold prep, mitm_https. destruct (q_tls _); [cbn [q_hdr set_scheme]|]; apply fix_scheme_hdr. Qed.

Definition handle_explicit_cfg (cfg : pcfg) (tag : str) (r : mreq) : outcome :=
  let up := upgrade_type (q_hdr r) in
  match modify_request_cfg cfg tag (prep r) with
  | Refused s => Refused s
  | Passed r' => Passed (if is_empty up then r'
                         else set_hdr r' (h_set k_upgrade up (h_set k_connection k_upgrade (q_hdr r'))))
  end.
Definition handle_explicit (tag : str) (r : mreq) : outcome := handle_explicit_cfg no_cfg tag r.

Lemma hs_fix cfg tag r up : handle_step cfg tag (b "fixRequestScheme") (r, up) = (Passed (fix_request_scheme proxy_allow_http r), up).
Proof. reflexivity. Qed.
Lemma hs_mitm cfg tag r up : handle_step cfg tag (b "mitmHttps") (r, up) = (Passed (mitm_https r), up).
Proof. reflexivity. Qed.
Lemma hs_up cfg tag r up : handle_step cfg tag (b "upgradeType") (r, up) = (Passed r, upgrade_type (q_hdr r)).
Proof. reflexivity. Qed.
Lemma hs_mod cfg tag r up : handle_step cfg tag (b "modifyRequest") (r, up) = (modify_request_cfg cfg tag r, up).
Proof. reflexivity. Qed.
Lemma hs_readd cfg tag r up : handle_step cfg tag (b "readdUpgrade") (r, up) =
  (Passed (if is_empty up then r else set_hdr r (h_set k_upgrade up (h_set k_connection k_upgrade (q_hdr r)))), up).
Proof. reflexivity. Qed.
Lemma hs_rt cfg tag r up : handle_step cfg tag (b "roundTrip") (r, up) = (Passed r, up).
Proof. reflexivity. Qed.

Lemma handle_request_cfg_explicit cfg tag r : handle_order = fixed_handle_order -> handle_request_cfg cfg tag r = handle_explicit_cfg cfg tag r.
Proof.
  intro Ho. unfold handle_request_cfg, handle_explicit_cfg. rewrite Ho. unfold fixed_handle_order.
  cbn [run_handle]. rewrite hs_fix. cbv beta iota. rewrite hs_mitm. cbv beta iota. rewrite hs_up. cbv beta iota.
  fold (prep r). rewrite prep_hdr.
  rewrite hs_mod. destruct (modify_request_cfg cfg tag (prep r)) as [s|r']; [reflexivity|].
  cbv beta iota. rewrite hs_readd. cbv beta iota. rewrite hs_rt. cbv beta iota. reflexivity.
Qed.

Lemma handle_request_explicit tag r : handle_order = fixed_handle_order -> handle_request tag r = handle_explicit tag r.
Proof. apply handle_request_cfg_explicit. Qed.

(* T01 body framing at the modelled Transport layer: the framing kind the next hop sees is the client's
   (an empty Content-Length body counts as no body) *)
Lemma body_framing x t r o : transport_out x t r = Some o -> xi_framing x <= 2 ->
  xo_framing o = norm_framing (xi_framing x) (xi_blen x).
Proof.
  unfold transport_out. destruct (escaped_path (t_path t)); [|discriminate]. intros H Hle. injection H as <-.
  cbn [xo_framing]. unfold norm_framing.
  destruct (xi_framing x =? 2) eqn:E2.
  - apply N.eqb_eq in E2. rewrite E2. reflexivity.
  - destruct (xi_framing x =? 1) eqn:E1.
    + apply N.eqb_eq in E1. rewrite E1. cbn [andb]. destruct (xi_blen x =? 0); reflexivity.
    + cbn [andb]. apply N.eqb_neq in E1, E2. lia.
Qed.

(* the k-th request on a connection is treated like the first: the pipeline is a function of the request alone *)
Lemma keepalive_stateless tag (before after : list mreq) r :
  nth_error (map (handle_request tag) (before ++ r :: after)) (length before) = Some (handle_request tag r).
Proof.
  rewrite map_app. rewrite nth_error_app2; rewrite map_length; [|apply le_n].
  rewrite Nat.sub_diag. reflexivity.
Qed.

Lemma is_removed_listed k h : mem k spec_hop_list = true -> is_removed k h = true.
Proof. intro H. unfold is_removed, removed_names, mem. rewrite existsb_app. fold (mem k spec_hop_list). rewrite H. apply orb_true_r. Qed.

Section Fixed3.
  Hypothesis Hhop : hop_by_hop_headers = spec_hop_list.
  Hypothesis Hflat : flat_stack = fixed_flat_stack.
  Hypothesis Hxff : xff_reads_all_lines = true.
  Hypothesis Hfill : xfwd_fill_reads_all_lines = true.
  Hypothesis Hvia : via_reads_all_lines = true.
  Hypothesis Horder : handle_order = fixed_handle_order.

  (* T01_hop_by_hop_removed, Upgrade clause: Connection / Upgrade reach the next hop only when an upgrade
     was requested, and then exactly as "Connection: Upgrade" + "Upgrade: <type>"; every other name is as the
     modifier stack left it *)
  Lemma upgrade_readded tag r r' : handle_request tag r = Passed r' ->
    exists r1, modify_request tag (prep r) = Passed r1 /\
    let up := upgrade_type (q_hdr r) in
    (is_empty up = false -> raw_get k_connection (q_hdr r') = Some [k_upgrade] /\ raw_get k_upgrade (q_hdr r') = Some [up]) /\
    (is_empty up = true -> raw_get k_connection (q_hdr r') = None /\ raw_get k_upgrade (q_hdr r') = None) /\
    (forall k, k <> k_connection -> k <> k_upgrade -> raw_get k (q_hdr r') = raw_get k (q_hdr r1)).
  Proof.
    rewrite (handle_request_explicit tag r Horder). unfold handle_explicit, handle_explicit_cfg. cbn zeta.
    fold (modify_request tag (prep r)).
    destruct (modify_request tag (prep r)) as [s|r1] eqn:E; [discriminate|].
    intro H. injection H as <-. exists r1. split; [reflexivity|].
    destruct (is_empty (upgrade_type (q_hdr r))) eqn:Eu.
    - split; [discriminate|]. split; [|reflexivity]. intros _.
      split.
      * apply (hop_by_hop_removed Hhop Hflat Hxff Hfill Hvia tag _ r1 k_connection E); [|reflexivity].
        apply is_removed_listed. reflexivity.
      * apply (hop_by_hop_removed Hhop Hflat Hxff Hfill Hvia tag _ r1 k_upgrade E); [|reflexivity].
        apply is_removed_listed. reflexivity.
    - split; [|split; [discriminate|]].
      + intros _. cbn [q_hdr set_hdr]. split.
        * rewrite raw_get_h_set_other by (try reflexivity; discriminate). apply raw_get_h_set_same. reflexivity.
        * apply raw_get_h_set_same. reflexivity.
      + intros k H1 H2. cbn [q_hdr set_hdr].
        rewrite raw_get_h_set_other by (try reflexivity; assumption).
        apply raw_get_h_set_other; [reflexivity | assumption].
  Qed.
End Fixed3.

(* ---------- the Content-Length clause and the refusal clause ---------- *)
Lemma cl_scan_sound toks : forall len len', cl_scan len toks = Some len' ->
  (is_empty len = false -> len' = len /\ forall t, In t toks -> trim_space t = len) /\
  (is_empty len = true -> forall t, In t toks -> is_empty (trim_space t) = true \/ trim_space t = len').
Proof.
  induction toks as [|t r IH]; intros len len' H.
  - cbn in H. injection H as <-. split; [intros _; split; [reflexivity | intros ? []] | intros _ ? []].
  - cbn [cl_scan] in H. destruct (is_empty len) eqn:E.
    + split; [discriminate|]. intros _ t' [<-|Hin].
      * destruct (IH _ _ H) as [A B]. destruct (is_empty (trim_space t)) eqn:E2; [left; reflexivity|].
        right. destruct (A eq_refl) as [-> _]. reflexivity.
      * destruct (IH _ _ H) as [A B]. destruct (is_empty (trim_space t)) eqn:E2.
        -- apply (B eq_refl). exact Hin.
        -- right. destruct (A eq_refl) as [-> A2]. apply A2. exact Hin.
    + destruct (str_eqb len (trim_space t)) eqn:E2; [|discriminate].
      apply str_eqb_eq in E2. destruct (IH _ _ H) as [A _]. destruct (A E) as [-> A2].
      split; [|discriminate]. intros _. split; [reflexivity|]. intros t' [<-|Hin]; [symmetry; exact E2 | apply A2; exact Hin].
Qed.

Lemma cl_ok_of_scan toks v : cl_scan [] toks = Some v ->
  forallb (fun t => is_empty (trim_space t) || str_eqb (trim_space t) v) toks = true.
Proof.
  intro H. destruct (cl_scan_sound toks [] v H) as [_ B]. apply forallb_forall. intros t Hin.
  destruct (B eq_refl t Hin) as [E|E]; [rewrite E; reflexivity|]. rewrite E, str_eqb_refl. apply orb_true_r.
Qed.

Section Master.
  Hypothesis Hhop : hop_by_hop_headers = spec_hop_list.
  Hypothesis Hflat : flat_stack = fixed_flat_stack.
  Hypothesis Hxff : xff_reads_all_lines = true.
  Hypothesis Hfill : xfwd_fill_reads_all_lines = true.
  Hypothesis Hvia : via_reads_all_lines = true.
  Hypothesis Hst : via_loop_status = 400.
  Hypothesis Hcl : via_sets_close = true.
  Hypothesis Hsep : via_join_sep = comma_sp.
  Hypothesis Hproto : proto_table_ok = true.
  Hypothesis Hstatus : status_of_error_status via_loop_status = 400.

  Let r2_of (r : mreq) := forwarded_gen2 true true (set_hdr r (remove_hop_by_hop (q_hdr r))).

  (* names the forwarded modifier does not touch in this request *)
  Lemma r2_get r k : (mem k fwd_keys = false \/ str_eqb (q_method r) m_connect = true) ->
    raw_get k (q_hdr (r2_of r)) = raw_get k (after_removal (q_hdr r)).
  Proof.
    intros [Hk|Hm]; unfold r2_of.
    - rewrite forwarded_others by exact Hk. cbn [q_hdr set_hdr]. apply (hbh_is_after_removal Hhop).
    - unfold forwarded_gen2. cbn [q_method set_hdr]. rewrite Hm. cbn [q_hdr set_hdr]. apply (hbh_is_after_removal Hhop).
  Qed.

  Lemma after_removal_get h k : raw_get k (after_removal h) = if is_removed k h then None else raw_get k h.
  Proof.
    unfold after_removal. rewrite (raw_get_filter_key (fun k => negb (is_removed k h))). destruct (is_removed k h); reflexivity.
  Qed.

  Lemma te_gone r : raw_values k_te (q_hdr (r2_of r)) = [].
  Proof.
    unfold raw_values. rewrite r2_get by (left; reflexivity). rewrite after_removal_get.
    rewrite is_removed_listed by reflexivity. reflexivity.
  Qed.

  (* bad framing, given that Transfer-Encoding is already gone *)
  Lemma framing_cases h : raw_values k_te h = [] ->
    match raw_values k_cl h with
    | [] => bad_framing h = Some h
    | vs => match cl_scan [] (flat_map (split_byte 44) vs) with
            | Some len => bad_framing h = Some (h_set k_cl len h)
            | None => bad_framing h = None
            end
    end.
  Proof.
    intro Hte. unfold bad_framing. destruct (raw_values k_cl h) as [|v vs] eqn:E.
    - rewrite Hte. reflexivity.
    - destruct (cl_scan [] _) as [len|]; [|reflexivity].
      assert (T : raw_values k_te (h_set k_cl len h) = []).
      { unfold raw_values. rewrite raw_get_h_set_other by (try reflexivity; discriminate). exact Hte. }
      rewrite T. reflexivity.
  Qed.

  Definition result_of (o : outcome) : sres :=
    match o with Refused st => SRefused st | Passed r => SPassed (q_close r) (q_hdr r) end.

  Lemma pipeline_refused tag r st : tag_ok tag = true -> pipeline tag r = Refused st ->
    (own_sub tag (raw_values via_key (after_removal (q_hdr r))) = true /\ st = 400) \/
    (framing_contradictory (after_removal (q_hdr r)) = true /\ st = 500).
  Proof.
    intros Ht. unfold pipeline. cbn zeta. fold (r2_of r).
    pose proof (framing_cases (q_hdr (r2_of r)) (te_gone r)) as FC.
    assert (CL : raw_values k_cl (q_hdr (r2_of r)) = raw_values k_cl (after_removal (q_hdr r))).
    { unfold raw_values. rewrite r2_get by (left; reflexivity). reflexivity. }
    rewrite CL in FC. unfold framing_contradictory.
    destruct (raw_values k_cl (after_removal (q_hdr r))) as [|v vs] eqn:E.
    - rewrite FC.
      destruct (via_modify_gen true tag _ _ (q_hdr (r2_of r))) as [s c|h4] eqn:Ev; [|discriminate].
      intro H. injection H as <-. left.
      apply (refused_only_own 400 true Hst Hcl Hsep) in Ev as [Ho [-> _]]; [|exact Ht].
      rewrite h_values_raw in Ho by reflexivity. unfold raw_values in Ho |- *.
      rewrite r2_get in Ho by (left; reflexivity). split; [exact Ho|]. rewrite <- Hst. exact Hstatus.
    - destruct (cl_scan [] (flat_map (split_byte 44) (v :: vs))) as [len|] eqn:Es.
      + rewrite FC.
        destruct (via_modify_gen true tag _ _ (h_set k_cl len (q_hdr (r2_of r)))) as [s c|h4] eqn:Ev; [|discriminate].
        intro H. injection H as <-. left.
        apply (refused_only_own 400 true Hst Hcl Hsep) in Ev as [Ho [-> _]]; [|exact Ht].
        rewrite h_values_raw in Ho by reflexivity. unfold raw_values in Ho |- *.
        rewrite raw_get_h_set_other in Ho by (try reflexivity; discriminate).
        rewrite r2_get in Ho by (left; reflexivity). split; [exact Ho|]. rewrite <- Hst. exact Hstatus.
      + rewrite FC. intro H. injection H as <-. right. split; reflexivity.
  Qed.
End Master.

(* ---------- the stack satisfies the property predicate, for every request ---------- *)
Lemma some_nonempty_concat vs : some_nonempty vs = negb (is_empty (concat vs)).
Proof.
  induction vs as [|v r IH]; [reflexivity|]. cbn [some_nonempty existsb concat].
  destruct v as [|c v]; cbn [is_empty negb orb app]; [exact IH | reflexivity].
Qed.

Lemma fill_ok_of c recv :
  fill_ok c recv (if is_empty (concat (match recv with Some vs => vs | None => [] end)) then Some [c] else recv) = true.
Proof.
  destruct recv as [vs|]; cbn [fill_ok].
  - rewrite some_nonempty_concat. destruct (is_empty (concat vs)); cbn [negb].
    + apply orb_true_iff. left. apply opt_vals_eqb_eq. reflexivity.
    + apply opt_vals_eqb_eq. reflexivity.
  - cbn [concat is_empty]. apply opt_vals_eqb_eq. reflexivity.
Qed.

Section Master2.
  Hypothesis Hhop : hop_by_hop_headers = spec_hop_list.
  Hypothesis Hflat : flat_stack = fixed_flat_stack.
  Hypothesis Hxff : xff_reads_all_lines = true.
  Hypothesis Hfill : xfwd_fill_reads_all_lines = true.
  Hypothesis Hvia : via_reads_all_lines = true.
  Hypothesis Hst : via_loop_status = 400.
  Hypothesis Hcl : via_sets_close = true.
  Hypothesis Hsep : via_join_sep = comma_sp.
  Hypothesis Hproto : proto_table_ok = true.
  Hypothesis Hstatus : status_of_error_status via_loop_status = 400.

  Let MP := modify_request_is_pipeline Hflat Hxff Hfill Hvia.

  Lemma key_ok_all tag r r' k :
    tag_ok tag = true -> q_maj r < 10 -> q_min r < 10 ->
    (str_eqb (q_method r) m_connect = true \/ tag_ok (client_ip r) = true) ->
    modify_request tag r = Passed r' -> key_ok tag r (q_hdr r') k = true.
  Proof.
    intros Ht Hm Hn Hip H.
    destruct (via_xff_appended Hhop Hflat Hxff Hfill Hvia Hst Hcl Hsep Hproto tag r r' Ht Hm Hn H) as [V1 [V2 V3]].
    pose proof (user_agent Hhop Hflat Hxff Hfill Hvia tag r r' H) as UA.
    pose proof H as Hp. rewrite MP in Hp.
    destruct (pipeline_passed tag r r' Hp) as [h3 [h4 [Hf [Hv Er]]]].
    assert (OUT : forall k, k <> k_ua -> k <> via_key -> raw_get k (q_hdr r') = raw_get k h3).
    { intros k0 A B. rewrite Er. cbn [q_hdr set_hdr]. rewrite ua_spec. apply str_eqb_neq in A. rewrite A.
      apply (via_others true tag _ _ h3 h4 k0 Hv). exact B. }
    unfold key_ok. cbv zeta.
    destruct (str_eqb k via_key) eqn:E1.
    { apply str_eqb_eq in E1. subst k. rewrite V2. cbn [negb andb]. apply list_str_eqb_eq. exact V1. }
    apply str_eqb_neq in E1.
    destruct (str_eqb (q_method r) m_connect) eqn:Hc; cbn [negb andb]; rewrite ?andb_false_r, ?andb_true_r.
    - (* CONNECT: the forwarded modifier does nothing *)
      destruct (str_eqb k k_ua) eqn:E6.
      { apply str_eqb_eq in E6. subst k. rewrite UA. destruct (raw_get k_ua (after_removal (q_hdr r))) as [vs|].
        - apply opt_vals_eqb_eq. reflexivity.
        - apply orb_true_iff. right. apply opt_vals_eqb_eq. reflexivity. }
      apply str_eqb_neq in E6.
      destruct (str_eqb k k_cl) eqn:E7.
      { apply str_eqb_eq in E7. subst k. rewrite (OUT k_cl) by assumption.
        pose proof (framing_cases _ (te_gone Hhop r)) as FC.
        assert (CLv : raw_get k_cl (q_hdr (forwarded_gen2 true true (set_hdr r (remove_hop_by_hop (q_hdr r))))) =
                      raw_get k_cl (after_removal (q_hdr r))) by (apply (r2_get Hhop); left; reflexivity).
        unfold raw_values in FC. rewrite CLv in FC.
        destruct (raw_get k_cl (after_removal (q_hdr r))) as [[|v vs]|] eqn:E.
        - rewrite FC in Hf. injection Hf as <-. rewrite CLv. apply opt_vals_eqb_eq. reflexivity.
        - destruct (cl_scan [] (flat_map (split_byte 44) (v :: vs))) as [len|] eqn:Es.
          + rewrite FC in Hf. injection Hf as <-. rewrite raw_get_h_set_same by reflexivity.
            apply cl_ok_of_scan. exact Es.
          + rewrite FC in Hf. discriminate.
        - rewrite FC in Hf. injection Hf as <-. rewrite CLv. apply opt_vals_eqb_eq. reflexivity. }
      apply str_eqb_neq in E7.
      rewrite (OUT k) by assumption. rewrite (framing_others _ h3 k Hf) by assumption.
      rewrite (r2_get Hhop) by (right; exact Hc). rewrite (after_removal_get).
      destruct (is_removed k (q_hdr r)); apply opt_vals_eqb_eq; reflexivity.
    - destruct Hip as [Hip|Hip]; [congruence|].
      destruct (str_eqb k k_xff) eqn:E2.
      { apply str_eqb_eq in E2. subst k. apply list_str_eqb_eq. apply V3; [reflexivity | exact Hip]. }
      apply str_eqb_neq in E2.
      destruct (forwarded_filled Hhop Hflat Hxff Hfill Hvia tag r r' H Hc) as [F1 [F2 F3]].
      destruct (str_eqb k k_xfp) eqn:E3.
      { apply str_eqb_eq in E3. subst k. rewrite F1. unfold raw_values. apply fill_ok_of. }
      apply str_eqb_neq in E3.
      destruct (str_eqb k k_xfh) eqn:E4.
      { apply str_eqb_eq in E4. subst k. rewrite F2. unfold raw_values. apply fill_ok_of. }
      apply str_eqb_neq in E4.
      destruct (str_eqb k k_xfu) eqn:E5.
      { apply str_eqb_eq in E5. subst k. rewrite F3. unfold raw_values. apply fill_ok_of. }
      apply str_eqb_neq in E5.
      destruct (str_eqb k k_ua) eqn:E6.
      { apply str_eqb_eq in E6. subst k. rewrite UA. destruct (raw_get k_ua (after_removal (q_hdr r))) as [vs|].
        - apply opt_vals_eqb_eq. reflexivity.
        - apply orb_true_iff. right. apply opt_vals_eqb_eq. reflexivity. }
      apply str_eqb_neq in E6.
      assert (NF : mem k fwd_keys = false).
      { unfold mem, fwd_keys. cbn [existsb].
        repeat match goal with X : k <> _ |- _ => apply str_eqb_neq in X; rewrite ?X end. reflexivity. }
      destruct (str_eqb k k_cl) eqn:E7.
      { apply str_eqb_eq in E7. subst k. rewrite (OUT k_cl) by assumption.
        pose proof (framing_cases _ (te_gone Hhop r)) as FC.
        assert (CLv : raw_get k_cl (q_hdr (forwarded_gen2 true true (set_hdr r (remove_hop_by_hop (q_hdr r))))) =
                      raw_get k_cl (after_removal (q_hdr r))) by (apply (r2_get Hhop); left; reflexivity).
        unfold raw_values in FC. rewrite CLv in FC.
        destruct (raw_get k_cl (after_removal (q_hdr r))) as [[|v vs]|] eqn:E.
        - rewrite FC in Hf. injection Hf as <-. rewrite CLv. apply opt_vals_eqb_eq. reflexivity.
        - destruct (cl_scan [] (flat_map (split_byte 44) (v :: vs))) as [len|] eqn:Es.
          + rewrite FC in Hf. injection Hf as <-. rewrite raw_get_h_set_same by reflexivity.
            apply cl_ok_of_scan. exact Es.
          + rewrite FC in Hf. discriminate.
        - rewrite FC in Hf. injection Hf as <-. rewrite CLv. apply opt_vals_eqb_eq. reflexivity. }
      apply str_eqb_neq in E7.
      rewrite (OUT k) by assumption. rewrite (framing_others _ h3 k Hf) by assumption.
      rewrite (r2_get Hhop) by (left; exact NF). rewrite (after_removal_get).
      destruct (is_removed k (q_hdr r)); apply opt_vals_eqb_eq; reflexivity.
  Qed.

  (* T01_model_satisfies_oracle *)
  Lemma model_satisfies_oracle tag r :
    tag_ok tag = true -> q_maj r < 10 -> q_min r < 10 ->
    (str_eqb (q_method r) m_connect = true \/ tag_ok (client_ip r) = true) ->
    scase_prop_ok {| s_tag := tag; s_in := r; s_out := result_of (modify_request tag r) |} = true.
  Proof.
    intros Ht Hm Hn Hip. unfold scase_prop_ok. cbn [s_in s_out s_tag].
    destruct (modify_request tag r) as [st|r'] eqn:E; cbn [result_of].
    - rewrite MP in E.
      destruct (pipeline_refused Hhop Hst Hcl Hsep Hstatus tag r st Ht E) as [[A ->]|[A ->]].
      + rewrite A. reflexivity.
      + rewrite A. apply orb_true_r.
    - destruct (identity_fields Hflat Hxff Hfill Hvia tag r r' E) as [_ [_ [_ [_ [_ [_ C]]]]]].
      rewrite C. rewrite Bool.eqb_reflx. cbn [andb]. apply forallb_forall. intros k _.
      apply key_ok_all; assumption.
  Qed.
End Master2.

(* ---------- header rules and site credentials ---------- *)
Lemma site_auth_pointwise cfg h k : basic_auth_tests_key_presence = true ->
  raw_get k (site_auth cfg h) =
    if str_eqb k k_authorization then
      match raw_get k_authorization h with
      | Some vs => Some vs
      | None => match p_cred cfg with Some (u, p) => Some [basic_value u p] | None => None end
      end
    else raw_get k h.
Proof.
  intro Hk. unfold site_auth, auth_absent. rewrite Hk.
  destruct (str_eqb k k_authorization) eqn:E.
  - apply str_eqb_eq in E. subst k. destruct (raw_get k_authorization h) as [vs|] eqn:E2; [exact E2|].
    destruct (p_cred cfg) as [[u p]|]; [apply raw_get_h_set_same; reflexivity | exact E2].
  - destruct (raw_get k_authorization h); [reflexivity|].
    destruct (p_cred cfg) as [[u p]|]; [|reflexivity].
    apply raw_get_h_set_other; [reflexivity | apply str_eqb_neq; exact E].
Qed.

Lemma core_stack_method tag r r1 : core_stack tag r = Passed r1 -> q_method r1 = q_method r.
Proof.
  unfold core_stack. cbn zeta. destruct (bad_framing _) as [h3|]; [|discriminate].
  destruct (via_modify_gen true tag _ _ h3); [discriminate|]. intro H. injection H as <-.
  cbn [q_method set_hdr]. destruct (forwarded_fields true true (set_hdr r (remove_hop_by_hop (q_hdr r)))) as [A _]. exact A.
Qed.

Section Configured.
  Hypothesis Hflat : flat_stack = fixed_flat_stack.
  Hypothesis Hxff : xff_reads_all_lines = true.
  Hypothesis Hfill : xfwd_fill_reads_all_lines = true.
  Hypothesis Hvia : via_reads_all_lines = true.

  (* the configured stack = the httpspec part, then the rules of the request's kind in order, then the site
     credentials, then the User-Agent sentinel; without configuration the middle two steps are the identity *)
  Lemma rules_and_credentials_applied cfg tag r :
    modify_request_cfg cfg tag r =
      match core_stack tag r with
      | Refused s => Refused s
      | Passed r1 =>
          Passed (set_hdr r1 (set_empty_user_agent (site_auth cfg
                    (G16.Model.apply_rules (if str_eqb (q_method r) m_connect then p_connect_rules cfg else p_request_rules cfg)
                                           (q_hdr r1)))))
      end /\
    modify_request tag r =
      match core_stack tag r with
      | Refused s => Refused s
      | Passed r1 => Passed (set_hdr r1 (set_empty_user_agent (q_hdr r1)))
      end.
  Proof.
    split.
    - rewrite (modify_request_cfg_is_pipeline Hflat Hxff Hfill Hvia). unfold pipeline_cfg.
      destruct (core_stack tag r) as [s|r1] eqn:E; [reflexivity|].
      unfold inner_group, user_rules. rewrite (core_stack_method tag r r1 E). reflexivity.
    - unfold modify_request. rewrite (modify_request_cfg_is_pipeline Hflat Hxff Hfill Hvia). unfold pipeline_cfg.
      destruct (core_stack tag r) as [s|r1]; [reflexivity|].
      unfold inner_group. rewrite user_rules_none, site_auth_none. reflexivity.
  Qed.
End Configured.
