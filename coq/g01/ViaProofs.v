(* C18 — lemmas about the Via model.  Facts about the source (Tables.v) enter
   only as hypotheses; C18.v discharges them with the obligations of Ob18.v. *)
From Coq Require Import Lia.
From G01 Require Import Via ViaCheck.

(* ---------- substrings ---------- *)
Definition infix (p s : str) : Prop := exists a c, s = a ++ p ++ c.

Lemma contains_spec s p : contains s p = true <-> infix p s.
Proof.
  induction s as [|d s IH].
  - cbn [contains]. rewrite orb_false_r, has_prefix_spec. split.
    + intros [r Hr]. exists [], r. exact Hr.
    + intros [a [c H]]. destruct a; [|discriminate]. exists c. exact H.
  - cbn [contains]. rewrite orb_true_iff, has_prefix_spec, IH. split.
    + intros [[r Hr] | [a [c H]]].
      * exists [], r. exact Hr.
      * exists (d :: a), c. simpl. f_equal. exact H.
    + intros [a [c H]]. destruct a as [|x a].
      * left. exists c. exact H.
      * right. simpl in H. injection H as _ H. exists a, c. exact H.
Qed.

Lemma infix_refl s : infix s s.
Proof. exists [], []. rewrite app_nil_r. reflexivity. Qed.

Lemma infix_trans p q s : infix p q -> infix q s -> infix p s.
Proof.
  intros [a [c ->]] [a' [c' ->]]. exists (a' ++ a), (c ++ c').
  repeat rewrite <- app_assoc. reflexivity.
Qed.

Lemma infix_app_l p x y : infix p x -> infix p (x ++ y).
Proof. intros [a [c ->]]. exists a, (c ++ y). repeat rewrite <- app_assoc. reflexivity. Qed.

Lemma infix_app_r p x y : infix p y -> infix p (x ++ y).
Proof. intros [a [c ->]]. exists (x ++ a), c. repeat rewrite <- app_assoc. reflexivity. Qed.

Lemma infix_cons p c y : infix p y -> infix p (c :: y).
Proof. intros [a [d ->]]. exists (c :: a), d. reflexivity. Qed.

Ltac tag_at_end := repeat (first [apply infix_refl | apply infix_cons | apply infix_app_r]).

Lemma infix_nil p : infix p [] -> p = [].
Proof.
  intros [a [c H]]. symmetry in H. apply app_eq_nil in H as [_ H]. apply app_eq_nil in H as [H _]. exact H.
Qed.

(* a string free of byte c that occurs in x ++ c :: y occurs in x or in y *)
Lemma infix_sep_split (c : N) p x y : ~ In c p -> infix p (x ++ c :: y) -> infix p x \/ infix p y.
Proof.
  intros Hn [a [d H]]. apply app_eq_app in H as [l [[H1 H2] | [H1 H2]]].
  - (* x = a ++ l, p ++ d = l ++ c :: y *)
    symmetry in H2. apply app_eq_app in H2 as [l2 [[H3 H4] | [H3 H4]]].
    + (* l = p ++ l2 *) left. subst. exists a, l2. reflexivity.
    + (* p = l ++ l2, c :: y = l2 ++ d *)
      destruct l2 as [|e l2].
      * left. subst. rewrite app_nil_r. exists a, []. rewrite app_nil_r. reflexivity.
      * simpl in H4. injection H4 as -> H4. exfalso. apply Hn. rewrite H3. apply in_or_app. right. left. reflexivity.
  - (* a = x ++ l, c :: y = l ++ p ++ d *)
    destruct l as [|e l].
    + simpl in H2. destruct p as [|e p].
      * left. exists x, []. rewrite app_nil_r. reflexivity.
      * simpl in H2. injection H2 as -> _. exfalso. apply Hn. left. reflexivity.
    + simpl in H2. injection H2 as _ H2. right. exists l, d. exact H2.
Qed.

(* ---------- join ---------- *)
Lemma join_cons2 sep x y r : join sep (x :: y :: r) = x ++ sep ++ join sep (y :: r).
Proof. reflexivity. Qed.

Lemma in_join_infix sep l lines : In l lines -> infix l (join sep lines).
Proof.
  induction lines as [|x r IH]; [intros []|].
  intros [->|Hin].
  - destruct r as [|y r]; [apply infix_refl|]. rewrite join_cons2. apply infix_app_l. apply infix_refl.
  - destruct r as [|y r]; [destruct Hin|]. rewrite join_cons2. apply infix_app_r. apply infix_app_r. apply IH. exact Hin.
Qed.

Lemma join_infix_some tag lines :
  ~ In 44 tag -> ~ In 32 tag -> tag <> [] ->
  infix tag (join comma_sp lines) -> exists l, In l lines /\ infix tag l.
Proof.
  intros H44 H32 Hne. induction lines as [|x r IH]; intro H.
  - apply infix_nil in H. contradiction.
  - destruct r as [|y r].
    + exists x. split; [left; reflexivity | exact H].
    + rewrite join_cons2 in H. unfold comma_sp in H. cbn [app] in H.
      destruct (infix_sep_split 44 tag _ _ H44 H) as [H1|H1].
      * exists x. split; [left; reflexivity | exact H1].
      * change (32 :: join [44; 32] (y :: r)) with ([] ++ 32 :: join [44; 32] (y :: r)) in H1.
        destruct (infix_sep_split 32 tag _ _ H32 H1) as [H2|H2].
        -- apply infix_nil in H2. contradiction.
        -- destruct (IH H2) as [l [Hin Hl]]. exists l. split; [right; exact Hin | exact Hl].
Qed.

(* ---------- what tag_ok gives ---------- *)
Lemma tag_ok_facts tag : tag_ok tag = true ->
  tag <> [] /\ ~ In 44 tag /\ ~ In 32 tag /\ (forall c, In c tag -> is_ows c = false).
Proof.
  unfold tag_ok. intro H. apply andb_true_iff in H as [H1 H2].
  rewrite forallb_forall in H2.
  assert (Hc : forall c, In c tag -> c <> 44 /\ is_ows c = false).
  { intros c Hin. specialize (H2 c Hin). apply andb_true_iff in H2 as [A B].
    apply negb_true_iff in A, B. apply N.eqb_neq in A. split; assumption. }
  repeat split.
  - destruct tag; [discriminate | discriminate].
  - intro Hin. apply Hc in Hin as [A _]. apply A. reflexivity.
  - intro Hin. apply Hc in Hin as [_ B]. discriminate B.
  - intros c Hin. apply Hc in Hin as [_ B]. exact B.
Qed.

(* ---------- own_sub / own_elem ---------- *)
Lemma own_sub_spec tag lines : own_sub tag lines = true <-> exists l, In l lines /\ infix tag l.
Proof.
  unfold own_sub. rewrite existsb_exists. split; intros [l [Hin H]]; exists l; split; try exact Hin.
  - apply contains_spec. exact H.
  - apply contains_spec. exact H.
Qed.

Lemma split_byte_nonempty c s : split_byte c s <> [].
Proof.
  destruct s as [|d s]; cbn [split_byte]; [discriminate|].
  destruct (c =? d); [discriminate|]. destruct (split_byte c s); discriminate.
Qed.

Lemma split_byte_app c x y : split_byte c (x ++ c :: y) = split_byte c x ++ split_byte c y.
Proof.
  induction x as [|d x IH].
  - cbn [app split_byte]. rewrite N.eqb_refl. reflexivity.
  - cbn [app split_byte]. destruct (c =? d).
    + rewrite IH. reflexivity.
    + rewrite IH. destruct (split_byte c x) as [|u us] eqn:E.
      * exfalso. exact (split_byte_nonempty c x E).
      * reflexivity.
Qed.

Lemma split_byte_none c s : ~ In c s -> split_byte c s = [s].
Proof.
  induction s as [|d s IH]; intro Hn; [reflexivity|].
  cbn [split_byte]. destruct (c =? d) eqn:E.
  - apply N.eqb_eq in E. subst. exfalso. apply Hn. left. reflexivity.
  - rewrite IH; [reflexivity|]. intro Hin. apply Hn. right. exact Hin.
Qed.

Lemma split_first_prefix c t v vs : split_byte c t = v :: vs -> exists r, t = v ++ r.
Proof.
  revert v vs. induction t as [|k t IHt]; intros v vs Hs.
  - cbn in Hs. injection Hs as <- _. exists []. reflexivity.
  - cbn [split_byte] in Hs. destruct (c =? k).
    + injection Hs as <- _. exists (k :: t). reflexivity.
    + destruct (split_byte c t) as [|w ws] eqn:E2.
      * injection Hs as <- _. exists t. reflexivity.
      * injection Hs as <- _. destruct (IHt w ws eq_refl) as [r ->]. exists r. reflexivity.
Qed.

Lemma split_piece_infix c s x : In x (split_byte c s) -> infix x s.
Proof.
  revert x. induction s as [|d s IH]; intros x Hin.
  - cbn in Hin. destruct Hin as [<-|[]]. apply infix_refl.
  - cbn [split_byte] in Hin. destruct (c =? d).
    + destruct Hin as [<-|Hin].
      * exists [], (d :: s). reflexivity.
      * change (d :: s) with ([d] ++ s). apply infix_app_r. apply IH. exact Hin.
    + destruct (split_byte c s) as [|u us] eqn:E.
      * destruct Hin as [<-|[]]. exists [], s. reflexivity.
      * destruct Hin as [<-|Hin].
        -- destruct (split_first_prefix c s u us E) as [r ->]. exists [], r. reflexivity.
        -- change (d :: s) with ([d] ++ s). apply infix_app_r. apply IH. right. exact Hin.
Qed.

(* trimming keeps a substring of the original *)
Lemma drop_ows_suffix s : exists a, s = a ++ drop_ows s.
Proof.
  induction s as [|c s [a IH]]; [exists []; reflexivity|].
  cbn [drop_ows]. destruct (is_ows c).
  - exists (c :: a). simpl. f_equal. exact IH.
  - exists []. reflexivity.
Qed.

Lemma trim_ows_infix s : infix (trim_ows s) s.
Proof.
  unfold trim_ows. destruct (drop_ows_suffix s) as [a Ha].
  destruct (drop_ows_suffix (rev (drop_ows s))) as [c Hc].
  exists a, (rev c). rewrite Ha at 1. f_equal.
  rewrite <- (rev_involutive (drop_ows s)) at 1. rewrite Hc at 1. rewrite rev_app_distr. reflexivity.
Qed.

(* every field of a string is a substring *)
Lemma fields_go_infix cur s f : In f (fields_go cur s) -> infix f (rev cur ++ s).
Proof.
  revert cur. induction s as [|c s IH]; intros cur Hin.
  - cbn in Hin. destruct cur; [destruct Hin|]. destruct Hin as [<-|[]]. rewrite app_nil_r. apply infix_refl.
  - cbn [fields_go] in Hin. destruct (is_ows c).
    + destruct cur as [|k cur].
      * apply IH in Hin. cbn in Hin |- *. change (c :: s) with ([c] ++ s). apply infix_app_r. exact Hin.
      * destruct Hin as [<-|Hin].
        -- apply infix_app_l. apply infix_refl.
        -- apply IH in Hin. cbn in Hin. apply infix_app_r. change (c :: s) with ([c] ++ s). apply infix_app_r. exact Hin.
    + apply IH in Hin. cbn [rev] in Hin. rewrite <- app_assoc in Hin. exact Hin.
Qed.

Lemma received_by_infix it tag : tag <> [] -> received_by it = tag -> infix tag it.
Proof.
  unfold received_by, fields. intros Hne H.
  assert (Hin : In tag (fields_go [] it)).
  { destruct (fields_go [] it) as [|f0 [|f1 fr]]; cbn in H.
    - congruence.
    - congruence.
    - right. left. exact H. }
  apply fields_go_infix in Hin. exact Hin.
Qed.

Lemma chain_in it lines : In it (chain lines) -> exists l, In l lines /\ infix it l.
Proof.
  unfold chain. rewrite in_flat_map. intros [l [Hl Hin]]. exists l. split; [exact Hl|].
  unfold items_ne in Hin. apply filter_In in Hin as [Hin _]. unfold items in Hin.
  apply in_map_iff in Hin as [piece [<- Hp]].
  eapply infix_trans; [apply trim_ows_infix | apply (split_piece_infix 44); exact Hp].
Qed.

Lemma own_elem_sub tag lines : tag <> [] -> own_elem tag lines = true -> own_sub tag lines = true.
Proof.
  intros Hne H. unfold own_elem in H. apply existsb_exists in H as [it [Hin Heq]].
  apply str_eqb_eq in Heq. apply own_sub_spec.
  destruct (chain_in it lines Hin) as [l [Hl Hi]]. exists l. split; [exact Hl|].
  eapply infix_trans; [apply received_by_infix; eassumption | exact Hi].
Qed.

(* ---------- list elements of joined lines ---------- *)
Lemma items_ne_sep x y : items_ne (x ++ 44 :: y) = items_ne x ++ items_ne y.
Proof. unfold items_ne, items. rewrite split_byte_app, map_app, filter_app. reflexivity. Qed.

Lemma items_ne_sp y : items_ne (32 :: y) = items_ne y.
Proof.
  unfold items_ne, items. cbn [split_byte]. change (44 =? 32) with false. cbv iota.
  destruct (split_byte 44 y) as [|u us] eqn:E.
  - exfalso. exact (split_byte_nonempty 44 y E).
  - cbn [map]. unfold trim_ows at 1 3. cbn [drop_ows is_ows]. change (32 =? 32) with true. cbn [orb]. reflexivity.
Qed.

Lemma items_ne_nil : items_ne [] = [].
Proof. reflexivity. Qed.

Lemma items_ne_join lines : items_ne (join comma_sp lines) = chain lines.
Proof.
  induction lines as [|x r IH]; [reflexivity|].
  destruct r as [|y r].
  - cbn [join chain flat_map]. rewrite app_nil_r. reflexivity.
  - rewrite join_cons2. unfold comma_sp at 1. cbn [app]. rewrite items_ne_sep, items_ne_sp, IH. reflexivity.
Qed.

(* an element text without comma, not starting or ending in white space, is one list element *)
Definition p_ok (p : str) : bool :=
  match p with c :: _ => negb (is_ows c) && forallb (fun k => negb (k =? 44)) p | [] => false end.

Lemma drop_ows_hd s : (match s with c :: _ => is_ows c = false | [] => True end) -> drop_ows s = s.
Proof. destruct s as [|c s]; [reflexivity|]. cbn [drop_ows]. intros ->. reflexivity. Qed.

Lemma elem_single p tag : p_ok p = true -> tag_ok tag = true ->
  items_ne (p ++ 32 :: tag) = [p ++ 32 :: tag].
Proof.
  intros Hp Ht. destruct (tag_ok_facts tag Ht) as [Hne [H44 [_ Hows]]].
  destruct p as [|c p]; [discriminate|]. cbn [p_ok] in Hp. apply andb_true_iff in Hp as [Hc Hp].
  apply negb_true_iff in Hc. rewrite forallb_forall in Hp.
  unfold items_ne, items. rewrite split_byte_none.
  - cbn [map]. assert (E : trim_ows ((c :: p) ++ 32 :: tag) = (c :: p) ++ 32 :: tag).
    { unfold trim_ows. rewrite (drop_ows_hd ((c :: p) ++ 32 :: tag)) by exact Hc.
      rewrite drop_ows_hd; [apply rev_involutive|].
      rewrite rev_app_distr. cbn [rev]. rewrite <- app_assoc.
      destruct (rev tag) as [|k rt] eqn:E.
      - exfalso. apply Hne. rewrite <- (rev_involutive tag), E. reflexivity.
      - cbn [app]. apply Hows. apply in_rev. rewrite E. left. reflexivity. }
    rewrite E. cbn [filter is_empty app negb]. reflexivity.
  - intro Hin. apply in_app_or in Hin as [Hin|[Hin|Hin]].
    + specialize (Hp 44 Hin). discriminate.
    + discriminate.
    + contradiction.
Qed.

(* ---------- the modifier ---------- *)
Lemma canon_via : canon via_key = via_key.
Proof. reflexivity. Qed.

Lemma values_after_set v h : h_values via_key (h_set via_key v h) = [v].
Proof. unfold h_values, h_set. rewrite canon_via, raw_get_set_same. reflexivity. Qed.

Lemma others_after_set v h : others_unchanged h (h_set via_key v h) = true.
Proof.
  unfold others_unchanged. apply forallb_forall. intros k _.
  destruct (str_eqb k via_key) eqn:E; [reflexivity|]. cbn [orb].
  apply opt_vals_eqb_eq. unfold h_set. rewrite canon_via. symmetry.
  apply raw_get_set_other. apply str_eqb_neq. exact E.
Qed.

Section Fixed.
  (* the obligations on the source, as hypotheses *)
  Variable st : N.
  Variable cl : bool.
  Hypothesis Hst : via_loop_status = st.
  Hypothesis Hcl : via_sets_close = cl.
  Hypothesis Hsep : via_join_sep = comma_sp.

  Let modify := via_modify_gen true.

  (* own tag anywhere in any received field line => refused *)
  Lemma detects_own tag maj min h l :
    tag <> [] -> In l (h_values via_key h) -> contains l tag = true ->
    modify tag maj min h = ViaRefused st cl.
  Proof.
    intros Hne Hin Hc. unfold modify, via_modify_gen, via_read.
    assert (Hi : infix tag (join comma_sp (h_values via_key h))).
    { eapply infix_trans; [apply contains_spec; exact Hc | apply in_join_infix; exact Hin]. }
    assert (E : is_empty (join comma_sp (h_values via_key h)) = false).
    { destruct (join comma_sp (h_values via_key h)); [|reflexivity]. apply infix_nil in Hi. contradiction. }
    rewrite E. apply contains_spec in Hi. rewrite Hi. cbn [negb andb]. rewrite Hst, Hcl. reflexivity.
  Qed.

  (* tag text nowhere in the received chain => forwarded, with this value *)
  Lemma foreign_forwarded tag maj min h :
    tag_ok tag = true -> own_sub tag (h_values via_key h) = false ->
    modify tag maj min h =
      ViaOk (h_set via_key ((if is_empty (join comma_sp (h_values via_key h)) then []
                             else join comma_sp (h_values via_key h) ++ comma_sp)
                            ++ proto_str maj min ++ [32] ++ tag) h).
  Proof.
    intros Ht Hno. destruct (tag_ok_facts tag Ht) as [Hne [H44 [H32 _]]].
    unfold modify, via_modify_gen, via_read. rewrite Hsep.
    destruct (contains (join comma_sp (h_values via_key h)) tag) eqn:E.
    - exfalso. apply contains_spec in E. apply join_infix_some in E; try assumption.
      assert (own_sub tag (h_values via_key h) = true) by (apply own_sub_spec; exact E). congruence.
    - rewrite andb_false_r. reflexivity.
  Qed.

  (* refusal happens only when the tag text is in the received chain *)
  Lemma refused_only_own tag maj min h s c :
    tag_ok tag = true -> modify tag maj min h = ViaRefused s c ->
    own_sub tag (h_values via_key h) = true /\ s = st /\ c = cl.
  Proof.
    intros Ht H. destruct (own_sub tag (h_values via_key h)) eqn:E.
    - unfold modify, via_modify_gen in H.
      destruct (negb (is_empty (via_read true h)) && contains (via_read true h) tag); [|discriminate].
      injection H as <- <-. rewrite Hst, Hcl. repeat split.
    - rewrite foreign_forwarded in H by assumption. discriminate.
  Qed.

  (* the forwarded chain: everything received, in order, then this instance's element *)
  Lemma appends_after_existing tag maj min h h' :
    tag_ok tag = true -> p_ok (proto_str maj min) = true ->
    modify tag maj min h = ViaOk h' ->
    exists v, h_values via_key h' = [v] /\
              chain [v] = chain (h_values via_key h) ++ [proto_str maj min ++ [32] ++ tag] /\
              others_unchanged h h' = true /\
              own_elem tag (h_values via_key h) = false.
  Proof.
    intros Ht Hp H. destruct (tag_ok_facts tag Ht) as [Hne _].
    destruct (own_sub tag (h_values via_key h)) eqn:E.
    - exfalso. apply own_sub_spec in E as [l [Hin Hi]].
      rewrite (detects_own tag maj min h l Hne Hin) in H; [discriminate | apply contains_spec; exact Hi].
    - rewrite foreign_forwarded in H by assumption. injection H as <-.
      eexists. split; [apply values_after_set|]. split; [|split; [apply others_after_set|]].
      + cbn [chain flat_map]. rewrite app_nil_r.
        destruct (join comma_sp (h_values via_key h)) as [|c0 j] eqn:EJ.
        * cbn [is_empty app]. rewrite <- (items_ne_join (h_values via_key h)), EJ.
          cbn [items_ne_nil]. rewrite items_ne_nil. cbn [app]. apply (elem_single _ _ Hp Ht).
        * cbn [is_empty]. rewrite <- (items_ne_join (h_values via_key h)), EJ.
          unfold comma_sp at 1. rewrite <- app_assoc. cbn [app].
          change (c0 :: j ++ 44 :: 32 :: proto_str maj min ++ 32 :: tag)
            with ((c0 :: j) ++ 44 :: (32 :: (proto_str maj min ++ 32 :: tag))).
          rewrite items_ne_sep, items_ne_sp. f_equal. apply (elem_single _ _ Hp Ht).
      + destruct (own_elem tag (h_values via_key h)) eqn:E2; [|reflexivity].
        apply own_elem_sub in E2; [congruence | exact Hne].
  Qed.

  (* the element just added is found again on the next visit, whatever the version *)
  Lemma self_loop tag maj min h h' maj' min' :
    modify tag maj min h = ViaOk h' -> modify tag maj' min' h' = ViaRefused st cl.
  Proof.
    intro H. unfold modify, via_modify_gen in H.
    destruct (negb (is_empty (via_read true h)) && contains (via_read true h) tag); [discriminate|].
    injection H as <-.
    match goal with |- context [h_set via_key ?V h] => set (v := V) end.
    unfold modify, via_modify_gen, via_read. rewrite values_after_set. cbn [join].
    assert (Hi : infix tag v).
    { unfold v. tag_at_end. }
    assert (E : is_empty v = false).
    { unfold v. destruct (if is_empty _ then [] else _); destruct (proto_str maj min); reflexivity. }
    rewrite E. apply contains_spec in Hi. rewrite Hi. cbn [negb andb]. rewrite Hst, Hcl. reflexivity.
  Qed.

  (* after forwarding, the tag text is in the chain *)
  Lemma forwarded_has_tag tag maj min h h' :
    modify tag maj min h = ViaOk h' -> own_sub tag (h_values via_key h') = true.
  Proof.
    intro H. unfold modify, via_modify_gen in H.
    destruct (negb (is_empty (via_read true h)) && contains (via_read true h) tag); [discriminate|].
    injection H as <-. rewrite values_after_set. apply own_sub_spec. eexists. split; [left; reflexivity|].
    tag_at_end.
  Qed.

  (* A -> B -> A for any B that keeps A's tag text somewhere in the chain *)
  Lemma two_proxy_loop tag maj min h h' (B : list str -> list str) h'' maj' min' :
    tag <> [] ->
    (forall ls, own_sub tag ls = true -> own_sub tag (B ls) = true) ->
    modify tag maj min h = ViaOk h' ->
    h_values via_key h'' = B (h_values via_key h') ->
    modify tag maj' min' h'' = ViaRefused st cl.
  Proof.
    intros Hne HB H HB2. apply forwarded_has_tag in H. apply HB in H. rewrite <- HB2 in H.
    apply own_sub_spec in H as [l [Hin Hi]].
    apply (detects_own tag maj' min' h'' l Hne Hin). apply contains_spec. exact Hi.
  Qed.

  (* B = another instance of the fixed modifier (any tag, incl. same name) keeps every tag text *)
  Lemma hop_keeps tag tag' maj min h h' :
    modify tag' maj min h = ViaOk h' ->
    own_sub tag (h_values via_key h) = true -> own_sub tag (h_values via_key h') = true.
  Proof.
    intros H Hs. unfold modify, via_modify_gen in H.
    destruct (negb (is_empty (via_read true h)) && contains (via_read true h) tag'); [discriminate|].
    injection H as <-. rewrite values_after_set. apply own_sub_spec in Hs as [l [Hin Hi]].
    apply own_sub_spec. eexists. split; [left; reflexivity|].
    assert (Hj : infix tag (via_read true h)).
    { unfold via_read. eapply infix_trans; [exact Hi | apply in_join_infix; exact Hin]. }
    apply infix_app_l. unfold via_read in Hj.
    destruct (join comma_sp (h_values via_key h)) as [|c0 j] eqn:E.
    - cbn [is_empty]. exact Hj.
    - cbn [is_empty]. apply infix_app_l. exact Hj.
  Qed.

  (* the model always satisfies the property predicate that is evaluated on the implementation *)
  Lemma model_satisfies_prop tag maj min h :
    st = 400 -> cl = true ->
    tag_ok tag = true -> p_ok (spec_proto maj min) = true -> proto_str maj min = spec_proto maj min ->
    via_prop_ok tag maj min h (modify tag maj min h) = true.
  Proof.
    intros Hs4 Hc Ht Hp Hpe. destruct (modify tag maj min h) as [s c|h'] eqn:E.
    - apply refused_only_own in E as [Ho [-> ->]]; [|exact Ht]. cbn [via_prop_ok]. rewrite Ho, Hs4, Hc. reflexivity.
    - rewrite <- Hpe in Hp. destruct (appends_after_existing tag maj min h h' Ht Hp E) as [v [Hv [Hch [Hoth Hown]]]].
      cbn [via_prop_ok]. rewrite Hown, Hoth, Hv, Hch. unfold elem. rewrite Hpe.
      cbn [negb andb]. rewrite andb_true_r. apply list_str_eqb_eq. reflexivity.
  Qed.
End Fixed.

(* merging all field lines into one, or splitting them at commas, keeps a comma-free tag text *)
Lemma merge_keeps tag ls : own_sub tag ls = true -> own_sub tag [join comma_sp ls] = true.
Proof.
  intro H. apply own_sub_spec in H as [l [Hin Hi]]. apply own_sub_spec. eexists. split; [left; reflexivity|].
  eapply infix_trans; [exact Hi | apply in_join_infix; exact Hin].
Qed.

Lemma split_has_piece tag : ~ In 44 tag -> forall n l, (length l <= n)%nat -> infix tag l ->
  exists piece, In piece (split_byte 44 l) /\ infix tag piece.
Proof.
  intros H44. induction n as [|n IH]; intros l Hlen Hi.
  - destruct l; [|simpl in Hlen; lia]. exists []. split; [left; reflexivity | exact Hi].
  - destruct (in_dec N.eq_dec 44 l) as [Hin|Hnin].
    + apply in_split in Hin as [x [y ->]]. rewrite split_byte_app.
      rewrite app_length in Hlen. cbn [length] in Hlen.
      destruct (infix_sep_split 44 tag _ _ H44 Hi) as [Hi'|Hi'].
      * destruct (IH x ltac:(lia) Hi') as [pc [Hp Hpi]]. exists pc. split; [apply in_or_app; left; exact Hp | exact Hpi].
      * destruct (IH y ltac:(lia) Hi') as [pc [Hp Hpi]]. exists pc. split; [apply in_or_app; right; exact Hp | exact Hpi].
    + rewrite split_byte_none by exact Hnin. exists l. split; [left; reflexivity | exact Hi].
Qed.

Lemma split_keeps tag ls : ~ In 44 tag -> own_sub tag ls = true -> own_sub tag (flat_map (split_byte 44) ls) = true.
Proof.
  intros H44 H. apply own_sub_spec in H as [l [Hin Hi]]. apply own_sub_spec.
  destruct (split_has_piece tag H44 (length l) l (le_n _) Hi) as [pc [Hp Hpi]].
  exists pc. split; [apply in_flat_map; exists l; split; assumption | exact Hpi].
Qed.

(* ---------- status mapping ---------- *)
Lemma first_nonzero_status (handlers : list str) s :
  s <> 0 -> In (b "handleMartianErrorStatus") handlers ->
  first_nonzero (map (fun n => handler_code_on_status_error n s) handlers) = s.
Proof.
  intros Hs. induction handlers as [|x r IH]; [intros []|].
  intro Hin. cbn [map first_nonzero].
  destruct (str_eqb x (b "handleMartianErrorStatus")) eqn:E.
  - assert (Hx : handler_code_on_status_error x s = s) by (unfold handler_code_on_status_error; rewrite E; reflexivity).
    rewrite Hx. apply N.eqb_neq in Hs. rewrite Hs. reflexivity.
  - assert (Hx : handler_code_on_status_error x s = 0) by (unfold handler_code_on_status_error; rewrite E; reflexivity).
    rewrite Hx. cbn. apply IH. destruct Hin as [->|Hin]; [|exact Hin].
    rewrite str_eqb_refl in E. discriminate.
Qed.

(* ---------- protocol text for the versions net/http can parse ---------- *)
Definition digits10 : list N := [0;1;2;3;4;5;6;7;8;9].
Definition proto_table_ok : bool :=
  forallb (fun maj => forallb (fun min =>
     str_eqb (proto_str maj min) (spec_proto maj min) && p_ok (spec_proto maj min)) digits10) digits10.

Lemma lt10_in n : n < 10 -> In n digits10.
Proof.
  intro H. assert (n = 0 \/ n = 1 \/ n = 2 \/ n = 3 \/ n = 4 \/ n = 5 \/ n = 6 \/ n = 7 \/ n = 8 \/ n = 9) by lia.
  unfold digits10. cbn [In]. intuition.
Qed.

Lemma proto_table maj min : proto_table_ok = true -> maj < 10 -> min < 10 ->
  proto_str maj min = spec_proto maj min /\ p_ok (spec_proto maj min) = true.
Proof.
  unfold proto_table_ok. intros H Hm Hn. rewrite forallb_forall in H.
  specialize (H maj (lt10_in maj Hm)). rewrite forallb_forall in H. specialize (H min (lt10_in min Hn)).
  apply andb_true_iff in H as [H1 H2]. apply str_eqb_eq in H1. split; assumption.
Qed.

(* ---------- soundness of the run-time oracle ---------- *)
(* via_prop_ok = true means exactly: *)
Definition ViaSpec (tag : str) (maj min : N) (h : hmap) (r : via_result) : Prop :=
  match r with
  | ViaRefused s c => (exists l, In l (h_values via_key h) /\ infix tag l) /\ s = 400 /\ c = true
  | ViaOk h' => own_elem tag (h_values via_key h) = false /\
                chain (h_values via_key h') = chain (h_values via_key h) ++ [elem tag maj min] /\
                (forall k, k <> via_key -> raw_get k h' = raw_get k h)
  end.

Lemma via_prop_ok_sound tag maj min h r : via_prop_ok tag maj min h r = true -> ViaSpec tag maj min h r.
Proof.
  destruct r as [s c|h']; cbn [via_prop_ok ViaSpec]; intro H.
  - apply andb_true_iff in H as [H Hc]. apply andb_true_iff in H as [Ho Hs].
    apply own_sub_spec in Ho. apply N.eqb_eq in Hs. split; [exact Ho|]. split; [exact Hs | exact Hc].
  - apply andb_true_iff in H as [H Hoth]. apply andb_true_iff in H as [Ho Hch].
    apply negb_true_iff in Ho. apply list_str_eqb_eq in Hch. split; [exact Ho|]. split; [exact Hch|].
    intros k Hk. unfold others_unchanged in Hoth. rewrite forallb_forall in Hoth.
    destruct (in_dec (list_eq_dec N.eq_dec) k (keys h ++ keys h')) as [Hin|Hnin].
    + specialize (Hoth k Hin). apply orb_true_iff in Hoth as [E|E].
      * apply str_eqb_eq in E. contradiction.
      * apply opt_vals_eqb_eq in E. symmetry. exact E.
    + assert (~ In k (keys h) /\ ~ In k (keys h')) as [A C].
      { split; intro; apply Hnin; apply in_or_app; tauto. }
      apply raw_get_none_notin in A, C. congruence.
Qed.

(* ---------- same name, different instance ---------- *)
(* The element "<proto> <name>-<hex'>" of another instance configured with the same
   name never contains this instance's tag "<name>-<hex>" (hex <> hex'): the tag
   could only sit at the end (then hex = hex') or further left, and then the
   separator '-' of the element would have to be one of the hex digits. *)
Definition hex20 (s : str) : bool := Nat.eqb (length s) 20 && forallb is_hexdigit s.

Lemma app_same_length_inv {A} (x x' y y' : list A) :
  length x = length x' -> x ++ y = x' ++ y' -> x = x' /\ y = y'.
Proof.
  revert x'. induction x as [|a x IH]; intros [|a' x'] Hl H; try discriminate.
  - split; [reflexivity | exact H].
  - simpl in Hl, H. injection H as -> H. injection Hl as Hl. destruct (IH x' Hl H) as [-> ->]. split; reflexivity.
Qed.

Lemma same_name_other_instance name h1 h2 p :
  hex20 h1 = true -> hex20 h2 = true -> h1 <> h2 -> (length p < 20)%nat ->
  contains (p ++ [32] ++ name ++ [45] ++ h2) (name ++ [45] ++ h1) = false.
Proof.
  intros H1 H2 Hne Hp. destruct (contains _ _) eqn:E; [|reflexivity]. exfalso.
  apply contains_spec in E as [a [c E]].
  apply andb_true_iff in H1 as [L1 X1]. apply andb_true_iff in H2 as [L2 X2].
  apply Nat.eqb_eq in L1, L2.
  assert (Hlen : (length a + length c = length p + 1)%nat).
  { apply (f_equal (@length N)) in E. repeat (rewrite app_length in E; cbn [length] in E). lia. }
  apply (f_equal (@rev N)) in E.
  repeat (rewrite rev_app_distr in E; cbn [rev] in E). repeat rewrite <- app_assoc in E. cbn [app] in E.
  (* E : rev h2 ++ 45 :: rev name ++ 32 :: rev p = rev c ++ rev h1 ++ 45 :: rev name ++ rev a *)
  destruct c as [|c0 c].
  - cbn [rev app] in E. apply app_same_length_inv in E as [E _]; [|rewrite !rev_length; lia].
    apply Hne. rewrite <- (rev_involutive h1), <- (rev_involutive h2), E. reflexivity.
  - assert (Hk : (1 <= length (c0 :: c) <= 20)%nat) by (cbn [length] in *; lia).
    set (k := length (c0 :: c)) in *.
    assert (N1 : nth 20 (rev h2 ++ 45 :: rev name ++ 32 :: rev p) 0 = 45).
    { rewrite app_nth2; rewrite rev_length; [|lia]. rewrite L2. reflexivity. }
    rewrite E in N1.
    rewrite (app_nth2 (rev (c0 :: c))) in N1 by (rewrite rev_length; fold k; lia).
    rewrite rev_length in N1. fold k in N1.
    rewrite app_nth1 in N1 by (rewrite rev_length; lia).
    assert (Hin : In (nth (20 - k) (rev h1) 0) (rev h1)) by (apply nth_In; rewrite rev_length; lia).
    rewrite N1 in Hin. apply in_rev in Hin. rewrite forallb_forall in X1. specialize (X1 45 Hin). discriminate X1.
Qed.
