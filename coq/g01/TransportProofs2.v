(* C01 - what the modelled Transport writes: User-Agent, Accept-Encoding, Connection (second half; compiled in parallel) *)
From G01 Require Import ReqE2E TransportTac.

Lemma transport_ua x r : raw_get k_ua (transport_hdr0 x r) =
  match raw_get k_ua (q_hdr r) with
  | Some (v :: _) => if is_empty v then None else Some [v]
  | Some [] => None
  | None => Some [b "Go-http-client/1.1"]
  end.
Proof. transport_cases; through_sets. Qed.

Definition gzip_added (x : xin) (r : mreq) : bool :=
  is_empty (h_get k_ae (q_hdr r)) && is_empty (h_get k_range (q_hdr r)) && negb (str_eqb (xi_method x) (b "HEAD")).

Lemma transport_ae x r : raw_get k_ae (transport_hdr0 x r) =
  if gzip_added x r then Some (raw_values k_ae (q_hdr r) ++ [b "gzip"]) else raw_get k_ae (q_hdr r).
Proof.
  unfold gzip_added.
  assert (V : forall h', (forall k, k = k_ae -> raw_get k h' = raw_get k (q_hdr r)) -> raw_values k_ae h' = raw_values k_ae (q_hdr r)).
  { intros h' H. unfold raw_values. rewrite (H k_ae eq_refl). reflexivity. }
  transport_cases; through_sets;
  try (f_equal; f_equal; apply V; intros k ->; through_sets).
Qed.

Lemma transport_conn x r : raw_get k_connection (transport_hdr0 x r) =
  if q_close r && negb (has_token (raw_values k_connection (q_hdr r)) (b "close"))
  then Some (b "close" :: raw_values k_connection (q_hdr r)) else raw_get k_connection (q_hdr r).
Proof.
  assert (V : forall h', raw_get k_connection h' = raw_get k_connection (q_hdr r) ->
              raw_values k_connection h' = raw_values k_connection (q_hdr r)).
  { intros h' H. unfold raw_values. rewrite H. reflexivity. }
  unfold transport_hdr0. cbv zeta.
  match goal with |- context [has_token (raw_values k_connection ?h5) _] =>
    assert (E5 : raw_get k_connection h5 = raw_get k_connection (q_hdr r)) end.
  { repeat match goal with
    | |- context [if ?c then _ else _] => destruct c
    | |- context [match raw_get k_ua ?h with _ => _ end] => destruct (raw_get k_ua h) as [[|? ?]|]
    end; through_sets. }
  rewrite (V _ E5).
  destruct (q_close r && negb (has_token (raw_values k_connection (q_hdr r)) (b "close"))).
  - rewrite raw_get_set_same. reflexivity.
  - exact E5.
Qed.


