(* C01 — forwarded HTTP/1 requests: executable model of the request header
   pipeline of forwarder, in the order read from the source:
     proxyConn.handle        fixRequestScheme, upgradeType, modifyRequest, re-add Upgrade
     middlewareStack         (security checks: none configured) httpspec stack, inner group
     httpspec.NewStack       hop-by-hop, forwarded, bad framing, via, inner
     inner group             user modifiers, setBasicAuth (no credentials), setEmptyUserAgent
   No proofs here.  The request is what net/http.ReadRequest hands to the proxy. *)
From FwdLib Require Export Hdr.
From G01 Require Export Via.
From G16 Require Model.   (* C16's model of header rewrite rules (header.Header.Apply), used read-only *)

Record mreq := {
  q_method : str;
  q_scheme : str;      (* req.URL.Scheme *)
  q_host : str;        (* req.Host *)
  q_urlstr : str;      (* req.URL.String() *)
  q_remote : str;      (* req.RemoteAddr *)
  q_tls : bool;        (* req.TLS != nil *)
  q_maj : N; q_min : N;
  q_close : bool;      (* req.Close *)
  q_hdr : hmap
}.

Definition set_hdr (r : mreq) (h : hmap) : mreq :=
  {| q_method := q_method r; q_scheme := q_scheme r; q_host := q_host r; q_urlstr := q_urlstr r;
     q_remote := q_remote r; q_tls := q_tls r; q_maj := q_maj r; q_min := q_min r; q_close := q_close r; q_hdr := h |}.
Definition set_scheme (r : mreq) (s : str) : mreq :=
  {| q_method := q_method r; q_scheme := s; q_host := q_host r; q_urlstr := q_urlstr r;
     q_remote := q_remote r; q_tls := q_tls r; q_maj := q_maj r; q_min := q_min r; q_close := q_close r; q_hdr := q_hdr r |}.
Definition set_close (r : mreq) : mreq :=
  {| q_method := q_method r; q_scheme := q_scheme r; q_host := q_host r; q_urlstr := q_urlstr r;
     q_remote := q_remote r; q_tls := q_tls r; q_maj := q_maj r; q_min := q_min r; q_close := true; q_hdr := q_hdr r |}.

Definition k_connection := b "Connection".
Definition k_upgrade := b "Upgrade".
Definition k_xfp := b "X-Forwarded-Proto".
Definition k_xfh := b "X-Forwarded-Host".
Definition k_xfu := b "X-Forwarded-Url".
Definition k_xff := b "X-Forwarded-For".
Definition k_cl := b "Content-Length".
Definition k_te := b "Transfer-Encoding".
Definition k_ua := b "User-Agent".
Definition m_connect := b "CONNECT".

(* header["K"]: direct map index with the exact key *)
Definition raw_values (k : str) (h : hmap) : list str :=
  match raw_get k h with Some vs => vs | None => [] end.

(* ---------- Proxy.fixRequestScheme (AllowHTTP from forwarder's configureProxy) ---------- *)
Definition fix_request_scheme (allow_http : bool) (r : mreq) : mreq :=
  let r1 := if is_empty (q_scheme r)
            then let p := h_get k_xfp (q_hdr r) in
                 if negb (is_empty p) then set_scheme r p
                 else if q_tls r then set_scheme r (b "https") else set_scheme r (b "http")
            else r in
  if str_eqb (q_scheme r1) (b "http") && q_tls r1 && negb allow_http then set_scheme r1 (b "https") else r1.

(* ---------- upgradeType: httpguts.HeaderValuesContainsToken(h["Connection"], "Upgrade"), then h.Get("Upgrade") ---------- *)
(* tokens are separated by commas, trimmed of SP / HTAB, compared case-insensitively (ASCII) *)
Definition has_token (vs : list str) (tok : str) : bool :=
  existsb (fun v => existsb (fun t => eq_fold (trim_ows t) tok) (split_byte 44 v)) vs.
Definition upgrade_type (h : hmap) : str :=
  if has_token (raw_values k_connection h) k_upgrade then h_get k_upgrade h else [].

(* ---------- header.removeHopByHopHeaders ---------- *)
Definition nominated (h : hmap) : list str :=
  flat_map (fun vs => map (fun v => canon (trim_space v)) (split_byte 44 vs)) (raw_values k_connection h).
Definition remove_hop_by_hop (h : hmap) : hmap :=
  fold_left (fun h k => h_del k h) (nominated h ++ hop_by_hop_headers) h.

(* ---------- net.SplitHostPort, host part ---------- *)
Fixpoint last_index (c : N) (s : str) (i : nat) (acc : option nat) : option nat :=
  match s with
  | [] => acc
  | d :: r => last_index c r (S i) (if c =? d then Some i else acc)
  end.
Definition has_byte (c : N) (s : str) : bool := existsb (N.eqb c) s.
Definition split_host_port_host (a : str) : option str :=
  match last_index 58 a O None with
  | None => None                                        (* missing port *)
  | Some i =>
      match a with
      | 91 :: rest =>                                     (* '[' *)
          match index_byte 93 a with                      (* first ']' *)
          | None => None
          | Some e =>
              if Nat.eqb (S e) i then
                let host := firstn (e - 1) rest in
                let tail := skipn (S e) a in              (* from ':' on *)
                if has_byte 91 (skipn 1 a) || has_byte 93 tail then None else Some host
              else None
          end
      | _ =>
          let host := firstn i a in
          if has_byte 58 host then None                   (* too many colons *)
          else if has_byte 91 a || has_byte 93 a then None
          else Some host
      end
  end.

(* ---------- header.NewForwardedModifier ---------- *)
(* how the received X-Forwarded-For is read: Tables.xff_reads_all_lines
   false = req.Header.Get (first field line), true = strings.Join(req.Header.Values(..), ", ") *)
Definition xff_read (all : bool) (h : hmap) : str :=
  if all then join comma_sp (h_values k_xff h) else h_get k_xff h.
(* when X-Forwarded-Proto/Host/Url count as absent: Tables.xfwd_fill_reads_all_lines
   false = req.Header.Get(k) == ""                       (first field line empty)
   true  = strings.Join(req.Header.Values(k), "") == ""  (every field line empty)   *)
Definition fill_absent (all : bool) (k : str) (h : hmap) : bool :=
  if all then is_empty (concat (h_values k h)) else is_empty (h_get k h).
Definition forwarded_gen2 (fill_all all : bool) (r : mreq) : mreq :=
  if str_eqb (q_method r) m_connect then r else
  let h := q_hdr r in
  let h1 := if fill_absent fill_all k_xfp h then h_set k_xfp (q_scheme r) h else h in
  let h2 := if fill_absent fill_all k_xfh h1 then h_set k_xfh (q_host r) h1 else h1 in
  let h3 := if fill_absent fill_all k_xfu h2 then h_set k_xfu (q_urlstr r) h2 else h2 in
  let ip := match split_host_port_host (q_remote r) with Some x => x | None => q_remote r end in
  let v := xff_read all h3 in
  let xff := if is_empty v then ip else v ++ comma_sp ++ ip in
  set_hdr r (h_set k_xff xff h3).
Definition forwarded_gen := forwarded_gen2 xfwd_fill_reads_all_lines.

(* ---------- header.NewBadFramingModifier ---------- *)
Fixpoint cl_scan (len : str) (toks : list str) : option str :=
  match toks with
  | [] => Some len
  | t :: r => if is_empty len then cl_scan (trim_space t) r
              else if str_eqb len (trim_space t) then cl_scan len r else None
  end.
Definition last_str (l : list str) : str := last l [].
(* None = error (not a martian.ErrorStatus: answered 500 by errorResponse) *)
Definition bad_framing (h : hmap) : option hmap :=
  let cls := raw_values k_cl h in
  let r1 := match cls with
            | [] => Some h
            | _ => match cl_scan [] (flat_map (split_byte 44) cls) with
                   | Some len => Some (h_set k_cl len h)
                   | None => None
                   end
            end in
  match r1 with
  | None => None
  | Some h1 =>
      match raw_values k_te h1 with
      | [] => Some h1
      | tes => if str_eqb (trim_space (last_str (split_byte 44 (last_str tes)))) (b "chunked")
               then Some (h_del k_cl h1) else None
      end
  end.

(* ---------- inner group ---------- *)
(* setEmptyUserAgent: if the User-Agent KEY is absent, set it to "" (so that net/http does not invent one) *)
Definition set_empty_user_agent (h : hmap) : hmap :=
  match raw_get k_ua h with Some _ => h | None => h_set k_ua [] h end.

(* ---------- configuration of the inner group: --header rules and --credentials ---------- *)
(* a rule as C16 models it: action 0 Remove, 1 RemoveByPrefix, 2 Empty, 3 Add, otherwise RenameCase *)
Definition mkr (a : N) (n v : str) : G16.Model.rule :=
  {| G16.Model.r_act := if a =? 0 then G16.Model.Remove else if a =? 1 then G16.Model.RemoveByPrefix
                        else if a =? 2 then G16.Model.Empty else if a =? 3 then G16.Model.Add else G16.Model.RenameCase;
     G16.Model.r_name := n; G16.Model.r_val := v |}.

Record pcfg := {
  p_request_rules : list G16.Model.rule;   (* --header *)
  p_connect_rules : list G16.Model.rule;   (* --connect-header *)
  p_cred : option (str * str)              (* what CredentialsMatcher.MatchURL(req.URL) answers for this request
                                              (user, password); the matcher itself is C06's *)
}.
Definition no_cfg : pcfg := {| p_request_rules := []; p_connect_rules := []; p_cred := None |}.

(* command/run configureHeadersModifiers: one request modifier, CONNECT -> connect rules, else request rules;
   header.Headers.ModifyRequest applies the rules in order to req.Header *)
Definition user_rules (cfg : pcfg) (r : mreq) (h : hmap) : hmap :=
  G16.Model.apply_rules (if str_eqb (q_method r) m_connect then p_connect_rules cfg else p_request_rules cfg) h.

(* encoding/base64 StdEncoding *)
Definition b64char (n : N) : N :=
  if n <? 26 then 65 + n else if n <? 52 then 97 + (n - 26) else if n <? 62 then 48 + (n - 52)
  else if n =? 62 then 43 else 47.
Fixpoint b64 (s : str) : str :=
  match s with
  | [] => []
  | a :: r1 =>
      match r1 with
      | [] => [b64char (a / 4); b64char ((a mod 4) * 16); 61; 61]
      | c :: r2 =>
          match r2 with
          | [] => [b64char (a / 4); b64char ((a mod 4) * 16 + c / 16); b64char ((c mod 16) * 4); 61]
          | d :: r3 => b64char (a / 4) :: b64char ((a mod 4) * 16 + c / 16) ::
                       b64char ((c mod 16) * 4 + d / 64) :: b64char (d mod 64) :: b64 r3
          end
      end
  end.
Definition k_authorization := b "Authorization".
Definition basic_value (u p : str) : str := b "Basic " ++ b64 (u ++ [58] ++ p).

(* HTTPProxy.setBasicAuth: how "the client sent no Authorization" is tested — Tables.basic_auth_tests_key_presence
   true  = _, ok := req.Header["Authorization"]; !ok   (the key is absent)
   false = req.Header.Get("Authorization") == ""        (first field line empty)           *)
Definition auth_absent (h : hmap) : bool :=
  if basic_auth_tests_key_presence then match raw_get k_authorization h with None => true | Some _ => false end
  else is_empty (h_get k_authorization h).
Definition site_auth (cfg : pcfg) (h : hmap) : hmap :=
  if auth_absent h then
    match p_cred cfg with
    | Some (u, p) => h_set k_authorization (basic_value u p) h     (* req.SetBasicAuth *)
    | None => h
    end
  else h.

(* ---------- composition in source order ---------- *)
Inductive outcome := Refused (status : N) | Passed (r : mreq).

Definition apply_mod (cfg : pcfg) (tag : str) (name : str) (r : mreq) : outcome :=
  if str_eqb name (b "NewHopByHopModifier") then Passed (set_hdr r (remove_hop_by_hop (q_hdr r)))
  else if str_eqb name (b "NewForwardedModifier") then Passed (forwarded_gen xff_reads_all_lines r)
  else if str_eqb name (b "NewBadFramingModifier") then
    match bad_framing (q_hdr r) with Some h => Passed (set_hdr r h) | None => Refused 500 end
  else if str_eqb name (b "NewViaModifier") then
    match via_modify tag (q_maj r) (q_min r) (q_hdr r) with
    | ViaRefused st _ => Refused (status_of_error_status st)
    | ViaOk h => Passed (set_hdr r h)
    end
  else if str_eqb name (b "user") then Passed (set_hdr r (user_rules cfg r (q_hdr r)))   (* config.RequestModifiers *)
  else if str_eqb name (b "setBasicAuth") then Passed (set_hdr r (site_auth cfg (q_hdr r)))
  else if str_eqb name (b "setEmptyUserAgent") then Passed (set_hdr r (set_empty_user_agent (q_hdr r)))
  else Passed r.

Fixpoint run_mods (cfg : pcfg) (tag : str) (names : list str) (r : mreq) : outcome :=
  match names with
  | [] => Passed r
  | n :: rest => match apply_mod cfg tag n r with
                 | Refused st => Refused st
                 | Passed r' => run_mods cfg tag rest r'
                 end
  end.

(* the flattened request modifier list: httpspec order with "inner" replaced by the inner group *)
Definition flat_stack : list str :=
  flat_map (fun n => if str_eqb n (b "inner") then mw_inner_order else [n]) stack_request_order.

(* modifyRequest as configured by middlewareStack without access controls *)
Definition modify_request_cfg (cfg : pcfg) (tag : str) (r : mreq) : outcome := run_mods cfg tag flat_stack r.
(* without header rules and credentials *)
Definition modify_request (tag : str) (r : mreq) : outcome := modify_request_cfg no_cfg tag r.

(* `if p.mitm { req.URL.Scheme = "https" }`: a request read from an intercepted TLS session goes to its target over
   TLS whatever scheme the request line or X-Forwarded-Proto names.  q_tls stands for "read from an intercepted
   session" here: the rigs have no TLS-listener configuration (there q_tls would hold without MITM). *)
Definition mitm_https (r : mreq) : mreq := if q_tls r then set_scheme r (b "https") else r.

(* proxyConn.handle up to roundTrip, for non-CONNECT requests; steps in Tables.handle_order *)
Definition handle_step (cfg : pcfg) (tag : str) (name : str) (st : mreq * str) : outcome * str :=
  let (r, up) := st in
  if str_eqb name (b "fixRequestScheme") then (Passed (fix_request_scheme proxy_allow_http r), up)
  else if str_eqb name (b "mitmHttps") then (Passed (mitm_https r), up)
  else if str_eqb name (b "upgradeType") then (Passed r, upgrade_type (q_hdr r))
  else if str_eqb name (b "modifyRequest") then (modify_request_cfg cfg tag r, up)
  else if str_eqb name (b "readdUpgrade") then
    (Passed (if is_empty up then r
             else set_hdr r (h_set k_upgrade up (h_set k_connection k_upgrade (q_hdr r)))), up)
  else (Passed r, up).

Fixpoint run_handle (cfg : pcfg) (tag : str) (names : list str) (st : mreq * str) : outcome :=
  match names with
  | [] => Passed (fst st)
  | n :: rest => match handle_step cfg tag n st with
                 | (Refused s, _) => Refused s
                 | (Passed r', up') => run_handle cfg tag rest (r', up')
                 end
  end.

Definition handle_request_cfg (cfg : pcfg) (tag : str) (r : mreq) : outcome := run_handle cfg tag handle_order (r, []).
Definition handle_request (tag : str) (r : mreq) : outcome := handle_request_cfg no_cfg tag r.
