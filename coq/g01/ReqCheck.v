(* C01 — executable checkers run on what the implementation did.
   scase: the configured request modifier stack of a real HTTPProxy (hook VerifC01ModifyRequest)
          applied to a generated *http.Request;
   *_model_ok = correspondence with the model, *_prop_ok = the property predicate on the
   implementation's own output. *)
From G01 Require Export ReqPipeline ViaCheck.

Definition mkq (method scheme host urlstr remote : str) (tls : bool) (maj min : N) (close : bool) (h : hmap) : mreq :=
  {| q_method := method; q_scheme := scheme; q_host := host; q_urlstr := urlstr; q_remote := remote;
     q_tls := tls; q_maj := maj; q_min := min; q_close := close; q_hdr := h |}.

Inductive sres := SRefused (status : N) | SPassed (close : bool) (h : hmap).
Record scase := { s_tag : str; s_in : mreq; s_out : sres }.

Definition scase_model_ok (c : scase) : bool :=
  match modify_request (s_tag c) (s_in c), s_out c with
  | Refused st, SRefused st' => st =? st'
  | Passed r, SPassed cl h => Bool.eqb (q_close r) cl && hmap_eqb (q_hdr r) h
  | _, _ => false
  end.

(* ---------- the documented behaviour, pointwise on field names ---------- *)
(* the hop-by-hop fields named by the property (canonical spelling of net/http) *)
Definition spec_hop_list : list str :=
  [b "Connection"; b "Keep-Alive"; b "Proxy-Authenticate"; b "Proxy-Authorization"; b "Proxy-Connection";
   b "Te"; b "Trailer"; b "Transfer-Encoding"; b "Upgrade"].

Definition mem (k : str) (l : list str) : bool := existsb (str_eqb k) l.
(* names the documented behaviour removes from a request with header h *)
Definition removed_names (h : hmap) : list str := nominated h ++ spec_hop_list.
Definition is_removed (k : str) (h : hmap) : bool := mem k (removed_names h).
Definition after_removal (h : hmap) : hmap := filter (fun kv => negb (is_removed (fst kv) h)) h.

Definition client_ip (r : mreq) : str :=
  match split_host_port_host (q_remote r) with Some x => x | None => q_remote r end.

Definition some_nonempty (vs : list str) : bool := existsb (fun v => negb (is_empty v)) vs.

(* what the documented behaviour leaves under name k, given what was received (h0 = after removal) *)
Definition fill_ok (computed : str) (recv out : option (list str)) : bool :=
  match recv with
  | Some vs => if some_nonempty vs then opt_vals_eqb out (Some vs)
               else opt_vals_eqb out (Some [computed]) || opt_vals_eqb out (Some vs)
  | None => opt_vals_eqb out (Some [computed])
  end.

Definition key_ok (tag : str) (r : mreq) (hout : hmap) (k : str) : bool :=
  let hin := q_hdr r in
  let h0 := after_removal hin in
  let out := raw_get k hout in
  let connect := str_eqb (q_method r) m_connect in
  if str_eqb k via_key then
    negb (own_elem tag (raw_values via_key h0)) &&
    list_str_eqb (chain (raw_values via_key hout)) (chain (raw_values via_key h0) ++ [elem tag (q_maj r) (q_min r)])
  else if str_eqb k k_xff && negb connect then
    list_str_eqb (chain (raw_values k_xff hout)) (chain (raw_values k_xff h0) ++ [client_ip r])
  else if str_eqb k k_xfp && negb connect then fill_ok (q_scheme r) (raw_get k h0) out
  else if str_eqb k k_xfh && negb connect then fill_ok (q_host r) (raw_get k h0) out
  else if str_eqb k k_xfu && negb connect then fill_ok (q_urlstr r) (raw_get k h0) out
  else if str_eqb k k_ua then
    match raw_get k h0 with
    | Some vs => opt_vals_eqb out (Some vs)
    | None => opt_vals_eqb out None || opt_vals_eqb out (Some [[]])   (* "" = do not let net/http invent one *)
    end
  else if str_eqb k k_cl then
    match raw_get k h0 with
    | Some [] => opt_vals_eqb out (Some [])
    | Some vs => match out with
                 | Some [v] => (* every non-empty list element of the received lengths is the forwarded one *)
                     forallb (fun t => is_empty (trim_space t) || str_eqb (trim_space t) v) (flat_map (split_byte 44) vs)
                 | _ => false
                 end
    | None => opt_vals_eqb out None
    end
  else if is_removed k hin then opt_vals_eqb out None
  else opt_vals_eqb out (raw_get k hin).

Definition doc_keys : list str := [via_key; k_xff; k_xfp; k_xfh; k_xfu; k_ua; k_cl].
Definition fwd_names : list str := [k_xff; k_xfp; k_xfh; k_xfu].   (* untouched on CONNECT *)

(* a refusal is justified only by a loop (own tag in the chain that is left after removal) -> 400,
   or by contradictory framing fields (any error status) *)
Definition framing_contradictory (h0 : hmap) : bool :=
  match raw_values k_cl h0 with
  | [] => false
  | vs => match cl_scan [] (flat_map (split_byte 44) vs) with Some _ => false | None => true end
  end.

Definition scase_prop_ok (c : scase) : bool :=
  let r := s_in c in
  let h0 := after_removal (q_hdr r) in
  match s_out c with
  | SRefused st =>
      (own_sub (s_tag c) (raw_values via_key h0) && (st =? 400)) ||
      (framing_contradictory h0 && (400 <=? st) && (st <=? 599))
  | SPassed cl h =>
      Bool.eqb cl (q_close r) &&
      forallb (key_ok (s_tag c) r h) (doc_keys ++ keys (q_hdr r) ++ keys h)
  end.

(* ---------- configured stacks: --header rules and --credentials ---------- *)
Record ccase := { c_cfg : pcfg; c_tag : str; c_in : mreq; c_out : sres }.

Definition ccase_model_ok (c : ccase) : bool :=
  match modify_request_cfg (c_cfg c) (c_tag c) (c_in c), c_out c with
  | Refused st, SRefused st' => st =? st'
  | Passed r, SPassed cl h => Bool.eqb (q_close r) cl && hmap_eqb (q_hdr r) h
  | _, _ => false
  end.

Definition rules_of (cfg : pcfg) (r : mreq) : list G16.Model.rule :=
  if str_eqb (q_method r) m_connect then p_connect_rules cfg else p_request_rules cfg.
(* does a rule act on field name k (names are case-insensitive; a prefix rule acts on every name it is a prefix of) *)
Definition rule_touches (rho : G16.Model.rule) (k : str) : bool :=
  match G16.Model.r_act rho with
  | G16.Model.RemoveByPrefix => G16.Model.fold_prefix k (G16.Model.r_name rho)
  | _ => eq_fold (G16.Model.r_name rho) k
  end.
Definition rules_clean (rs : list G16.Model.rule) (ks : list str) : bool :=
  forallb (fun rho => forallb (fun k => negb (rule_touches rho k)) ks) rs.

(* "site credentials are applied": Authorization is attached only when, after the rules, the request carries none *)
Definition site_auth_spec (cfg : pcfg) (h : hmap) : hmap :=
  match raw_get k_authorization h, p_cred cfg with
  | None, Some (u, p) => raw_set k_authorization [basic_value u p] h
  | _, _ => h
  end.
(* what the documented behaviour leaves under the names that are not in the documented set: the header after the
   hop-by-hop removal, rewritten by the configured rules in order (C16: G16.Model.apply_rules, meaning proved there),
   then the site credentials *)
Definition expected_plain (cfg : pcfg) (r : mreq) : hmap :=
  site_auth_spec cfg (G16.Model.apply_rules (rules_of cfg r) (after_removal (q_hdr r))).

(* The rules of a case are "clean" when none of them acts on a documented field (Via, X-Forwarded-*, User-Agent,
   Content-Length): then both groups of clauses can be checked independently.  Otherwise only the correspondence
   with the model is checked for that case (stated in the evidence). *)
Definition ckey_ok (c : ccase) (hout : hmap) (k : str) : bool :=
  let r := c_in c in
  if negb (rules_clean (rules_of (c_cfg c) r) doc_keys) then true
  else if mem k doc_keys && negb (str_eqb (q_method r) m_connect && mem k fwd_names) then key_ok (c_tag c) r hout k
  else opt_vals_eqb (raw_get k hout) (raw_get k (expected_plain (c_cfg c) r)).

Definition ccase_prop_ok (c : ccase) : bool :=
  let r := c_in c in
  let h0 := after_removal (q_hdr r) in
  match c_out c with
  | SRefused st =>
      (own_sub (c_tag c) (raw_values via_key h0) && (st =? 400)) ||
      (framing_contradictory h0 && (400 <=? st) && (st <=? 599))
  | SPassed cl h =>
      Bool.eqb cl (q_close r) &&
      forallb (ckey_ok c h) (doc_keys ++ [k_authorization] ++ keys (q_hdr r) ++ keys h)
  end.

Definition cdiag (c : ccase) : list str :=
  if ccase_prop_ok c then [] else
  match c_out c with
  | SRefused _ => [b "REFUSED"]
  | SPassed cl h =>
      (if Bool.eqb cl (q_close (c_in c)) then [] else [b "CLOSE"]) ++
      nodup (list_eq_dec N.eq_dec)
        (filter (fun k => negb (ckey_ok c h k)) (doc_keys ++ [k_authorization] ++ keys (q_hdr (c_in c)) ++ keys h))
  end.

(* which parts of the predicate fail, for naming the input class of a violation *)
Definition sdiag (c : scase) : list str :=
  if scase_prop_ok c then [] else
  match s_out c with
  | SRefused _ => [b "REFUSED"]
  | SPassed cl h =>
      (if Bool.eqb cl (q_close (s_in c)) then [] else [b "CLOSE"]) ++
      nodup (list_eq_dec N.eq_dec)
        (filter (fun k => negb (key_ok (s_tag c) (s_in c) h k)) (doc_keys ++ keys (q_hdr (s_in c)) ++ keys h))
  end.
Fixpoint diag_from {A} (f : A -> list str) (i : N) (l : list A) : list (N * list str) :=
  match l with
  | [] => []
  | x :: r => match f x with [] => diag_from f (i + 1) r | d => (i, d) :: diag_from f (i + 1) r end
  end.
Definition diag_bad {A} (f : A -> list str) (l : list A) := diag_from f 0 l.
