(* C18 — property theorems.  Nothing but statements, `exact`, Print Assumptions.
   via_modify is the Gallina transcription of ViaModifier.ModifyRequest with the
   shapes/constants of the current source (Tables.v); a tag is name ++ "-" ++ hex(10 random bytes). *)
From G01 Require Import Via ViaCheck ViaProofs Ob18.
From G01 Require Import ReqE2E ReqProofs RouteProofs Ob01 RouteOracle.

(* The forwarded request carries ONE Via field whose list elements are all elements received
   (over all field lines, in order) followed by exactly this instance's element, with the
   protocol version the client used; no other field is touched. *)
Theorem T18_appends_after_existing : forall tag maj min h h',
  tag_ok tag = true -> maj < 10 -> min < 10 ->
  via_modify tag maj min h = ViaOk h' ->
  exists v, h_values via_key h' = [v] /\
            chain [v] = chain (h_values via_key h) ++ [elem tag maj min] /\
            (forall k, k <> via_key -> raw_get k h' = raw_get k h).
Proof. exact f_appends. Qed.
Print Assumptions T18_appends_after_existing.

(* The tag text anywhere in any received Via field line => 400, connection closed, nothing forwarded. *)
Theorem T18_detects_own_element : forall tag maj min h l,
  tag <> [] -> In l (h_values via_key h) -> contains l tag = true ->
  via_modify tag maj min h = ViaRefused 400 true /\
  exchange_of (via_modify tag maj min h) = Answered 400.
Proof. exact f_detects_own. Qed.
Print Assumptions T18_detects_own_element.

(* ... in particular when some RFC 7230 list element of the chain has the tag as its received-by
   (whatever protocol, white space, comment, or later elements surround it). *)
Theorem T18_detects_own_list_element : forall tag maj min h,
  tag <> [] -> own_elem tag (h_values via_key h) = true ->
  via_modify tag maj min h = ViaRefused 400 true /\
  exchange_of (via_modify tag maj min h) = Answered 400.
Proof. exact f_detects_own_element. Qed.
Print Assumptions T18_detects_own_list_element.

(* A loop of one instance ends at its first repetition. *)
Theorem T18_self_loop : forall tag maj min h h' maj' min',
  via_modify tag maj min h = ViaOk h' ->
  via_modify tag maj' min' h' = ViaRefused 400 true /\
  exchange_of (via_modify tag maj' min' h') = Answered 400.
Proof. exact f_self_loop. Qed.
Print Assumptions T18_self_loop.

(* A -> B -> A: for ANY intermediate B whose effect on the Via field lines keeps A's tag text
   somewhere in the chain, A refuses the request when it comes back. *)
Theorem T18_two_proxy_loop : forall tag maj min h h' (B : list str -> list str) h'' maj' min',
  tag <> [] ->
  (forall ls, own_sub tag ls = true -> own_sub tag (B ls) = true) ->
  via_modify tag maj min h = ViaOk h' ->
  h_values via_key h'' = B (h_values via_key h') ->
  via_modify tag maj' min' h'' = ViaRefused 400 true /\
  exchange_of (via_modify tag maj' min' h'') = Answered 400.
Proof. exact f_two_proxy_loop. Qed.
Print Assumptions T18_two_proxy_loop.

(* Such B: another instance of this modifier (any tag, also one with the same name), a hop that
   merges all field lines into one, a hop that splits them at commas (tag without comma). *)
Theorem T18_hops_keep_tag : forall tag,
  (forall tag' maj min h h', via_modify tag' maj min h = ViaOk h' ->
      own_sub tag (h_values via_key h) = true -> own_sub tag (h_values via_key h') = true) /\
  (forall ls, own_sub tag ls = true -> own_sub tag [join comma_sp ls] = true) /\
  (~ In 44 tag -> forall ls, own_sub tag ls = true -> own_sub tag (flat_map (split_byte 44) ls) = true).
Proof. exact f_hops_keep_tag. Qed.
Print Assumptions T18_hops_keep_tag.

(* Chains in which the tag text does not occur are forwarded. *)
Theorem T18_foreign_forwarded : forall tag maj min h,
  tag_ok tag = true -> own_sub tag (h_values via_key h) = false ->
  exists h', via_modify tag maj min h = ViaOk h' /\
             exchange_of (via_modify tag maj min h) = ForwardedOn h'.
Proof. exact f_foreign_forwarded. Qed.
Print Assumptions T18_foreign_forwarded.

(* ... and the element of another instance configured with the SAME name is such a chain element:
   "<proto> name-hex'" (proto shorter than 20 bytes) never contains "name-hex" when hex <> hex'. *)
Theorem T18_same_name_other_instance : forall name h1 h2 p,
  hex20 h1 = true -> hex20 h2 = true -> h1 <> h2 -> (length p < 20)%nat ->
  contains (p ++ [32] ++ name ++ [45] ++ h2) (name ++ [45] ++ h1) = false.
Proof. exact same_name_other_instance. Qed.
Print Assumptions T18_same_name_other_instance.

(* The error carried by the refusal is answered with status 400 by HTTPProxy.errorResponse
   (handler list of the current source). *)
Theorem T18_status_400 : status_of_error_status via_loop_status = 400.
Proof. exact status_400. Qed.
Print Assumptions T18_status_400.

(* The model satisfies, for every input, the predicate that each run evaluates on the implementation ... *)
Theorem T18_model_satisfies_oracle : forall tag maj min h,
  tag_ok tag = true -> maj < 10 -> min < 10 ->
  via_prop_ok tag maj min h (via_modify tag maj min h) = true.
Proof. exact f_model_satisfies_oracle. Qed.
Print Assumptions T18_model_satisfies_oracle.

(* ... and that predicate means what the property says. *)
Theorem T18_oracle_sound : forall tag maj min h r,
  via_prop_ok tag maj min h r = true -> ViaSpec tag maj min h r.
Proof. exact via_prop_ok_sound. Qed.
Print Assumptions T18_oracle_sound.

(* The shape the source had before commit 88c7576 (first Via field line only) is refuted: own
   element on the second line is forwarded and the second line is lost ... *)
Theorem T18_first_line_only_refuted : exists tag h h',
  tag_ok tag = true /\ own_elem tag (h_values via_key h) = true /\
  via_modify_gen false tag 1 1 h = ViaOk h' /\
  chain (h_values via_key h') <> chain (h_values via_key h) ++ [elem tag 1 1].
Proof. exact legacy_shape_refuted. Qed.
Print Assumptions T18_first_line_only_refuted.

(* ... and an intermediate hop of that shape is NOT a B as required by T18_two_proxy_loop. *)
Theorem T18_first_line_only_hop_loses_tag : exists tag tag' h h',
  own_sub tag (h_values via_key h) = true /\
  via_modify_gen false tag' 1 1 h = ViaOk h' /\
  own_sub tag (h_values via_key h') = false.
Proof. exact legacy_hop_loses_tag. Qed.
Print Assumptions T18_first_line_only_hop_loses_tag.

(* ---- ROUTES, over the whole request modifier stack (hop-by-hop removal, forwarded, framing, via, inner group with
   any header rules / credentials): modify_request_cfg / modify_request of ReqPipeline.v. ---- *)

(* This instance's tag text in a Via field line that survives the documented hop-by-hop removal: the stack never
   forwards the request, and answers 400 unless its Content-Length fields are contradictory (then 500). *)
Theorem T18_stack_refuses_own_element : forall cfg tag r,
  tag <> [] -> via_survives tag (q_hdr r) = true ->
  (forall r', modify_request_cfg cfg tag r <> Passed r') /\
  (framing_contradictory (after_removal (q_hdr r)) = false -> modify_request_cfg cfg tag r = Refused 400).
Proof. exact f18_stack_refuses_own. Qed.
Print Assumptions T18_stack_refuses_own_element.

(* A forwarding loop terminates at its first repetition: A forwarded r as r1; after ANY hops whose combined effect
   on the header keeps A's tag text in a surviving Via line the request reaches A again as r2: A does not forward it. *)
Theorem T18_route_terminates : forall tag r r1 (hops : hmap -> hmap) r2 cfg,
  tag <> [] -> modify_request tag r = Passed r1 ->
  (own_sub tag (raw_values via_key (q_hdr r1)) = true -> via_survives tag (hops (q_hdr r1)) = true) ->
  q_hdr r2 = hops (q_hdr r1) ->
  (forall r3, modify_request_cfg cfg tag r2 <> Passed r3) /\
  (framing_contradictory (after_removal (q_hdr r2)) = false -> modify_request_cfg cfg tag r2 = Refused 400).
Proof. exact f18_route_terminates. Qed.
Print Assumptions T18_route_terminates.

(* A -> A.  wire_ok: what travels between two hops keeps the Via field lines and adds at most "Connection: close"
   (the modelled net/http Transport is such a wire: T18_transport_is_wire). *)
Theorem T18_self_route : forall tag r r1 r2 cfg,
  tag <> [] -> modify_request tag r = Passed r1 -> wire_ok (q_hdr r1) (q_hdr r2) ->
  forall r3, modify_request_cfg cfg tag r2 <> Passed r3.
Proof. exact f18_self_route. Qed.
Print Assumptions T18_self_route.

(* A -> B -> A, B another instance of this stack with any tag (also one configured with the same name). *)
Theorem T18_two_instance_route : forall tagA tagB rA r1 r2 r3 r4 cfg,
  tagA <> [] ->
  modify_request tagA rA = Passed r1 -> wire_ok (q_hdr r1) (q_hdr r2) ->
  modify_request tagB r2 = Passed r3 -> wire_ok (q_hdr r3) (q_hdr r4) ->
  forall r5, modify_request_cfg cfg tagA r4 <> Passed r5.
Proof. exact f18_two_instance_route. Qed.
Print Assumptions T18_two_instance_route.

Theorem T18_transport_is_wire : forall x r, wire_ok (q_hdr r) (transport_hdr x r).
Proof. exact transport_hdr_is_wire. Qed.
Print Assumptions T18_transport_is_wire.

(* ---- ROUTES OF ANY LENGTH at the level of the Via chain.  model_route is the executable route model the end-to-end
   runs compare with real routes of proxy instances (ecase_model_ok); ecase_prop_ok is the route oracle they evaluate
   on what the real routes did.  hops_ok: every hop's tag is a list element of its own (no comma / white space, not
   empty) and the versions are one digit. ---- *)
(* For EVERY route (any number of hops, instances repeated or not, same-name instances, any client chain, CONNECT or
   not) the observation the model predicts passes the route oracle: refusal with 400 and no origin contact at the
   first hop that finds its own element, otherwise one origin contact with the client's chain followed by the hops'
   elements in order. *)
Theorem T18_route_model_satisfies_oracle : forall hops lines connect,
  hops_ok hops -> tags_unique hops = true ->
  ecase_model_ok (predicted_ecase hops lines connect) = true /\ ecase_prop_ok (predicted_ecase hops lines connect) = true.
Proof. exact route_model_satisfies_oracle. Qed.
Print Assumptions T18_route_model_satisfies_oracle.

(* A forwarding loop of any length terminates at its first repetition: whatever hops precede the first visit of an
   instance, lie between its two visits and follow, the route is refused with 400 (never delivered). *)
Theorem T18_route_refused_at_repetition : forall pre p mid p' post h,
  hp_tag p <> [] -> hp_tag p' = hp_tag p ->
  model_route (pre ++ p :: mid ++ p' :: post) false h = RouteRefused 400.
Proof. exact route_refused_at_repetition. Qed.
Print Assumptions T18_route_refused_at_repetition.

(* With "Connection: Via" from the client the first hop drops the chain before looking at it (known finding
   e2e-loop-not-refused-connection-nominates-via): the route oracle is refuted for nominated chains. *)
Theorem T18_route_nominated_refuted : exists p lines vl,
  hops_ok [p] /\ own_elem (hp_tag p) lines = true /\ model_route [p] true (lines_hmap lines) = RouteDelivered vl /\ spec_route [p] true false (chain lines) false 200 1 vl = false.
Proof. exact route_nominated_refuted. Qed.
Print Assumptions T18_route_nominated_refuted.

Example T18_route_example :
  let A := ex_hop 1 "fwd-00112233445566778899" in
  let B := ex_hop 2 "fwd-aabbccddeeff00112233" in
  let C := ex_hop 3 "other-0123456789abcdef0123" in
  hops_ok [A; B; C; A; B] /\ tags_unique [A; B; C; A; B] = true /\
  model_route [A; B; C; A; B] false (lines_hmap [b "1.0 edge (x)"]) = RouteRefused 400 /\
  model_route [A; B; C] false (lines_hmap [b "1.0 edge (x)"]) =
    RouteDelivered [b "1.0 edge (x), 1.1 fwd-00112233445566778899, 1.1 fwd-aabbccddeeff00112233, 1.1 other-0123456789abcdef0123"].
Proof. exact route_example. Qed.

(* Non-vacuity: a concrete chain over two field lines with a comment is forwarded with the
   element appended, and comes back refused. *)
Example T18_example :
  let tag := mk_tag (b "forwarder") (b "00112233445566778899") in
  let h := [(b "Accept", [b "*/*"]); (via_key, [b "1.0 alpha (x)"; b "1.1 forwarder-aabbccddeeff00112233"])] in
  tag_ok tag = true /\
  via_modify tag 1 0 h =
    ViaOk ((via_key, [b "1.0 alpha (x), 1.1 forwarder-aabbccddeeff00112233, 1.0 forwarder-00112233445566778899"])
           :: [(b "Accept", [b "*/*"])]) /\
  via_modify tag 1 1 [(via_key, [b "1.0 alpha (x)"; b "1.1 forwarder-aabbccddeeff00112233, 1.0 forwarder-00112233445566778899"])]
    = ViaRefused 400 true.
Proof. exact (conj eq_refl (conj eq_refl eq_refl)). Qed.
