(* C18 — property theorems (stage 0: thin loop) *)
From G01 Require Import Via ViaCheck ViaProofs Ob18.
