(* C01 — property theorems.  Nothing but statements, `exact`, Print Assumptions.
   modify_request = the request modifier stack as configured by HTTPProxy.middlewareStack without access
   controls, header rules or credentials, in the order read from the source (Tables.v);
   handle_request = proxyConn.handle up to roundTrip.  A request is what net/http.ReadRequest hands over.
   after_removal h = h without the documented hop-by-hop fields and the names its Connection field nominates. *)
From G01 Require Import ReqE2E ViaProofs ReqProofs E2EProofs Ob18 Ob01 BodyStream.

(* Every end-to-end field reaches the next hop with the same values in the same per-name order. *)
Theorem T01_end_to_end_preserved : forall tag r r' k,
  modify_request tag r = Passed r' ->
  is_removed k (q_hdr r) = false -> mem k doc_keys = false ->
  raw_get k (q_hdr r') = raw_get k (q_hdr r).
Proof. exact f01_end_to_end. Qed.
Print Assumptions T01_end_to_end_preserved.

(* Hop-by-hop fields and every name nominated by Connection are gone
   (the documented fields Via / X-Forwarded-* / User-Agent / Content-Length have their own clauses). *)
Theorem T01_hop_by_hop_removed : forall tag r r' k,
  modify_request tag r = Passed r' ->
  is_removed k (q_hdr r) = true -> mem k doc_keys = false ->
  raw_get k (q_hdr r') = None.
Proof. exact f01_removed. Qed.
Print Assumptions T01_hop_by_hop_removed.

(* ... Connection / Upgrade come back only when an upgrade is requested, exactly as Connection: Upgrade + Upgrade: t. *)
Theorem T01_upgrade_readded_only_on_request : forall tag r r',
  handle_request tag r = Passed r' ->
  exists r1, modify_request tag (prep r) = Passed r1 /\
  let up := upgrade_type (q_hdr r) in
  (is_empty up = false -> raw_get k_connection (q_hdr r') = Some [k_upgrade] /\ raw_get k_upgrade (q_hdr r') = Some [up]) /\
  (is_empty up = true -> raw_get k_connection (q_hdr r') = None /\ raw_get k_upgrade (q_hdr r') = None) /\
  (forall k, k <> k_connection -> k <> k_upgrade -> raw_get k (q_hdr r') = raw_get k (q_hdr r1)).
Proof. exact f01_upgrade. Qed.
Print Assumptions T01_upgrade_readded_only_on_request.

(* One Via element and the client address in X-Forwarded-For are appended to what was received
   (all field lines, in order); a chain containing this instance's own element is never forwarded. *)
Theorem T01_via_xff_appended : forall tag r r',
  tag_ok tag = true -> q_maj r < 10 -> q_min r < 10 -> modify_request tag r = Passed r' ->
  let h0 := after_removal (q_hdr r) in
  chain (raw_values via_key (q_hdr r')) = chain (raw_values via_key h0) ++ [elem tag (q_maj r) (q_min r)] /\
  own_elem tag (raw_values via_key h0) = false /\
  (str_eqb (q_method r) m_connect = false -> tag_ok (client_ip r) = true ->
     chain (raw_values k_xff (q_hdr r')) = chain (raw_values k_xff h0) ++ [client_ip r]).
Proof. exact f01_via_xff. Qed.
Print Assumptions T01_via_xff_appended.

(* X-Forwarded-Proto / Host / Url are filled in exactly when every received field line of that name is empty. *)
Theorem T01_forwarded_filled_only_when_absent : forall tag r r',
  modify_request tag r = Passed r' -> str_eqb (q_method r) m_connect = false ->
  let h0 := after_removal (q_hdr r) in
  raw_get k_xfp (q_hdr r') = (if is_empty (concat (raw_values k_xfp h0)) then Some [q_scheme r] else raw_get k_xfp h0) /\
  raw_get k_xfh (q_hdr r') = (if is_empty (concat (raw_values k_xfh h0)) then Some [q_host r] else raw_get k_xfh h0) /\
  raw_get k_xfu (q_hdr r') = (if is_empty (concat (raw_values k_xfu h0)) then Some [q_urlstr r] else raw_get k_xfu h0).
Proof. exact f01_filled. Qed.
Print Assumptions T01_forwarded_filled_only_when_absent.

(* No User-Agent is invented: the field keeps the client's values, and when the client sent none it is
   set to the empty value, so that the User-Agent key is never absent when net/http writes the request
   (an absent key is the only case in which net/http adds its default). *)
Theorem T01_no_user_agent_invented : forall tag r r',
  modify_request tag r = Passed r' ->
  raw_get k_ua (q_hdr r') = (match raw_get k_ua (after_removal (q_hdr r)) with Some vs => Some vs | None => Some [[]] end) /\
  raw_get k_ua (q_hdr r') <> None.
Proof. exact (fun tag r r' H => conj (f01_user_agent tag r r' H) (f01_user_agent_never_default tag r r' H)). Qed.
Print Assumptions T01_no_user_agent_invented.

(* Method, Host, URL, scheme, version and the close flag pass through the stack unchanged. *)
Theorem T01_method_target_host_identity : forall tag r r',
  modify_request tag r = Passed r' ->
  q_method r' = q_method r /\ q_host r' = q_host r /\ q_urlstr r' = q_urlstr r /\ q_scheme r' = q_scheme r /\
  q_maj r' = q_maj r /\ q_min r' = q_min r /\ q_close r' = q_close r.
Proof. exact f01_identity. Qed.
Print Assumptions T01_method_target_host_identity.

(* Body framing (MODELLED Transport layer): the next hop sees the client's framing kind;
   an empty Content-Length body counts as no body. *)
Theorem T01_body_framing : forall x t r o,
  transport_out x t r = Some o -> xi_framing x <= 2 ->
  xo_framing o = norm_framing (xi_framing x) (xi_blen x).
Proof. exact body_framing. Qed.
Print Assumptions T01_body_framing.

(* While the body is read only the whole-request deadline is armed (none with forwarder's default ReadTimeout = 0):
   a body may take longer than ReadHeaderTimeout.  (Deadline arithmetic of the model; that slow bodies arrive
   complete is tested end to end with a 300 ms header timeout.) *)
Theorem T01_body_not_under_header_deadline : forall hdr whole, body_read_deadline hdr whole = whole.
Proof. exact body_deadline_is_whole. Qed.
Print Assumptions T01_body_not_under_header_deadline.

(* The k-th request of a keep-alive connection is treated like the first: the pipeline is a function of the
   current request only (true by construction of the model; that the implementation keeps no state between
   requests, incl. the bufio reader synchronisation, is tested end to end). *)
Theorem T01_keepalive_stateless : forall tag (before after : list mreq) r,
  nth_error (map (handle_request tag) (before ++ r :: after)) (length before) = Some (handle_request tag r).
Proof. exact keepalive_stateless. Qed.
Print Assumptions T01_keepalive_stateless.

(* "Configured header rules and site credentials are applied": the configured stack is the httpspec part (everything
   above), then the rules of the request's kind (--header, or --connect-header for CONNECT) in order, then the site
   credentials, then the User-Agent sentinel -- and nothing else; without configuration the two steps vanish. *)
Theorem T01_user_rules_applied : forall cfg tag r,
  modify_request_cfg cfg tag r =
    match core_stack tag r with
    | Refused s => Refused s
    | Passed r1 =>
        Passed (set_hdr r1 (set_empty_user_agent (site_auth cfg
                  (G16.Model.apply_rules (if str_eqb (q_method r) m_connect then p_connect_rules cfg else p_request_rules cfg)
                                         (q_hdr r1)))))
    end /\
  modify_request tag r =
    match core_stack tag r with
    | Refused s => Refused s
    | Passed r1 => Passed (set_hdr r1 (set_empty_user_agent (q_hdr r1)))
    end.
Proof. exact f01_rules_and_credentials. Qed.
Print Assumptions T01_user_rules_applied.

(* ... where applying a rule list means what C16 proves it means (documented meaning of every rule, in order). *)
Theorem T01_user_rules_meet_c16_spec : forall rs h, G16.Proofs.Specs rs h (G16.Model.apply_rules rs h).
Proof. exact G16.C16.T16_apply_is_spec. Qed.
Print Assumptions T01_user_rules_meet_c16_spec.

(* Site credentials: Authorization is attached exactly when the request carries no Authorization field at that point
   (none from the client, none added by a rule) and the credentials matcher has an entry for the URL; an Authorization
   the client sent -- whatever its value, even empty -- is never replaced; no other field is touched. *)
Theorem T01_site_credentials_attached_only_when_absent : forall cfg h k,
  raw_get k (site_auth cfg h) =
    if str_eqb k k_authorization then
      match raw_get k_authorization h with
      | Some vs => Some vs
      | None => match p_cred cfg with Some (u, p) => Some [basic_value u p] | None => None end
      end
    else raw_get k h.
Proof. exact f01_site_auth. Qed.
Print Assumptions T01_site_credentials_attached_only_when_absent.

(* All clauses at once: for EVERY request the model's output satisfies the predicate that each run evaluates
   on the real modifier stack (scase_prop_ok: per field name the documented behaviour; refusal only for a loop
   (400) or contradictory Content-Length fields). *)
Theorem T01_model_satisfies_oracle : forall tag r,
  tag_ok tag = true -> q_maj r < 10 -> q_min r < 10 ->
  (str_eqb (q_method r) m_connect = true \/ tag_ok (client_ip r) = true) ->
  scase_prop_ok {| s_tag := tag; s_in := r; s_out := result_of (modify_request tag r) |} = true.
Proof. exact f01_model_satisfies_oracle. Qed.
Print Assumptions T01_model_satisfies_oracle.

(* END TO END.  For every well-formed client request (wf_x: one-digit version, IPv4-like client address, not CONNECT, a
   path net/url does not re-encode, no "Pragma: no-cache" without Cache-Control, at most one User-Agent line, a non-empty
   first Accept-Encoding value, framing fields consistent with the body -- the excluded inputs are the known findings and
   net/http quirks listed in design.d/C01.md) the observation that e2e_model predicts -- ReadRequest layer, this pipeline,
   Transport layer -- has the client's method, target and framing, never forwards the instance's own Via element, and
   passes the per-name predicate xkey_ok of the run-time oracle for EVERY field name.  So the oracle evaluated on the
   implementation (xcase_prop_ok) and the model are tied by a theorem, not only by the run. *)
Theorem T01_e2e_model_satisfies_oracle : forall x e,
  wf_x x = true -> e2e_model x = XSent e ->
  xo_method e = xi_method x /\
  xo_target e = (if xi_mode x =? 1 then b "http://" ++ sent_host x else []) ++ sent_path_query x /\
  xo_framing e = norm_framing (xi_framing x) (xi_blen x) /\
  own_elem (xi_tag x) (raw_values via_key (after_removal (hin_of x))) = false /\
  forall k, xkey_ok x (hin_of x) (xo_hdr e) k = true.
Proof. exact f01_e2e_meets_oracle. Qed.
Print Assumptions T01_e2e_model_satisfies_oracle.

(* ... and when the model does not forward such a request, the reason is a detected loop, answered 400. *)
Theorem T01_e2e_model_refusal : forall x st,
  wf_x x = true -> e2e_model x = XRefused st ->
  framing_contradictory (after_removal (l1_hdr x)) = false ->
  own_sub (xi_tag x) (raw_values via_key (after_removal (hin_of x))) = true /\ st = 400.
Proof. exact f01_e2e_refusal. Qed.
Print Assumptions T01_e2e_model_refusal.

(* THE BYTE STREAM OF A CONNECTION (BodyStream.v: read_lines / read_body / read_conn = how the proxy's reader cuts the
   stream into requests; tied to the real reader by the kcases stream).  A body as the client writes it (wbody): nothing,
   Content-Length bytes, or chunks -- ANY chunking, ANY way of writing each chunk size that denotes the data length
   (case, leading zeros, extensions).  The reader hands over exactly the body bytes and stops exactly where the next
   request begins, whatever follows (rest). *)
Theorem T01_body_bytes_exact : forall fr w rest,
  wbody_ok fr w -> read_body fr (render_body w ++ rest) = Some (body_bytes w, rest).
Proof. exact read_body_app. Qed.
Print Assumptions T01_body_bytes_exact.

(* ... hence EVERY sequence of requests on one connection -- any number, any mix of framings, however the framing is
   decided from the head (fr_of) -- is cut into exactly those requests: the k-th request the reader produces has the
   head lines and the body bytes of the k-th request the client wrote, for every k. *)
Theorem T01_connection_stream_exact : forall fr_of ms fuel,
  Forall (msg_ok fr_of) ms -> (length ms <= fuel)%nat ->
  read_conn fr_of fuel (concat (map render_msg ms)) = Some (map (fun m => (fst m, body_bytes (snd m))) ms).
Proof. intros fr_of ms fuel H. exact (read_conn_app fr_of ms H fuel). Qed.
Print Assumptions T01_connection_stream_exact.

(* The hypotheses are satisfiable for EVERY body and EVERY chunking of it: each length has a size line (lower-case hex). *)
Theorem T01_every_chunking_has_a_rendering : forall chunks, Forall (fun d => d <> []) chunks ->
  let cs := map (fun d => (hex_of (N.of_nat (length d)), d)) chunks in
  Forall chunk_ok cs /\ last_ok (hex_of 0) /\ concat (map snd cs) = concat chunks.
Proof. exact every_body_has_a_rendering. Qed.
Print Assumptions T01_every_chunking_has_a_rendering.

Example T01_stream_example :
  let m1 := ([b "POST /a HTTP/1.1"; b "Host: o"; b "Transfer-Encoding: chunked"],
             WChunked [(b "3", b "abc"); (b "0A;ext=1", b "0123456789")] (b "0")) in
  let m2 := ([b "PUT /b HTTP/1.1"; b "Host: o"; b "Content-Length: 4"], WCl (b "wxyz")) in
  msg_ok framing_of m1 /\ msg_ok framing_of m2 /\
  read_conn framing_of 5 (render_msg m1 ++ render_msg m2) =
    Some [(fst m1, b "abc0123456789"); (fst m2, b "wxyz")].
Proof. exact stream_example. Qed.

(* The stack is the written-out composition, in the source's order. *)
Theorem T01_stack_order : forall tag r, modify_request tag r = pipeline tag r.
Proof. exact f01_modify_is_pipeline. Qed.
Print Assumptions T01_stack_order.

(* The shapes the source had before commits 48b84b4 / e49c846 are refuted. *)
Theorem T01_xff_first_line_only_refuted : exists r,
  str_eqb (q_method r) m_connect = false /\
  raw_values k_xff (q_hdr r) = [b "203.0.113.7"; b "198.51.100.1"] /\
  chain (raw_values k_xff (q_hdr (forwarded_gen2 true false r))) <> chain (raw_values k_xff (q_hdr r)) ++ [b "10.1.2.3"].
Proof. exact legacy_xff_refuted. Qed.
Print Assumptions T01_xff_first_line_only_refuted.

Theorem T01_fill_first_line_only_refuted : exists r,
  str_eqb (q_method r) m_connect = false /\
  raw_get k_xfp (q_hdr r) = Some [[]; b "https"] /\
  raw_get k_xfp (q_hdr (forwarded_gen2 false true r)) = Some [b "http"].
Proof. exact legacy_fill_refuted. Qed.
Print Assumptions T01_fill_first_line_only_refuted.

(* Non-vacuity: a concrete request through handle_request. *)
Example T01_example :
  let tag := mk_tag (b "forwarder") (b "00112233445566778899") in
  let r := mkq (b "GET") [] (b "example.com") (b "http://example.com/a?b") (b "10.1.2.3:4567") false 1 1 false
             [(b "X-A", [b "1"; b "2"]); (k_connection, [b "x-b, keep-alive"]); (b "X-B", [b "gone"]);
              (b "Keep-Alive", [b "timeout=5"]); (k_xff, [b "203.0.113.7"; b "198.51.100.1"]); (via_key, [b "1.0 alpha"])] in
  match handle_request tag r with
  | Passed r' =>
      hmap_eqb (q_hdr r')
        [(b "X-A", [b "1"; b "2"]); (k_xff, [b "203.0.113.7, 198.51.100.1, 10.1.2.3"]);
         (via_key, [b "1.0 alpha, 1.1 forwarder-00112233445566778899"]);
         (k_xfp, [b "http"]); (k_xfh, [b "example.com"]); (k_xfu, [b "http://example.com/a?b"]); (k_ua, [[]])] = true
  | Refused _ => False
  end.
Proof. exact example_01. Qed.
