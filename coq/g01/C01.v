From G01 Require Import ReqE2E ReqProofs Ob01.
