(* C18 — table obligations: facts about the source as extracted into Tables.v on
   this run, each discharged by closed computation, and the lemmas of
   ViaProofs.v instantiated with them.  When the source changes shape exactly
   the obligation naming that shape stops checking. *)
From G01 Require Import Via ViaCheck ViaProofs.

Lemma ob_via_reads_all_lines : via_reads_all_lines = true.
Proof. vm_compute. reflexivity. Qed.
Lemma ob_via_loop_status : via_loop_status = 400.
Proof. vm_compute. reflexivity. Qed.
Lemma ob_via_sets_close : via_sets_close = true.
Proof. vm_compute. reflexivity. Qed.
Lemma ob_via_join_sep : via_join_sep = comma_sp.
Proof. vm_compute. reflexivity. Qed.
Lemma ob_via_tag_sep : via_tag_sep = [45].
Proof. vm_compute. reflexivity. Qed.
(* the protocol arms print major.minor for every version net/http can parse (0.0 .. 9.9) *)
Lemma ob_proto_table : proto_table_ok = true.
Proof. vm_compute. reflexivity. Qed.
(* the instance boundary carries at least 80 random bits, hex encoded *)
Lemma ob_boundary_bits : 80 <= via_boundary_bytes * 8.
Proof. vm_compute. discriminate. Qed.
(* errorResponse consults handleMartianErrorStatus *)
Lemma ob_status_handler_listed : In (b "handleMartianErrorStatus") error_handlers.
Proof. vm_compute. tauto. Qed.
(* proxyConn.handle / handleConnectRequest: an error from modifyRequest returns the error response before roundTrip / Connect *)
Lemma ob_error_returns_before_roundtrip : modify_error_returns_before_roundtrip = true.
Proof. vm_compute. reflexivity. Qed.
Lemma ob_error_returns_before_connect : modify_error_returns_before_connect = true.
Proof. vm_compute. reflexivity. Qed.
(* the Via modifier is part of the request stack *)
Lemma ob_via_in_stack : In (b "NewViaModifier") stack_request_order.
Proof. vm_compute. tauto. Qed.

(* every stack gets its own random boundary: NewStack calls header.NewViaModifier, which calls randomBoundary() *)
Lemma ob_stack_via_fresh_boundary : stack_via_fresh_boundary = true.
Proof. vm_compute. reflexivity. Qed.
(* CONNECT through an upstream HTTP(S) proxy always carries the modified client header (incl. Via) *)
Lemma ob_connect_header_cloned : connect_header_cloned_unconditionally = true.
Proof. vm_compute. reflexivity. Qed.

(* dialvia: the CONNECT sent to an upstream proxy carries the client's header AND the callback's result *)
Lemma ob_connect_header_merged : connect_header_merges_client_and_callback = true.
Proof. vm_compute. reflexivity. Qed.

(* ---------- consequences ---------- *)
Lemma via_modify_fixed : via_modify = via_modify_gen true.
Proof. unfold via_modify. rewrite ob_via_reads_all_lines. reflexivity. Qed.

Lemma status_400 : status_of_error_status via_loop_status = 400.
Proof.
  rewrite ob_via_loop_status. unfold status_of_error_status.
  apply first_nonzero_status; [discriminate | exact ob_status_handler_listed].
Qed.

Lemma refused_is_answered_400 cl : exchange_of (ViaRefused 400 cl) = Answered 400.
Proof.
  unfold exchange_of. rewrite ob_error_returns_before_roundtrip.
  pose proof status_400 as H. rewrite ob_via_loop_status in H. rewrite H. reflexivity.
Qed.

Lemma f_detects_own tag maj min h l :
  tag <> [] -> In l (h_values via_key h) -> contains l tag = true ->
  via_modify tag maj min h = ViaRefused 400 true /\ exchange_of (via_modify tag maj min h) = Answered 400.
Proof.
  intros A B C. rewrite via_modify_fixed.
  rewrite (detects_own 400 true ob_via_loop_status ob_via_sets_close tag maj min h l A B C).
  split; [reflexivity | apply refused_is_answered_400].
Qed.

Lemma f_detects_own_element tag maj min h :
  tag <> [] -> own_elem tag (h_values via_key h) = true ->
  via_modify tag maj min h = ViaRefused 400 true /\ exchange_of (via_modify tag maj min h) = Answered 400.
Proof.
  intros A B. apply own_elem_sub in B; [|exact A]. apply own_sub_spec in B as [l [Hin Hi]].
  apply (f_detects_own tag maj min h l A Hin). apply contains_spec. exact Hi.
Qed.

Lemma f_appends tag maj min h h' :
  tag_ok tag = true -> maj < 10 -> min < 10 -> via_modify tag maj min h = ViaOk h' ->
  exists v, h_values via_key h' = [v] /\
            chain [v] = chain (h_values via_key h) ++ [elem tag maj min] /\
            (forall k, k <> via_key -> raw_get k h' = raw_get k h).
Proof.
  intros Ht Hm Hn H. rewrite via_modify_fixed in H.
  destruct (proto_table maj min ob_proto_table Hm Hn) as [Hpe Hp].
  pose proof (model_satisfies_prop 400 true ob_via_loop_status ob_via_sets_close ob_via_join_sep
                tag maj min h eq_refl eq_refl Ht Hp Hpe) as Hok.
  rewrite H in Hok. apply via_prop_ok_sound in Hok. destruct Hok as [_ [Hch Hoth]].
  rewrite <- Hpe in Hp.
  destruct (appends_after_existing 400 true ob_via_loop_status ob_via_sets_close ob_via_join_sep
              tag maj min h h' Ht Hp H) as [v [Hv _]].
  exists v. split; [exact Hv|]. split; [rewrite <- Hv; exact Hch | exact Hoth].
Qed.

Lemma f_self_loop tag maj min h h' maj' min' :
  via_modify tag maj min h = ViaOk h' ->
  via_modify tag maj' min' h' = ViaRefused 400 true /\ exchange_of (via_modify tag maj' min' h') = Answered 400.
Proof.
  intro H. rewrite via_modify_fixed in *.
  rewrite (self_loop 400 true ob_via_loop_status ob_via_sets_close tag maj min h h' maj' min' H).
  split; [reflexivity | apply refused_is_answered_400].
Qed.

Lemma f_two_proxy_loop tag maj min h h' (B : list str -> list str) h'' maj' min' :
  tag <> [] ->
  (forall ls, own_sub tag ls = true -> own_sub tag (B ls) = true) ->
  via_modify tag maj min h = ViaOk h' ->
  h_values via_key h'' = B (h_values via_key h') ->
  via_modify tag maj' min' h'' = ViaRefused 400 true /\ exchange_of (via_modify tag maj' min' h'') = Answered 400.
Proof.
  intros A HB H HB2. rewrite via_modify_fixed in *.
  rewrite (two_proxy_loop 400 true ob_via_loop_status ob_via_sets_close tag maj min h h' B h'' maj' min' A HB H HB2).
  split; [reflexivity | apply refused_is_answered_400].
Qed.

Lemma f_hops_keep_tag tag :
  (forall tag' maj min h h', via_modify tag' maj min h = ViaOk h' ->
      own_sub tag (h_values via_key h) = true -> own_sub tag (h_values via_key h') = true) /\
  (forall ls, own_sub tag ls = true -> own_sub tag [join comma_sp ls] = true) /\
  (~ In 44 tag -> forall ls, own_sub tag ls = true -> own_sub tag (flat_map (split_byte 44) ls) = true).
Proof.
  split; [|split].
  - intros tag' maj min h h' H. rewrite via_modify_fixed in H.
    exact (hop_keeps tag tag' maj min h h' H).
  - exact (merge_keeps tag).
  - intros H ls. exact (split_keeps tag ls H).
Qed.

Lemma f_foreign_forwarded tag maj min h :
  tag_ok tag = true -> own_sub tag (h_values via_key h) = false ->
  exists h', via_modify tag maj min h = ViaOk h' /\ exchange_of (via_modify tag maj min h) = ForwardedOn h'.
Proof.
  intros A B. rewrite via_modify_fixed.
  rewrite (foreign_forwarded ob_via_join_sep tag maj min h A B).
  eexists. split; reflexivity.
Qed.

Lemma f_model_satisfies_oracle tag maj min h :
  tag_ok tag = true -> maj < 10 -> min < 10 ->
  via_prop_ok tag maj min h (via_modify tag maj min h) = true.
Proof.
  intros Ht Hm Hn. rewrite via_modify_fixed.
  destruct (proto_table maj min ob_proto_table Hm Hn) as [Hpe Hp].
  exact (model_satisfies_prop 400 true ob_via_loop_status ob_via_sets_close ob_via_join_sep
           tag maj min h eq_refl eq_refl Ht Hp Hpe).
Qed.

(* the shape the source had before the repair (first field line only) violates both clauses *)
Lemma legacy_shape_refuted :
  exists tag h h',
    tag_ok tag = true /\ own_elem tag (h_values via_key h) = true /\
    via_modify_gen false tag 1 1 h = ViaOk h' /\
    chain (h_values via_key h') <> chain (h_values via_key h) ++ [elem tag 1 1].
Proof.
  exists (b "fwd-00112233445566778899"),
         [(via_key, [b "1.1 alpha"; b "1.1 fwd-00112233445566778899"])].
  eexists. split; [reflexivity|]. split; [reflexivity|]. split; [reflexivity|].
  vm_compute. discriminate.
Qed.

(* ... and an intermediate hop of that shape loses the first proxy's element, so A->B->A is not caught by A *)
Lemma legacy_hop_loses_tag :
  exists tag tag' h h',
    own_sub tag (h_values via_key h) = true /\
    via_modify_gen false tag' 1 1 h = ViaOk h' /\
    own_sub tag (h_values via_key h') = false.
Proof.
  exists (b "fwd-00112233445566778899"), (b "b-ffeeddccbbaa99887766"),
         [(via_key, [b "1.1 alpha"; b "1.1 fwd-00112233445566778899"])].
  eexists. split; [reflexivity|]. split; reflexivity.
Qed.
