(* C01 — the byte stream of a keep-alive connection: how the proxy's reader cuts it into requests (head lines, then a body
   delimited by Content-Length or by chunked transfer coding), as an executable model, and the theorem that for EVERY
   sequence of requests, every way of chunking the bodies and every way of writing the chunk sizes the reader recovers
   exactly each request's head lines and body bytes and stops exactly where the next request begins.
   The body the reader hands over is what the Transport streams to the next hop (re-framed), so "a body of identical
   bytes and length, on every request of a keep-alive connection" is this theorem plus the differential stream that
   ties read_conn to the real reader (kcases: the model reads the bytes the client really wrote; the bodies must be the
   ones the origin really received). *)
From Coq Require Import List NArith Lia Bool.
From FwdLib Require Import Bytes.
Import ListNotations.
Local Open Scope N_scope.

Definition crlf : str := [13; 10].

(* ---------- lines ---------- *)
Definition starts_crlf (s : str) : bool :=
  match s with c :: d :: _ => (c =? 13) && (d =? 10) | _ => false end.

(* the bytes before the first CRLF and the bytes after it *)
Fixpoint upto_crlf (s : str) : option (str * str) :=
  match s with
  | [] => None
  | c :: r => if starts_crlf s then Some ([], tl r)
              else match upto_crlf r with Some (l, rest) => Some (c :: l, rest) | None => None end
  end.

(* head: lines up to the first empty line *)
Fixpoint read_lines (fuel : nat) (s : str) : option (list str * str) :=
  match fuel with
  | O => None
  | S f => match upto_crlf s with
           | None => None
           | Some ([], r) => Some ([], r)
           | Some (l, r) => match read_lines f r with Some (ls, r') => Some (l :: ls, r') | None => None end
           end
  end.

(* ---------- chunk-size lines: 1*HEXDIG [ ";" chunk-ext ] ---------- *)
Definition hexval (c : N) : option N :=
  if (48 <=? c) && (c <=? 57) then Some (c - 48)
  else if (97 <=? c) && (c <=? 102) then Some (c - 87)
  else if (65 <=? c) && (c <=? 70) then Some (c - 55) else None.

Fixpoint hex_go (acc : N) (s : str) : N * str :=
  match s with
  | c :: r => match hexval c with Some v => hex_go (acc * 16 + v) r | None => (acc, s) end
  | [] => (acc, [])
  end.

Definition parse_size (line : str) : option N :=
  match line with
  | c :: _ => match hexval c with
              | None => None
              | Some _ => match hex_go 0 line with
                          | (n, []) => Some n
                          | (n, d :: _) => if d =? 59 then Some n else None
                          end
              end
  | [] => None
  end.

(* ---------- bodies ---------- *)
(* chunked: size line, data, CRLF, ..., a size line denoting 0, CRLF (no trailer fields: those are forwarded by a
   different path and are tested end to end) *)
Fixpoint read_chunked (fuel : nat) (acc : str) (s : str) : option (str * str) :=
  match fuel with
  | O => None
  | S f =>
      match upto_crlf s with
      | None => None
      | Some (line, r) =>
          match parse_size line with
          | None => None
          | Some n =>
              if n =? 0 then (if starts_crlf r then Some (acc, skipn 2 r) else None)
              else let k := N.to_nat n in
                   if Nat.leb k (length r) && starts_crlf (skipn k r)
                   then read_chunked f (acc ++ firstn k r) (skipn (2 + k) r)
                   else None
          end
      end
  end.

Definition read_cl (n : nat) (s : str) : option (str * str) :=
  if Nat.leb n (length s) then Some (firstn n s, skipn n s) else None.

Inductive framing := FrNone | FrCl (n : nat) | FrChunked.

Definition read_body (fr : framing) (s : str) : option (str * str) :=
  match fr with
  | FrNone => Some ([], s)
  | FrCl n => read_cl n s
  | FrChunked => read_chunked (S (length s)) [] s
  end.

(* ---------- the connection: requests until the stream is exhausted ---------- *)
Section Conn.
  (* how the framing follows from the head lines: ANY function (the concrete one used for the runs is framing_of) *)
  Variable fr_of : list str -> framing.

  Definition read_msg (s : str) : option (list str * str * str) :=
    match read_lines (S (length s)) s with
    | None => None
    | Some (ls, r) => match read_body (fr_of ls) r with Some (body, r') => Some (ls, body, r') | None => None end
    end.

  Fixpoint read_conn (fuel : nat) (s : str) : option (list (list str * str)) :=
    match s with
    | [] => Some []
    | _ => match fuel with
           | O => None
           | S f => match read_msg s with
                    | None => None
                    | Some (ls, body, r) => match read_conn f r with Some ms => Some ((ls, body) :: ms) | None => None end
                    end
           end
    end.
End Conn.

(* ================= what a client writes ================= *)
Definition no_cr (l : str) : Prop := ~ In 13 l.

Definition render_lines (ls : list str) : str := concat (map (fun l => l ++ crlf) ls) ++ crlf.

(* a chunk: ANY size line that denotes the length of the data (upper/lower case, leading zeros, extensions), data *)
Definition chunk_ok (c : str * str) : Prop :=
  no_cr (fst c) /\ parse_size (fst c) = Some (N.of_nat (length (snd c))) /\ snd c <> [].
Definition last_ok (l : str) : Prop := no_cr l /\ parse_size l = Some 0.
Definition render_chunk (c : str * str) : str := fst c ++ crlf ++ snd c ++ crlf.
Definition render_chunked (cs : list (str * str)) (last : str) : str :=
  concat (map render_chunk cs) ++ last ++ crlf ++ crlf.

(* a request as written: head lines and the way its body is framed *)
Inductive wbody := WNone | WCl (data : str) | WChunked (cs : list (str * str)) (last : str).
Definition body_bytes (w : wbody) : str :=
  match w with WNone => [] | WCl d => d | WChunked cs _ => concat (map snd cs) end.
Definition render_body (w : wbody) : str :=
  match w with WNone => [] | WCl d => d | WChunked cs last => render_chunked cs last end.
Definition wbody_ok (fr : framing) (w : wbody) : Prop :=
  match w with
  | WNone => fr = FrNone
  | WCl d => fr = FrCl (length d)
  | WChunked cs last => fr = FrChunked /\ Forall chunk_ok cs /\ last_ok last
  end.
Definition render_msg (m : list str * wbody) : str := render_lines (fst m) ++ render_body (snd m).
Definition msg_ok (fr_of : list str -> framing) (m : list str * wbody) : Prop :=
  Forall (fun l => no_cr l /\ l <> []) (fst m) /\ wbody_ok (fr_of (fst m)) (snd m).

(* ================= proofs ================= *)
Lemma starts_crlf_ne c s : c <> 13 -> starts_crlf (c :: s) = false.
Proof. intro H. apply N.eqb_neq in H. destruct s; cbn [starts_crlf]; [reflexivity | rewrite H; reflexivity]. Qed.

Lemma upto_crlf_app l rest : no_cr l -> upto_crlf (l ++ 13 :: 10 :: rest) = Some (l, rest).
Proof.
  induction l as [|c l IH]; intro H.
  - reflexivity.
  - assert (Hc : c <> 13) by (intro E; apply H; left; exact E).
    assert (Hl : no_cr l) by (intro E; apply H; right; exact E).
    cbn [app upto_crlf]. rewrite (starts_crlf_ne _ _ Hc), (IH Hl). reflexivity.
Qed.

Lemma read_lines_app ls rest : Forall (fun l => no_cr l /\ l <> []) ls ->
  forall fuel, (length ls < fuel)%nat -> read_lines fuel (render_lines ls ++ rest) = Some (ls, rest).
Proof.
  unfold render_lines. induction 1 as [|l ls [Hcr Hne] _ IH]; intros fuel Hf.
  - destruct fuel; [inversion Hf|]. reflexivity.
  - destruct fuel; [inversion Hf|]. cbn [map concat read_lines].
    replace ((((l ++ crlf) ++ concat (map (fun l0 => l0 ++ crlf) ls)) ++ crlf) ++ rest)
      with (l ++ 13 :: 10 :: ((concat (map (fun l0 => l0 ++ crlf) ls) ++ crlf) ++ rest))
      by (unfold crlf; repeat rewrite <- app_assoc; reflexivity).
    rewrite (upto_crlf_app _ _ Hcr). destruct l as [|c l]; [contradiction Hne; reflexivity|].
    rewrite IH by (cbn [length] in Hf; lia). reflexivity.
Qed.

Lemma firstn_len_app {A} (a c : list A) : firstn (length a) (a ++ c) = a.
Proof. induction a as [|x a IH]; [reflexivity|]. cbn [length app firstn]. rewrite IH. reflexivity. Qed.
Lemma skipn_len_app {A} (a c : list A) : skipn (length a) (a ++ c) = c.
Proof. induction a as [|x a IH]; [reflexivity|]. exact IH. Qed.

Lemma read_chunked_app cs last rest : Forall chunk_ok cs -> last_ok last ->
  forall fuel acc, (length cs < fuel)%nat ->
  read_chunked fuel acc (render_chunked cs last ++ rest) = Some (acc ++ concat (map snd cs), rest).
Proof.
  intros Hcs [Lcr Lp]. unfold render_chunked. induction Hcs as [|[sl data] cs [Ccr [Cp Cne]] _ IH]; intros fuel acc Hf.
  - destruct fuel; [inversion Hf|]. cbn [map concat app read_chunked].
    replace ((last ++ crlf ++ crlf) ++ rest) with (last ++ 13 :: 10 :: (13 :: 10 :: rest))
      by (unfold crlf; repeat rewrite <- app_assoc; reflexivity).
    rewrite (upto_crlf_app _ _ Lcr), Lp. cbn [N.eqb starts_crlf skipn]. rewrite app_nil_r. reflexivity.
  - destruct fuel; [inversion Hf|]. cbn [fst snd] in Ccr, Cp, Cne. cbn [map concat read_chunked].
    unfold render_chunk at 1. cbn [fst snd].
    set (R := concat (map render_chunk cs) ++ last ++ crlf ++ crlf) in *.
    replace ((((sl ++ crlf ++ data ++ crlf) ++ concat (map render_chunk cs)) ++ last ++ crlf ++ crlf) ++ rest)
      with (sl ++ 13 :: 10 :: (data ++ 13 :: 10 :: (R ++ rest)))
      by (unfold R, crlf; repeat rewrite <- app_assoc; reflexivity).
    rewrite (upto_crlf_app _ _ Ccr), Cp.
    assert (Nz : (N.of_nat (length data) =? 0) = false).
    { apply N.eqb_neq. destruct data; [contradiction Cne; reflexivity|]. cbn [length]. lia. }
    rewrite Nz, Nat2N.id. cbv zeta.
    assert (Hle : Nat.leb (length data) (length (data ++ 13 :: 10 :: R ++ rest)) = true).
    { apply Nat.leb_le. rewrite app_length. lia. }
    rewrite Hle, skipn_len_app. cbn [starts_crlf N.eqb andb].
    rewrite firstn_len_app.
    replace (skipn (2 + length data) (data ++ 13 :: 10 :: R ++ rest)) with (R ++ rest).
    2:{ replace (2 + length data)%nat with (length (data ++ [13; 10])) by (rewrite app_length; cbn; lia).
        replace (data ++ 13 :: 10 :: R ++ rest) with ((data ++ [13; 10]) ++ R ++ rest) by (rewrite <- app_assoc; reflexivity).
        rewrite skipn_len_app. reflexivity. }
    rewrite IH by (cbn [length] in Hf; lia). cbn [snd]. rewrite app_assoc. reflexivity.
Qed.

Lemma chunks_shorter cs last rest : (length cs < S (length (render_chunked cs last ++ rest)))%nat.
Proof.
  unfold render_chunked. induction cs as [|c cs IH]; [cbn; lia|].
  cbn [map concat length]. unfold render_chunk at 1. repeat rewrite app_length in *. cbn [length crlf] in *. lia.
Qed.

(* the body reader recovers the body bytes and stops where the next request begins *)
Lemma read_body_app fr w rest : wbody_ok fr w ->
  read_body fr (render_body w ++ rest) = Some (body_bytes w, rest).
Proof.
  destruct w as [|d|cs last]; cbn [wbody_ok render_body body_bytes].
  - intros ->. reflexivity.
  - intros ->. unfold read_body, read_cl.
    assert (H : Nat.leb (length d) (length (d ++ rest)) = true) by (apply Nat.leb_le; rewrite app_length; lia).
    rewrite H, firstn_len_app, skipn_len_app. reflexivity.
  - intros [-> [Hcs Hl]]. unfold read_body.
    rewrite (read_chunked_app cs last rest Hcs Hl _ [] (chunks_shorter cs last rest)). reflexivity.
Qed.

Lemma read_msg_app fr_of m rest : msg_ok fr_of m ->
  read_msg fr_of (render_msg m ++ rest) = Some (fst m, body_bytes (snd m), rest).
Proof.
  destruct m as [ls w]. intros [Hls Hw]. cbn [fst snd] in *. unfold read_msg, render_msg. cbn [fst snd].
  rewrite <- app_assoc. rewrite (read_lines_app ls _ Hls).
  - rewrite (read_body_app _ w rest Hw). reflexivity.
  - unfold render_lines. repeat rewrite app_length. cbn [length crlf].
    assert (G : (length ls <= length (concat (map (fun l => l ++ crlf) ls)))%nat).
    { clear. induction ls as [|l ls IH]; [cbn; lia|]. cbn [map concat length]. repeat rewrite app_length. cbn [length crlf]. lia. }
    lia.
Qed.

Lemma render_msg_nonempty m : render_msg m <> [].
Proof.
  destruct m as [ls w]. unfold render_msg, render_lines. cbn [fst].
  destruct (concat (map (fun l => l ++ crlf) ls)); discriminate.
Qed.

(* EVERY sequence of requests on one connection is cut into exactly those requests: head lines and body bytes of the
   k-th request are the k-th client request's, for every k, whatever precedes and follows *)
Theorem read_conn_app fr_of ms : Forall (msg_ok fr_of) ms ->
  forall fuel, (length ms <= fuel)%nat ->
  read_conn fr_of fuel (concat (map render_msg ms)) = Some (map (fun m => (fst m, body_bytes (snd m))) ms).
Proof.
  induction 1 as [|m ms Hm _ IH]; intros fuel Hf.
  - destruct fuel; reflexivity.
  - destruct fuel; [inversion Hf|]. cbn [map concat].
    destruct (render_msg m ++ concat (map render_msg ms)) eqn:E.
    { apply app_eq_nil in E as [E _]. destruct (render_msg_nonempty m E). }
    cbn [read_conn]. rewrite <- E. rewrite (read_msg_app fr_of m _ Hm).
    rewrite IH by (cbn [length] in Hf; lia). reflexivity.
Qed.

(* ================= satisfiability of the hypotheses, for every body ================= *)
(* ---------- a canonical way of writing a chunk size: every length has a size line ---------- *)
Definition hexchar (v : N) : N := if v <? 10 then 48 + v else 87 + v.
Fixpoint hex_digits (fuel : nat) (n : N) (acc : str) : str :=
  match fuel with
  | O => acc
  | S f => let acc' := hexchar (n mod 16) :: acc in if n / 16 =? 0 then acc' else hex_digits f (n / 16) acc'
  end.
Definition hex_of (n : N) : str := hex_digits (S (N.to_nat n)) n [].

Lemma hex_digits_S f n acc : hex_digits (S f) n acc =
  if n / 16 =? 0 then hexchar (n mod 16) :: acc else hex_digits f (n / 16) (hexchar (n mod 16) :: acc).
Proof. reflexivity. Qed.

Definition hstep (a c : N) : N := a * 16 + match hexval c with Some v => v | None => 0 end.
Definition hexok (c : N) : Prop := hexval c <> None.

Lemma hexval_hexchar v : v < 16 -> hexval (hexchar v) = Some v.
Proof.
  intro H. unfold hexchar, hexval. destruct (v <? 10) eqn:E.
  - apply N.ltb_lt in E. replace ((48 <=? 48 + v) && (48 + v <=? 57)) with true.
    + f_equal. lia.
    + symmetry. apply andb_true_iff. split; apply N.leb_le; lia.
  - apply N.ltb_ge in E. replace ((48 <=? 87 + v) && (87 + v <=? 57)) with false.
    + replace ((97 <=? 87 + v) && (87 + v <=? 102)) with true.
      * f_equal. lia.
      * symmetry. apply andb_true_iff. split; apply N.leb_le; lia.
    + symmetry. apply andb_false_iff. right. apply N.leb_gt. lia.
Qed.

Lemma hex_go_all s : Forall hexok s -> forall acc, hex_go acc s = (fold_left hstep s acc, []).
Proof.
  induction 1 as [|c s Hc _ IH]; intro acc; [reflexivity|]. cbn [hex_go fold_left]. unfold hstep at 2.
  unfold hexok in Hc. destruct (hexval c); [apply IH | contradiction Hc; reflexivity].
Qed.

Lemma hex_digits_acc f : forall n acc, hex_digits f n acc = hex_digits f n [] ++ acc.
Proof.
  induction f as [|f IH]; intros n acc; [reflexivity|]. cbn [hex_digits]. cbv zeta.
  destruct (n / 16 =? 0); [reflexivity|]. rewrite (IH _ (_ :: acc)), (IH _ [_]), <- app_assoc. reflexivity.
Qed.

Lemma hex_digits_ok f : forall n, Forall hexok (hex_digits f n []) /\ (f <> O -> hex_digits f n [] <> []).
Proof.
  induction f as [|f IH]; intro n; [split; [constructor | intro H; contradiction H; reflexivity]|].
  cbn [hex_digits]. cbv zeta.
  assert (Hc : hexok (hexchar (n mod 16))).
  { unfold hexok. rewrite hexval_hexchar; [discriminate|]. apply N.mod_lt. discriminate. }
  destruct (n / 16 =? 0).
  - split; [repeat constructor; exact Hc | intros _; discriminate].
  - rewrite hex_digits_acc. split.
    + apply Forall_app. split; [apply IH | repeat constructor; exact Hc].
    + intros _ E. apply app_eq_nil in E as [_ E]. discriminate E.
Qed.

Lemma hex_digits_val fuel : forall n, (N.to_nat n <= fuel)%nat -> fold_left hstep (hex_digits (S fuel) n []) 0 = n.
Proof.
  induction fuel as [|fuel IH]; intros n Hn.
  - assert (n = 0) by lia. subst. reflexivity.
  - rewrite hex_digits_S. destruct (n / 16 =? 0) eqn:E.
    + apply N.eqb_eq in E. cbn [fold_left]. unfold hstep. rewrite hexval_hexchar by (apply N.mod_lt; discriminate).
      pose proof (N.div_mod n 16 ltac:(discriminate)) as D. rewrite E in D. lia.
    + apply N.eqb_neq in E. rewrite (hex_digits_acc (S fuel) (n / 16) [_]), fold_left_app.
      assert (Hq : (N.to_nat (n / 16) <= fuel)%nat).
      { assert (n / 16 < n) by (apply N.div_lt; [destruct n; [contradiction E; reflexivity | lia] | reflexivity]). lia. }
      rewrite (IH _ Hq). cbn [fold_left]. unfold hstep. rewrite hexval_hexchar by (apply N.mod_lt; discriminate).
      pose proof (N.div_mod n 16 ltac:(discriminate)) as D. lia.
Qed.

(* every length has a size line, so the hypotheses of the stream theorems are satisfiable for every body and chunking *)
Lemma parse_size_hex_of n : parse_size (hex_of n) = Some n /\ no_cr (hex_of n).
Proof.
  unfold hex_of. destruct (hex_digits_ok (S (N.to_nat n)) n) as [Hok Hne]. specialize (Hne ltac:(discriminate)).
  split.
  - unfold parse_size. destruct (hex_digits (S (N.to_nat n)) n []) as [|c s] eqn:E; [contradiction Hne; reflexivity|].
    inversion Hok as [|? ? Hc Hs]; subst. unfold hexok in Hc. destruct (hexval c) eqn:Ec; [|contradiction Hc; reflexivity].
    rewrite (hex_go_all (c :: s) Hok 0). rewrite <- E. rewrite (hex_digits_val (N.to_nat n) n (le_n _)). reflexivity.
  - intro Hin. rewrite Forall_forall in Hok. apply Hok in Hin. apply Hin. reflexivity.
Qed.

Lemma every_body_has_a_rendering (chunks : list str) : Forall (fun d => d <> []) chunks ->
  let cs := map (fun d => (hex_of (N.of_nat (length d)), d)) chunks in
  Forall chunk_ok cs /\ last_ok (hex_of 0) /\ concat (map snd cs) = concat chunks.
Proof.
  intro H. cbv zeta. split; [|split].
  - apply Forall_map. eapply Forall_impl; [|exact H]. intros d Hd. unfold chunk_ok. cbn [fst snd].
    destruct (parse_size_hex_of (N.of_nat (length d))) as [A B]. repeat split; assumption.
  - destruct (parse_size_hex_of 0) as [A B]. split; assumption.
  - rewrite map_map. cbn [snd]. rewrite map_id. reflexivity.
Qed.

(* ================= the concrete framing decision used for the runs ================= *)
(* "Transfer-Encoding: chunked" wins, else "Content-Length: n" (n > 0 bytes of body follow), else no body *)
Fixpoint atoi_go (acc : N) (s : str) : N :=
  match s with c :: r => if is_digit c then atoi_go (acc * 10 + (c - 48)) r else acc | [] => acc end.
Definition field_value (name line : str) : option str :=
  if has_prefix (lower line) (name ++ [58]) then Some (trim_space (skipn (S (length name)) line)) else None.
Fixpoint find_value (name : str) (ls : list str) : option str :=
  match ls with
  | [] => None
  | l :: r => match field_value name l with Some v => Some v | None => find_value name r end
  end.
Definition framing_of (ls : list str) : framing :=
  match find_value (b "transfer-encoding") ls with
  | Some _ => FrChunked
  | None => match find_value (b "content-length") ls with
            | Some v => FrCl (N.to_nat (atoi_go 0 v))
            | None => FrNone
            end
  end.

(* ---------- cases of the differential stream ---------- *)
(* k_stream: every byte the client wrote on the connection; k_bodies: the bodies the origin received, in order *)
Record kcase := { k_stream : str; k_bodies : list str; k_sent : list str }.
Fixpoint list_str_eqb' (x y : list str) : bool :=
  match x, y with
  | [], [] => true
  | a :: x', c :: y' => str_eqb a c && list_str_eqb' x' y'
  | _, _ => false
  end.
Definition kcase_model_ok (c : kcase) : bool :=
  match read_conn framing_of (S (length (k_stream c))) (k_stream c) with
  | Some ms => list_str_eqb' (map snd ms) (k_bodies c)
  | None => false
  end.
(* property: the origin received the bodies the client's generator meant to send (recorded independently of the wire) *)
Definition kcase_prop_ok (c : kcase) : bool := list_str_eqb' (k_bodies c) (k_sent c).

(* non-vacuity: two pipelined requests, upper-case size with leading zero and extension, then Content-Length *)
Example stream_example :
  let m1 := ([b "POST /a HTTP/1.1"; b "Host: o"; b "Transfer-Encoding: chunked"],
             WChunked [(b "3", b "abc"); (b "0A;ext=1", b "0123456789")] (b "0")) in
  let m2 := ([b "PUT /b HTTP/1.1"; b "Host: o"; b "Content-Length: 4"], WCl (b "wxyz")) in
  msg_ok framing_of m1 /\ msg_ok framing_of m2 /\
  read_conn framing_of 5 (render_msg m1 ++ render_msg m2) =
    Some [(fst m1, b "abc0123456789"); (fst m2, b "wxyz")].
Proof.
  cbv zeta. split; [|split]; [| |vm_compute; reflexivity].
  - split; [repeat constructor; try discriminate; intro H; vm_compute in H; intuition discriminate|].
    cbn [snd wbody_ok]. split; [vm_compute; reflexivity|]. split.
    + repeat constructor; try (vm_compute; reflexivity); try discriminate; intro H; vm_compute in H; intuition discriminate.
    + split; [intro H; vm_compute in H; intuition discriminate | vm_compute; reflexivity].
  - split; [repeat constructor; try discriminate; intro H; vm_compute in H; intuition discriminate|].
    vm_compute. reflexivity.
Qed.
