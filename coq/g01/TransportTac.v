(* C01 - tactics and the filter lemma shared by TransportProofs.v / TransportProofs2.v *)
From G01 Require Export ReqE2E.

Lemma raw_get_filter_by_key (p : str -> bool) h k :
  raw_get k (filter (fun kv => p (fst kv)) h) = if p k then raw_get k h else None.
Proof.
  induction h as [|[k' vs] r IH]; [destruct (p k); reflexivity|].
  cbn [filter fst]. destruct (p k') eqn:E.
  - cbn [raw_get]. destruct (str_eqb k k') eqn:E2.
    + apply str_eqb_eq in E2. subst. rewrite E. reflexivity.
    + exact IH.
  - rewrite IH. cbn [raw_get]. destruct (str_eqb k k') eqn:E2; [|reflexivity].
    apply str_eqb_eq in E2. subst. rewrite E. reflexivity.
Qed.

Ltac transport_cases :=
  unfold transport_hdr0; cbv zeta;
  repeat match goal with
  | |- context [if ?c then _ else _] => let E := fresh "C" in destruct c eqn:E
  | |- context [match raw_get k_ua ?h with _ => _ end] => let E := fresh "U" in destruct (raw_get k_ua h) as [[|? ?]|] eqn:E
  end.

Lemma filter_excl_get h k : raw_get k (filter (fun kv => negb (mem (fst kv) excluded_on_write)) h) =
  if mem k excluded_on_write then None else raw_get k h.
Proof. rewrite (raw_get_filter_by_key (fun k => negb (mem k excluded_on_write))). destruct (mem k excluded_on_write); reflexivity. Qed.

Ltac through_sets :=
  repeat first [ rewrite raw_get_set_same | rewrite raw_get_set_other by discriminate ];
  rewrite ?filter_excl_get; try reflexivity.

