(* C18 — loop refusal via Via: executable model of
   internal/martian/header/via_modifier.go (ViaModifier.ModifyRequest, tag
   construction), of the status mapping in http_proxy_errors.go errorResponse
   for the error it returns, and the documented meaning (RFC 7230 list
   semantics of the Via chain).  No proofs here. *)
From FwdLib Require Export Hdr.
From G01 Require Export Tables.

Definition is_empty (s : str) : bool := match s with [] => true | _ => false end.
Definition via_key : str := b "Via".
Definition comma_sp : str := [44; 32].

(* ---------- the implementation, transcribed ---------- *)

(* NewViaModifierWithBoundary: tag = requestedBy + "-" + boundary (separator from the source) *)
Definition mk_tag (name boundary : str) : str := name ++ via_tag_sep ++ boundary.

(* switch req.ProtoMajor*10 + req.ProtoMinor { case 20: h20Prefix; case 11: h11Prefix;
   case 10: h10Prefix; default: "%d.%d" }.  The arms (selector value, text) come
   from the source (Tables.via_proto_arms). *)
Fixpoint arm_lookup (k : N) (arms : list (N * str)) : option str :=
  match arms with
  | [] => None
  | (n, s) :: r => if k =? n then Some s else arm_lookup k r
  end.
Definition spec_proto (maj min : N) : str := itoa maj ++ [46] ++ itoa min.
Definition proto_str (maj min : N) : str :=
  match arm_lookup (maj * 10 + min) via_proto_arms with
  | Some s => s
  | None => spec_proto maj min
  end.

Inductive via_result :=
| ViaRefused (status : N) (close : bool)   (* ErrorStatus{Status}; req.Close *)
| ViaOk (h : hmap).

(* how the received chain is read: Tables.via_reads_all_lines
   false = req.Header.Get("Via")                        (first field line only)
   true  = strings.Join(req.Header.Values("Via"), ", ") (all field lines)        *)
Definition via_read (all : bool) (h : hmap) : str :=
  if all then join comma_sp (h_values via_key h) else h_get via_key h.

Definition via_modify_gen (all : bool) (tag : str) (maj min : N) (h : hmap) : via_result :=
  let via := via_read all h in
  if negb (is_empty via) && contains via tag
  then ViaRefused via_loop_status via_sets_close
  else
    let pre := if is_empty via then [] else via ++ via_join_sep in
    ViaOk (h_set via_key (pre ++ proto_str maj min ++ [32] ++ tag) h).

Definition via_modify := via_modify_gen via_reads_all_lines.

(* ---------- status mapping (HTTPProxy.errorResponse) for the loop error ----------
   The error is martian.ErrorStatus{Err: fmt.Errorf(...) , Status}: of all the
   errors.As / errors.Is / text tests made by the handlers only the ErrorStatus
   one can succeed.  handlers = Tables.error_handlers (source order); the first
   non-zero code wins, 0 everywhere = 500. *)
Definition handler_code_on_status_error (name : str) (status : N) : N :=
  if str_eqb name (b "handleMartianErrorStatus") then status else 0.
Fixpoint first_nonzero (l : list N) : N :=
  match l with
  | [] => 500
  | c :: r => if c =? 0 then first_nonzero r else c
  end.
Definition status_of_error_status (status : N) : N :=
  first_nonzero (map (fun n => handler_code_on_status_error n status) error_handlers).

(* what the client gets / whether the next hop is contacted, for one exchange whose
   request modifier chain returns r (proxyConn.handle: an error from modifyRequest
   returns writeErrorResponse before roundTrip — Tables.modify_error_returns_before_roundtrip) *)
Inductive exchange_outcome := Answered (status : N) | ForwardedOn (h : hmap).
Definition exchange_of (r : via_result) : exchange_outcome :=
  match r with
  | ViaRefused st _ => if modify_error_returns_before_roundtrip
                       then Answered (status_of_error_status st)
                       else Answered 0
  | ViaOk h => ForwardedOn h
  end.

(* ---------- documented meaning ---------- *)
(* RFC 7230: Via = 1#( protocol RWS received-by [ RWS comment ] ); a list spread
   over several field lines is the concatenation of the lines' lists in order
   (section 3.2.2); empty list elements are ignored (section 7). *)
Definition is_ows (c : N) : bool := (c =? 32) || (c =? 9).
Fixpoint drop_ows (s : str) : str :=
  match s with
  | c :: r => if is_ows c then drop_ows r else s
  | [] => []
  end.
Definition trim_ows (s : str) : str := rev (drop_ows (rev (drop_ows s))).
Definition items (s : str) : list str := map trim_ows (split_byte 44 s).
Definition items_ne (s : str) : list str := filter (fun x => negb (is_empty x)) (items s).
Definition chain (lines : list str) : list str := flat_map items_ne lines.

(* the element this instance emits for a request of version maj.min *)
Definition elem (tag : str) (maj min : N) : str := spec_proto maj min ++ [32] ++ tag.

(* received-by of an element: its second white-space separated field *)
Fixpoint fields_go (cur : str) (s : str) : list str :=
  match s with
  | [] => match cur with [] => [] | _ => [rev cur] end
  | c :: r => if is_ows c
              then match cur with [] => fields_go [] r | _ => rev cur :: fields_go [] r end
              else fields_go (c :: cur) r
  end.
Definition fields (s : str) : list str := fields_go [] s.
Definition received_by (item : str) : str := nth 1 (fields item) [].

(* "the chain contains the element this instance emitted": some element's received-by is the tag *)
Definition own_elem (tag : str) (lines : list str) : bool :=
  existsb (fun it => str_eqb (received_by it) tag) (chain lines).
(* "the tag does not occur anywhere in the chain" — the hypothesis under which
   foreign chains must be forwarded (80 random bits make an accidental occurrence negligible) *)
Definition own_sub (tag : str) (lines : list str) : bool :=
  existsb (fun l => contains l tag) lines.

(* keys other than Via are untouched *)
Definition others_unchanged (h h' : hmap) : bool :=
  forallb (fun k => str_eqb k via_key || opt_vals_eqb (raw_get k h) (raw_get k h')) (keys h ++ keys h').

(* The property, as a predicate on one observed application (input map, result):
   - refusal only when the tag occurs in the received chain, with status 400 and connection close;
   - forwarding only when no received element is this instance's own, and then the
     forwarded chain is the received chain followed by exactly this instance's
     element with the client's protocol version, nothing else changed. *)
Definition via_prop_ok (tag : str) (maj min : N) (h : hmap) (r : via_result) : bool :=
  let lines := h_values via_key h in
  match r with
  | ViaRefused st cl => own_sub tag lines && (st =? 400) && cl
  | ViaOk h' => negb (own_elem tag lines) &&
                list_str_eqb (chain (h_values via_key h')) (chain lines ++ [elem tag maj min]) &&
                others_unchanged h h'
  end.

(* a tag for which the element is one list element: no comma, not empty, no
   white space (name-hex20 with a sane name) *)
Definition tag_ok (tag : str) : bool :=
  negb (is_empty tag) && forallb (fun c => negb (c =? 44) && negb (is_ows c)) tag.

(* ---------- instance identity ---------- *)
Definition is_hexdigit (c : N) : bool := is_digit c || ((97 <=? c) && (c <=? 102)).
(* NewViaModifier: tag = name ++ sep ++ hex(via_boundary_bytes random bytes) *)
Definition tag_has_form (name tag : str) : bool :=
  has_prefix tag (name ++ via_tag_sep) &&
  let bnd := skipn (length (name ++ via_tag_sep)) tag in
  Nat.eqb (length bnd) (2 * N.to_nat via_boundary_bytes) && forallb is_hexdigit bnd.
