(* C01 - what the modelled Transport writes, name by name (lemmas about ReqE2E.transport_hdr0 only; they do not depend on
   the request pipeline lemmas, so this file compiles in parallel with ReqProofs.v) *)
From G01 Require Import ReqE2E TransportTac.

(* ---------- L3: what the Transport writes, name by name ---------- *)
Lemma transport_get_plain x r k :
  mem k excluded_on_write = false -> k <> k_ae -> k <> k_connection ->
  raw_get k (transport_hdr0 x r) = raw_get k (q_hdr r).
Proof.
  intros Hk Hae Hc. unfold transport_hdr0. cbv zeta.
  assert (Nh : k <> k_host) by (intro; subst; discriminate Hk).
  assert (Nu : k <> k_ua) by (intro; subst; discriminate Hk).
  assert (Ncl : k <> k_cl) by (intro; subst; discriminate Hk).
  assert (Nt : k <> k_te) by (intro; subst; discriminate Hk).
  repeat match goal with
  | |- context [if ?c then _ else _] => destruct c
  | |- context [match raw_get k_ua ?h with _ => _ end] => destruct (raw_get k_ua h) as [[|? ?]|]
  | |- raw_get k (raw_set ?k' _ _) = _ => rewrite raw_get_set_other by assumption
  end;
  rewrite (raw_get_filter_by_key (fun k => negb (mem k excluded_on_write))); rewrite Hk; reflexivity.
Qed.

Lemma transport_host x r : raw_get k_host (transport_hdr0 x r) = Some [q_host r].
Proof. transport_cases; through_sets. Qed.

Lemma transport_te x r : raw_get k_te (transport_hdr0 x r) = if xi_framing x =? 2 then Some [b "chunked"] else None.
Proof. transport_cases; through_sets. Qed.

Lemma transport_cl x r : raw_get k_cl (transport_hdr0 x r) =
  if xi_framing x =? 2 then None
  else if (xi_framing x =? 1) && negb (xi_blen x =? 0) then Some [itoa (xi_blen x)]
  else if mem (xi_method x) [b "POST"; b "PUT"; b "PATCH"] then Some [[48]] else None.
Proof. transport_cases; through_sets. Qed.

