(* C18 — route-level statements over the whole request stack (hop-by-hop removal, forwarded, framing, via, inner
   group): a request that already went through this instance's stack is never forwarded by it again, whatever the
   hops in between do to the header as long as they keep the instance's element in a Via field that is not
   nominated away.  Built from the per-hop lemmas of ViaProofs.v / ReqProofs.v. *)
From Coq Require Import Lia.
From G01 Require Import ReqE2E ViaProofs ReqProofs.

(* the instance's tag text is in a Via field line that survives the documented hop-by-hop removal *)
Definition via_survives (tag : str) (h : hmap) : bool := own_sub tag (raw_values via_key (after_removal h)).

(* what travels between two hops: net/http writes the header out and the next hop reads it back.  All that matters
   here: the Via field lines are the same and the only Connection option that can be added is "close". *)
Definition wire_ok (h h' : hmap) : Prop :=
  raw_get via_key h' = raw_get via_key h /\
  (forall v, In v (raw_values k_connection h') -> In v (raw_values k_connection h) \/ eq_fold v (b "close") = true).

Section Route.
  Hypothesis Hhop : hop_by_hop_headers = spec_hop_list.
  Hypothesis Hflat : flat_stack = fixed_flat_stack.
  Hypothesis Hxff : xff_reads_all_lines = true.
  Hypothesis Hfill : xfwd_fill_reads_all_lines = true.
  Hypothesis Hvia : via_reads_all_lines = true.
  Hypothesis Hst : via_loop_status = 400.
  Hypothesis Hcl : via_sets_close = true.
  Hypothesis Hsep : via_join_sep = comma_sp.
  Hypothesis Hstatus : status_of_error_status via_loop_status = 400.

  (* the Via lines the Via modifier sees are those that survive the removal *)
  Lemma via_seen r h3 :
    bad_framing (q_hdr (forwarded_gen2 true true (set_hdr r (remove_hop_by_hop (q_hdr r))))) = Some h3 ->
    h_values via_key h3 = raw_values via_key (after_removal (q_hdr r)).
  Proof.
    intro Hf. rewrite h_values_raw by reflexivity. unfold raw_values.
    rewrite (framing_others _ h3 via_key Hf) by discriminate.
    rewrite forwarded_others by reflexivity. cbn [q_hdr set_hdr]. rewrite (hbh_is_after_removal Hhop). reflexivity.
  Qed.

  (* own element in a surviving Via line: the stack never forwards, with or without rules / credentials *)
  Lemma stack_refuses_own cfg tag r : tag <> [] -> via_survives tag (q_hdr r) = true ->
    (forall r', modify_request_cfg cfg tag r <> Passed r') /\
    (framing_contradictory (after_removal (q_hdr r)) = false -> modify_request_cfg cfg tag r = Refused 400).
  Proof.
    intros Hne Hs. rewrite (modify_request_cfg_is_pipeline Hflat Hxff Hfill Hvia). unfold pipeline_cfg, core_stack. cbn zeta.
    set (r2 := forwarded_gen2 true true (set_hdr r (remove_hop_by_hop (q_hdr r)))).
    pose proof (framing_cases (q_hdr r2) (te_gone Hhop r)) as FC.
    assert (CL : raw_values k_cl (q_hdr r2) = raw_values k_cl (after_removal (q_hdr r))).
    { unfold raw_values, r2. rewrite (r2_get Hhop) by (left; reflexivity). reflexivity. }
    rewrite CL in FC.
    assert (REF : forall h3, bad_framing (q_hdr r2) = Some h3 ->
              via_modify_gen true tag (q_maj r2) (q_min r2) h3 = ViaRefused 400 true).
    { intros h3 Hf. unfold via_survives in Hs. apply own_sub_spec in Hs as [l [Hin Hi]].
      apply (detects_own 400 true Hst Hcl tag _ _ h3 l Hne).
      - rewrite (via_seen r h3 Hf). exact Hin.
      - apply contains_spec. exact Hi. }
    unfold framing_contradictory.
    destruct (raw_values k_cl (after_removal (q_hdr r))) as [|v vs].
    - rewrite FC, (REF _ FC). rewrite <- Hst, Hstatus. split; [intros r' H; discriminate | reflexivity].
    - destruct (cl_scan [] (flat_map (split_byte 44) (v :: vs))) as [len|].
      + rewrite FC, (REF _ FC). rewrite <- Hst, Hstatus. split; [intros r' H; discriminate | reflexivity].
      + rewrite FC. split; [intros r' H; discriminate | discriminate].
  Qed.

  (* a forwarded request carries the instance's tag in its Via field, and keeps every tag that survived the removal *)
  Lemma stack_keeps_tags tagB r r' t : modify_request tagB r = Passed r' ->
    (own_sub tagB (raw_values via_key (q_hdr r')) = true) /\
    (via_survives t (q_hdr r) = true -> own_sub t (raw_values via_key (q_hdr r')) = true).
  Proof.
    intro H. rewrite (modify_request_is_pipeline Hflat Hxff Hfill Hvia) in H.
    destruct (pipeline_passed tagB r r' H) as [h3 [h4 [Hf [Hv ->]]]]. cbn [q_hdr set_hdr].
    assert (VO : raw_values via_key (set_empty_user_agent h4) = h_values via_key h4).
    { rewrite h_values_raw by reflexivity. unfold raw_values. rewrite ua_spec. reflexivity. }
    rewrite VO. split.
    - apply (forwarded_has_tag tagB _ _ h3 h4 Hv).
    - intro Hs. apply (hop_keeps t tagB _ _ h3 h4 Hv). rewrite (via_seen r h3 Hf). exact Hs.
  Qed.

  (* after the stack no Connection field is left, so whatever the wire adds is "close": Via is not nominated away *)
  Lemma wire_keeps tag r r' h' : modify_request tag r = Passed r' -> wire_ok (q_hdr r') h' ->
    forall t, own_sub t (raw_values via_key (q_hdr r')) = true -> via_survives t h' = true.
  Proof.
    intros H [Wv Wc] t Ht.
    assert (NC : raw_values k_connection (q_hdr r') = []).
    { unfold raw_values. rewrite (hop_by_hop_removed Hhop Hflat Hxff Hfill Hvia tag r r' k_connection H); [reflexivity | | reflexivity].
      apply is_removed_listed. reflexivity. }
    unfold via_survives. unfold raw_values at 1. rewrite after_removal_get.
    assert (NR : is_removed via_key h' = false).
    { unfold is_removed, removed_names, mem. rewrite existsb_app. apply orb_false_iff. split; [|reflexivity].
      apply not_true_is_false. intro E. apply existsb_exists in E as [n [Hin En]]. apply str_eqb_eq in En. subst n.
      unfold nominated in Hin. apply in_flat_map in Hin as [v [Hv Hn]].
      destruct (Wc v Hv) as [Hold|Hclose]; [rewrite NC in Hold; destruct Hold|].
      apply in_map_iff in Hn as [tok [Htok Hin2]].
      (* v folds to "close": it has no comma, so its only token is v itself *)
      unfold eq_fold in Hclose. apply str_eqb_eq in Hclose.
      assert (N44 : ~ In 44 v).
      { intro Hc. apply (in_map lowerc) in Hc. fold (lower v) in Hc. rewrite Hclose in Hc. cbn in Hc.
        repeat (destruct Hc as [Hc|Hc]; [discriminate|]). exact Hc. }
      rewrite (split_byte_none 44 v N44) in Hin2. destruct Hin2 as [<-|[]].
      (* canon (trim v) = "Via" is impossible: lower-casing both sides, "close" vs "via" differ in length *)
      assert (LV : length v = 5%nat) by (rewrite <- (lower_length v), Hclose; reflexivity).
      (* trimming does nothing to a string that folds to "close" (no white space in it) *)
      assert (NS : forall c, In c v -> is_space c = false).
      { intros c Hc. apply (in_map lowerc) in Hc. fold (lower v) in Hc. rewrite Hclose in Hc.
        assert (SP : is_space c = is_space (lowerc c)).
        { unfold lowerc. destruct (is_upper c) eqn:U; [|reflexivity]. unfold is_upper in U.
          apply andb_true_iff in U as [U1 U2]. apply N.leb_le in U1, U2. unfold is_space. cbn [existsb].
          repeat match goal with |- context [?x =? ?y] => let E := fresh in destruct (x =? y) eqn:E;
                   [apply N.eqb_eq in E; lia|] end. reflexivity. }
        rewrite SP. cbn in Hc. repeat (destruct Hc as [<-|Hc]; [reflexivity|]). destruct Hc. }
      assert (TV : trim_space v = v).
      { assert (TLid : forall s, (forall c, In c s -> is_space c = false) -> trim_left s = s).
        { intros s Hs. destruct s as [|c s]; [reflexivity|]. cbn [trim_left]. rewrite (Hs c (or_introl eq_refl)). reflexivity. }
        unfold trim_space. rewrite (TLid v NS). rewrite TLid; [apply rev_involutive|].
        intros c Hc. apply NS. apply in_rev. exact Hc. }
      rewrite TV in Htok.
      (* canon v has the length of v (5), "Via" has length 3 *)
      assert (CLn : length (canon v) = length v).
      { unfold canon. destruct (forallb is_token_char v); [|reflexivity].
        assert (G : forall up s, length (canon_go up s) = length s).
        { intros up s. revert up. induction s as [|c s IH]; intro up; [reflexivity|]. cbn [canon_go length]. rewrite IH. reflexivity. }
        apply G. }
      rewrite Htok, LV in CLn. discriminate CLn. }
    rewrite NR. unfold raw_values in Ht. rewrite Wv. exact Ht.
  Qed.

  (* ROUTES.  A forwards r (first pass).  The request comes back to A after any number of hops whose combined effect
     on the header is `hops`, provided they keep A's tag text in a surviving Via line.  A never forwards it again;
     when its framing fields are consistent the answer is 400. *)
  Lemma route_terminates tag r r1 (hops : hmap -> hmap) r2 cfg :
    tag <> [] -> modify_request tag r = Passed r1 ->
    (own_sub tag (raw_values via_key (q_hdr r1)) = true -> via_survives tag (hops (q_hdr r1)) = true) ->
    q_hdr r2 = hops (q_hdr r1) ->
    (forall r3, modify_request_cfg cfg tag r2 <> Passed r3) /\
    (framing_contradictory (after_removal (q_hdr r2)) = false -> modify_request_cfg cfg tag r2 = Refused 400).
  Proof.
    intros Hne H1 Hk E.
    assert (S : via_survives tag (q_hdr r2) = true).
    { rewrite E. apply Hk. exact (proj1 (stack_keeps_tags tag r r1 tag H1)). }
    exact (stack_refuses_own cfg tag r2 Hne S).
  Qed.

  (* A -> A: the wire between A's output and A's input *)
  Lemma self_route tag r r1 r2 cfg : tag <> [] -> modify_request tag r = Passed r1 -> wire_ok (q_hdr r1) (q_hdr r2) ->
    forall r3, modify_request_cfg cfg tag r2 <> Passed r3.
  Proof.
    intros Hne H1 W.
    exact (proj1 (route_terminates tag r r1 (fun _ => q_hdr r2) r2 cfg Hne H1
                    (fun Ht => wire_keeps tag r r1 (q_hdr r2) H1 W tag Ht) eq_refl)).
  Qed.

  (* A -> B -> A: B is another instance of this stack (any tag, also one with the same name), wires in between *)
  Lemma two_instance_route tagA tagB rA r1 r2 r3 r4 cfg :
    tagA <> [] ->
    modify_request tagA rA = Passed r1 -> wire_ok (q_hdr r1) (q_hdr r2) ->
    modify_request tagB r2 = Passed r3 -> wire_ok (q_hdr r3) (q_hdr r4) ->
    forall r5, modify_request_cfg cfg tagA r4 <> Passed r5.
  Proof.
    intros Hne HA W1 HB W2.
    assert (S1 : own_sub tagA (raw_values via_key (q_hdr r1)) = true) by exact (proj1 (stack_keeps_tags tagA rA r1 tagA HA)).
    assert (S2 : via_survives tagA (q_hdr r2) = true) by exact (wire_keeps tagA rA r1 (q_hdr r2) HA W1 tagA S1).
    assert (S3 : own_sub tagA (raw_values via_key (q_hdr r3)) = true) by exact (proj2 (stack_keeps_tags tagB r2 r3 tagA HB) S2).
    assert (S4 : via_survives tagA (q_hdr r4) = true) by exact (wire_keeps tagB r2 r3 (q_hdr r4) HB W2 tagA S3).
    exact (proj1 (stack_refuses_own cfg tagA r4 Hne S4)).
  Qed.
End Route.

(* the modelled Transport (ReqE2E.transport_out) is such a wire: it writes the Via field lines as they are and adds
   at most the Connection option "close" *)
Lemma transport_hdr_is_wire x r : wire_ok (q_hdr r) (transport_hdr x r).
Proof.
  unfold transport_hdr, transport_hdr0.
  set (h := q_hdr r).
  set (h1 := filter (fun kv => negb (mem (fst kv) excluded_on_write)) h).
  set (h2 := raw_set k_host [q_host r] h1).
  set (h3 := match raw_get k_ua h with
             | Some (v :: _) => if is_empty v then h2 else raw_set k_ua [v] h2
             | Some [] => h2
             | None => raw_set k_ua [b "Go-http-client/1.1"] h2
             end).
  set (h4 := if xi_framing x =? 2 then raw_set k_te [b "chunked"] h3
             else if (xi_framing x =? 1) && negb (xi_blen x =? 0) then raw_set k_cl [itoa (xi_blen x)] h3
             else if mem (xi_method x) [b "POST"; b "PUT"; b "PATCH"] then raw_set k_cl [[48]] h3 else h3).
  set (gz := is_empty (h_get k_ae h) && is_empty (h_get k_range h) && negb (str_eqb (xi_method x) (b "HEAD"))).
  set (h5 := if gz then raw_set k_ae (raw_values k_ae h4 ++ [b "gzip"]) h4 else h4).
  assert (G1 : forall k, mem k excluded_on_write = false -> raw_get k h1 = raw_get k h).
  { intros k Hk. unfold h1. rewrite (raw_get_filter_key (fun k => negb (mem k excluded_on_write))). rewrite Hk. reflexivity. }
  assert (G5 : forall k, mem k excluded_on_write = false -> k <> k_ae -> raw_get k h5 = raw_get k h).
  { intros k Hk Hae.
    assert (Nh : k <> k_host) by (intro; subst; discriminate Hk).
    assert (Nu : k <> k_ua) by (intro; subst; discriminate Hk).
    assert (Nc : k <> k_cl) by (intro; subst; discriminate Hk).
    assert (Nt : k <> k_te) by (intro; subst; discriminate Hk).
    assert (E2 : raw_get k h2 = raw_get k h) by (unfold h2; rewrite raw_get_set_other by exact Nh; apply G1; exact Hk).
    assert (E3 : raw_get k h3 = raw_get k h).
    { unfold h3. destruct (raw_get k_ua h) as [[|v vs]|]; try exact E2.
      - destruct (is_empty v); [exact E2 | rewrite raw_get_set_other by exact Nu; exact E2].
      - rewrite raw_get_set_other by exact Nu. exact E2. }
    assert (E4 : raw_get k h4 = raw_get k h).
    { unfold h4. destruct (xi_framing x =? 2); [rewrite raw_get_set_other by exact Nt; exact E3|].
      destruct ((xi_framing x =? 1) && negb (xi_blen x =? 0)); [rewrite raw_get_set_other by exact Nc; exact E3|].
      destruct (mem (xi_method x) _); [rewrite raw_get_set_other by exact Nc; exact E3 | exact E3]. }
    unfold h5. destruct gz; [rewrite raw_get_set_other by exact Hae; exact E4 | exact E4]. }
  assert (C5 : raw_values k_connection h5 = raw_values k_connection h).
  { unfold raw_values. rewrite G5; [reflexivity | reflexivity | discriminate]. }
  assert (W6 : wire_ok h (if q_close r && negb (has_token (raw_values k_connection h5) (b "close"))
                          then raw_set k_connection (b "close" :: raw_values k_connection h5) h5 else h5)).
  { split.
    - destruct (q_close r && negb (has_token (raw_values k_connection h5) (b "close"))).
      + rewrite raw_get_set_other by discriminate. apply G5; [reflexivity | discriminate].
      + apply G5; [reflexivity | discriminate].
    - intros v Hv.
      destruct (q_close r && negb (has_token (raw_values k_connection h5) (b "close"))).
      + unfold raw_values in Hv at 1. rewrite raw_get_set_same in Hv. destruct Hv as [<-|Hv].
        * right. reflexivity.
        * left. rewrite <- C5. exact Hv.
      + left. rewrite <- C5. exact Hv. }
  destruct (trailer_decl _ _) as [|k0 ks]; [exact W6|].
  destruct W6 as [A B]. split.
  - rewrite raw_get_set_other by discriminate. exact A.
  - intros v Hv. apply B. unfold raw_values in Hv |- *. rewrite raw_get_set_other in Hv by discriminate. exact Hv.
Qed.
