(* C01 — table obligations (closed computations on the regenerated Tables.v) and the lemmas of
   ReqProofs.v instantiated with them. *)
From G01 Require Import ReqE2E ViaProofs ReqProofs RouteProofs E2EProofs Ob18.
From G16 Require C16.

(* the source's hop-by-hop list is the documented one (Connection, Keep-Alive, Proxy-Authenticate,
   Proxy-Authorization, Proxy-Connection, TE, Trailer, Transfer-Encoding, Upgrade), in net/http's spelling *)
Lemma ob_hop_list : hop_by_hop_headers = spec_hop_list.
Proof. vm_compute. reflexivity. Qed.
(* httpspec.NewStack + middlewareStack order: hop-by-hop, forwarded, framing, via, then user modifiers,
   setBasicAuth, setEmptyUserAgent *)
Lemma ob_flat_stack : flat_stack = fixed_flat_stack.
Proof. vm_compute. reflexivity. Qed.
(* the httpspec stack is the last request modifier of the top group (access controls run before it) *)
Lemma ob_stack_last_in_top_group : last mw_top_order [] = b "stack".
Proof. vm_compute. reflexivity. Qed.
Lemma ob_xff_reads_all_lines : xff_reads_all_lines = true.
Proof. vm_compute. reflexivity. Qed.
Lemma ob_xfwd_fill_reads_all_lines : xfwd_fill_reads_all_lines = true.
Proof. vm_compute. reflexivity. Qed.
(* proxyConn.handle: fixRequestScheme, upgradeType, modifyRequest, re-add of Connection/Upgrade, roundTrip *)
Lemma ob_handle_order : handle_order = fixed_handle_order.
Proof. vm_compute. reflexivity. Qed.
(* forwarder sets AllowHTTP (no forced https inside TLS listeners) *)
Lemma ob_allow_http : proxy_allow_http = true.
Proof. vm_compute. reflexivity. Qed.

(* setBasicAuth treats the client as having sent no Authorization exactly when the key is absent *)
Lemma ob_basic_auth_tests_key_presence : basic_auth_tests_key_presence = true.
Proof. vm_compute. reflexivity. Qed.
(* command/run: one request modifier, connect rules for CONNECT, request rules otherwise; rules applied in order *)
Lemma ob_header_rules_dispatch_by_method : header_rules_dispatch_by_method = true.
Proof. vm_compute. reflexivity. Qed.
Lemma ob_header_rules_applied_in_order : header_rules_applied_in_order = true.
Proof. vm_compute. reflexivity. Qed.

(* readRequest replaces the header deadline by the whole-request deadline (none when ReadTimeout is 0) once the head is read *)
Lemma ob_header_deadline_not_kept_for_body : deadline_adjust_requires_whole = false.
Proof. vm_compute. reflexivity. Qed.

(* ---------- consequences ---------- *)
Lemma body_deadline_is_whole hdr whole : body_read_deadline hdr whole = whole.
Proof.
  unfold body_read_deadline. rewrite ob_header_deadline_not_kept_for_body.
  destruct hdr as [x|], whole as [y|]; cbn [opt_n_eqb]; try reflexivity.
  destruct (x =? y) eqn:E; [apply N.eqb_eq in E; subst; reflexivity | reflexivity].
Qed.

Definition f01_modify_is_pipeline := modify_request_is_pipeline ob_flat_stack ob_xff_reads_all_lines ob_xfwd_fill_reads_all_lines ob_via_reads_all_lines.
Definition f01_end_to_end := end_to_end_preserved ob_hop_list ob_flat_stack ob_xff_reads_all_lines ob_xfwd_fill_reads_all_lines ob_via_reads_all_lines.
Definition f01_removed := hop_by_hop_removed ob_hop_list ob_flat_stack ob_xff_reads_all_lines ob_xfwd_fill_reads_all_lines ob_via_reads_all_lines.
Definition f01_identity := identity_fields ob_flat_stack ob_xff_reads_all_lines ob_xfwd_fill_reads_all_lines ob_via_reads_all_lines.
Definition f01_user_agent := user_agent ob_hop_list ob_flat_stack ob_xff_reads_all_lines ob_xfwd_fill_reads_all_lines ob_via_reads_all_lines.
Definition f01_filled := forwarded_filled ob_hop_list ob_flat_stack ob_xff_reads_all_lines ob_xfwd_fill_reads_all_lines ob_via_reads_all_lines.
Definition f01_via_xff := via_xff_appended ob_hop_list ob_flat_stack ob_xff_reads_all_lines ob_xfwd_fill_reads_all_lines
  ob_via_reads_all_lines ob_via_loop_status ob_via_sets_close ob_via_join_sep ob_proto_table.
Definition f01_upgrade := upgrade_readded ob_hop_list ob_flat_stack ob_xff_reads_all_lines ob_xfwd_fill_reads_all_lines
  ob_via_reads_all_lines ob_handle_order.

Definition f01_model_satisfies_oracle := model_satisfies_oracle ob_hop_list ob_flat_stack ob_xff_reads_all_lines
  ob_xfwd_fill_reads_all_lines ob_via_reads_all_lines ob_via_loop_status ob_via_sets_close ob_via_join_sep ob_proto_table status_400.

Definition f01_rules_and_credentials := rules_and_credentials_applied ob_flat_stack ob_xff_reads_all_lines
  ob_xfwd_fill_reads_all_lines ob_via_reads_all_lines.
Definition f01_site_auth cfg h k := site_auth_pointwise cfg h k ob_basic_auth_tests_key_presence.
(* base64 of the model on a known vector (RFC 4648) and on a credential *)
Lemma b64_vectors : b64 (b "foobar") = b "Zm9vYmFy" /\ b64 (b "fooba") = b "Zm9vYmE=" /\ b64 (b "foob") = b "Zm9vYg==" /\
  basic_value (b "site") (b "secret") = b "Basic c2l0ZTpzZWNyZXQ=".
Proof. vm_compute. repeat split. Qed.

(* route-level statements for C18 *)
Definition f18_stack_refuses_own := stack_refuses_own ob_hop_list ob_flat_stack ob_xff_reads_all_lines ob_xfwd_fill_reads_all_lines
  ob_via_reads_all_lines ob_via_loop_status ob_via_sets_close status_400.
Definition f18_route_terminates := route_terminates ob_hop_list ob_flat_stack ob_xff_reads_all_lines ob_xfwd_fill_reads_all_lines
  ob_via_reads_all_lines ob_via_loop_status ob_via_sets_close status_400.
Definition f18_self_route := self_route ob_hop_list ob_flat_stack ob_xff_reads_all_lines ob_xfwd_fill_reads_all_lines
  ob_via_reads_all_lines ob_via_loop_status ob_via_sets_close status_400.
Definition f18_two_instance_route := two_instance_route ob_hop_list ob_flat_stack ob_xff_reads_all_lines ob_xfwd_fill_reads_all_lines
  ob_via_reads_all_lines ob_via_loop_status ob_via_sets_close status_400.

Definition f01_e2e_meets_oracle := e2e_model_meets_oracle ob_hop_list ob_flat_stack ob_xff_reads_all_lines ob_xfwd_fill_reads_all_lines
  ob_via_reads_all_lines ob_via_loop_status ob_via_sets_close ob_via_join_sep ob_proto_table ob_handle_order ob_allow_http.
Definition f01_e2e_refusal := e2e_model_refusal ob_hop_list ob_flat_stack ob_xff_reads_all_lines ob_xfwd_fill_reads_all_lines
  ob_via_reads_all_lines ob_via_loop_status ob_via_sets_close ob_via_join_sep ob_handle_order ob_status_handler_listed.

Lemma f01_user_agent_never_default tag r r' : modify_request tag r = Passed r' -> raw_get k_ua (q_hdr r') <> None.
Proof. intro H. rewrite (f01_user_agent tag r r' H). destruct (raw_get k_ua (after_removal (q_hdr r))); discriminate. Qed.

(* the shape the source had before commit 48b84b4 loses every X-Forwarded-For field line after the first *)
Lemma legacy_xff_refuted : exists r,
  str_eqb (q_method r) m_connect = false /\
  raw_values k_xff (q_hdr r) = [b "203.0.113.7"; b "198.51.100.1"] /\
  chain (raw_values k_xff (q_hdr (forwarded_gen2 true false r))) <> chain (raw_values k_xff (q_hdr r)) ++ [b "10.1.2.3"].
Proof.
  exists (mkq (b "GET") (b "http") (b "example.com") (b "http://example.com/") (b "10.1.2.3:4567") false 1 1 false
              [(k_xff, [b "203.0.113.7"; b "198.51.100.1"])]).
  split; [reflexivity|]. split; [reflexivity|]. vm_compute. discriminate.
Qed.

(* ... and the fill-in test of that time (first line only) overwrote X-Forwarded-Proto: "", "https" *)
Lemma legacy_fill_refuted : exists r,
  str_eqb (q_method r) m_connect = false /\
  raw_get k_xfp (q_hdr r) = Some [[]; b "https"] /\
  raw_get k_xfp (q_hdr (forwarded_gen2 false true r)) = Some [b "http"].
Proof.
  exists (mkq (b "GET") (b "http") (b "example.com") (b "http://example.com/") (b "10.1.2.3:4567") false 1 1 false
              [(k_xfp, [[]; b "https"])]).
  split; [reflexivity|]. split; reflexivity.
Qed.

(* non-vacuity example, evaluated by vm_compute *)
Lemma example_01 :
  let tag := mk_tag (b "forwarder") (b "00112233445566778899") in
  let r := mkq (b "GET") [] (b "example.com") (b "http://example.com/a?b") (b "10.1.2.3:4567") false 1 1 false
             [(b "X-A", [b "1"; b "2"]); (k_connection, [b "x-b, keep-alive"]); (b "X-B", [b "gone"]);
              (b "Keep-Alive", [b "timeout=5"]); (k_xff, [b "203.0.113.7"; b "198.51.100.1"]); (via_key, [b "1.0 alpha"])] in
  match handle_request tag r with
  | Passed r' =>
      hmap_eqb (q_hdr r')
        [(b "X-A", [b "1"; b "2"]); (k_xff, [b "203.0.113.7, 198.51.100.1, 10.1.2.3"]);
         (via_key, [b "1.0 alpha, 1.1 forwarder-00112233445566778899"]);
         (k_xfp, [b "http"]); (k_xfh, [b "example.com"]); (k_xfu, [b "http://example.com/a?b"]); (k_ua, [[]])] = true
  | Refused _ => False
  end.
Proof. vm_compute. reflexivity. Qed.
