From G01 Require Import ReqE2E.
