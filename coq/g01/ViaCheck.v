(* C18 — executable checkers run on what the implementation did.
   *_model_ok : the model computes what the implementation computed (correspondence)
   *_prop_ok  : the implementation's own output satisfies the property (oracle)     *)
From G01 Require Export Via.

Definition via_result_eqb (a c : via_result) : bool :=
  match a, c with
  | ViaRefused s1 c1, ViaRefused s2 c2 => (s1 =? s2) && Bool.eqb c1 c2
  | ViaOk h1, ViaOk h2 => hmap_eqb h1 h2
  | _, _ => false
  end.

(* ---- the modifier alone (verifhook/mheader.NewViaModifierWithBoundary) ---- *)
Record vcase := { v_name : str; v_bnd : str; v_maj : N; v_min : N; v_in : hmap; v_out : via_result }.

Definition vcase_model_ok (c : vcase) : bool :=
  via_result_eqb (via_modify (mk_tag (v_name c) (v_bnd c)) (v_maj c) (v_min c) (v_in c)) (v_out c).
Definition vcase_prop_ok (c : vcase) : bool :=
  via_prop_ok (mk_tag (v_name c) (v_bnd c)) (v_maj c) (v_min c) (v_in c) (v_out c).

(* ---- routes through real proxy instances ----
   A route is the list of proxy instances a request visits, in order, as wired
   by the harness (a self loop A->A is [A;A], A->B->A is [A;B;A], a straight
   chain A->B->origin is [A;B]); each hop comes with the protocol version of
   the request as it reaches that hop. *)
Record hop := { hp_inst : N; hp_tag : str; hp_maj : N; hp_min : N }.

(* "an identifier unique to that instance": different instances on a route carry different tags *)
Fixpoint tag_clash (p : hop) (l : list hop) : bool :=
  match l with
  | [] => false
  | q :: r => (negb (hp_inst p =? hp_inst q) && str_eqb (hp_tag p) (hp_tag q)) || tag_clash p r
  end.
Fixpoint tags_unique (l : list hop) : bool :=
  match l with
  | [] => true
  | p :: r => negb (tag_clash p r) && tags_unique r
  end.
Record ecase := { e_route : list hop; e_client_via : list str;
                  e_nominated : bool;  (* the client also sent "Connection: Via" *)
                  e_connect : bool;    (* CONNECT (the origin sees a connection, no header) *)
                  e_status : N; e_origin_contacts : N; e_origin_via : list str }.

Inductive route_outcome := RouteRefused (status : N) | RouteDelivered (via_lines : list str).

(* position of a modifier in httpspec.NewStack (Tables.stack_request_order) *)
Fixpoint index_of (x : str) (l : list str) : option nat :=
  match l with
  | [] => None
  | y :: r => if str_eqb x y then Some O else option_map S (index_of x r)
  end.
Definition hbh_before_via : bool :=
  match index_of (b "NewHopByHopModifier") stack_request_order, index_of (b "NewViaModifier") stack_request_order with
  | Some i, Some j => Nat.ltb i j
  | _, _ => false
  end.

(* model: thread the header through via_modify at every hop.  A Via field nominated by the
   client's Connection header is deleted by the hop-by-hop modifier, which httpspec.NewStack
   runs before the Via modifier; the Connection field itself never reaches the next hop. *)
Fixpoint model_route (hops : list hop) (nominated : bool) (h : hmap) : route_outcome :=
  match hops with
  | [] => RouteDelivered (h_values via_key h)
  | p :: r =>
      let h0 := if nominated && hbh_before_via then h_del via_key h else h in
      match exchange_of (via_modify (hp_tag p) (hp_maj p) (hp_min p) h0) with
      | Answered st => RouteRefused st
      | ForwardedOn h' => model_route r false h'
      end
  end.

Definition lines_hmap (lines : list str) : hmap :=
  match lines with [] => [] | _ => [(via_key, lines)] end.

Definition ecase_model_ok (c : ecase) : bool :=
  match model_route (e_route c) (e_nominated c) (lines_hmap (e_client_via c)) with
  | RouteRefused st => (e_status c =? st) && (e_origin_contacts c =? 0)
  | RouteDelivered lines => (e_status c =? 200) && (e_origin_contacts c =? 1) &&
                            (e_connect c || list_str_eqb lines (e_origin_via c))
  end.

(* property: walk the route at the level of RFC list elements.  At the first hop
   whose own element is already in the chain it received the request must have been
   refused (400, origin never contacted); if no hop ever finds even its tag text in the
   chain, the origin is contacted once and sees the client's chain followed by
   the hops' elements in order.  (Tag text present but not as an element: an
   accidental or forged occurrence, either answer is accepted.)  A chain nominated as
   hop-by-hop by the client is, as C01 documents, not forwarded: the first hop
   starts a new chain -- but it must still refuse its own element. *)
Fixpoint spec_route (hops : list hop) (nominated connect : bool) (ch : list str)
         (refused : bool) (st contacts : N) (seen : list str) : bool :=
  match hops with
  | [] => negb refused && (st =? 200) && (contacts =? 1) && (connect || list_str_eqb (chain seen) ch)
  | p :: r =>
      let next := (if nominated then [] else ch) ++ [elem (hp_tag p) (hp_maj p) (hp_min p)] in
      if existsb (fun it => str_eqb (received_by it) (hp_tag p)) ch
      then refused && (st =? 400) && (contacts =? 0)
      else if existsb (fun it => contains it (hp_tag p)) ch
           then (refused && (st =? 400) && (contacts =? 0)) ||
                spec_route r false connect next refused st contacts seen
           else spec_route r false connect next refused st contacts seen
  end.

Definition ecase_prop_ok (c : ecase) : bool :=
  tags_unique (e_route c) &&
  spec_route (e_route c) (e_nominated c) (e_connect c) (chain (e_client_via c))
             (negb (e_status c =? 200)) (e_status c) (e_origin_contacts c) (e_origin_via c).

(* ---- instance tags of repeatedly constructed stacks (httpspec.NewStack through the verif re-export) ---- *)
Record ucase := { u_name : str; u_tags : list str }.
Definition ucase_model_ok (c : ucase) : bool := forallb (tag_has_form (u_name c)) (u_tags c).
Definition ucase_prop_ok (c : ucase) : bool := nodupb (u_tags c) && (80 <=? via_boundary_bytes * 8).

(* ---- the FIRST requests of a fresh instance, concurrent: every request is stamped with one and the same tag, and
   every forwarded request, sent through the same instance again, is refused ---- *)
Record fcase := { f_name : str; f_tags : list str; f_loopback_refused : list bool }.
Definition fcase_model_ok (c : fcase) : bool := forallb (tag_has_form (f_name c)) (f_tags c).
Definition fcase_prop_ok (c : fcase) : bool :=
  match f_tags c with [] => true | t :: r => forallb (str_eqb t) r end &&
  forallb (fun x => x) (f_loopback_refused c) &&
  Nat.eqb (length (f_tags c)) (length (f_loopback_refused c)).

(* indices (from 0) of the cases on which f fails *)
Fixpoint bad_from {A} (f : A -> bool) (i : N) (l : list A) : list N :=
  match l with
  | [] => []
  | x :: r => if f x then bad_from f (i + 1) r else i :: bad_from f (i + 1) r
  end.
Definition bad {A} (f : A -> bool) (l : list A) : list N := bad_from f 0 l.

(* how many cases take each branch of the model (coverage tags):
   0 = no Via received, 1 = received and forwarded, 2 = refused *)
Definition vcase_branch (c : vcase) : N :=
  match v_out c with
  | ViaRefused _ _ => 2
  | ViaOk _ => if is_empty (via_read via_reads_all_lines (v_in c)) then 0 else 1
  end.
Definition count_branch (k : N) (l : list vcase) : N :=
  N.of_nat (length (filter (fun c => vcase_branch c =? k) l)).
