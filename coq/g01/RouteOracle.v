(* C18 — routes of ANY length at the level of the Via chain: the executable route model (ViaCheck.model_route, the one the
   end-to-end runs compare with real routes of proxies) satisfies the route oracle (ViaCheck.spec_route / ecase_prop_ok,
   the predicate the runs evaluate on the real routes) for every list of hops and every client chain, and a route that
   visits an instance a second time is refused with 400 at the latest there.  Facts about the source come from Ob18.v. *)
From Coq Require Import Lia.
From G01 Require Import Via ViaCheck ViaProofs Ob18.

(* ---------- the tag text inside a field line is inside one list element ---------- *)
Lemma infix_rev p s : infix p s -> infix (rev p) (rev s).
Proof. intros [a [c ->]]. exists (rev c), (rev a). rewrite !rev_app_distr, <- app_assoc. reflexivity. Qed.

Lemma infix_drop_ows p s : p <> [] -> (forall c, In c p -> is_ows c = false) -> infix p s -> infix p (drop_ows s).
Proof.
  intros Hne Hp [a [c ->]]. induction a as [|x a IH].
  - destruct p as [|t p]; [contradiction Hne; reflexivity|]. cbn [app drop_ows].
    rewrite (Hp t (or_introl eq_refl)). exists [], c. reflexivity.
  - cbn [app drop_ows]. destruct (is_ows x); [exact IH|]. exists (x :: a), c. reflexivity.
Qed.

Lemma infix_trim p s : p <> [] -> (forall c, In c p -> is_ows c = false) -> infix p s -> infix p (trim_ows s).
Proof.
  intros Hne Hp Hi. unfold trim_ows.
  assert (H1 : infix (rev p) (rev (drop_ows s))) by (apply infix_rev, infix_drop_ows; assumption).
  assert (Hne' : rev p <> []).
  { intro E. apply Hne. rewrite <- (rev_involutive p), E. reflexivity. }
  assert (Hp' : forall c, In c (rev p) -> is_ows c = false) by (intros c Hc; apply Hp, in_rev; exact Hc).
  pose proof (infix_rev _ _ (infix_drop_ows _ _ Hne' Hp' H1)) as H2. rewrite rev_involutive in H2. exact H2.
Qed.

Lemma sub_has_item tag lines : tag_ok tag = true -> own_sub tag lines = true ->
  existsb (fun it => contains it tag) (chain lines) = true.
Proof.
  intros Ht H. destruct (tag_ok_facts tag Ht) as [Hne [H44 [_ Hows]]].
  apply own_sub_spec in H as [l [Hl Hi]].
  destruct (split_has_piece tag H44 (length l) l (le_n _) Hi) as [pc [Hp Hpi]].
  pose proof (infix_trim tag pc Hne Hows Hpi) as Hti.
  apply existsb_exists. exists (trim_ows pc). split.
  - unfold chain. apply in_flat_map. exists l. split; [exact Hl|]. unfold items_ne. apply filter_In. split.
    + unfold items. apply in_map. exact Hp.
    + destruct (trim_ows pc) eqn:E; [|reflexivity]. apply infix_nil in Hti. contradiction.
  - apply contains_spec. exact Hti.
Qed.

(* ---------- one hop ---------- *)
Lemma via_modify_cases tag maj min h :
  (via_modify tag maj min h = ViaRefused 400 true /\ exchange_of (via_modify tag maj min h) = Answered 400) \/
  (exists h', via_modify tag maj min h = ViaOk h' /\ exchange_of (via_modify tag maj min h) = ForwardedOn h').
Proof.
  rewrite via_modify_fixed. unfold via_modify_gen. cbv zeta.
  destruct (negb (is_empty (via_read true h)) && contains (via_read true h) tag).
  - left. rewrite ob_via_loop_status, ob_via_sets_close. split; [reflexivity | apply refused_is_answered_400].
  - right. eexists. split; reflexivity.
Qed.

Definition hops_ok (hops : list hop) : Prop :=
  forall p, In p hops -> tag_ok (hp_tag p) = true /\ hp_maj p < 10 /\ hp_min p < 10.

(* what the runs record about a route, taken from the model's outcome *)
Definition route_meets_spec (hops : list hop) (connect : bool) (ch : list str) (o : route_outcome) : Prop :=
  match o with
  | RouteRefused st => st = 400 /\ forall seen, spec_route hops false connect ch true st 0 seen = true
  | RouteDelivered vl => spec_route hops false connect ch false 200 1 vl = true
  end.

Lemma list_str_eqb_refl l : list_str_eqb l l = true.
Proof. apply list_str_eqb_eq. reflexivity. Qed.

Lemma route_model_meets_spec hops connect : hops_ok hops -> forall h,
  route_meets_spec hops connect (chain (h_values via_key h)) (model_route hops false h).
Proof.
  induction hops as [|p r IH]; intros Hok h.
  - cbn [model_route route_meets_spec spec_route negb andb]. rewrite list_str_eqb_refl, orb_true_r. reflexivity.
  - destruct (Hok p (or_introl eq_refl)) as [Ht [Hm Hn]].
    assert (Hok' : hops_ok r) by (intros q Hq; apply Hok; right; exact Hq).
    destruct (tag_ok_facts _ Ht) as [Hne _].
    cbn [model_route andb].
    destruct (own_sub (hp_tag p) (h_values via_key h)) eqn:Es.
    + (* the tag text is in the chain: this hop refuses *)
      pose proof (sub_has_item _ _ Ht Es) as Hit.
      apply own_sub_spec in Es as [l [Hl Hi]]. apply contains_spec in Hi.
      destruct (f_detects_own (hp_tag p) (hp_maj p) (hp_min p) h l Hne Hl Hi) as [_ Hx]. rewrite Hx.
      cbn [route_meets_spec]. split; [reflexivity|]. intro seen. cbn [spec_route]. rewrite Hit. clear Hit.
      destruct (existsb (fun it => str_eqb (received_by it) (hp_tag p)) _); reflexivity.
    + (* not in the chain: forwarded with the element appended *)
      destruct (f_foreign_forwarded (hp_tag p) (hp_maj p) (hp_min p) h Ht Es) as [h' [Hv Hx]]. rewrite Hx.
      destruct (f_appends (hp_tag p) (hp_maj p) (hp_min p) h h' Ht Hm Hn Hv) as [v [Hv1 [Hch _]]].
      specialize (IH Hok' h'). rewrite Hv1, Hch in IH.
      assert (Hno : existsb (fun it => str_eqb (received_by it) (hp_tag p)) (chain (h_values via_key h)) = false).
      { destruct (existsb (fun it => str_eqb (received_by it) (hp_tag p)) _) eqn:E; [|reflexivity].
        pose proof (own_elem_sub (hp_tag p) (h_values via_key h) Hne E) as C. rewrite Es in C. discriminate C. }
      destruct (model_route r false h') as [st|vl]; cbn [route_meets_spec] in *.
      * destruct IH as [E400 IH]. split; [exact E400|]. intro seen. cbn [spec_route]. rewrite Hno.
        destruct (existsb (fun it => contains it (hp_tag p)) _); [rewrite (IH seen); apply orb_true_r | exact (IH seen)].
      * cbn [spec_route]. rewrite Hno. destruct (existsb (fun it => contains it (hp_tag p)) _); [rewrite IH; apply orb_true_r | exact IH].
Qed.

Lemma values_of_lines lines : h_values via_key (lines_hmap lines) = lines.
Proof. destruct lines as [|l ls]; [reflexivity|]. unfold lines_hmap, h_values. rewrite canon_via. cbn [raw_get].
  rewrite str_eqb_refl. reflexivity. Qed.

(* the observation the model predicts for a route, as a case of the end-to-end stream *)
Definition predicted_ecase (hops : list hop) (lines : list str) (connect : bool) : ecase :=
  match model_route hops false (lines_hmap lines) with
  | RouteRefused st => {| e_route := hops; e_client_via := lines; e_nominated := false; e_connect := connect;
                          e_status := st; e_origin_contacts := 0; e_origin_via := [] |}
  | RouteDelivered vl => {| e_route := hops; e_client_via := lines; e_nominated := false; e_connect := connect;
                            e_status := 200; e_origin_contacts := 1; e_origin_via := vl |}
  end.

Lemma route_model_satisfies_oracle hops lines connect : hops_ok hops -> tags_unique hops = true ->
  ecase_model_ok (predicted_ecase hops lines connect) = true /\ ecase_prop_ok (predicted_ecase hops lines connect) = true.
Proof.
  intros Hok Hu. pose proof (route_model_meets_spec hops connect Hok (lines_hmap lines)) as H.
  rewrite values_of_lines in H. unfold predicted_ecase, ecase_model_ok, ecase_prop_ok.
  destruct (model_route hops false (lines_hmap lines)) as [st|vl] eqn:E; cbn [route_meets_spec] in H;
    cbn [e_route e_client_via e_nominated e_connect e_status e_origin_contacts e_origin_via]; rewrite E, Hu.
  - destruct H as [-> H]. split; [reflexivity|]. exact (H []).
  - split; [cbn [N.eqb andb]; rewrite list_str_eqb_refl; apply orb_true_r | exact H].
Qed.

(* ---------- a route that comes back to an instance ---------- *)
Lemma refused_only_400 hops : forall h st, model_route hops false h = RouteRefused st -> st = 400.
Proof.
  induction hops as [|p r IH]; intros h st H; [discriminate H|]. cbn [model_route andb] in H.
  destruct (via_modify_cases (hp_tag p) (hp_maj p) (hp_min p) h) as [[_ Hx]|[h' [_ Hx]]]; rewrite Hx in H.
  - injection H as <-. reflexivity.
  - exact (IH h' st H).
Qed.

(* once the tag text of p' is in the chain, no route through any hops `mid` gets past p' *)
Lemma carried_tag_refused mid p' post : hp_tag p' <> [] -> forall h,
  own_sub (hp_tag p') (h_values via_key h) = true ->
  model_route (mid ++ p' :: post) false h = RouteRefused 400.
Proof.
  intro Hne. induction mid as [|q mid IH]; intros h Hs.
  - cbn [app model_route andb]. apply own_sub_spec in Hs as [l [Hl Hi]]. apply contains_spec in Hi.
    destruct (f_detects_own (hp_tag p') (hp_maj p') (hp_min p') h l Hne Hl Hi) as [_ Hx]. rewrite Hx. reflexivity.
  - cbn [app model_route andb].
    destruct (via_modify_cases (hp_tag q) (hp_maj q) (hp_min q) h) as [[_ Hx]|[h' [Hv Hx]]]; rewrite Hx; [reflexivity|].
    apply IH. exact (proj1 (f_hops_keep_tag (hp_tag p')) _ _ _ _ _ Hv Hs).
Qed.

(* a forwarding loop of ANY length terminates at its first repetition: whatever hops come before the first visit of
   an instance (pre), between its two visits (mid) and after (post), the route is refused with 400 at the second visit
   at the latest and the origin is never reached *)
Lemma route_refused_at_repetition pre p mid p' post h :
  hp_tag p <> [] -> hp_tag p' = hp_tag p ->
  model_route (pre ++ p :: mid ++ p' :: post) false h = RouteRefused 400.
Proof.
  intros Hne Et. revert h. induction pre as [|q pre IH]; intro h.
  - cbn [app model_route andb].
    destruct (via_modify_cases (hp_tag p) (hp_maj p) (hp_min p) h) as [[_ Hx]|[h' [Hv Hx]]]; rewrite Hx; [reflexivity|].
    apply carried_tag_refused; [rewrite Et; exact Hne|]. rewrite Et.
    rewrite via_modify_fixed in Hv.
    exact (forwarded_has_tag (hp_tag p) (hp_maj p) (hp_min p) h h' Hv).
  - cbn [app model_route andb].
    destruct (via_modify_cases (hp_tag q) (hp_maj q) (hp_min q) h) as [[_ Hx]|[h' [_ Hx]]]; rewrite Hx; [reflexivity|].
    apply IH.
Qed.

(* "Connection: Via" from the client: the hop-by-hop removal runs before the Via modifier, the chain is gone before
   the loop check sees it (known finding) *)
Lemma route_nominated_refuted : exists p lines vl,
  hops_ok [p] /\ own_elem (hp_tag p) lines = true /\
  model_route [p] true (lines_hmap lines) = RouteDelivered vl /\
  spec_route [p] true false (chain lines) false 200 1 vl = false.
Proof.
  exists {| hp_inst := 1; hp_tag := b "fwd-00112233445566778899"; hp_maj := 1; hp_min := 1 |},
         [b "1.0 edge, 1.1 fwd-00112233445566778899"], [b "1.1 fwd-00112233445566778899"].
  split; [|split; [|split]]; try (vm_compute; reflexivity).
  intros p Hp. destruct Hp as [<-|[]]. vm_compute. repeat split; reflexivity.
Qed.

(* non-vacuity: a three-instance loop A -> B -> C -> A -> B with a client chain is refused at A's second visit, and the
   same route without the repetition is delivered with the three elements appended in order *)
Definition ex_hop (i : N) (t : string) : hop := {| hp_inst := i; hp_tag := b t; hp_maj := 1; hp_min := 1 |}.
Lemma route_example :
  let A := ex_hop 1 "fwd-00112233445566778899" in
  let B := ex_hop 2 "fwd-aabbccddeeff00112233" in
  let C := ex_hop 3 "other-0123456789abcdef0123" in
  hops_ok [A; B; C; A; B] /\ tags_unique [A; B; C; A; B] = true /\
  model_route [A; B; C; A; B] false (lines_hmap [b "1.0 edge (x)"]) = RouteRefused 400 /\
  model_route [A; B; C] false (lines_hmap [b "1.0 edge (x)"]) =
    RouteDelivered [b "1.0 edge (x), 1.1 fwd-00112233445566778899, 1.1 fwd-aabbccddeeff00112233, 1.1 other-0123456789abcdef0123"].
Proof.
  cbv zeta. split; [|split; [|split]]; try (vm_compute; reflexivity).
  intros p Hp. cbn [In] in Hp. repeat (destruct Hp as [<-|Hp]; [vm_compute; repeat split; reflexivity|]). destruct Hp.
Qed.
