(* C01 — end-to-end model: what a scripted origin (or upstream proxy) receives for a
   request a raw client sent through the real proxy.
     L1  net/http.ReadRequest + proxyConn.readRequest   (MODELLED: field grouping, Host, URL, Close,
         Transfer-Encoding/Trailer taken out of the header map, Pragma -> Cache-Control)
     L2  ReqPipeline.handle_request                       (the forwarder / martian part, see ReqPipeline.v)
     L3  net/http Transport request writing              (MODELLED: request target, Host, User-Agent,
         framing fields, Accept-Encoding: gzip, Connection: close, sorted field lines)
   and the checkers evaluated on the observations.  No proofs here. *)
From G01 Require Export ReqCheck.

(* ---------- net/url: EscapedPath for a path as received in a request line ---------- *)
Definition is_alnum (c : N) : bool := is_alpha c || is_digit c.
(* shouldEscape(c, encodePath) *)
Definition should_escape_path (c : N) : bool :=
  if is_alnum c then false
  else if mem [c] [[45]; [95]; [46]; [126]] then false                         (* - _ . ~ *)
  else if mem [c] [[36]; [38]; [43]; [44]; [47]; [58]; [59]; [61]; [64]] then false   (* $ & + , / : ; = @ *)
  else true.                                                                     (* '?' and everything else *)
(* validEncoded(s, encodePath): these are accepted although shouldEscape says escape *)
Definition valid_encoded_char (c : N) : bool :=
  mem [c] [[33]; [36]; [38]; [39]; [40]; [41]; [42]; [43]; [44]; [59]; [61]; [58]; [64]; [91]; [93]; [37]]
  || negb (should_escape_path c).
Definition valid_encoded (s : str) : bool := forallb valid_encoded_char s.

Definition hexval (c : N) : option N :=
  if is_digit c then Some (c - 48)
  else if (97 <=? c) && (c <=? 102) then Some (c - 87)
  else if (65 <=? c) && (c <=? 70) then Some (c - 55)
  else None.
Definition hexdig (n : N) : N := if n <? 10 then 48 + n else 55 + n.   (* upper case *)

(* unescape(s, encodePath); None = invalid %-escape (ReadRequest fails) *)
Fixpoint unescape (s : str) : option str :=
  match s with
  | [] => Some []
  | c :: r =>
      if c =? 37 then
        match r with
        | a :: d :: r' =>
            match hexval a, hexval d, unescape r' with
            | Some x, Some y, Some t => Some ((16 * x + y) :: t)
            | _, _, _ => None
            end
        | _ => None
        end
      else match unescape r with Some t => Some (c :: t) | None => None end
  end.
Fixpoint escape_path (s : str) : str :=
  match s with
  | [] => []
  | c :: r => if should_escape_path c then 37 :: hexdig (c / 16) :: hexdig (c mod 16) :: escape_path r
              else c :: escape_path r
  end.
(* URL.EscapedPath() of the URL parsed from path p (setPath + EscapedPath) *)
Definition escaped_path (p : str) : option str :=
  match unescape p with
  | None => None
  | Some u => let e := escape_path u in
              if str_eqb p e || valid_encoded p then Some p
              else if str_eqb u [42] then Some [42] else Some e
  end.

(* ---------- request target ---------- *)
Record target := { t_scheme : str; t_authority : str; t_path : str; t_query : str; t_force_query : bool }.

Definition count_byte (c : N) (s : str) : nat := length (filter (N.eqb c) s).
Definition last_is (c : N) (s : str) : bool := match rev s with d :: _ => c =? d | [] => false end.
(* a Content-Length of 0 and no framing at all are the same (empty) body *)
Definition norm_framing (f len : N) : N := if (f =? 1) && (len =? 0) then 0 else f.
(* url.parse(rawURL, viaRequest=true) for origin-form and absolute-form http targets *)
Definition parse_target (t : str) : target :=
  let abs := has_prefix (lower (firstn 7 t)) (b "http://") in
  let rest0 := if abs then skipn 5 t else t in              (* keeps the "//" of an absolute target *)
  let force := last_is 63 rest0 && Nat.eqb (count_byte 63 rest0) 1 in
  let '(rest, query) := if force then (removelast rest0, [])
                        else match cut_byte 63 rest0 with Some (x, y) => (x, y) | None => (rest0, []) end in
  if abs then
    let a := skipn 2 rest in
    match index_byte 47 a with
    | Some i => {| t_scheme := b "http"; t_authority := firstn i a; t_path := skipn i a; t_query := query; t_force_query := force |}
    | None => {| t_scheme := b "http"; t_authority := a; t_path := []; t_query := query; t_force_query := force |}
    end
  else {| t_scheme := []; t_authority := []; t_path := rest; t_query := query; t_force_query := force |}.

Definition query_suffix (t : target) : str :=
  if t_force_query t || negb (is_empty (t_query t)) then 63 :: t_query t else [].

(* ---------- L1: what ReadRequest + readRequest hand to the pipeline ---------- *)
Definition fields_to_hmap (fs : list (str * str)) : hmap :=
  fold_left (fun h kv => h_add (fst kv) (snd kv) h) fs [].

(* what a peer received, grouped by the exact spelling of the field name on the wire *)
Definition obs_hmap (fs : list (str * str)) : hmap :=
  fold_left (fun h kv => raw_set (fst kv) (raw_values (fst kv) h ++ [snd kv]) h) fs [].

Definition k_host := b "Host".
Definition k_trailer := b "Trailer".
Definition k_pragma := b "Pragma".
Definition k_cache := b "Cache-Control".
Definition k_ae := b "Accept-Encoding".
Definition k_range := b "Range".

(* framing of the body as the client sent it: 0 none, 1 Content-Length, 2 chunked *)
Record xin := {
  xi_mode : N;            (* 0 = direct to the origin, 1 = through an upstream HTTP proxy,
                             2 = inside a MITM'd CONNECT tunnel (TLS to the client and to the origin) *)
  xi_tag : str;           (* this instance's Via tag *)
  xi_client_ip : str;
  xi_method : str; xi_target : str; xi_maj : N; xi_min : N;
  xi_fields : list (str * str);      (* field lines as sent, in order (name, value without outer white space) *)
  xi_framing : N; xi_blen : N;
  xi_trailers : list (str * str)     (* trailer fields sent after the last chunk *)
}.

(* net/http fixTrailer: with chunked framing the Trailer field leaves the header map; the names it announces
   (comma separated, trimmed, canonical) become the keys of req.Trailer; Transfer-Encoding, Trailer and
   Content-Length may not be announced (the request is rejected).  The Transport announces the keys sorted. *)
Fixpoint str_leb (a c : str) : bool :=
  match a, c with
  | [], _ => true
  | _ :: _, [] => false
  | x :: a', y :: c' => if x <? y then true else if y <? x then false else str_leb a' c'
  end.
Fixpoint insert_sorted (s : str) (l : list str) : list str :=
  match l with
  | [] => [s]
  | h :: t => if str_eqb s h then l else if str_leb s h then s :: l else h :: insert_sorted s t
  end.
Definition sort_names (l : list str) : list str := fold_right insert_sorted [] l.
Definition announced (vs : list str) : list str :=
  sort_names (filter (fun n => negb (is_empty n)) (flat_map (fun v => map (fun t => canon (trim_ows t)) (split_byte 44 v)) vs)).
Definition trailer_decl (framing : N) (h : hmap) : list str :=
  if framing =? 2 then announced (raw_values k_trailer h) else [].
Definition bad_trailer_key (k : str) : bool := mem k [k_te; k_trailer; k_cl].

Definition wants_close (maj min : N) (h : hmap) : bool :=
  if (maj =? 1) && (min =? 0) then negb (has_token (raw_values k_connection h) (b "keep-alive"))
  else has_token (raw_values k_connection h) (b "close").

Definition read_request (x : xin) : option (mreq * target) :=
  let t := parse_target (xi_target x) in
  match (if existsb bad_trailer_key (trailer_decl (xi_framing x) (fields_to_hmap (xi_fields x))) then None
         else escaped_path (t_path t)) with
  | None => None
  | Some ep =>
      let h0 := fields_to_hmap (xi_fields x) in
      let host := if is_empty (t_authority t) then h_get k_host h0 else t_authority t in
      let h1 := raw_del k_host h0 in
      (* fixPragmaCacheControl *)
      let h2 := match raw_get k_pragma h1, raw_get k_cache h1 with
                | Some (p :: _), None => if str_eqb p (b "no-cache") then raw_set k_cache [b "no-cache"] h1 else h1
                | _, _ => h1
                end in
      (* readTransfer: Transfer-Encoding (and, when chunked, Content-Length) and Trailer leave the header map *)
      let h3 := raw_del k_trailer (raw_del k_te (if xi_framing x =? 2 then raw_del k_cl h2 else h2)) in
      let tls := xi_mode x =? 2 in
      let r0 := mkq (xi_method x) (t_scheme t) host [] (xi_client_ip x ++ b ":0") tls (xi_maj x) (xi_min x)
                    (wants_close (xi_maj x) (xi_min x) h0) h3 in
      (* req.URL.String() is taken by the forwarded modifier, i.e. after fixRequestScheme chose the scheme *)
      let urlstr := q_scheme (mitm_https (fix_request_scheme proxy_allow_http r0)) ++ b "://" ++ host ++ ep ++ query_suffix t in
      Some (mkq (xi_method x) (t_scheme t) host urlstr (xi_client_ip x ++ b ":0") tls (xi_maj x) (xi_min x)
                (wants_close (xi_maj x) (xi_min x) h0) h3, t)
  end.

(* ---------- L3: what net/http's Transport writes ---------- *)
Record xout := { xo_method : str; xo_target : str; xo_hdr : hmap; xo_framing : N; xo_trailers : hmap }.

Definition excluded_on_write : list str := [k_host; k_ua; k_cl; k_te; k_trailer].

(* the field lines net/http writes for the forwarded request r *)
Definition transport_hdr0 (x : xin) (r : mreq) : hmap :=
  let h := q_hdr r in
  let h1 := filter (fun kv => negb (mem (fst kv) excluded_on_write)) h in
  let h2 := raw_set k_host [q_host r] h1 in
  let h3 := match raw_get k_ua h with
            | Some (v :: _) => if is_empty v then h2 else raw_set k_ua [v] h2
            | Some [] => h2
            | None => raw_set k_ua [b "Go-http-client/1.1"] h2
            end in
  (* transferWriter.shouldSendContentLength with an empty body: "Content-Length: 0" for POST, PUT, PATCH only *)
  let nobody_cl := mem (xi_method x) [b "POST"; b "PUT"; b "PATCH"] in
  let h4 := if xi_framing x =? 2 then raw_set k_te [b "chunked"] h3
            else if (xi_framing x =? 1) && negb (xi_blen x =? 0) then raw_set k_cl [itoa (xi_blen x)] h3
            else if nobody_cl then raw_set k_cl [[48]] h3 else h3 in
  let gzip := is_empty (h_get k_ae h) && is_empty (h_get k_range h) && negb (str_eqb (xi_method x) (b "HEAD")) in
  let h5 := if gzip then raw_set k_ae (raw_values k_ae h4 ++ [b "gzip"]) h4 else h4 in
  if q_close r && negb (has_token (raw_values k_connection h5) (b "close"))
  then raw_set k_connection (b "close" :: raw_values k_connection h5) h5   (* written by the transfer writer, before the field lines *)
  else h5.
(* ... plus the announcement of the trailer names ("Trailer: k1,k2" from req.Trailer) *)
Definition transport_hdr (x : xin) (r : mreq) : hmap :=
  match trailer_decl (xi_framing x) (raw_del k_host (fields_to_hmap (xi_fields x))) with
  | [] => transport_hdr0 x r
  | ks => raw_set k_trailer [join [44] ks] (transport_hdr0 x r)
  end.

Definition transport_out (x : xin) (t : target) (r : mreq) : option xout :=
  match escaped_path (t_path t) with
  | None => None
  | Some ep =>
      let ruri := (if is_empty ep then [47] else ep) ++ query_suffix t in
      let tgt := if xi_mode x =? 1 then q_scheme r ++ b "://" ++ q_host r ++ ruri else ruri in
      Some {| xo_method := xi_method x; xo_target := tgt; xo_hdr := transport_hdr x r;
              xo_framing := if xi_framing x =? 2 then 2 else if (xi_framing x =? 1) && negb (xi_blen x =? 0) then 1 else 0;
              (* every trailer field received is written after the body (announced or not) *)
              xo_trailers := if xi_framing x =? 2 then fields_to_hmap (xi_trailers x) else [] |}
  end.

Inductive xexpect := XRefused (status : N) | XSent (o : xout) | XBadRequest.

Definition e2e_model_cfg (cfg : pcfg) (x : xin) : xexpect :=
  match read_request x with
  | None => XBadRequest
  | Some (r, t) =>
      match handle_request_cfg cfg (xi_tag x) r with
      | Refused st => XRefused st
      | Passed r' => match transport_out x t r' with Some o => XSent o | None => XBadRequest end
      end
  end.

Definition e2e_model (x : xin) : xexpect := e2e_model_cfg no_cfg x.

(* ---------- observation ---------- *)
Record xobs := {
  xb_status : N;            (* status the client saw *)
  xb_count : N;             (* requests the origin / upstream proxy received for this exchange *)
  xb_method : str; xb_target : str; xb_proto : str;
  xb_fields : list (str * str);
  xb_framing : N; xb_blen : N; xb_body_equal : bool;
  xb_trailers : list (str * str)
}.
Record xcase := { x_in : xin; x_obs : xobs }.

Definition xobs_matches (e : xexpect) (x : xin) (o : xobs) : bool :=
  match e with
  | XBadRequest => (xb_status o =? 400) && (xb_count o =? 0)
  | XRefused st => (xb_status o =? st) && (xb_count o =? 0)
  | XSent e =>
      (xb_status o =? 200) && (xb_count o =? 1) &&
      str_eqb (xb_method o) (xo_method e) && str_eqb (xb_target o) (xo_target e) &&
      str_eqb (xb_proto o) (b "HTTP/1.1") &&
      hmap_eqb (obs_hmap (xb_fields o)) (xo_hdr e) &&
      (norm_framing (xb_framing o) (xb_blen o) =? xo_framing e) && (xb_blen o =? xi_blen x) && xb_body_equal o &&
      hmap_eqb (obs_hmap (xb_trailers o)) (xo_trailers e)
  end.
Definition xcase_model_ok (c : xcase) : bool := xobs_matches (e2e_model (x_in c)) (x_in c) (x_obs c).

(* ---------- the property on (sent, received) ---------- *)
(* origin-form of what the client asked for: path and query byte for byte ("/" for an empty path) *)
Definition sent_path_query (x : xin) : str :=
  let t := parse_target (xi_target x) in
  (if is_empty (t_path t) then [47] else t_path t) ++ query_suffix t.
Definition sent_raw_path_query (x : xin) : str :=
  let t := parse_target (xi_target x) in t_path t ++ query_suffix t.
Definition sent_host (x : xin) : str :=
  let t := parse_target (xi_target x) in
  if is_empty (t_authority t) then h_get k_host (fields_to_hmap (xi_fields x)) else t_authority t.

Definition upgrade_requested (h : hmap) : str := upgrade_type h.
Definition sent_scheme (x : xin) : str := if xi_mode x =? 2 then b "https" else b "http".

(* name by name: what the next hop must see *)
Definition xkey_ok (x : xin) (hin hout : hmap) (k : str) : bool :=
  let h0 := after_removal hin in
  let out := raw_get k hout in
  let up := upgrade_requested hin in
  if str_eqb k k_host then opt_vals_eqb out (Some [sent_host x])
  else if str_eqb k via_key then
    list_str_eqb (chain (raw_values via_key hout)) (chain (raw_values via_key h0) ++ [elem (xi_tag x) (xi_maj x) (xi_min x)])
  else if str_eqb k k_xff then
    list_str_eqb (chain (raw_values k_xff hout)) (chain (raw_values k_xff h0) ++ [xi_client_ip x])
  else if str_eqb k k_xfp then fill_ok (sent_scheme x) (raw_get k h0) out
  else if str_eqb k k_xfh then fill_ok (sent_host x) (raw_get k h0) out
  else if str_eqb k k_xfu then
    match raw_get k h0 with
    | Some vs => if some_nonempty vs then opt_vals_eqb out (Some vs) else true
    | None => match out with
              | Some [v] => (* the URL the client asked for *)
                  str_eqb v (sent_scheme x ++ b "://" ++ sent_host x ++ sent_path_query x) ||
                  str_eqb v (sent_scheme x ++ b "://" ++ sent_host x ++ sent_raw_path_query x)
              | _ => false
              end
    end
  else if str_eqb k k_ua then
    (* never invented; an empty User-Agent field carries nothing and net/http cannot emit one *)
    match raw_get k h0 with
    | Some vs => opt_vals_eqb out (Some vs) || (negb (some_nonempty vs) && opt_vals_eqb out None)
    | None => opt_vals_eqb out None
    end
  else if str_eqb k k_ae then
    match raw_get k h0 with
    | Some vs => opt_vals_eqb out (Some vs)
    | None => opt_vals_eqb out None || opt_vals_eqb out (Some [b "gzip"])
    end
  else if str_eqb k k_cl then
    if xi_framing x =? 1 then opt_vals_eqb out (Some [itoa (xi_blen x)]) || ((xi_blen x =? 0) && opt_vals_eqb out None)
    else if xi_framing x =? 2 then opt_vals_eqb out None
    else opt_vals_eqb out None || opt_vals_eqb out (Some [[48]])
  else if str_eqb k k_te then
    if xi_framing x =? 2 then opt_vals_eqb out (Some [b "chunked"]) else opt_vals_eqb out None
  else if str_eqb k k_trailer then
    (* the client's Trailer field belongs to its connection; towards the next hop the proxy announces exactly the
       trailer names the client announced (it forwards the trailer fields), and nothing when there are none *)
    match out with
    | None => match trailer_decl (xi_framing x) hin with [] => true | _ => false end
    | Some vs => list_str_eqb (announced vs) (trailer_decl (xi_framing x) hin) && negb (is_empty (concat vs))
    end
  else if str_eqb k k_connection then
    (* the proxy's own connection management towards the next hop; Upgrade only when one was requested *)
    match out with
    | None => is_empty up
    | Some vs => forallb (fun v => eq_fold v (b "close") || (negb (is_empty up) && str_eqb v k_upgrade)) vs &&
                 (is_empty up || mem k_upgrade vs)
    end
  else if str_eqb k k_upgrade then
    if is_empty up then opt_vals_eqb out None else opt_vals_eqb out (Some [up])
  else if is_removed k hin then opt_vals_eqb out None
  else opt_vals_eqb out (raw_get k hin).

Definition xdoc_keys : list str :=
  [k_host; via_key; k_xff; k_xfp; k_xfh; k_xfu; k_ua; k_ae; k_cl; k_te; k_trailer; k_connection; k_upgrade].

Definition xprop_ok (keyok : xin -> hmap -> hmap -> str -> bool) (extra : list str) (x : xin) (o : xobs) : bool :=
  let hin := raw_del k_host (fields_to_hmap (xi_fields x)) in
  let hout := obs_hmap (xb_fields o) in
  let looped := own_sub (xi_tag x) (raw_values via_key (after_removal hin)) in
  if xb_count o =? 0 then
    (* not forwarded: only a detected loop justifies it *)
    looped && (xb_status o =? 400)
  else
    negb (own_elem (xi_tag x) (raw_values via_key (after_removal hin))) &&
    (xb_count o =? 1) && (xb_status o =? 200) &&
    str_eqb (xb_method o) (xi_method x) &&
    str_eqb (xb_target o) ((if xi_mode x =? 1 then b "http://" ++ sent_host x else []) ++ sent_path_query x) &&
    forallb (keyok x hin hout) (xdoc_keys ++ extra ++ keys hin ++ keys hout) &&
    (xb_blen o =? xi_blen x) && xb_body_equal o &&
    (norm_framing (xb_framing o) (xb_blen o) =? norm_framing (xi_framing x) (xi_blen x)) &&
    (* the trailer fields of a chunked body arrive, per name, as sent *)
    hmap_eqb (obs_hmap (xb_trailers o)) (if xi_framing x =? 2 then fields_to_hmap (xi_trailers x) else []).
Definition xcase_prop_ok (c : xcase) : bool := xprop_ok xkey_ok [] (x_in c) (x_obs c).

(* which parts of the predicate fail, for naming the input class of a violation *)
Definition xdiag_gen (keyok : xin -> hmap -> hmap -> str -> bool) (extra : list str) (x : xin) (o : xobs) : list str :=
  let hin := raw_del k_host (fields_to_hmap (xi_fields x)) in
  let hout := obs_hmap (xb_fields o) in
  if xprop_ok keyok extra x o then [] else
  if xb_count o =? 0 then [b "NOTFORWARDED"] else
   (if str_eqb (xb_target o) ((if xi_mode x =? 1 then b "http://" ++ sent_host x else []) ++ sent_path_query x) then [] else [b "TARGET"]) ++
   (if str_eqb (xb_method o) (xi_method x) then [] else [b "METHOD"]) ++
   (if (xb_blen o =? xi_blen x) && xb_body_equal o then [] else [b "BODY"]) ++
   (if hmap_eqb (obs_hmap (xb_trailers o)) (if xi_framing x =? 2 then fields_to_hmap (xi_trailers x) else []) then [] else [b "TRAILERS"]) ++
   (if (norm_framing (xb_framing o) (xb_blen o) =? norm_framing (xi_framing x) (xi_blen x)) then [] else [b "FRAMING"]) ++
   (if (xb_status o =? 200) && (xb_count o =? 1) then [] else [b "STATUS"]) ++
   (if negb (own_elem (xi_tag x) (raw_values via_key (after_removal hin))) then [] else [b "OWNFORWARDED"]) ++
   nodup (list_eq_dec N.eq_dec) (filter (fun k => negb (keyok x hin hout k)) (xdoc_keys ++ extra ++ keys hin ++ keys hout)).
Definition xdiag (c : xcase) : list str := xdiag_gen xkey_ok [] (x_in c) (x_obs c).

(* ---------- configured proxies: --header rules and --credentials ---------- *)
(* y_cfg carries what the REAL CredentialsMatcher answered for the request's URL (the model's input, used for the
   correspondence); y_want is what the documented precedence selects from the --credentials table (exact host:port,
   then *:port, then host:*, then *:*; default ports 80 / 443), computed independently by the harness's reference:
   the property predicate expects the Authorization of y_want. *)
Record ycase := { y_cfg : pcfg; y_want : option (str * str); y_in : xin; y_obs : xobs }.
Definition ycase_model_ok (c : ycase) : bool := xobs_matches (e2e_model_cfg (y_cfg c) (y_in c)) (y_in c) (y_obs c).
(* names outside the documented set: after the hop-by-hop removal, rewritten by the configured request rules, then
   the site credentials; when a rule acts on a documented field only the correspondence is checked for the case *)
Definition ykey_ok (cfg : pcfg) (x : xin) (hin hout : hmap) (k : str) : bool :=
  if negb (rules_clean (p_request_rules cfg) xdoc_keys) then true
  else if mem k xdoc_keys then xkey_ok x hin hout k
  else opt_vals_eqb (raw_get k hout)
         (raw_get k (site_auth_spec cfg (G16.Model.apply_rules (p_request_rules cfg) (after_removal hin)))).
Definition want_cfg (c : ycase) : pcfg :=
  {| p_request_rules := p_request_rules (y_cfg c); p_connect_rules := p_connect_rules (y_cfg c); p_cred := y_want c |}.
Definition ycase_prop_ok (c : ycase) : bool := xprop_ok (ykey_ok (want_cfg c)) [k_authorization] (y_in c) (y_obs c).
Definition ydiag (c : ycase) : list str := xdiag_gen (ykey_ok (want_cfg c)) [k_authorization] (y_in c) (y_obs c).

(* ---------- proxyConn.readRequest: which read deadline is armed while the BODY is read ----------
   hdr / whole = the header and whole-request deadlines (None = zero time = no deadline).  After the head has been
   read the source switches to the whole-request deadline when the two differ; Tables.deadline_adjust_requires_whole
   says whether it (wrongly) does so only when a whole-request deadline is configured. *)
Definition opt_n_eqb (a c : option N) : bool :=
  match a, c with Some x, Some y => x =? y | None, None => true | _, _ => false end.
Definition body_read_deadline (hdr whole : option N) : option N :=
  if opt_n_eqb hdr whole then hdr
  else if deadline_adjust_requires_whole then match whole with Some w => Some w | None => hdr end
  else whole.
