(* C01 — the end-to-end model satisfies the end-to-end predicate: for every well-formed client request the
   observation that e2e_model predicts passes xkey_ok for every field name, has the client's method and target and
   the client's framing.  Ties the run-time oracle (xcase_prop_ok) to the model by a theorem. *)
From Coq Require Import Lia.
From G01 Require Import ReqE2E ViaProofs ReqProofs TransportTac TransportProofs TransportProofs2.

Definition hin_of (x : xin) : hmap := raw_del k_host (fields_to_hmap (xi_fields x)).

(* net/http adds Cache-Control: no-cache for "Pragma: no-cache" without Cache-Control (known finding): excluded here *)
Definition pragma_clean (h : hmap) : bool :=
  match raw_get k_pragma h, raw_get k_cache h with
  | Some (p :: _), None => negb (str_eqb p (b "no-cache"))
  | _, _ => true
  end.

Definition opt_str_eqb (a c : option str) : bool :=
  match a, c with Some x, Some y => str_eqb x y | None, None => true | _, _ => false end.

Definition no_names (l : list str) : bool := match l with [] => true | _ => false end.

(* the domain of the theorem *)
Definition wf_x (x : xin) : bool :=
  let t := parse_target (xi_target x) in
  let hin := hin_of x in
  tag_ok (xi_tag x) && (xi_maj x <? 10) && (xi_min x <? 10) &&
  tag_ok (xi_client_ip x) &&
  opt_str_eqb (split_host_port_host (xi_client_ip x ++ b ":0")) (Some (xi_client_ip x)) &&   (* an IPv4-like address *)
  negb (str_eqb (xi_method x) m_connect) &&
  opt_str_eqb (escaped_path (t_path t)) (Some (t_path t)) &&    (* path needs no re-encoding (known finding otherwise) *)
  pragma_clean hin &&
  (xi_framing x <=? 2) && (xi_mode x <=? 2) &&
  ((xi_framing x =? 2) || opt_vals_eqb (raw_get k_cl hin) (if xi_framing x =? 1 then Some [itoa (xi_blen x)] else None)) &&
  (* outside an intercepted session an origin-form target takes its scheme from X-Forwarded-Proto (C07's business) *)
  ((xi_mode x =? 2) || negb (is_empty (t_scheme t)) || is_empty (h_get k_xfp hin) || str_eqb (h_get k_xfp hin) (sent_scheme x)) &&
  (Nat.leb (length (raw_values k_ua hin)) 1) &&
  match raw_get k_ae hin with Some (v :: _) => negb (is_empty v) | Some [] => false | None => true end &&
  (* no trailers (they are forwarded and re-announced: tested end to end, not part of this theorem) *)
  no_names (trailer_decl (xi_framing x) (fields_to_hmap (xi_fields x))) && no_names (trailer_decl (xi_framing x) hin).

(* ---------- L1: what ReadRequest hands over, name by name ---------- *)
Definition l1_hdr (x : xin) : hmap :=
  raw_del k_trailer (raw_del k_te (if xi_framing x =? 2 then raw_del k_cl (hin_of x) else hin_of x)).

Lemma l1_get x k : raw_get k (l1_hdr x) =
  if str_eqb k k_trailer || str_eqb k k_te || ((xi_framing x =? 2) && str_eqb k k_cl) then None else raw_get k (hin_of x).
Proof.
  unfold l1_hdr. destruct (str_eqb k k_trailer) eqn:E1.
  - apply str_eqb_eq in E1. subst. apply raw_get_del_same.
  - apply str_eqb_neq in E1. rewrite raw_get_del_other by exact E1. cbn [orb].
    destruct (str_eqb k k_te) eqn:E2.
    + apply str_eqb_eq in E2. subst. apply raw_get_del_same.
    + apply str_eqb_neq in E2. rewrite raw_get_del_other by exact E2. cbn [orb].
      destruct (xi_framing x =? 2); [|reflexivity]. cbn [andb].
      destruct (str_eqb k k_cl) eqn:E3.
      * apply str_eqb_eq in E3. subst. apply raw_get_del_same.
      * apply str_eqb_neq in E3. apply raw_get_del_other. exact E3.
Qed.

Lemma read_request_shape x : trailer_decl (xi_framing x) (fields_to_hmap (xi_fields x)) = [] -> pragma_clean (hin_of x) = true ->
  opt_str_eqb (escaped_path (t_path (parse_target (xi_target x)))) (Some (t_path (parse_target (xi_target x)))) = true ->
  exists r, read_request x = Some (r, parse_target (xi_target x)) /\
    q_hdr r = l1_hdr x /\ q_method r = xi_method x /\ q_host r = sent_host x /\ q_scheme r = t_scheme (parse_target (xi_target x)) /\
    q_maj r = xi_maj x /\ q_min r = xi_min x /\ q_tls r = (xi_mode x =? 2) /\ q_remote r = xi_client_ip x ++ b ":0" /\
    q_close r = wants_close (xi_maj x) (xi_min x) (fields_to_hmap (xi_fields x)) /\
    q_urlstr r = q_scheme (prep
                   (mkq (xi_method x) (t_scheme (parse_target (xi_target x))) (sent_host x) [] (xi_client_ip x ++ b ":0")
                        (xi_mode x =? 2) (xi_maj x) (xi_min x) (wants_close (xi_maj x) (xi_min x) (fields_to_hmap (xi_fields x))) (l1_hdr x)))
                 ++ b "://" ++ sent_host x ++ t_path (parse_target (xi_target x)) ++ query_suffix (parse_target (xi_target x)).
Proof.
  intros Htr Hp He. unfold read_request. rewrite Htr. cbn [existsb].
  destruct (escaped_path (t_path (parse_target (xi_target x)))) as [ep|] eqn:E; [|discriminate He].
  cbn [opt_str_eqb] in He. apply str_eqb_eq in He. subst ep.
  assert (P : (match raw_get k_pragma (raw_del k_host (fields_to_hmap (xi_fields x))),
                     raw_get k_cache (raw_del k_host (fields_to_hmap (xi_fields x))) with
               | Some (p :: _), None => if str_eqb p (b "no-cache")
                                        then raw_set k_cache [b "no-cache"] (raw_del k_host (fields_to_hmap (xi_fields x)))
                                        else raw_del k_host (fields_to_hmap (xi_fields x))
               | _, _ => raw_del k_host (fields_to_hmap (xi_fields x))
               end) = hin_of x).
  { unfold pragma_clean, hin_of in Hp. unfold hin_of.
    destruct (raw_get k_pragma _) as [[|p ps]|]; try reflexivity.
    destruct (raw_get k_cache _); [reflexivity|]. apply negb_true_iff in Hp. rewrite Hp. reflexivity. }
  rewrite P. eexists. split; [reflexivity|]. unfold sent_host, l1_hdr, hin_of. cbn [q_hdr q_method q_host q_scheme q_maj q_min q_tls q_remote q_close q_urlstr mkq].
  repeat split; reflexivity.
Qed.

(* ---------- the removal, before and after L1 ---------- *)
Lemma l1_get_other x k : k <> k_trailer -> k <> k_te -> k <> k_cl -> raw_get k (l1_hdr x) = raw_get k (hin_of x).
Proof.
  intros A B C. rewrite l1_get. apply str_eqb_neq in A, B, C. rewrite A, B, C, andb_false_r. reflexivity.
Qed.

Lemma l1_connection x : raw_values k_connection (l1_hdr x) = raw_values k_connection (hin_of x).
Proof. unfold raw_values. rewrite l1_get_other by discriminate. reflexivity. Qed.

Lemma l1_is_removed x k : is_removed k (l1_hdr x) = is_removed k (hin_of x).
Proof. unfold is_removed, removed_names, nominated. rewrite l1_connection. reflexivity. Qed.

Lemma l1_after_removal x k : raw_get k (after_removal (l1_hdr x)) =
  if (xi_framing x =? 2) && str_eqb k k_cl then None else raw_get k (after_removal (hin_of x)).
Proof.
  rewrite !after_removal_get, l1_is_removed, l1_get.
  destruct (str_eqb k k_trailer) eqn:E1.
  { apply str_eqb_eq in E1. subst. rewrite is_removed_listed by reflexivity. rewrite andb_false_r. reflexivity. }
  destruct (str_eqb k k_te) eqn:E2.
  { apply str_eqb_eq in E2. subst. rewrite is_removed_listed by reflexivity. rewrite andb_false_r. reflexivity. }
  cbn [orb]. destruct ((xi_framing x =? 2) && str_eqb k k_cl); destruct (is_removed k (hin_of x)); reflexivity.
Qed.

Lemma l1_values_after x k : k <> k_cl -> raw_values k (after_removal (l1_hdr x)) = raw_values k (after_removal (hin_of x)).
Proof.
  intro Hk. unfold raw_values. rewrite l1_after_removal. apply str_eqb_neq in Hk. rewrite Hk, andb_false_r. reflexivity.
Qed.

Lemma l1_upgrade x : upgrade_type (l1_hdr x) = upgrade_type (hin_of x).
Proof.
  unfold upgrade_type. rewrite l1_connection. rewrite !h_get_raw by reflexivity. rewrite l1_get_other by discriminate. reflexivity.
Qed.

Lemma parse_target_scheme t : is_empty (t_scheme (parse_target t)) = true \/ t_scheme (parse_target t) = b "http".
Proof.
  unfold parse_target. destruct (has_prefix (lower (firstn 7 t)) (b "http://")).
  - right. destruct (last_is 63 _ && _); [|destruct (cut_byte 63 _) as [[? ?]|]];
      match goal with |- context [index_byte 47 ?a] => destruct (index_byte 47 a) end; reflexivity.
  - left. destruct (last_is 63 _ && _); [|destruct (cut_byte 63 _) as [[? ?]|]]; reflexivity.
Qed.

Lemma hr_fold tag r : handle_request_cfg no_cfg tag r = handle_request tag r.
Proof. unfold handle_request. reflexivity. Qed.
Lemma mr_fold tag r : modify_request_cfg no_cfg tag r = modify_request tag r.
Proof. unfold modify_request. reflexivity. Qed.

(* split wf_x into its conjuncts *)
Ltac split_andb H :=
  repeat match type of H with
  | (_ && _) = true => let H1 := fresh "W" in let H2 := fresh "W" in apply andb_true_iff in H as [H1 H2]; split_andb H1
  end.

Section E2E.
  Hypothesis Hhop : hop_by_hop_headers = spec_hop_list.
  Hypothesis Hflat : flat_stack = fixed_flat_stack.
  Hypothesis Hxff : xff_reads_all_lines = true.
  Hypothesis Hfill : xfwd_fill_reads_all_lines = true.
  Hypothesis Hvia : via_reads_all_lines = true.
  Hypothesis Hst : via_loop_status = 400.
  Hypothesis Hcl : via_sets_close = true.
  Hypothesis Hsep : via_join_sep = comma_sp.
  Hypothesis Hproto : proto_table_ok = true.
  Hypothesis Horder : handle_order = fixed_handle_order.
  Hypothesis Hallow : proxy_allow_http = true.
  Hypothesis Hhandler : In (b "handleMartianErrorStatus") error_handlers.

  (* the scheme the modifiers see is the one the client used to reach the proxy's next hop: https inside an
     intercepted session, otherwise what fixRequestScheme settles on *)
  Lemma fixed_scheme x r :
    q_scheme r = t_scheme (parse_target (xi_target x)) -> q_tls r = (xi_mode x =? 2) -> q_hdr r = l1_hdr x ->
    ((xi_mode x =? 2) || negb (is_empty (t_scheme (parse_target (xi_target x)))) || is_empty (h_get k_xfp (hin_of x))
       || str_eqb (h_get k_xfp (hin_of x)) (sent_scheme x)) = true ->
    q_scheme (prep r) = sent_scheme x.
  Proof.
    intros Es Et Eh W2. unfold prep, mitm_https.
    assert (TL : q_tls (fix_request_scheme proxy_allow_http r) = q_tls r).
    { destruct r as [m sc ho us re tl mj mn cl hd]. unfold fix_request_scheme.
      cbn [q_scheme q_tls q_hdr set_scheme].
      repeat match goal with |- context [if ?c then _ else _] => destruct c end; reflexivity. }
    rewrite TL, Et. unfold sent_scheme in *.
    destruct (xi_mode x =? 2) eqn:M2; [reflexivity|]. cbn [orb] in W2.
    unfold fix_request_scheme. rewrite Hallow. cbn [negb]. rewrite andb_false_r.
    assert (XP : h_get k_xfp (q_hdr r) = h_get k_xfp (hin_of x)).
    { rewrite Eh. rewrite !h_get_raw by reflexivity. rewrite l1_get_other by discriminate. reflexivity. }
    rewrite XP, Et.
    destruct (parse_target_scheme (xi_target x)) as [E|E].
    - rewrite Es, E. rewrite E in W2. cbn [negb orb] in W2. cbv zeta.
      destruct (is_empty (h_get k_xfp (hin_of x))) eqn:Ex; cbn [negb].
      + reflexivity.
      + cbn [orb] in W2. apply str_eqb_eq in W2. cbn [q_scheme set_scheme]. exact W2.
    - assert (NE : is_empty (q_scheme r) = false) by (rewrite Es, E; reflexivity).
      rewrite NE. rewrite Es, E. reflexivity.
  Qed.

  Lemma fix_scheme_others a r : q_method (fix_request_scheme a r) = q_method r /\ q_host (fix_request_scheme a r) = q_host r /\
    q_maj (fix_request_scheme a r) = q_maj r /\ q_min (fix_request_scheme a r) = q_min r /\
    q_close (fix_request_scheme a r) = q_close r /\ q_remote (fix_request_scheme a r) = q_remote r /\
    q_urlstr (fix_request_scheme a r) = q_urlstr r.
  Proof.
    unfold fix_request_scheme.
    repeat match goal with |- context [if ?c then _ else _] => destruct c end; repeat split; reflexivity.
  Qed.

  Lemma prep_others r : q_method (prep r) = q_method r /\ q_host (prep r) = q_host r /\
    q_maj (prep r) = q_maj r /\ q_min (prep r) = q_min r /\
    q_close (prep r) = q_close r /\ q_remote (prep r) = q_remote r /\ q_urlstr (prep r) = q_urlstr r.
  Proof.
    unfold prep, mitm_https. destruct (fix_scheme_others proxy_allow_http r) as [A [B [C [D [E [F G]]]]]].
    destruct (q_tls _); cbn [q_method q_host q_maj q_min q_close q_remote q_urlstr set_scheme]; repeat split; assumption.
  Qed.

  Lemma opt_str_eqb_eq a c : opt_str_eqb a c = true -> a = c.
  Proof. destruct a, c; cbn; intro H; try discriminate; [apply str_eqb_eq in H; subst|]; reflexivity. Qed.

  Lemma e2e_model_meets_oracle x e : wf_x x = true -> e2e_model x = XSent e ->
    xo_method e = xi_method x /\
    xo_target e = (if xi_mode x =? 1 then b "http://" ++ sent_host x else []) ++ sent_path_query x /\
    xo_framing e = norm_framing (xi_framing x) (xi_blen x) /\
    own_elem (xi_tag x) (raw_values via_key (after_removal (hin_of x))) = false /\
    forall k, xkey_ok x (hin_of x) (xo_hdr e) k = true.
  Proof.
    intros W H. unfold wf_x in W. cbv zeta in W.
    apply andb_true_iff in W as [W Wtr2]. apply andb_true_iff in W as [W Wtr1].
    assert (Tr1 : trailer_decl (xi_framing x) (fields_to_hmap (xi_fields x)) = []) by (destruct (trailer_decl _ _); [reflexivity | discriminate]).
    assert (Tr2 : trailer_decl (xi_framing x) (hin_of x) = []) by (destruct (trailer_decl _ (hin_of x)); [reflexivity | discriminate]).
    apply andb_true_iff in W as [W Wae]. apply andb_true_iff in W as [W Wua]. apply andb_true_iff in W as [W Wxfp].
    apply andb_true_iff in W as [W Wclf]. apply andb_true_iff in W as [W Wm].
    apply andb_true_iff in W as [W Wf]. apply andb_true_iff in W as [W Wprag]. apply andb_true_iff in W as [W Wesc].
    apply andb_true_iff in W as [W Wconn]. apply andb_true_iff in W as [W Wip2]. apply andb_true_iff in W as [W Wip].
    apply andb_true_iff in W as [W Wmin]. apply andb_true_iff in W as [Wtag Wmaj].
    apply N.ltb_lt in Wmaj, Wmin. apply N.leb_le in Wf, Wm. apply negb_true_iff in Wconn.
    apply opt_str_eqb_eq in Wip2.
    destruct (read_request_shape x Tr1 Wprag Wesc) as [r0 [ER [Eh [Em [Eho [Es [Emaj [Emin [Etls [Erem [Ecl Eurl]]]]]]]]]]].
    apply opt_str_eqb_eq in Wesc.
    unfold e2e_model, e2e_model_cfg in H. rewrite ER in H.
    rewrite (hr_fold (xi_tag x) r0) in H.
    destruct (handle_request (xi_tag x) r0) as [st|r'] eqn:EH; [discriminate|].
    rewrite (handle_request_explicit _ _ Horder) in EH. unfold handle_explicit, handle_explicit_cfg in EH. cbv zeta in EH.
    rewrite (mr_fold (xi_tag x) (prep r0)) in EH.
    set (rf := prep r0) in *.
    destruct (modify_request (xi_tag x) rf) as [st|r1] eqn:EM; [discriminate|]. injection EH as EH.
    unfold transport_out in H. rewrite Wesc in H. injection H as <-. cbn [xo_method xo_target xo_framing xo_hdr].
    assert (TH : transport_hdr x r' = transport_hdr0 x r').
    { unfold transport_hdr. fold (hin_of x). rewrite Tr2. reflexivity. }
    rewrite TH.
    (* facts about rf *)
    assert (Hrf : q_hdr rf = l1_hdr x) by (unfold rf; rewrite prep_hdr; exact Eh).
    destruct (prep_others r0) as [Fm [Fh [Fmaj [Fmin [Fcl [Frem Furl]]]]]]. fold rf in Fm, Fh, Fmaj, Fmin, Fcl, Frem, Furl.
    assert (Fs : q_scheme rf = sent_scheme x) by (apply (fixed_scheme x r0 Es Etls Eh Wxfp)).
    assert (Eurl' : q_urlstr rf = sent_scheme x ++ b "://" ++ sent_host x ++ sent_raw_path_query x).
    { rewrite Furl, Eurl. unfold sent_raw_path_query. f_equal.
      match goal with |- q_scheme (prep ?m) = _ =>
        apply (fixed_scheme x m); [reflexivity | reflexivity | reflexivity | exact Wxfp] end. }
    (* facts about r1 *)
    destruct (identity_fields Hflat Hxff Hfill Hvia _ rf r1 EM) as [Im [Iho [Iurl [Isch [Imaj [Imin Icl]]]]]].
    assert (NC : str_eqb (q_method rf) m_connect = false) by (rewrite Fm, Em; exact Wconn).
    assert (Mrf : q_maj rf < 10 /\ q_min rf < 10) by (rewrite Fmaj, Fmin, Emaj, Emin; split; assumption).
    destruct Mrf as [Mj Mn].
    destruct (via_xff_appended Hhop Hflat Hxff Hfill Hvia Hst Hcl Hsep Hproto _ rf r1 Wtag Mj Mn EM) as [V1 [V2 V3]]. cbv zeta in V1, V2, V3.
    assert (CIP : client_ip rf = xi_client_ip x) by (unfold client_ip; rewrite Frem, Erem, Wip2; reflexivity).
    specialize (V3 NC). rewrite CIP in V3. specialize (V3 Wip).
    destruct (forwarded_filled Hhop Hflat Hxff Hfill Hvia _ rf r1 EM NC) as [F1 [F2 F3]]. cbv zeta in F1, F2, F3.
    pose proof (user_agent Hhop Hflat Hxff Hfill Hvia _ rf r1 EM) as UA.
    rewrite Hrf in V1, V2, V3, F1, F2, F3, UA.
    assert (AR : forall k, k <> k_cl -> raw_get k (after_removal (l1_hdr x)) = raw_get k (after_removal (hin_of x))).
    { intros k Hk. rewrite l1_after_removal. apply str_eqb_neq in Hk. rewrite Hk, andb_false_r. reflexivity. }
    (* facts about r' *)
    set (up := upgrade_type (q_hdr r0)) in *.
    assert (UPE : up = upgrade_type (hin_of x)) by (unfold up; rewrite Eh; apply l1_upgrade).
    assert (Rn : q_host r' = q_host r1 /\ q_scheme r' = q_scheme r1 /\ q_close r' = q_close r1).
    { rewrite <- EH. destruct (is_empty up); repeat split; reflexivity. }
    destruct Rn as [Rh [Rs Rc]].
    assert (Rk : forall k, k <> k_connection -> k <> k_upgrade -> raw_get k (q_hdr r') = raw_get k (q_hdr r1)).
    { intros k A B. rewrite <- EH. destruct (is_empty up); [reflexivity|]. cbn [q_hdr set_hdr].
      rewrite raw_get_h_set_other by (try reflexivity; assumption). apply raw_get_h_set_other; [reflexivity | assumption]. }
    assert (R1none : forall k, mem k spec_hop_list = true -> mem k doc_keys = false -> raw_get k (q_hdr r1) = None).
    { intros k A B. apply (hop_by_hop_removed Hhop Hflat Hxff Hfill Hvia _ rf r1 k EM); [apply is_removed_listed; exact A | exact B]. }
    assert (Rconn : raw_get k_connection (q_hdr r') = if is_empty up then None else Some [k_upgrade]).
    { rewrite <- EH. destruct (is_empty up).
      - apply R1none; reflexivity.
      - cbn [q_hdr set_hdr]. rewrite raw_get_h_set_other by (try reflexivity; discriminate). apply raw_get_h_set_same. reflexivity. }
    assert (Rupg : raw_get k_upgrade (q_hdr r') = if is_empty up then None else Some [up]).
    { rewrite <- EH. destruct (is_empty up).
      - apply R1none; reflexivity.
      - cbn [q_hdr set_hdr]. apply raw_get_h_set_same. reflexivity. }
    assert (OUT : forall k, mem k excluded_on_write = false -> k <> k_ae -> k <> k_connection -> k <> k_upgrade ->
                  raw_get k (transport_hdr0 x r') = raw_get k (q_hdr r1)).
    { intros k A B C D. rewrite transport_get_plain by assumption. apply Rk; assumption. }
    split; [reflexivity|]. split.
    { rewrite Rs, Rh, Isch, Iho, Fs, Fh, Eho. unfold sent_path_query, sent_scheme. fold (parse_target (xi_target x)).
      destruct (xi_mode x =? 1) eqn:E1.
      - apply N.eqb_eq in E1. rewrite E1. cbn [N.eqb Pos.eqb]. rewrite <- !app_assoc. reflexivity.
      - reflexivity. }
    split.
    { unfold norm_framing. destruct (xi_framing x =? 2) eqn:E2.
      - apply N.eqb_eq in E2. rewrite E2. reflexivity.
      - destruct (xi_framing x =? 1) eqn:E1.
        + apply N.eqb_eq in E1. rewrite E1. cbn [andb]. destruct (xi_blen x =? 0); reflexivity.
        + cbn [andb]. apply N.eqb_neq in E1, E2. lia. }
    split.
    { rewrite <- (l1_values_after x via_key) by discriminate. exact V2. }
    intro k. unfold xkey_ok. cbv zeta.
    (* Host *)
    destruct (str_eqb k k_host) eqn:K1.
    { apply str_eqb_eq in K1. subst k. rewrite transport_host, Rh, Iho, Fh, Eho. apply opt_vals_eqb_eq. reflexivity. }
    apply str_eqb_neq in K1.
    (* Via *)
    destruct (str_eqb k via_key) eqn:K2.
    { apply str_eqb_eq in K2. subst k. apply list_str_eqb_eq.
      unfold raw_values at 1. rewrite OUT by (try reflexivity; discriminate).
      fold (raw_values via_key (q_hdr r1)). rewrite V1, (l1_values_after x via_key) by discriminate.
      rewrite Fmaj, Fmin, Emaj, Emin. reflexivity. }
    apply str_eqb_neq in K2.
    (* X-Forwarded-For *)
    destruct (str_eqb k k_xff) eqn:K3.
    { apply str_eqb_eq in K3. subst k. apply list_str_eqb_eq.
      unfold raw_values at 1. rewrite OUT by (try reflexivity; discriminate).
      fold (raw_values k_xff (q_hdr r1)). rewrite V3, (l1_values_after x k_xff) by discriminate. reflexivity. }
    apply str_eqb_neq in K3.
    (* X-Forwarded-Proto *)
    destruct (str_eqb k k_xfp) eqn:K4.
    { apply str_eqb_eq in K4. subst k. rewrite OUT by (try reflexivity; discriminate). rewrite F1, Fs.
      unfold raw_values. rewrite AR by discriminate. apply fill_ok_of. }
    apply str_eqb_neq in K4.
    (* X-Forwarded-Host *)
    destruct (str_eqb k k_xfh) eqn:K5.
    { apply str_eqb_eq in K5. subst k. rewrite OUT by (try reflexivity; discriminate). rewrite F2, Fh, Eho.
      unfold raw_values. rewrite AR by discriminate. apply fill_ok_of. }
    apply str_eqb_neq in K5.
    (* X-Forwarded-Url *)
    destruct (str_eqb k k_xfu) eqn:K6.
    { apply str_eqb_eq in K6. subst k. rewrite OUT by (try reflexivity; discriminate). rewrite F3.
      unfold raw_values. rewrite AR by discriminate.
      destruct (raw_get k_xfu (after_removal (hin_of x))) as [vs|] eqn:EX.
      - rewrite some_nonempty_concat. destruct (is_empty (concat vs)); cbn [negb]; [reflexivity|].
        apply opt_vals_eqb_eq. reflexivity.
      - cbn [concat is_empty]. rewrite Eurl'. apply orb_true_iff. right. apply str_eqb_refl. }
    apply str_eqb_neq in K6.
    (* User-Agent *)
    destruct (str_eqb k k_ua) eqn:K7.
    { apply str_eqb_eq in K7. subst k. rewrite transport_ua.
      assert (UA' : raw_get k_ua (q_hdr r') = raw_get k_ua (q_hdr r1)) by (apply Rk; discriminate).
      rewrite UA', UA, AR by discriminate.
      assert (UL : raw_values k_ua (after_removal (hin_of x)) = raw_values k_ua (hin_of x) \/ raw_get k_ua (after_removal (hin_of x)) = None).
      { unfold raw_values. rewrite after_removal_get. destruct (is_removed k_ua (hin_of x)); [right; reflexivity | left; reflexivity]. }
      destruct (raw_get k_ua (after_removal (hin_of x))) as [[|v vs]|] eqn:EU.
      - cbn. reflexivity.
      - destruct UL as [UL|UL]; [|discriminate]. unfold raw_values in UL. rewrite EU in UL.
        destruct (raw_get k_ua (hin_of x)) as [l|] eqn:EL; [|discriminate]. subst l.
        unfold raw_values in Wua. rewrite EL in Wua. cbn [length] in Wua.
        destruct vs; [|discriminate Wua].
        destruct (is_empty v) eqn:EV.
        + apply orb_true_iff. right. destruct v; [|discriminate]. reflexivity.
        + apply orb_true_iff. left. apply opt_vals_eqb_eq. reflexivity.
      - cbn. reflexivity. }
    apply str_eqb_neq in K7.
    (* names outside the documented set, after the stack *)
    assert (PL : forall k, mem k doc_keys = false -> raw_get k (q_hdr r1) = raw_get k (after_removal (hin_of x))).
    { intros k0 D.
      assert (NCL : k0 <> k_cl) by (intro; subst; discriminate D).
      rewrite <- (AR k0 NCL), <- Hrf, after_removal_get.
      destruct (is_removed k0 (q_hdr rf)) eqn:IR.
      - apply (hop_by_hop_removed Hhop Hflat Hxff Hfill Hvia _ rf r1 k0 EM IR D).
      - apply (end_to_end_preserved Hhop Hflat Hxff Hfill Hvia _ rf r1 k0 EM IR D). }
    (* Accept-Encoding *)
    destruct (str_eqb k k_ae) eqn:K8.
    { apply str_eqb_eq in K8. subst k. rewrite transport_ae. unfold gzip_added.
      assert (AE1 : raw_get k_ae (q_hdr r') = raw_get k_ae (after_removal (hin_of x))).
      { rewrite Rk by discriminate. apply PL. reflexivity. }
      rewrite h_get_raw by reflexivity. unfold raw_values. rewrite AE1.
      rewrite after_removal_get in *.
      destruct (is_removed k_ae (hin_of x)).
      - destruct (is_empty [] && _ && _); [apply orb_true_iff; right|apply orb_true_iff; left]; apply opt_vals_eqb_eq; reflexivity.
      - destruct (raw_get k_ae (hin_of x)) as [[|v vs]|]; [discriminate Wae| |].
        + apply negb_true_iff in Wae. rewrite Wae. cbn [andb]. apply opt_vals_eqb_eq. reflexivity.
        + destruct (is_empty [] && _ && _); [apply orb_true_iff; right|apply orb_true_iff; left]; apply opt_vals_eqb_eq; reflexivity. }
    apply str_eqb_neq in K8.
    (* Content-Length *)
    destruct (str_eqb k k_cl) eqn:K9.
    { apply str_eqb_eq in K9. subst k. rewrite transport_cl.
      destruct (xi_framing x =? 1) eqn:E1.
      - apply N.eqb_eq in E1. rewrite E1. cbn [N.eqb Pos.eqb andb].
        destruct (xi_blen x =? 0) eqn:E0; cbn [negb].
        + apply N.eqb_eq in E0. rewrite E0.
          destruct (mem (xi_method x) _); [apply orb_true_iff; left | apply orb_true_iff; right]; reflexivity.
        + apply orb_true_iff. left. apply opt_vals_eqb_eq. reflexivity.
      - destruct (xi_framing x =? 2); [reflexivity|]. cbn [andb].
        destruct (mem (xi_method x) _); [apply orb_true_iff; right | apply orb_true_iff; left]; reflexivity. }
    apply str_eqb_neq in K9.
    (* Transfer-Encoding *)
    destruct (str_eqb k k_te) eqn:K10.
    { apply str_eqb_eq in K10. subst k. rewrite transport_te. destruct (xi_framing x =? 2); apply opt_vals_eqb_eq; reflexivity. }
    apply str_eqb_neq in K10.
    (* Trailer: nothing announced, nothing written *)
    destruct (str_eqb k k_trailer) eqn:K13.
    { apply str_eqb_eq in K13. subst k.
      assert (TN : raw_get k_trailer (transport_hdr0 x r') = None).
      { unfold transport_hdr0. cbv zeta.
        repeat match goal with
        | |- context [if ?c then _ else _] => destruct c
        | |- context [match raw_get k_ua ?h with _ => _ end] => destruct (raw_get k_ua h) as [[|? ?]|]
        end; through_sets. }
      rewrite TN, Tr2. reflexivity. }
    apply str_eqb_neq in K13.
    (* Connection *)
    destruct (str_eqb k k_connection) eqn:K11.
    { apply str_eqb_eq in K11. subst k. rewrite transport_conn. unfold upgrade_requested. rewrite <- UPE.
      unfold raw_values. rewrite Rconn.
      destruct (is_empty up) eqn:EU.
      - cbn [has_token existsb negb]. rewrite andb_true_r. destruct (q_close r'); reflexivity.
      - change (has_token [k_upgrade] (b "close")) with false. cbn [negb]. rewrite andb_true_r.
        destruct (q_close r'); cbn [forallb mem existsb negb andb orb]; rewrite ?str_eqb_refl; reflexivity. }
    apply str_eqb_neq in K11.
    (* Upgrade *)
    destruct (str_eqb k k_upgrade) eqn:K12.
    { apply str_eqb_eq in K12. subst k. rewrite transport_get_plain by (try reflexivity; discriminate).
      rewrite Rupg. unfold upgrade_requested. rewrite <- UPE. destruct (is_empty up); apply opt_vals_eqb_eq; reflexivity. }
    apply str_eqb_neq in K12.
    (* every other name *)
    assert (ND : mem k doc_keys = false).
    { unfold mem, doc_keys. cbn [existsb].
      repeat match goal with X : k <> _ |- _ => apply str_eqb_neq in X; rewrite ?X end. reflexivity. }
    destruct (mem k excluded_on_write) eqn:EX.
    - (* every name net/http does not write from the map has been dealt with *)
      exfalso. unfold mem, excluded_on_write in EX. cbn [existsb] in EX.
      apply str_eqb_neq in K1, K7, K9, K10, K13. rewrite K1, K7, K9, K10, K13 in EX. discriminate EX.
    - rewrite OUT by assumption. rewrite (PL k ND), after_removal_get.
      destruct (is_removed k (hin_of x)); apply opt_vals_eqb_eq; reflexivity.
  Qed.

  (* ... and when the model does not forward, it is because of a detected loop (400), unless the Content-Length
     fields the stack sees are contradictory *)
  Lemma e2e_model_refusal x st : wf_x x = true -> e2e_model x = XRefused st ->
    framing_contradictory (after_removal (l1_hdr x)) = false ->
    own_sub (xi_tag x) (raw_values via_key (after_removal (hin_of x))) = true /\ st = 400.
  Proof.
    intros W H FC. unfold wf_x in W. cbv zeta in W.
    apply andb_true_iff in W as [W Wtr2]. apply andb_true_iff in W as [W Wtr1].
    assert (Tr1 : trailer_decl (xi_framing x) (fields_to_hmap (xi_fields x)) = []) by (destruct (trailer_decl _ _); [reflexivity | discriminate]).
    apply andb_true_iff in W as [W Wae]. apply andb_true_iff in W as [W Wua]. apply andb_true_iff in W as [W Wxfp].
    apply andb_true_iff in W as [W Wclf]. apply andb_true_iff in W as [W Wm].
    apply andb_true_iff in W as [W Wf]. apply andb_true_iff in W as [W Wprag]. apply andb_true_iff in W as [W Wesc].
    apply andb_true_iff in W as [W Wconn]. apply andb_true_iff in W as [W Wip2]. apply andb_true_iff in W as [W Wip].
    apply andb_true_iff in W as [W Wmin]. apply andb_true_iff in W as [Wtag Wmaj].
    destruct (read_request_shape x Tr1 Wprag Wesc) as [r0 [ER [Eh _]]].
    unfold e2e_model, e2e_model_cfg in H. rewrite ER in H.
    rewrite (hr_fold (xi_tag x) r0) in H.
    destruct (handle_request (xi_tag x) r0) as [s|r'] eqn:EH.
    - injection H as <-.
      rewrite (handle_request_explicit _ _ Horder) in EH. unfold handle_explicit, handle_explicit_cfg in EH. cbv zeta in EH.
      rewrite (mr_fold (xi_tag x) (prep r0)) in EH.
      destruct (modify_request (xi_tag x) (prep r0)) as [s'|r1] eqn:EM; [|discriminate].
      injection EH as <-. rewrite (modify_request_is_pipeline Hflat Hxff Hfill Hvia) in EM.
      assert (Hst' : status_of_error_status via_loop_status = 400).
      { rewrite Hst. unfold status_of_error_status. apply first_nonzero_status; [discriminate|].
        (* the handler list is part of the status obligation: taken from the caller *) exact Hhandler. }
      destruct (pipeline_refused Hhop Hst Hcl Hsep Hst' _ _ _ Wtag EM) as [[A B]|[A B]].
      + rewrite prep_hdr, Eh in A. rewrite (l1_values_after x via_key) in A by discriminate. split; assumption.
      + rewrite prep_hdr, Eh in A. congruence.
    - destruct (transport_out x _ r'); discriminate.
  Qed.
End E2E.
