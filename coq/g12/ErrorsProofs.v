(* G12.ErrorsProofs — the classifier is total into 400..599 and maps the fault
   classes as the property says.  Facts about the source (order of the handler
   list, status constants, ErrorStatus literals) are Section hypotheses,
   discharged against Tables.v in Obligations.v. *)
From Coq Require Import List Bool NArith Lia.
From FwdLib Require Import Bytes.
From G12 Require Import Tables Errors.
Import ListNotations.
Local Open Scope N_scope.

(* every status constant a handler can return, and the loop bounds of handleStatusText *)
Definition codes_ok : bool :=
  forallb in_error_range
    [code_windows; code_net_timeout; code_net_other; code_tls_record; code_tls_cert; code_tls_ech; code_tls_alert;
     code_auth; code_deny; code_prohibited; code_canceled; code_default] &&
  forallb in_error_range error_status_literals &&
  (400 <=? status_text_lo) && (status_text_hi <=? 600) &&
  ((code_timeout =? 0) || in_error_range code_timeout).   (* 0: the source has no generic time-out handler *)

Lemma in_range_nonzero c : in_error_range c = true -> c <> 0.
Proof. unfold in_error_range. intros H E. subst. discriminate. Qed.

Section Total.
  Hypothesis K : codes_ok = true.

  Lemma codes_facts :
    forallb in_error_range
      [code_windows; code_net_timeout; code_net_other; code_tls_record; code_tls_cert; code_tls_ech; code_tls_alert;
       code_auth; code_deny; code_prohibited; code_canceled; code_default] = true /\
    forallb in_error_range error_status_literals = true /\ 400 <= status_text_lo /\ status_text_hi <= 600.
  Proof.
    unfold codes_ok in K. apply andb_true_iff in K as [K _].
    apply andb_true_iff in K as [K K4]. apply andb_true_iff in K as [K K3]. apply andb_true_iff in K as [K1 K2].
    split; [exact K1|]. split; [exact K2|]. split; apply N.leb_le; assumption.
  Qed.

  Lemma code_in (c : N) :
    In c [code_windows; code_net_timeout; code_net_other; code_tls_record; code_tls_cert; code_tls_ech; code_tls_alert;
          code_auth; code_deny; code_prohibited; code_canceled; code_default] -> in_error_range c = true.
  Proof. destruct codes_facts as (F & _). exact (proj1 (forallb_forall _ _) F c). Qed.

  Ltac known := apply code_in; cbn [In]; repeat (first [left; reflexivity | right]).

  (* each handler answers 0 ("not mine") or a status in 400..599 *)
  Lemma r_windows f : h_windows f = 0 \/ in_error_range (h_windows f) = true.
  Proof. unfold h_windows. destruct (goos_windows && f_win f); [right; known | left; reflexivity]. Qed.
  Lemma r_net f : h_net f = 0 \/ in_error_range (h_net f) = true.
  Proof. unfold h_net. destruct (f_operr f) as [[|]|]; [right; known | right; known | left; reflexivity]. Qed.
  Lemma r_flag c x : in_error_range c = true -> h_flag c x = 0 \/ in_error_range (h_flag c x) = true.
  Proof. intro H. unfold h_flag. destruct x; [right; exact H | left; reflexivity]. Qed.
  Lemma r_timeout x : h_flag code_timeout x = 0 \/ in_error_range (h_flag code_timeout x) = true.
  Proof.
    unfold codes_ok in K. apply andb_true_iff in K as [_ T]. unfold h_flag. destruct x; [|left; reflexivity].
    apply orb_true_iff in T as [T|T]; [left; apply N.eqb_eq; exact T | right; exact T].
  Qed.
  Lemma r_status f : feat_ok f -> h_status f = 0 \/ in_error_range (h_status f) = true.
  Proof.
    intro OK. unfold h_status. unfold feat_ok in OK. destruct (f_status f) as [n|]; [|left; reflexivity].
    right. destruct codes_facts as (_ & F & _). exact (proj1 (forallb_forall _ _) F n OK).
  Qed.
  Lemma r_text f : h_text f = 0 \/ in_error_range (h_text f) = true.
  Proof.
    unfold h_text. destruct (f_https f && (status_text_lo <=? f_text f) && (f_text f <? status_text_hi)) eqn:E; [|left; reflexivity].
    right. apply andb_true_iff in E as [E E3]. apply andb_true_iff in E as [_ E2].
    apply N.leb_le in E2. apply N.ltb_lt in E3. destruct codes_facts as (_ & _ & L & H).
    unfold in_error_range. apply andb_true_iff. split; apply N.leb_le; lia.
  Qed.

  Lemma handler_range name f : feat_ok f ->
    handler_of name f = 0 \/ in_error_range (handler_of name f) = true.
  Proof.
    intro OK. unfold handler_of.
    repeat match goal with |- context [if str_eqb name ?s then _ else _] => destruct (str_eqb name s) end;
      first [ left; reflexivity | apply r_windows | apply r_net | apply (r_status f OK) | apply r_text
            | apply r_timeout | apply r_flag; known ].
  Qed.

  Lemma first_code_range hs f : feat_ok f -> first_code hs f = 0 \/ in_error_range (first_code hs f) = true.
  Proof.
    intro OK. induction hs as [|h r IH]; [left; reflexivity|]. cbn [first_code].
    destruct (handler_range h f OK) as [E|E].
    - rewrite E. exact IH.
    - destruct (handler_of h f =? 0) eqn:Z; [exact IH | right; exact E].
  Qed.

  (* whatever the order and contents of the handler list *)
  Lemma classify_with_total hs f : feat_ok f -> in_error_range (classify_with hs f) = true.
  Proof.
    intro OK. unfold classify_with. destruct (first_code hs f =? 0) eqn:Z.
    - known.
    - destruct (first_code_range hs f OK) as [E|E]; [rewrite E in Z; discriminate | exact E].
  Qed.

  Lemma classify_total f : feat_ok f -> 400 <= classify f <= 599.
  Proof.
    intro OK. pose proof (classify_with_total handler_order f OK) as H. unfold in_error_range in H.
    apply andb_true_iff in H as [H1 H2]. apply N.leb_le in H1, H2. unfold classify. lia.
  Qed.
End Total.

(* ---- the mapping, for the handler order of the source ---- *)
Definition expected_order : list str :=
  [b "handleWindowsNetError"; b "handleNetError"; b "handleTimeoutError"; b "handleTLSRecordHeader"; b "handleTLSCertificateError";
   b "handleTLSECHRejectionError"; b "handleTLSAlertError"; b "handleMartianErrorStatus"; b "handleAuthenticationError";
   b "handleDenyError"; b "handleProhibitedError"; b "handleContextCancelationError"; b "handleStatusText"].

Definition orelse (c k : N) : N := if c =? 0 then k else c.
Definition chain (f : feat) : N :=
  orelse (h_windows f) (orelse (h_net f) (orelse (h_flag code_timeout (f_timeout f)) (orelse (h_flag code_tls_record (f_record f))
  (orelse (h_flag code_tls_cert (f_cert f)) (orelse (h_flag code_tls_ech (f_ech f)) (orelse (h_flag code_tls_alert (f_alert f))
  (orelse (h_status f) (orelse (h_flag code_auth (f_auth f)) (orelse (h_flag code_deny (f_deny f))
  (orelse (h_flag code_prohibited (f_prohibited f)) (orelse (h_flag code_canceled (f_canceled f)) (orelse (h_text f) 0)))))))))))).

Lemma first_code_chain f : first_code expected_order f = chain f.
Proof. reflexivity. Qed.

Section Map.
  Hypothesis Ord : handler_order = expected_order.
  Hypothesis NoWin : goos_windows = false.
  Hypothesis C_to : code_net_timeout = 504.
  Hypothesis C_gto : code_timeout = 504.
  Hypothesis C_net : code_net_other = 502.
  Hypothesis C_rec : code_tls_record = 502.
  Hypothesis C_cert : code_tls_cert = 502.
  Hypothesis C_ech : code_tls_ech = 502.
  Hypothesis C_alert : code_tls_alert = 502.
  Hypothesis C_def : code_default = 500.
  Hypothesis C_canc : code_canceled = 500.

  Lemma classify_chain f : classify f = orelse (chain f) code_default.
  Proof. unfold classify, classify_with. rewrite Ord, first_code_chain. reflexivity. Qed.

  Lemma win_off f : h_windows f = 0.
  Proof. unfold h_windows. rewrite NoWin. reflexivity. Qed.

  (* connection failure (a *net.OpError that is not a timeout): 502 *)
  Lemma map_connection_failure f : f_operr f = Some false -> classify f = 502.
  Proof. intro H. rewrite classify_chain. unfold chain. rewrite win_off. unfold h_net. rewrite H, C_net. reflexivity. Qed.

  (* connect time-out: a *net.OpError with Timeout(), or no OpError at all and an error with Timeout()
     (context.DeadlineExceeded of the connect timeout, the transport's TLS handshake timeout): 504 *)
  Lemma map_connect_timeout f : f_operr f = Some true \/ (f_operr f = None /\ f_timeout f = true) -> classify f = 504.
  Proof.
    intro H. rewrite classify_chain. unfold chain. rewrite win_off. unfold h_net.
    destruct H as [H|[H T]]; rewrite H.
    - rewrite C_to. reflexivity.
    - unfold h_flag at 1. rewrite T, C_gto. reflexivity.
  Qed.

  (* TLS failure of any of the four kinds, not wrapped in an OpError: 502 *)
  Lemma map_tls_failure f : f_operr f = None -> f_timeout f = false ->
    f_record f || f_cert f || f_ech f || f_alert f = true -> classify f = 502.
  Proof.
    intros H TO T. rewrite classify_chain. unfold chain. rewrite win_off. unfold h_net, h_flag. rewrite H, TO, C_rec, C_cert, C_ech, C_alert.
    destruct (f_record f); [reflexivity|]. destruct (f_cert f); [reflexivity|]. destruct (f_ech f); [reflexivity|].
    destruct (f_alert f); [reflexivity|]. discriminate.
  Qed.

  (* martian.ErrorStatus{Status: n}: n *)
  Lemma map_error_status f n : f_operr f = None -> f_timeout f = false ->
    f_record f || f_cert f || f_ech f || f_alert f = false -> f_status f = Some n -> n <> 0 -> classify f = n.
  Proof.
    intros H TO T S NZ. rewrite classify_chain. unfold chain. rewrite win_off. unfold h_net, h_flag, h_status. rewrite H, TO, S.
    apply orb_false_iff in T as [T A]. apply orb_false_iff in T as [T E]. apply orb_false_iff in T as [R C].
    rewrite R, C, E, A. cbn [orelse N.eqb]. unfold orelse. cbn [N.eqb].
    destruct (n =? 0) eqn:Z; [apply N.eqb_eq in Z; contradiction|]. rewrite Z. reflexivity.
  Qed.

  (* anything no handler recognises: 500; a cancelled request context: 500 *)
  Lemma map_otherwise f : f_operr f = None -> f_timeout f = false ->
    f_record f || f_cert f || f_ech f || f_alert f = false -> f_status f = None ->
    f_auth f || f_deny f || f_prohibited f = false -> h_text f = 0 -> classify f = 500.
  Proof.
    intros H TO T S A X. rewrite classify_chain. unfold chain. rewrite win_off. unfold h_net, h_flag, h_status. rewrite H, TO, S, X.
    apply orb_false_iff in T as [T A4]. apply orb_false_iff in T as [T E]. apply orb_false_iff in T as [R C].
    apply orb_false_iff in A as [A P]. apply orb_false_iff in A as [A D].
    rewrite R, C, E, A4, A, D, P, C_canc, C_def. destruct (f_canceled f); reflexivity.
  Qed.
End Map.

(* ---- the consecutive-error counter of Proxy.handleLoop ---- *)
(* outcome of one pc.handle(): nil, errClose / closeable error, other error *)
Inductive hres := HNil | HClose | HErr.
Fixpoint loop (maxe : N) (errs : N) (rs : list hres) : nat (* number of handle() calls made *) :=
  match rs with
  | [] => 0
  | HNil :: r => S (loop maxe 0 r)
  | HClose :: _ => 1
  | HErr :: r => if maxe <=? errs + 1 then 1 else S (loop maxe (errs + 1) r)
  end.

Lemma errors_bounded maxe : forall rs errs, 0 < maxe -> errs < maxe ->
  (forall x, In x rs -> x = HErr) -> (loop maxe errs rs <= N.to_nat (maxe - errs))%nat.
Proof.
  induction rs as [|x r IH]; intros errs P L H; cbn [loop]; [lia|].
  rewrite (H x (or_introl eq_refl)).
  destruct (maxe <=? errs + 1) eqn:E.
  - lia.
  - apply N.leb_gt in E. specialize (IH (errs + 1) P E (fun y Hy => H y (or_intror Hy))). lia.
Qed.

Lemma five_errors (M : max_consecutive_errors = 5) rs :
  (forall x, In x rs -> x = HErr) -> (loop max_consecutive_errors 0 rs <= 5)%nat.
Proof. intro H. rewrite M. exact (errors_bounded 5 rs 0 eq_refl eq_refl H). Qed.
