(* G12.FramingProofs — what the client-side parser concludes from complete and
   from truncated responses. *)
From Coq Require Import List Bool Arith NArith Lia.
From FwdLib Require Import Bytes.
From G12 Require Import Tables Errors Framing.
Import ListNotations.
Local Open Scope N_scope.

(* ---- read_line ---- *)
Lemma no_byte_app c x y : no_byte c (x ++ y) = no_byte c x && no_byte c y.
Proof. unfold no_byte. apply forallb_app. Qed.

Lemma read_line_found l r : no_byte LF l = true -> read_line (l ++ LF :: r) = Some (l, r).
Proof.
  induction l as [|c l IH]; intro H; cbn [app read_line].
  - rewrite N.eqb_refl. reflexivity.
  - cbn [no_byte forallb] in H. apply andb_true_iff in H as [H1 H2].
    apply negb_true_iff in H1. rewrite H1. fold (no_byte LF l) in H2. rewrite (IH H2). reflexivity.
Qed.

Lemma read_line_none s : no_byte LF s = true -> read_line s = None.
Proof.
  induction s as [|c s IH]; intro H; cbn [read_line]; [reflexivity|].
  cbn [no_byte forallb] in H. apply andb_true_iff in H as [H1 H2].
  apply negb_true_iff in H1. rewrite H1. fold (no_byte LF s) in H2. rewrite (IH H2). reflexivity.
Qed.

Lemma strip_cr_snoc l : strip_cr (l ++ [CR]) = l.
Proof. unfold strip_cr. rewrite rev_app_distr. cbn [rev app]. rewrite N.eqb_refl. apply rev_involutive. Qed.

(* a line followed by CRLF is read back as that line *)
Lemma read_crlf_line l r : no_byte LF l = true -> read_line (l ++ CRLF ++ r) = Some (l ++ [CR], r).
Proof.
  intro H. unfold CRLF. change (l ++ [CR; LF] ++ r) with (l ++ ([CR] ++ LF :: r)). rewrite app_assoc.
  apply read_line_found. rewrite no_byte_app, H. reflexivity.
Qed.

Lemma line_ok_facts l : line_ok l = true -> no_byte LF l = true /\ no_byte CR l = true /\ l <> [].
Proof.
  unfold line_ok. intro H. apply andb_true_iff in H as [H H3]. apply andb_true_iff in H as [H1 H2].
  repeat split; auto. destruct l; [discriminate | discriminate].
Qed.

(* ---- strict prefixes ---- *)
(* p is a strict prefix of w *)
Definition sprefix (p w : str) : Prop := exists q, q <> [] /\ w = p ++ q.

Lemma sprefix_no_lf_line l p : no_byte LF l = true -> sprefix p (l ++ CRLF) -> no_byte LF p = true.
Proof.
  intros H (q & Q & E).
  assert (P : exists t, l ++ [CR] = p ++ t).
  { destruct (exists_last Q) as (q' & x & ->).
    assert (E' : (l ++ [CR]) ++ [LF] = (p ++ q') ++ [x]) by (rewrite <- !app_assoc; exact E).
    apply app_inj_tail in E' as [E' _]. exists q'. exact E'. }
  destruct P as (t & E2).
  assert (K : no_byte LF (l ++ [CR]) = true) by (rewrite no_byte_app, H; reflexivity).
  rewrite E2, no_byte_app in K. apply andb_true_iff in K as [K _]. exact K.
Qed.

(* ---- header block ---- *)
Definition hdr_ok (l : str) : bool :=
  line_ok l && match parse_header_line l with Some _ => true | None => false end.
Definition kv_of (l : str) : str * str := match parse_header_line l with Some kv => kv | None => ([], []) end.

Lemma head_bytes_cons l ls : head_bytes (l :: ls) = l ++ CRLF ++ head_bytes ls.
Proof. unfold head_bytes. cbn [map concat]. rewrite <- !app_assoc. reflexivity. Qed.

Lemma head_bytes_length ls : (length ls < length (head_bytes ls))%nat.
Proof.
  induction ls as [|l r IH]; [simpl; lia|]. rewrite head_bytes_cons, !app_length. unfold CRLF. cbn [length]. lia.
Qed.

Lemma read_headers_complete : forall hls rest fuel,
  (length hls < fuel)%nat -> forallb hdr_ok hls = true ->
  read_headers fuel (head_bytes hls ++ rest) = Some (Some (map kv_of hls), rest).
Proof.
  induction hls as [|l r IH]; intros rest fuel F H.
  - destruct fuel as [|f]; [simpl in F; lia|]. cbn [read_headers head_bytes map concat app].
    change (CRLF ++ rest) with ([] ++ CRLF ++ rest). rewrite read_crlf_line by reflexivity.
    rewrite (strip_cr_snoc []). reflexivity.
  - destruct fuel as [|f]; [simpl in F; lia|].
    cbn [forallb] in H. apply andb_true_iff in H as [H1 H2].
    unfold hdr_ok in H1. apply andb_true_iff in H1 as [L P]. destruct (line_ok_facts l L) as (L1 & L2 & L3).
    rewrite head_bytes_cons. rewrite <- !app_assoc. cbn [read_headers]. rewrite read_crlf_line by exact L1.
    rewrite strip_cr_snoc. destruct (parse_header_line l) as [kv|] eqn:E; [|discriminate].
    assert (KV : kv_of l = kv) by (unfold kv_of; rewrite E; reflexivity).
    cbn [map]. rewrite KV. destruct l as [|c l']; [contradiction|].
    rewrite IH; [reflexivity | simpl in F; lia | exact H2].
Qed.

Lemma read_headers_prefix : forall hls fuel p,
  forallb hdr_ok hls = true -> sprefix p (head_bytes hls) -> read_headers fuel p = None.
Proof.
  induction hls as [|l r IH]; intros fuel p H SP.
  - destruct fuel as [|f]; [reflexivity|]. cbn [read_headers].
    rewrite read_line_none; [reflexivity|]. exact (sprefix_no_lf_line [] p eq_refl SP).
  - destruct fuel as [|f]; [reflexivity|].
    cbn [forallb] in H. apply andb_true_iff in H as [H1 H2].
    unfold hdr_ok in H1. apply andb_true_iff in H1 as [L P]. destruct (line_ok_facts l L) as (L1 & L2 & L3).
    destruct SP as (q & Q & E). rewrite head_bytes_cons, app_assoc in E.
    apply app_eq_app in E as (m & [[E1 E2]|[E1 E2]]).
    + (* l ++ CRLF = p ++ m *)
      destruct m as [|x m].
      * rewrite app_nil_r in E1. subst p. cbn [read_headers].
        replace (l ++ CRLF) with (l ++ CRLF ++ []) by (rewrite app_nil_r; reflexivity).
        rewrite read_crlf_line by exact L1. rewrite strip_cr_snoc.
        destruct l as [|c l']; [contradiction|]. destruct (parse_header_line (c :: l')); [|discriminate].
        rewrite (IH f [] H2); [reflexivity|]. exists (head_bytes r). split; [|reflexivity].
        pose proof (head_bytes_length r). destruct (head_bytes r); [simpl in *; lia | discriminate].
      * cbn [read_headers]. rewrite read_line_none; [reflexivity|].
        apply (sprefix_no_lf_line l p L1). exists (x :: m). split; [discriminate | exact E1].
    + (* p = (l ++ CRLF) ++ m, head_bytes r = m ++ q *)
      subst p. cbn [read_headers]. rewrite <- app_assoc, read_crlf_line by exact L1. rewrite strip_cr_snoc.
      destruct l as [|c l']; [contradiction|]. destruct (parse_header_line (c :: l')); [|discriminate].
      rewrite (IH f m H2); [reflexivity|]. exists q. split; assumption.
Qed.

(* ---- a whole response on the wire ---- *)
Definition wire (sl : str) (hls : list str) (bb : str) : str := sl ++ CRLF ++ head_bytes hls ++ bb.

(* the head is one the parser accepts: status line "HTTP/1.mi st ...", header lines "name: value" *)
Definition wf_head (sl : str) (hls : list str) (mi st : N) : Prop :=
  line_ok sl = true /\ parse_status_line sl = Some (1, mi, st) /\ 100 <= st /\ forallb hdr_ok hls = true.

Lemma client_parse_start sl r mi st eof ho :
  line_ok sl = true -> parse_status_line sl = Some (1, mi, st) -> 100 <= st ->
  client_parse (sl ++ CRLF ++ r) eof ho =
  match read_headers (S (length r)) r with
  | None => mkp Incomplete 1 mi st [] 0 [] []
  | Some (None, _) => mkp Malformed 1 mi st [] 0 [] []
  | Some (Some hs, rest) => after_head 1 mi st hs rest eof ho
  end.
Proof.
  intros L S G. destruct (line_ok_facts sl L) as (L1 & L2 & L3).
  unfold client_parse. destruct (sl ++ CRLF ++ r) as [|c d] eqn:D.
  - destruct sl; [contradiction | discriminate].
  - rewrite <- D. rewrite read_crlf_line by exact L1. rewrite strip_cr_snoc, S.
    replace (negb (1 =? 1) || (st <? 100)) with false
      by (symmetry; apply orb_false_iff; split; [reflexivity | apply N.ltb_ge; exact G]).
    reflexivity.
Qed.

Lemma client_parse_wire sl hls mi st bb eof ho :
  wf_head sl hls mi st ->
  client_parse (wire sl hls bb) eof ho = after_head 1 mi st (map kv_of hls) bb eof ho.
Proof.
  intros (L & S & G & H). unfold wire. rewrite (client_parse_start sl _ mi st eof ho L S G).
  rewrite read_headers_complete; [reflexivity | | exact H].
  rewrite app_length. pose proof (head_bytes_length hls). lia.
Qed.

Lemma not_complete_fail v : v <> Complete -> is_complete (fail v) = false.
Proof. destruct v; [contradiction | reflexivity..]. Qed.

(* the stream ends inside the head: never a complete message *)
Lemma client_parse_cut_in_head sl hls mi st p eof ho :
  wf_head sl hls mi st -> sprefix p (sl ++ CRLF ++ head_bytes hls) ->
  is_complete (client_parse p eof ho) = false.
Proof.
  intros (L & S & G & H) (q & Q & E). destruct (line_ok_facts sl L) as (L1 & L2 & L3).
  rewrite app_assoc in E. apply app_eq_app in E as (m & [[E1 E2]|[E1 E2]]).
  - (* sl ++ CRLF = p ++ m *)
    destruct m as [|x m].
    + rewrite app_nil_r in E1. subst p.
      replace (sl ++ CRLF) with (sl ++ CRLF ++ []) by (rewrite app_nil_r; reflexivity).
      rewrite (client_parse_start sl [] mi st eof ho L S G). reflexivity.
    + assert (NL : no_byte LF p = true).
      { apply (sprefix_no_lf_line sl p L1). exists (x :: m). split; [discriminate | exact E1]. }
      unfold client_parse. destruct p as [|c p']; [destruct eof; reflexivity|].
      rewrite (read_line_none _ NL). reflexivity.
  - (* p = (sl ++ CRLF) ++ m, head_bytes hls = m ++ q *)
    subst p. rewrite <- app_assoc. rewrite (client_parse_start sl m mi st eof ho L S G).
    rewrite (read_headers_prefix hls _ m H); [reflexivity|]. exists q. split; assumption.
Qed.

(* where a strict prefix of a whole response ends: inside the head, or after the
   whole head and strictly inside the body bytes *)
Lemma cut_cases sl hls bb p :
  sprefix p (wire sl hls bb) ->
  sprefix p (sl ++ CRLF ++ head_bytes hls) \/
  exists m, p = sl ++ CRLF ++ head_bytes hls ++ m /\ sprefix m bb.
Proof.
  intros (q & Q & E). unfold wire in E.
  replace (sl ++ CRLF ++ head_bytes hls ++ bb) with ((sl ++ CRLF ++ head_bytes hls) ++ bb) in E
    by (rewrite <- !app_assoc; reflexivity).
  apply app_eq_app in E as (m & [[E1 E2]|[E1 E2]]).
  - destruct m as [|x m].
    + right. exists []. rewrite app_nil_r in E1. subst p. split; [rewrite app_nil_r; reflexivity|].
      exists q. split; [exact Q | simpl in E2; symmetry; exact E2].
    + left. exists (x :: m). split; [discriminate | exact E1].
  - right. exists m. split; [rewrite E1, <- !app_assoc; reflexivity | exists q; split; assumption].
Qed.

(* ---- Content-Length framing ---- *)
Section Length.
  Variables (sl : str) (hls : list str) (mi st : N) (body : str) (v : str) (vs : list str) (n : N).
  Hypothesis WF : wf_head sl hls mi st.
  Hypothesis HasBody : (st / 100 =? 1) || (st =? 204) || (st =? 304) = false.
  Hypothesis NoTE : values_of (b "transfer-encoding") (map kv_of hls) = [].
  Hypothesis CL : values_of (b "content-length") (map kv_of hls) = v :: vs.
  Hypothesis CLv : parse_dec v = Some n.
  Hypothesis CLsame : all_same v vs = true.
  Hypothesis CLlen : N.to_nat n = length body.

  Lemma after_head_length rest eof :
    after_head 1 mi st (map kv_of hls) rest eof false =
    if (length rest <? length body)%nat then mkp Incomplete 1 mi st (map kv_of hls) 1 rest []
    else mkp Complete 1 mi st (map kv_of hls) 1 (firstn (length body) rest) (skipn (length body) rest).
  Proof.
    unfold after_head. cbn [orb]. rewrite HasBody, NoTE, CL, CLv, CLsame. cbn [negb]. rewrite CLlen. reflexivity.
  Qed.

  (* the whole response parses as complete, with exactly its body, nothing left over *)
  Lemma complete_length eof :
    let r := client_parse (wire sl hls body) eof false in
    pv r = Complete /\ pstatus r = st /\ pbody r = body /\ prest r = [] /\ pframing r = 1.
  Proof.
    cbn zeta. rewrite (client_parse_wire sl hls mi st body eof false WF), after_head_length.
    rewrite Nat.ltb_irrefl. cbn [pv pstatus pbody prest pframing].
    rewrite firstn_all, skipn_all. repeat split; reflexivity.
  Qed.

  (* followed by ANY bytes (the next response, garbage): still exactly this response, and exactly those bytes are left for
     the next message — the parser never lets two messages bleed into each other *)
  Lemma not_mixed_length tail eof :
    let r := client_parse (wire sl hls body ++ tail) eof false in
    pv r = Complete /\ pstatus r = st /\ pbody r = body /\ prest r = tail /\ pframing r = 1.
  Proof.
    cbn zeta. assert (E : wire sl hls body ++ tail = wire sl hls (body ++ tail)).
    { unfold wire. rewrite <- !app_assoc. reflexivity. }
    rewrite E, (client_parse_wire sl hls mi st (body ++ tail) eof false WF), after_head_length.
    assert (L : (length (body ++ tail) <? length body)%nat = false).
    { apply Nat.ltb_ge. rewrite app_length. lia. }
    rewrite L. cbn [pv pstatus pbody prest pframing].
    rewrite firstn_app, Nat.sub_diag, firstn_all, firstn_O, app_nil_r.
    rewrite skipn_app, Nat.sub_diag, skipn_all. cbn [skipn app]. repeat split; reflexivity.
  Qed.

  (* EVERY strict prefix, followed by end of stream: not a complete message *)
  Lemma truncation_detectable_length p eof :
    sprefix p (wire sl hls body) -> is_complete (client_parse p eof false) = false.
  Proof.
    intro SP. destruct (cut_cases sl hls body p SP) as [C|(m & -> & (q & Q & E))].
    - exact (client_parse_cut_in_head sl hls mi st p eof false WF C).
    - change (sl ++ CRLF ++ head_bytes hls ++ m) with (wire sl hls m).
      rewrite (client_parse_wire sl hls mi st m eof false WF), after_head_length.
      assert (Lt : (length m < length body)%nat).
      { rewrite E, app_length. destruct q; [contradiction | simpl; lia]. }
      apply Nat.ltb_lt in Lt. rewrite Lt. reflexivity.
  Qed.
End Length.

(* ---- body delimited by connection close ---- *)
Section Close.
  Variables (sl : str) (hls : list str) (mi st : N).
  Hypothesis WF : wf_head sl hls mi st.
  Hypothesis HasBody : (st / 100 =? 1) || (st =? 204) || (st =? 304) = false.
  Hypothesis NoTE : values_of (b "transfer-encoding") (map kv_of hls) = [].
  Hypothesis NoCL : values_of (b "content-length") (map kv_of hls) = [].

  (* whatever arrived before an orderly close IS the body: a truncated body is
     indistinguishable from a complete one *)
  Lemma close_delimited_any_prefix_complete m :
    let r := client_parse (wire sl hls m) true false in
    pv r = Complete /\ pbody r = m /\ pframing r = 3.
  Proof.
    cbn zeta. rewrite (client_parse_wire sl hls mi st m true false WF).
    unfold after_head. cbn [orb]. rewrite HasBody, NoTE, NoCL. repeat split; reflexivity.
  Qed.

  (* ... but not when the stream has not ended in an orderly way (reset / still open) *)
  Lemma close_delimited_needs_eof m : is_complete (client_parse (wire sl hls m) false false) = false.
  Proof.
    rewrite (client_parse_wire sl hls mi st m false false WF).
    unfold after_head. cbn [orb]. rewrite HasBody, NoTE, NoCL. reflexivity.
  Qed.
End Close.

(* ---- chunked framing ---- *)
(* a chunk on the wire: a size line the parser reads as the (non-zero) length of the data *)
Definition chunk_ok (c : str * str) : bool :=
  no_byte LF (fst c) &&
  match size_of_line (fst c) with
  | Some n => Nat.eqb (N.to_nat n) (length (snd c)) && negb (n =? 0)
  | None => false
  end.

Lemma skipn_exact {A} (l x : list A) : skipn (length l) (l ++ x) = x.
Proof. induction l as [|a l IH]; [reflexivity | exact IH]. Qed.
Lemma firstn_exact {A} (l x : list A) : firstn (length l) (l ++ x) = l.
Proof. induction l as [|a l IH]; [reflexivity | simpl; rewrite IH; reflexivity]. Qed.

Lemma chunk_ok_facts c : chunk_ok c = true ->
  no_byte LF (fst c) = true /\ exists n, size_of_line (fst c) = Some n /\ N.to_nat n = length (snd c) /\ (n =? 0) = false.
Proof.
  unfold chunk_ok. intro H. apply andb_true_iff in H as [H1 H2]. split; [exact H1|].
  destruct (size_of_line (fst c)) as [n|]; [|discriminate]. exists n.
  apply andb_true_iff in H2 as [H2 H3]. apply Nat.eqb_eq in H2. apply negb_true_iff in H3. auto.
Qed.

Lemma chunks_bytes_cons c cs : chunks_bytes (c :: cs) = chunk_bytes c ++ chunks_bytes cs.
Proof. unfold chunks_bytes. cbn [map concat]. rewrite <- app_assoc. reflexivity. Qed.

Lemma chunks_bytes_nonempty cs : chunks_bytes cs <> [].
Proof.
  destruct cs as [|c cs]; [discriminate|]. rewrite chunks_bytes_cons. unfold chunk_bytes.
  destruct (fst c); [discriminate | discriminate].
Qed.

Lemma last_chunk_prefix fuel p acc :
  sprefix p (chunks_bytes []) -> exists b', parse_chunks fuel p acc = ChIncomplete b'.
Proof.
  intros (q & Q & E). destruct fuel as [|f]; [eexists; reflexivity|].
  change (chunks_bytes []) with [48; 13; 10; 13; 10] in E.
  destruct p as [|a1 [|a2 [|a3 [|a4 [|a5 p]]]]]; cbn [app] in E.
  - eexists; reflexivity.
  - inversion E; subst. eexists; reflexivity.
  - inversion E; subst. eexists; reflexivity.
  - inversion E; subst. eexists; vm_compute; reflexivity.
  - inversion E; subst. eexists; vm_compute; reflexivity.
  - inversion E as [[E1 E2 E3 E4 E5 E6]]. destruct p; [|discriminate]. simpl in E6. subst q. contradiction.
Qed.

Lemma chunks_prefix : forall cs fuel p acc,
  forallb chunk_ok cs = true -> sprefix p (chunks_bytes cs) ->
  exists b', parse_chunks fuel p acc = ChIncomplete b'.
Proof.
  induction cs as [|c cs IH]; intros fuel p acc H SP; [exact (last_chunk_prefix fuel p acc SP)|].
  destruct fuel as [|f]; [eexists; reflexivity|].
  cbn [forallb] in H. apply andb_true_iff in H as [H1 H2].
  destruct (chunk_ok_facts c H1) as (NL & n & SZ & LEN & NZ). destruct c as [sz data]. cbn [fst snd] in *.
  destruct SP as (q & Q & E). rewrite chunks_bytes_cons in E. unfold chunk_bytes in E. cbn [fst snd] in E.
  replace ((sz ++ CRLF ++ data ++ CRLF) ++ chunks_bytes cs) with ((sz ++ CRLF) ++ ((data ++ CRLF) ++ chunks_bytes cs)) in E
    by (rewrite <- !app_assoc; reflexivity).
  apply app_eq_app in E as (m & [[E1 E2]|[E1 E2]]).
  - (* the cut is in the size line *)
    destruct m as [|x m].
    + rewrite app_nil_r in E1. subst p. cbn [parse_chunks].
      replace (sz ++ CRLF) with (sz ++ CRLF ++ []) by (rewrite app_nil_r; reflexivity).
      rewrite read_crlf_line by exact NL. rewrite strip_cr_snoc, SZ, NZ. cbn [length Nat.ltb Nat.leb].
      destruct (N.to_nat n + 2)%nat eqn:K; [lia|]. eexists. reflexivity.
    + cbn [parse_chunks]. rewrite read_line_none; [eexists; reflexivity|].
      apply (sprefix_no_lf_line sz p NL). exists (x :: m). split; [discriminate | exact E1].
  - subst p. cbn [parse_chunks]. rewrite <- app_assoc, read_crlf_line by exact NL. rewrite strip_cr_snoc, SZ, NZ, LEN.
    apply app_eq_app in E2 as (m2 & [[E3 E4]|[E3 E4]]).
    + (* data ++ CRLF = m ++ m2 *)
      destruct m2 as [|y m2].
      * rewrite app_nil_r in E3. subst m. rewrite app_length. unfold CRLF at 1. cbn [length].
        replace (length data + 2 <? length data + 2)%nat with false by (symmetry; apply Nat.ltb_irrefl).
        rewrite skipn_exact. unfold CRLF. rewrite !N.eqb_refl. cbn [andb].
        apply (IH f [] _ H2). exists (chunks_bytes cs). split; [apply chunks_bytes_nonempty | reflexivity].
      * assert (Lt : (length m < length data + 2)%nat).
        { assert (K : length (data ++ CRLF) = length (m ++ y :: m2)) by (rewrite E3; reflexivity).
          rewrite !app_length in K. unfold CRLF in K. cbn [length] in K. lia. }
        apply Nat.ltb_lt in Lt. rewrite Lt. eexists. reflexivity.
    + (* m = (data ++ CRLF) ++ m2, chunks_bytes cs = m2 ++ q *)
      subst m. rewrite <- app_assoc. rewrite !app_length. unfold CRLF at 1. cbn [length].
      replace (length data + (2 + length m2) <? length data + 2)%nat with false
        by (symmetry; apply Nat.ltb_ge; lia).
      rewrite skipn_exact. unfold CRLF. cbn [app]. rewrite !N.eqb_refl. cbn [andb].
      apply (IH f m2 _ H2). exists q. split; assumption.
Qed.

Lemma skip_trailers_none r : skip_trailers (S (length (CRLF ++ r))) (CRLF ++ r) = Some r.
Proof.
  cbn [skip_trailers]. change (CRLF ++ r) with ([] ++ CRLF ++ r). rewrite read_crlf_line by reflexivity.
  rewrite (strip_cr_snoc []). reflexivity.
Qed.

Lemma chunks_complete : forall cs fuel acc rest,
  forallb chunk_ok cs = true -> (length cs < fuel)%nat ->
  parse_chunks fuel (chunks_bytes cs ++ rest) acc = ChComplete (acc ++ concat (map snd cs)) rest.
Proof.
  induction cs as [|c cs IH]; intros fuel acc rest H F.
  - destruct fuel as [|f]; [simpl in F; lia|]. cbn [parse_chunks map concat]. rewrite app_nil_r.
    unfold chunks_bytes. cbn [map concat app]. rewrite <- !app_assoc.
    rewrite read_crlf_line by reflexivity. rewrite strip_cr_snoc.
    change (size_of_line (b "0")) with (Some 0). cbn [N.eqb].
    rewrite skip_trailers_none. reflexivity.
  - destruct fuel as [|f]; [simpl in F; lia|].
    cbn [forallb] in H. apply andb_true_iff in H as [H1 H2].
    destruct (chunk_ok_facts c H1) as (NL & n & SZ & LEN & NZ). destruct c as [sz data]. cbn [fst snd] in *.
    rewrite chunks_bytes_cons. unfold chunk_bytes. cbn [fst snd parse_chunks map concat].
    rewrite <- !app_assoc. rewrite read_crlf_line by exact NL. rewrite strip_cr_snoc, SZ, NZ, LEN.
    rewrite !app_length. unfold CRLF at 1. cbn [length].
    match goal with |- context [(?a <? ?c)%nat] =>
      replace (a <? c)%nat with false by (symmetry; apply Nat.ltb_ge; lia) end.
    rewrite skipn_exact, firstn_exact. unfold CRLF. cbn [app]. rewrite !N.eqb_refl. cbn [andb].
    rewrite IH; [ | exact H2 | simpl in F; lia]. rewrite <- app_assoc. reflexivity.
Qed.

Lemma chunks_bytes_length cs : (length cs < length (chunks_bytes cs))%nat.
Proof.
  induction cs as [|c r IH]; [simpl; lia|]. rewrite chunks_bytes_cons, app_length. unfold chunk_bytes.
  rewrite !app_length. unfold CRLF. cbn [length]. lia.
Qed.

Section Chunked.
  Variables (sl : str) (hls : list str) (mi st : N) (cs : list (str * str)) (te : list str).
  Hypothesis WF : wf_head sl hls mi st.
  Hypothesis HasBody : (st / 100 =? 1) || (st =? 204) || (st =? 304) = false.
  Hypothesis TE : values_of (b "transfer-encoding") (map kv_of hls) = te.
  Hypothesis TEne : te <> [].
  Hypothesis TEchunked : eq_fold (trim_ows (last_str [] (split_byte 44 (last_str [] te)))) (b "chunked") = true.
  Hypothesis Chunks : forallb chunk_ok cs = true.

  Lemma after_head_chunked rest eof :
    after_head 1 mi st (map kv_of hls) rest eof false =
    match parse_chunks (S (length rest)) rest [] with
    | ChComplete body t => mkp Complete 1 mi st (map kv_of hls) 2 body t
    | ChIncomplete body => mkp Incomplete 1 mi st (map kv_of hls) 2 body []
    | ChMalformed => mkp Malformed 1 mi st (map kv_of hls) 2 [] []
    end.
  Proof.
    unfold after_head. cbn [orb]. rewrite HasBody, TE. destruct te as [|t0 tr]; [contradiction|].
    cbv beta iota zeta. rewrite TEchunked. reflexivity.
  Qed.

  Lemma complete_chunked eof :
    let r := client_parse (wire sl hls (chunks_bytes cs)) eof false in
    pv r = Complete /\ pstatus r = st /\ pbody r = concat (map snd cs) /\ prest r = [] /\ pframing r = 2.
  Proof.
    cbn zeta. rewrite (client_parse_wire sl hls mi st _ eof false WF), after_head_chunked.
    assert (P : parse_chunks (S (length (chunks_bytes cs))) (chunks_bytes cs) [] = ChComplete (concat (map snd cs)) []).
    { pose proof (chunks_complete cs (S (length (chunks_bytes cs))) [] [] Chunks) as K.
      rewrite app_nil_r in K. apply K. pose proof (chunks_bytes_length cs). lia. }
    rewrite P. repeat split; reflexivity.
  Qed.

  Lemma truncation_detectable_chunked p eof :
    sprefix p (wire sl hls (chunks_bytes cs)) -> is_complete (client_parse p eof false) = false.
  Proof.
    intro SP. destruct (cut_cases sl hls _ p SP) as [C|(m & -> & SM)].
    - exact (client_parse_cut_in_head sl hls mi st p eof false WF C).
    - change (sl ++ CRLF ++ head_bytes hls ++ m) with (wire sl hls m).
      rewrite (client_parse_wire sl hls mi st m eof false WF), after_head_chunked.
      destruct (chunks_prefix cs (S (length m)) m [] Chunks SM) as (b' & ->). reflexivity.
  Qed.
End Chunked.

(* a concrete response in each framing (non-vacuity of the hypotheses above) *)
Lemma c12_example :
  let sl := b "HTTP/1.1 200 OK" in
  wf_head sl [b "Content-Length: 5"; b "X-A: b"] 1 200 /\
  pv (client_parse (wire sl [b "Content-Length: 5"] (b "hello")) false false) = Complete /\
  pv (client_parse (wire sl [b "Content-Length: 5"] (b "hell")) true false) = Incomplete /\
  pv (client_parse (wire sl [b "Transfer-Encoding: chunked"] (chunks_bytes [(b "5", b "hello")])) false false) = Complete /\
  pv (client_parse (wire sl [b "X-A: b"] (b "hel")) true false) = Complete /\
  classify (Build_feat false (Some false) false true false false (Some 400) true false false false false 0 false) = 502.
Proof.
  cbn zeta. split; [|repeat split; vm_compute; reflexivity].
  unfold wf_head. repeat split; try (vm_compute; reflexivity). apply N.leb_le. reflexivity.
Qed.

(* ---- decimal rendering read back ---- *)
Lemma parse_dec_acc_snoc s : forall acc c,
  parse_dec_acc acc (s ++ [c]) =
  match parse_dec_acc acc s with
  | Some v => if is_digit c then Some (v * 10 + (c - 48)) else None
  | None => None
  end.
Proof.
  induction s as [|d s IH]; intros acc c; cbn [app parse_dec_acc].
  - destruct (is_digit c); reflexivity.
  - destruct (is_digit d); [apply IH | reflexivity].
Qed.

Lemma is_digit_48 d : d <= 9 -> is_digit (48 + d) = true.
Proof. intro H. unfold is_digit. apply andb_true_iff. split; apply N.leb_le; lia. Qed.

Lemma dec_fuel_ok : forall fuel n, n < 10 ^ N.of_nat (S fuel) -> parse_dec_acc 0 (dec_fuel (S fuel) n) = Some n.
Proof.
  induction fuel as [|f IH]; intros n H.
  - change (10 ^ N.of_nat 1) with 10 in H. cbn [dec_fuel]. apply N.ltb_lt in H. rewrite H. apply N.ltb_lt in H.
    cbn [parse_dec_acc]. rewrite is_digit_48 by lia. f_equal. lia.
  - change (dec_fuel (S (S f)) n) with (if n <? 10 then [48 + n] else dec_fuel (S f) (n / 10) ++ [48 + n mod 10]).
    destruct (n <? 10) eqn:E.
    + apply N.ltb_lt in E. cbn [parse_dec_acc]. rewrite is_digit_48 by lia. f_equal. lia.
    + apply N.ltb_ge in E. rewrite parse_dec_acc_snoc.
      rewrite IH.
      * assert (M : n mod 10 < 10) by (apply N.mod_lt; lia).
        rewrite is_digit_48 by lia. f_equal.
        pose proof (N.div_mod n 10 ltac:(lia)) as DM.
        remember (n / 10) as q. remember (n mod 10) as r. clear Heqq Heqr IH. lia.
      * apply N.div_lt_upper_bound; [lia|].
        replace (N.of_nat (S (S f))) with (N.succ (N.of_nat (S f))) in H by lia.
        rewrite N.pow_succ_r' in H. exact H.
Qed.

Lemma dec_fuel_length : forall fuel n, (length (dec_fuel fuel n) <= fuel)%nat.
Proof.
  induction fuel as [|f IH]; intro n; cbn [dec_fuel]; [simpl; lia|].
  destruct (n <? 10); [simpl; lia|]. rewrite app_length. specialize (IH (n / 10)). simpl. lia.
Qed.

Lemma dec_fuel_digits : forall fuel n, forallb is_digit (dec_fuel fuel n) = true.
Proof.
  induction fuel as [|f IH]; intro n; cbn [dec_fuel]; [reflexivity|].
  destruct (n <? 10) eqn:E.
  - apply N.ltb_lt in E. cbn [forallb]. rewrite is_digit_48 by lia. reflexivity.
  - rewrite forallb_app, IH. cbn [forallb]. rewrite is_digit_48; [reflexivity|].
    assert (M : n mod 10 < 10) by (apply N.mod_lt; lia). lia.
Qed.

Lemma dec_nonempty n : dec n <> [].
Proof.
  unfold dec. change (dec_fuel 18 n) with (if n <? 10 then [48 + n] else dec_fuel 17 (n / 10) ++ [48 + n mod 10]).
  destruct (n <? 10); [discriminate|]. destruct (dec_fuel 17 (n / 10)); discriminate.
Qed.

(* the Content-Length the model writes is read back exactly (bound: 18 decimal digits) *)
Lemma parse_dec_dec n : n < 10 ^ 18 -> parse_dec (dec n) = Some n.
Proof.
  intro H. unfold parse_dec. pose proof (dec_nonempty n) as NE. destruct (dec n) as [|c s] eqn:E; [contradiction|].
  rewrite <- E. pose proof (dec_fuel_length 18 n) as L. unfold dec in *. apply Nat.leb_le in L. rewrite L.
  exact (dec_fuel_ok 17 n H).
Qed.

(* ---- the error response forwarder builds is a complete well-formed response ---- *)
Lemma forallb_rev {A} (f : A -> bool) l : forallb f (rev l) = forallb f l.
Proof.
  induction l as [|a l IH]; [reflexivity|]. cbn [rev forallb]. rewrite forallb_app, IH. cbn [forallb].
  rewrite andb_true_r. apply andb_comm.
Qed.

Lemma no_byte_trim_left c s : no_byte c s = true -> no_byte c (trim_ows_left s) = true.
Proof.
  induction s as [|x s IH]; intro H; [reflexivity|]. cbn [trim_ows_left].
  destruct (is_ows x); [|exact H]. apply IH. cbn [no_byte forallb] in H. apply andb_true_iff in H as [_ H]. exact H.
Qed.

Lemma no_byte_trim c s : no_byte c s = true -> no_byte c (trim_ows s) = true.
Proof.
  intro H. unfold trim_ows, no_byte. rewrite forallb_rev. apply no_byte_trim_left. unfold no_byte. rewrite forallb_rev.
  apply no_byte_trim_left. exact H.
Qed.

Lemma no_crlf_sanitize v : no_byte LF (sanitize v) = true /\ no_byte CR (sanitize v) = true.
Proof.
  unfold sanitize. split; apply no_byte_trim; unfold no_byte; rewrite forallb_forall; intros x Hx;
    apply in_map_iff in Hx as (y & <- & _);
    destruct ((y =? CR) || (y =? LF)) eqn:E; try reflexivity;
    apply orb_false_iff in E as [E1 E2]; [rewrite E2 | rewrite E1]; reflexivity.
Qed.

Lemma trim_ows_digits s : forallb is_digit s = true -> trim_ows (32 :: s) = s.
Proof.
  intro H.
  assert (L : forall t, forallb is_digit t = true -> trim_ows_left t = t).
  { intros [|x t] Ht; [reflexivity|]. cbn [trim_ows_left]. cbn [forallb] in Ht. apply andb_true_iff in Ht as [D _].
    unfold is_ows. unfold is_digit in D. apply andb_true_iff in D as [D1 D2]. apply N.leb_le in D1, D2.
    replace (x =? 32) with false by (symmetry; apply N.eqb_neq; lia).
    replace (x =? 9) with false by (symmetry; apply N.eqb_neq; lia). reflexivity. }
  unfold trim_ows. cbn [trim_ows_left is_ows N.eqb orb]. change (is_ows 32) with true. cbv iota.
  rewrite (L s H). rewrite (L (rev s)) by (rewrite forallb_rev; exact H). apply rev_involutive.
Qed.

Lemma hdr_ok_prefixed (pre x : str) kv :
  line_ok pre = true -> no_byte LF x = true -> no_byte CR x = true ->
  parse_header_line (pre ++ x) = Some kv -> hdr_ok (pre ++ x) = true.
Proof.
  intros P L C K. unfold hdr_ok. rewrite K. rewrite andb_true_r.
  destruct (line_ok_facts pre P) as (P1 & P2 & P3). unfold line_ok. rewrite !no_byte_app, P1, P2, L, C.
  destruct pre; [contradiction | reflexivity].
Qed.

Section ErrorResponse.
  Variables (minor d2 d1 d0 : N) (reason name msg errtext : str) (close : bool).
  Hypothesis Hminor : minor <= 9.
  Hypothesis Hd2 : 4 <= d2 <= 5.
  Hypothesis Hd1 : d1 <= 9.
  Hypothesis Hd0 : d0 <= 9.
  Hypothesis HrLF : no_byte LF reason = true.
  Hypothesis HrCR : no_byte CR reason = true.
  Hypothesis Hlen : N.of_nat (length (error_body name msg errtext)) < 10 ^ 18.

  Let code := code_of d2 d1 d0.
  Let body := error_body name msg errtext.
  Let n := N.of_nat (length body).
  Let sl := status_line minor d2 d1 d0 reason.
  Let hls := error_lines d2 d1 d0 name msg errtext close.

  Lemma nb48 c d : c < 48 -> negb (48 + d =? c) = true.
  Proof. intro H. apply negb_true_iff. apply N.eqb_neq. lia. Qed.

  Lemma sl_line_ok : line_ok sl = true.
  Proof.
    unfold line_ok, sl, status_line. rewrite !no_byte_app, HrLF, HrCR.
    unfold no_byte. cbn [forallb b N_of_ascii N_of_digits].
    rewrite !nb48 by (unfold LF, CR; lia). reflexivity.
  Qed.

  Lemma sl_parses : parse_status_line sl = Some (1, minor, code).
  Proof.
    unfold parse_status_line, sl, status_line. cbn [b N_of_ascii N_of_digits app has_prefix skipn].
    rewrite !N.eqb_refl. cbn [andb]. rewrite !is_digit_48 by lia.
    change (is_digit 49) with true. cbn [andb]. unfold code, code_of.
    replace (48 + minor - 48) with minor by lia. replace (48 + d2 - 48) with d2 by lia.
    replace (48 + d1 - 48) with d1 by lia. replace (48 + d0 - 48) with d0 by lia. reflexivity.
  Qed.

  Lemma code_ge : 100 <= code.
  Proof. unfold code, code_of. lia. Qed.

  Lemma code_has_body : (code / 100 =? 1) || (code =? 204) || (code =? 304) = false.
  Proof.
    unfold code, code_of.
    assert (Q : (d2 * 100 + d1 * 10 + d0) / 100 = d2).
    { symmetry. apply (N.div_unique _ 100 d2 (d1 * 10 + d0)); lia. }
    rewrite Q. repeat (apply orb_false_iff; split); apply N.eqb_neq; lia.
  Qed.

  (* the header lines, as the parser reads them *)
  Definition cl_line (x : str) : str := b "Content-Length: " ++ x.
  Definition ct_line : str := b "Content-Type: text/plain; charset=utf-8".
  Definition pa_line (x : str) : str := b "Proxy-Authenticate: Basic realm=""" ++ x.
  Definition fe_line (x : str) : str := b "X-Forwarder-Error: " ++ x.
  Definition cc_line : str := b "Connection: close".

  Lemma ph_cl x : parse_header_line (cl_line x) = Some (b "Content-Length", trim_ows (32 :: x)).
  Proof. reflexivity. Qed.
  Lemma ph_pa x : parse_header_line (pa_line x) = Some (b "Proxy-Authenticate", trim_ows (b " Basic realm=""" ++ x)).
  Proof. reflexivity. Qed.
  Lemma ph_fe x : parse_header_line (fe_line x) = Some (b "X-Forwarder-Error", trim_ows (32 :: x)).
  Proof. reflexivity. Qed.

  Lemma digits_no c : c < 48 -> forall s, forallb is_digit s = true -> no_byte c s = true.
  Proof.
    intros H s D. unfold no_byte. rewrite forallb_forall in *. intros x Hx. specialize (D x Hx).
    unfold is_digit in D. apply andb_true_iff in D as [D1 _]. apply N.leb_le in D1.
    apply negb_true_iff. apply N.eqb_neq. lia.
  Qed.

  Lemma hls_ok : forallb hdr_ok hls = true.
  Proof.
    assert (CL : hdr_ok (cl_line (dec n)) = true).
    { eapply (hdr_ok_prefixed (b "Content-Length: ") (dec n)); [reflexivity | | | apply ph_cl];
        apply digits_no; try (unfold LF, CR; lia); apply dec_fuel_digits. }
    assert (FE : hdr_ok (fe_line (sanitize (name ++ [32] ++ errtext))) = true).
    { destruct (no_crlf_sanitize (name ++ [32] ++ errtext)) as [A C].
      eapply (hdr_ok_prefixed (b "X-Forwarder-Error: ")); [reflexivity | exact A | exact C | apply ph_fe]. }
    assert (PA : hdr_ok (pa_line (sanitize name ++ b """")) = true).
    { destruct (no_crlf_sanitize name) as [A C].
      eapply (hdr_ok_prefixed (b "Proxy-Authenticate: Basic realm=""")); [reflexivity | | | apply ph_pa];
        rewrite no_byte_app; [rewrite A | rewrite C]; reflexivity. }
    unfold hls, error_lines. fold body n. fold (cl_line (dec n)) ct_line (fe_line (sanitize (name ++ [32] ++ errtext)))
      (pa_line (sanitize name ++ b """")) cc_line.
    assert (CC : hdr_ok cc_line = true) by (vm_compute; reflexivity).
    assert (CT : hdr_ok ct_line = true) by (vm_compute; reflexivity).
    destruct close; destruct (code_of d2 d1 d0 =? 407); cbn [app forallb] in FE |- *; rewrite ?CL, ?FE, ?PA, ?CC, ?CT; reflexivity.
  Qed.

  Lemma hls_te : values_of (b "transfer-encoding") (map kv_of hls) = [].
  Proof.
    unfold hls, error_lines. fold body n. fold (cl_line (dec n)) (fe_line (sanitize (name ++ [32] ++ errtext)))
      (pa_line (sanitize name ++ b """")).
    destruct close; destruct (code_of d2 d1 d0 =? 407); cbn [app map]; unfold kv_of; rewrite ?ph_cl, ?ph_fe, ?ph_pa; reflexivity.
  Qed.

  Lemma hls_cl : values_of (b "content-length") (map kv_of hls) = [dec n].
  Proof.
    unfold hls, error_lines. fold body n. fold (cl_line (dec n)) (fe_line (sanitize (name ++ [32] ++ errtext)))
      (pa_line (sanitize name ++ b """")).
    destruct close; destruct (code_of d2 d1 d0 =? 407); cbn [app map]; unfold kv_of; rewrite ?ph_cl, ?ph_fe, ?ph_pa;
      (etransitivity; [reflexivity|]); rewrite (trim_ows_digits (dec n)) by apply dec_fuel_digits; reflexivity.
  Qed.

  Lemma hls_fe : existsb (fun kv => eq_fold (fst kv) (b "X-Forwarder-Error")) (map kv_of hls) = true.
  Proof.
    unfold hls, error_lines. fold body n. fold (cl_line (dec n)) (fe_line (sanitize (name ++ [32] ++ errtext)))
      (pa_line (sanitize name ++ b """")).
    destruct close; destruct (code_of d2 d1 d0 =? 407); cbn [app map]; unfold kv_of; rewrite ?ph_cl, ?ph_fe, ?ph_pa; reflexivity.
  Qed.

  (* the whole error response: complete, status = the classifier's code, exactly its body,
     nothing after it, Content-Length framing, and it carries X-Forwarder-Error *)
  Lemma error_response_wellformed eof :
    let r := client_parse (error_wire minor d2 d1 d0 reason name msg errtext close) eof false in
    pv r = Complete /\ pstatus r = code /\ pbody r = body /\ prest r = [] /\ pframing r = 1 /\
    existsb (fun kv => eq_fold (fst kv) (b "X-Forwarder-Error")) (phdr r) = true.
  Proof.
    assert (WF : wf_head sl hls minor code).
    { repeat split; [exact sl_line_ok | exact sl_parses | exact code_ge | exact hls_ok]. }
    pose proof (complete_length sl hls minor code body (dec n) [] n WF code_has_body hls_te hls_cl
                  (parse_dec_dec n Hlen) eq_refl (Nat2N.id _) eof) as C.
    cbn zeta in *. change (error_wire minor d2 d1 d0 reason name msg errtext close) with (wire sl hls body).
    destruct C as (C1 & C2 & C3 & C4 & C5). repeat split; auto.
    rewrite (client_parse_wire sl hls minor code body eof false WF).
    rewrite (after_head_length hls minor code body (dec n) [] n code_has_body hls_te hls_cl (parse_dec_dec n Hlen) eq_refl (Nat2N.id _)).
    rewrite Nat.ltb_irrefl. cbn [phdr]. exact hls_fe.
  Qed.
End ErrorResponse.
