(* G12.FramingProofs — what the client-side parser concludes from complete and
   from truncated responses. *)
From Coq Require Import List Bool Arith NArith Lia.
From FwdLib Require Import Bytes.
From G12 Require Import Tables Errors Framing.
Import ListNotations.
Local Open Scope N_scope.

(* ---- read_line ---- *)
Lemma no_byte_app c x y : no_byte c (x ++ y) = no_byte c x && no_byte c y.
Proof. unfold no_byte. apply forallb_app. Qed.

Lemma read_line_found l r : no_byte LF l = true -> read_line (l ++ LF :: r) = Some (l, r).
Proof.
  induction l as [|c l IH]; intro H; cbn [app read_line].
  - rewrite N.eqb_refl. reflexivity.
  - cbn [no_byte forallb] in H. apply andb_true_iff in H as [H1 H2].
    apply negb_true_iff in H1. rewrite H1. fold (no_byte LF l) in H2. rewrite (IH H2). reflexivity.
Qed.

Lemma read_line_none s : no_byte LF s = true -> read_line s = None.
Proof.
  induction s as [|c s IH]; intro H; cbn [read_line]; [reflexivity|].
  cbn [no_byte forallb] in H. apply andb_true_iff in H as [H1 H2].
  apply negb_true_iff in H1. rewrite H1. fold (no_byte LF s) in H2. rewrite (IH H2). reflexivity.
Qed.

Lemma strip_cr_snoc l : strip_cr (l ++ [CR]) = l.
Proof. unfold strip_cr. rewrite rev_app_distr. cbn [rev app]. rewrite N.eqb_refl. apply rev_involutive. Qed.

(* a line followed by CRLF is read back as that line *)
Lemma read_crlf_line l r : no_byte LF l = true -> read_line (l ++ CRLF ++ r) = Some (l ++ [CR], r).
Proof.
  intro H. unfold CRLF. change (l ++ [CR; LF] ++ r) with (l ++ ([CR] ++ LF :: r)). rewrite app_assoc.
  apply read_line_found. rewrite no_byte_app, H. reflexivity.
Qed.

Lemma line_ok_facts l : line_ok l = true -> no_byte LF l = true /\ no_byte CR l = true /\ l <> [].
Proof.
  unfold line_ok. intro H. apply andb_true_iff in H as [H H3]. apply andb_true_iff in H as [H1 H2].
  repeat split; auto. destruct l; [discriminate | discriminate].
Qed.

(* ---- strict prefixes ---- *)
(* p is a strict prefix of w *)
Definition sprefix (p w : str) : Prop := exists q, q <> [] /\ w = p ++ q.

Lemma sprefix_no_lf_line l p : no_byte LF l = true -> sprefix p (l ++ CRLF) -> no_byte LF p = true.
Proof.
  intros H (q & Q & E).
  assert (P : exists t, l ++ [CR] = p ++ t).
  { destruct (exists_last Q) as (q' & x & ->).
    assert (E' : (l ++ [CR]) ++ [LF] = (p ++ q') ++ [x]) by (rewrite <- !app_assoc; exact E).
    apply app_inj_tail in E' as [E' _]. exists q'. exact E'. }
  destruct P as (t & E2).
  assert (K : no_byte LF (l ++ [CR]) = true) by (rewrite no_byte_app, H; reflexivity).
  rewrite E2, no_byte_app in K. apply andb_true_iff in K as [K _]. exact K.
Qed.

(* ---- header block ---- *)
Definition hdr_ok (l : str) : bool :=
  line_ok l && match parse_header_line l with Some _ => true | None => false end.
Definition kv_of (l : str) : str * str := match parse_header_line l with Some kv => kv | None => ([], []) end.

Lemma head_bytes_cons l ls : head_bytes (l :: ls) = l ++ CRLF ++ head_bytes ls.
Proof. unfold head_bytes. cbn [map concat]. rewrite <- !app_assoc. reflexivity. Qed.

Lemma head_bytes_length ls : (length ls < length (head_bytes ls))%nat.
Proof.
  induction ls as [|l r IH]; [simpl; lia|]. rewrite head_bytes_cons, !app_length. unfold CRLF. cbn [length]. lia.
Qed.

Lemma read_headers_complete : forall hls rest fuel,
  (length hls < fuel)%nat -> forallb hdr_ok hls = true ->
  read_headers fuel (head_bytes hls ++ rest) = Some (Some (map kv_of hls), rest).
Proof.
  induction hls as [|l r IH]; intros rest fuel F H.
  - destruct fuel as [|f]; [simpl in F; lia|]. cbn [read_headers head_bytes map concat app].
    change (CRLF ++ rest) with ([] ++ CRLF ++ rest). rewrite read_crlf_line by reflexivity.
    rewrite (strip_cr_snoc []). reflexivity.
  - destruct fuel as [|f]; [simpl in F; lia|].
    cbn [forallb] in H. apply andb_true_iff in H as [H1 H2].
    unfold hdr_ok in H1. apply andb_true_iff in H1 as [L P]. destruct (line_ok_facts l L) as (L1 & L2 & L3).
    rewrite head_bytes_cons. rewrite <- !app_assoc. cbn [read_headers]. rewrite read_crlf_line by exact L1.
    rewrite strip_cr_snoc. destruct (parse_header_line l) as [kv|] eqn:E; [|discriminate].
    assert (KV : kv_of l = kv) by (unfold kv_of; rewrite E; reflexivity).
    cbn [map]. rewrite KV. destruct l as [|c l']; [contradiction|].
    rewrite IH; [reflexivity | simpl in F; lia | exact H2].
Qed.

Lemma read_headers_prefix : forall hls fuel p,
  forallb hdr_ok hls = true -> sprefix p (head_bytes hls) -> read_headers fuel p = None.
Proof.
  induction hls as [|l r IH]; intros fuel p H SP.
  - destruct fuel as [|f]; [reflexivity|]. cbn [read_headers].
    rewrite read_line_none; [reflexivity|]. exact (sprefix_no_lf_line [] p eq_refl SP).
  - destruct fuel as [|f]; [reflexivity|].
    cbn [forallb] in H. apply andb_true_iff in H as [H1 H2].
    unfold hdr_ok in H1. apply andb_true_iff in H1 as [L P]. destruct (line_ok_facts l L) as (L1 & L2 & L3).
    destruct SP as (q & Q & E). rewrite head_bytes_cons, app_assoc in E.
    apply app_eq_app in E as (m & [[E1 E2]|[E1 E2]]).
    + (* l ++ CRLF = p ++ m *)
      destruct m as [|x m].
      * rewrite app_nil_r in E1. subst p. cbn [read_headers].
        replace (l ++ CRLF) with (l ++ CRLF ++ []) by (rewrite app_nil_r; reflexivity).
        rewrite read_crlf_line by exact L1. rewrite strip_cr_snoc.
        destruct l as [|c l']; [contradiction|]. destruct (parse_header_line (c :: l')); [|discriminate].
        rewrite (IH f [] H2); [reflexivity|]. exists (head_bytes r). split; [|reflexivity].
        pose proof (head_bytes_length r). destruct (head_bytes r); [simpl in *; lia | discriminate].
      * cbn [read_headers]. rewrite read_line_none; [reflexivity|].
        apply (sprefix_no_lf_line l p L1). exists (x :: m). split; [discriminate | exact E1].
    + (* p = (l ++ CRLF) ++ m, head_bytes r = m ++ q *)
      subst p. cbn [read_headers]. rewrite <- app_assoc, read_crlf_line by exact L1. rewrite strip_cr_snoc.
      destruct l as [|c l']; [contradiction|]. destruct (parse_header_line (c :: l')); [|discriminate].
      rewrite (IH f m H2); [reflexivity|]. exists q. split; assumption.
Qed.

(* ---- a whole response on the wire ---- *)
Definition wire (sl : str) (hls : list str) (bb : str) : str := sl ++ CRLF ++ head_bytes hls ++ bb.

(* the head is one the parser accepts: status line "HTTP/1.mi st ...", header lines "name: value" *)
Definition wf_head (sl : str) (hls : list str) (mi st : N) : Prop :=
  line_ok sl = true /\ parse_status_line sl = Some (1, mi, st) /\ 100 <= st /\ forallb hdr_ok hls = true.

Lemma client_parse_start sl r mi st eof ho :
  line_ok sl = true -> parse_status_line sl = Some (1, mi, st) -> 100 <= st ->
  client_parse (sl ++ CRLF ++ r) eof ho =
  match read_headers (S (length r)) r with
  | None => mkp Incomplete 1 mi st [] 0 [] []
  | Some (None, _) => mkp Malformed 1 mi st [] 0 [] []
  | Some (Some hs, rest) => after_head 1 mi st hs rest eof ho
  end.
Proof.
  intros L S G. destruct (line_ok_facts sl L) as (L1 & L2 & L3).
  unfold client_parse. destruct (sl ++ CRLF ++ r) as [|c d] eqn:D.
  - destruct sl; [contradiction | discriminate].
  - rewrite <- D. rewrite read_crlf_line by exact L1. rewrite strip_cr_snoc, S.
    replace (negb (1 =? 1) || (st <? 100)) with false
      by (symmetry; apply orb_false_iff; split; [reflexivity | apply N.ltb_ge; exact G]).
    reflexivity.
Qed.

Lemma client_parse_wire sl hls mi st bb eof ho :
  wf_head sl hls mi st ->
  client_parse (wire sl hls bb) eof ho = after_head 1 mi st (map kv_of hls) bb eof ho.
Proof.
  intros (L & S & G & H). unfold wire. rewrite (client_parse_start sl _ mi st eof ho L S G).
  rewrite read_headers_complete; [reflexivity | | exact H].
  rewrite app_length. pose proof (head_bytes_length hls). lia.
Qed.

Lemma not_complete_fail v : v <> Complete -> is_complete (fail v) = false.
Proof. destruct v; [contradiction | reflexivity..]. Qed.

(* the stream ends inside the head: never a complete message *)
Lemma client_parse_cut_in_head sl hls mi st p eof ho :
  wf_head sl hls mi st -> sprefix p (sl ++ CRLF ++ head_bytes hls) ->
  is_complete (client_parse p eof ho) = false.
Proof.
  intros (L & S & G & H) (q & Q & E). destruct (line_ok_facts sl L) as (L1 & L2 & L3).
  rewrite app_assoc in E. apply app_eq_app in E as (m & [[E1 E2]|[E1 E2]]).
  - (* sl ++ CRLF = p ++ m *)
    destruct m as [|x m].
    + rewrite app_nil_r in E1. subst p.
      replace (sl ++ CRLF) with (sl ++ CRLF ++ []) by (rewrite app_nil_r; reflexivity).
      rewrite (client_parse_start sl [] mi st eof ho L S G). reflexivity.
    + assert (NL : no_byte LF p = true).
      { apply (sprefix_no_lf_line sl p L1). exists (x :: m). split; [discriminate | exact E1]. }
      unfold client_parse. destruct p as [|c p']; [destruct eof; reflexivity|].
      rewrite (read_line_none _ NL). reflexivity.
  - (* p = (sl ++ CRLF) ++ m, head_bytes hls = m ++ q *)
    subst p. rewrite <- app_assoc. rewrite (client_parse_start sl m mi st eof ho L S G).
    rewrite (read_headers_prefix hls _ m H); [reflexivity|]. exists q. split; assumption.
Qed.

(* where a strict prefix of a whole response ends: inside the head, or after the
   whole head and strictly inside the body bytes *)
Lemma cut_cases sl hls bb p :
  sprefix p (wire sl hls bb) ->
  sprefix p (sl ++ CRLF ++ head_bytes hls) \/
  exists m, p = sl ++ CRLF ++ head_bytes hls ++ m /\ sprefix m bb.
Proof.
  intros (q & Q & E). unfold wire in E.
  replace (sl ++ CRLF ++ head_bytes hls ++ bb) with ((sl ++ CRLF ++ head_bytes hls) ++ bb) in E
    by (rewrite <- !app_assoc; reflexivity).
  apply app_eq_app in E as (m & [[E1 E2]|[E1 E2]]).
  - destruct m as [|x m].
    + right. exists []. rewrite app_nil_r in E1. subst p. split; [rewrite app_nil_r; reflexivity|].
      exists q. split; [exact Q | simpl in E2; symmetry; exact E2].
    + left. exists (x :: m). split; [discriminate | exact E1].
  - right. exists m. split; [rewrite E1, <- !app_assoc; reflexivity | exists q; split; assumption].
Qed.

(* ---- Content-Length framing ---- *)
Section Length.
  Variables (sl : str) (hls : list str) (mi st : N) (body : str) (v : str) (vs : list str) (n : N).
  Hypothesis WF : wf_head sl hls mi st.
  Hypothesis HasBody : (st / 100 =? 1) || (st =? 204) || (st =? 304) = false.
  Hypothesis NoTE : values_of (b "transfer-encoding") (map kv_of hls) = [].
  Hypothesis CL : values_of (b "content-length") (map kv_of hls) = v :: vs.
  Hypothesis CLv : parse_dec v = Some n.
  Hypothesis CLsame : all_same v vs = true.
  Hypothesis CLlen : N.to_nat n = length body.

  Lemma after_head_length rest eof :
    after_head 1 mi st (map kv_of hls) rest eof false =
    if (length rest <? length body)%nat then mkp Incomplete 1 mi st (map kv_of hls) 1 rest []
    else mkp Complete 1 mi st (map kv_of hls) 1 (firstn (length body) rest) (skipn (length body) rest).
  Proof.
    unfold after_head. cbn [orb]. rewrite HasBody, NoTE, CL, CLv, CLsame. cbn [negb]. rewrite CLlen. reflexivity.
  Qed.

  (* the whole response parses as complete, with exactly its body, nothing left over *)
  Lemma complete_length eof :
    let r := client_parse (wire sl hls body) eof false in
    pv r = Complete /\ pstatus r = st /\ pbody r = body /\ prest r = [] /\ pframing r = 1.
  Proof.
    cbn zeta. rewrite (client_parse_wire sl hls mi st body eof false WF), after_head_length.
    rewrite Nat.ltb_irrefl. cbn [pv pstatus pbody prest pframing].
    rewrite firstn_all, skipn_all. repeat split; reflexivity.
  Qed.

  (* EVERY strict prefix, followed by end of stream: not a complete message *)
  Lemma truncation_detectable_length p eof :
    sprefix p (wire sl hls body) -> is_complete (client_parse p eof false) = false.
  Proof.
    intro SP. destruct (cut_cases sl hls body p SP) as [C|(m & -> & (q & Q & E))].
    - exact (client_parse_cut_in_head sl hls mi st p eof false WF C).
    - change (sl ++ CRLF ++ head_bytes hls ++ m) with (wire sl hls m).
      rewrite (client_parse_wire sl hls mi st m eof false WF), after_head_length.
      assert (Lt : (length m < length body)%nat).
      { rewrite E, app_length. destruct q; [contradiction | simpl; lia]. }
      apply Nat.ltb_lt in Lt. rewrite Lt. reflexivity.
  Qed.
End Length.

(* ---- body delimited by connection close ---- *)
Section Close.
  Variables (sl : str) (hls : list str) (mi st : N).
  Hypothesis WF : wf_head sl hls mi st.
  Hypothesis HasBody : (st / 100 =? 1) || (st =? 204) || (st =? 304) = false.
  Hypothesis NoTE : values_of (b "transfer-encoding") (map kv_of hls) = [].
  Hypothesis NoCL : values_of (b "content-length") (map kv_of hls) = [].

  (* whatever arrived before an orderly close IS the body: a truncated body is
     indistinguishable from a complete one *)
  Lemma close_delimited_any_prefix_complete m :
    let r := client_parse (wire sl hls m) true false in
    pv r = Complete /\ pbody r = m /\ pframing r = 3.
  Proof.
    cbn zeta. rewrite (client_parse_wire sl hls mi st m true false WF).
    unfold after_head. cbn [orb]. rewrite HasBody, NoTE, NoCL. repeat split; reflexivity.
  Qed.

  (* ... but not when the stream has not ended in an orderly way (reset / still open) *)
  Lemma close_delimited_needs_eof m : is_complete (client_parse (wire sl hls m) false false) = false.
  Proof.
    rewrite (client_parse_wire sl hls mi st m false false WF).
    unfold after_head. cbn [orb]. rewrite HasBody, NoTE, NoCL. reflexivity.
  Qed.
End Close.

(* ---- chunked framing ---- *)
(* a chunk on the wire: a size line the parser reads as the (non-zero) length of the data *)
Definition chunk_ok (c : str * str) : bool :=
  no_byte LF (fst c) &&
  match size_of_line (fst c) with
  | Some n => Nat.eqb (N.to_nat n) (length (snd c)) && negb (n =? 0)
  | None => false
  end.

Lemma skipn_exact {A} (l x : list A) : skipn (length l) (l ++ x) = x.
Proof. induction l as [|a l IH]; [reflexivity | exact IH]. Qed.
Lemma firstn_exact {A} (l x : list A) : firstn (length l) (l ++ x) = l.
Proof. induction l as [|a l IH]; [reflexivity | simpl; rewrite IH; reflexivity]. Qed.

Lemma chunk_ok_facts c : chunk_ok c = true ->
  no_byte LF (fst c) = true /\ exists n, size_of_line (fst c) = Some n /\ N.to_nat n = length (snd c) /\ (n =? 0) = false.
Proof.
  unfold chunk_ok. intro H. apply andb_true_iff in H as [H1 H2]. split; [exact H1|].
  destruct (size_of_line (fst c)) as [n|]; [|discriminate]. exists n.
  apply andb_true_iff in H2 as [H2 H3]. apply Nat.eqb_eq in H2. apply negb_true_iff in H3. auto.
Qed.

Lemma chunks_bytes_cons c cs : chunks_bytes (c :: cs) = chunk_bytes c ++ chunks_bytes cs.
Proof. unfold chunks_bytes. cbn [map concat]. rewrite <- app_assoc. reflexivity. Qed.

Lemma chunks_bytes_nonempty cs : chunks_bytes cs <> [].
Proof.
  destruct cs as [|c cs]; [discriminate|]. rewrite chunks_bytes_cons. unfold chunk_bytes.
  destruct (fst c); [discriminate | discriminate].
Qed.

Lemma last_chunk_prefix fuel p acc :
  sprefix p (chunks_bytes []) -> exists b', parse_chunks fuel p acc = ChIncomplete b'.
Proof.
  intros (q & Q & E). destruct fuel as [|f]; [eexists; reflexivity|].
  change (chunks_bytes []) with [48; 13; 10; 13; 10] in E.
  destruct p as [|a1 [|a2 [|a3 [|a4 [|a5 p]]]]]; cbn [app] in E.
  - eexists; reflexivity.
  - inversion E; subst. eexists; reflexivity.
  - inversion E; subst. eexists; reflexivity.
  - inversion E; subst. eexists; vm_compute; reflexivity.
  - inversion E; subst. eexists; vm_compute; reflexivity.
  - inversion E as [[E1 E2 E3 E4 E5 E6]]. destruct p; [|discriminate]. simpl in E6. subst q. contradiction.
Qed.

Lemma chunks_prefix : forall cs fuel p acc,
  forallb chunk_ok cs = true -> sprefix p (chunks_bytes cs) ->
  exists b', parse_chunks fuel p acc = ChIncomplete b'.
Proof.
  induction cs as [|c cs IH]; intros fuel p acc H SP; [exact (last_chunk_prefix fuel p acc SP)|].
  destruct fuel as [|f]; [eexists; reflexivity|].
  cbn [forallb] in H. apply andb_true_iff in H as [H1 H2].
  destruct (chunk_ok_facts c H1) as (NL & n & SZ & LEN & NZ). destruct c as [sz data]. cbn [fst snd] in *.
  destruct SP as (q & Q & E). rewrite chunks_bytes_cons in E. unfold chunk_bytes in E. cbn [fst snd] in E.
  replace ((sz ++ CRLF ++ data ++ CRLF) ++ chunks_bytes cs) with ((sz ++ CRLF) ++ ((data ++ CRLF) ++ chunks_bytes cs)) in E
    by (rewrite <- !app_assoc; reflexivity).
  apply app_eq_app in E as (m & [[E1 E2]|[E1 E2]]).
  - (* the cut is in the size line *)
    destruct m as [|x m].
    + rewrite app_nil_r in E1. subst p. cbn [parse_chunks].
      replace (sz ++ CRLF) with (sz ++ CRLF ++ []) by (rewrite app_nil_r; reflexivity).
      rewrite read_crlf_line by exact NL. rewrite strip_cr_snoc, SZ, NZ. cbn [length Nat.ltb Nat.leb].
      destruct (N.to_nat n + 2)%nat eqn:K; [lia|]. eexists. reflexivity.
    + cbn [parse_chunks]. rewrite read_line_none; [eexists; reflexivity|].
      apply (sprefix_no_lf_line sz p NL). exists (x :: m). split; [discriminate | exact E1].
  - subst p. cbn [parse_chunks]. rewrite <- app_assoc, read_crlf_line by exact NL. rewrite strip_cr_snoc, SZ, NZ, LEN.
    apply app_eq_app in E2 as (m2 & [[E3 E4]|[E3 E4]]).
    + (* data ++ CRLF = m ++ m2 *)
      destruct m2 as [|y m2].
      * rewrite app_nil_r in E3. subst m. rewrite app_length. unfold CRLF at 1. cbn [length].
        replace (length data + 2 <? length data + 2)%nat with false by (symmetry; apply Nat.ltb_irrefl).
        rewrite skipn_exact. unfold CRLF. rewrite !N.eqb_refl. cbn [andb].
        apply (IH f [] _ H2). exists (chunks_bytes cs). split; [apply chunks_bytes_nonempty | reflexivity].
      * assert (Lt : (length m < length data + 2)%nat).
        { assert (K : length (data ++ CRLF) = length (m ++ y :: m2)) by (rewrite E3; reflexivity).
          rewrite !app_length in K. unfold CRLF in K. cbn [length] in K. lia. }
        apply Nat.ltb_lt in Lt. rewrite Lt. eexists. reflexivity.
    + (* m = (data ++ CRLF) ++ m2, chunks_bytes cs = m2 ++ q *)
      subst m. rewrite <- app_assoc. rewrite !app_length. unfold CRLF at 1. cbn [length].
      replace (length data + (2 + length m2) <? length data + 2)%nat with false
        by (symmetry; apply Nat.ltb_ge; lia).
      rewrite skipn_exact. unfold CRLF. cbn [app]. rewrite !N.eqb_refl. cbn [andb].
      apply (IH f m2 _ H2). exists q. split; assumption.
Qed.

Lemma skip_trailers_none r : skip_trailers (S (length (CRLF ++ r))) (CRLF ++ r) = Some r.
Proof.
  cbn [skip_trailers]. change (CRLF ++ r) with ([] ++ CRLF ++ r). rewrite read_crlf_line by reflexivity.
  rewrite (strip_cr_snoc []). reflexivity.
Qed.

Lemma chunks_complete : forall cs fuel acc rest,
  forallb chunk_ok cs = true -> (length cs < fuel)%nat ->
  parse_chunks fuel (chunks_bytes cs ++ rest) acc = ChComplete (acc ++ concat (map snd cs)) rest.
Proof.
  induction cs as [|c cs IH]; intros fuel acc rest H F.
  - destruct fuel as [|f]; [simpl in F; lia|]. cbn [parse_chunks map concat]. rewrite app_nil_r.
    unfold chunks_bytes. cbn [map concat app]. rewrite <- !app_assoc.
    rewrite read_crlf_line by reflexivity. rewrite strip_cr_snoc.
    change (size_of_line (b "0")) with (Some 0). cbn [N.eqb].
    rewrite skip_trailers_none. reflexivity.
  - destruct fuel as [|f]; [simpl in F; lia|].
    cbn [forallb] in H. apply andb_true_iff in H as [H1 H2].
    destruct (chunk_ok_facts c H1) as (NL & n & SZ & LEN & NZ). destruct c as [sz data]. cbn [fst snd] in *.
    rewrite chunks_bytes_cons. unfold chunk_bytes. cbn [fst snd parse_chunks map concat].
    rewrite <- !app_assoc. rewrite read_crlf_line by exact NL. rewrite strip_cr_snoc, SZ, NZ, LEN.
    rewrite !app_length. unfold CRLF at 1. cbn [length].
    match goal with |- context [(?a <? ?c)%nat] =>
      replace (a <? c)%nat with false by (symmetry; apply Nat.ltb_ge; lia) end.
    rewrite skipn_exact, firstn_exact. unfold CRLF. cbn [app]. rewrite !N.eqb_refl. cbn [andb].
    rewrite IH; [ | exact H2 | simpl in F; lia]. rewrite <- app_assoc. reflexivity.
Qed.

Lemma chunks_bytes_length cs : (length cs < length (chunks_bytes cs))%nat.
Proof.
  induction cs as [|c r IH]; [simpl; lia|]. rewrite chunks_bytes_cons, app_length. unfold chunk_bytes.
  rewrite !app_length. unfold CRLF. cbn [length]. lia.
Qed.

Section Chunked.
  Variables (sl : str) (hls : list str) (mi st : N) (cs : list (str * str)) (te : list str).
  Hypothesis WF : wf_head sl hls mi st.
  Hypothesis HasBody : (st / 100 =? 1) || (st =? 204) || (st =? 304) = false.
  Hypothesis TE : values_of (b "transfer-encoding") (map kv_of hls) = te.
  Hypothesis TEne : te <> [].
  Hypothesis TEchunked : eq_fold (trim_ows (last_str [] (split_byte 44 (last_str [] te)))) (b "chunked") = true.
  Hypothesis Chunks : forallb chunk_ok cs = true.

  Lemma after_head_chunked rest eof :
    after_head 1 mi st (map kv_of hls) rest eof false =
    match parse_chunks (S (length rest)) rest [] with
    | ChComplete body t => mkp Complete 1 mi st (map kv_of hls) 2 body t
    | ChIncomplete body => mkp Incomplete 1 mi st (map kv_of hls) 2 body []
    | ChMalformed => mkp Malformed 1 mi st (map kv_of hls) 2 [] []
    end.
  Proof.
    unfold after_head. cbn [orb]. rewrite HasBody, TE. destruct te as [|t0 tr]; [contradiction|].
    cbv beta iota zeta. rewrite TEchunked. reflexivity.
  Qed.

  Lemma complete_chunked eof :
    let r := client_parse (wire sl hls (chunks_bytes cs)) eof false in
    pv r = Complete /\ pstatus r = st /\ pbody r = concat (map snd cs) /\ prest r = [] /\ pframing r = 2.
  Proof.
    cbn zeta. rewrite (client_parse_wire sl hls mi st _ eof false WF), after_head_chunked.
    assert (P : parse_chunks (S (length (chunks_bytes cs))) (chunks_bytes cs) [] = ChComplete (concat (map snd cs)) []).
    { pose proof (chunks_complete cs (S (length (chunks_bytes cs))) [] [] Chunks) as K.
      rewrite app_nil_r in K. apply K. pose proof (chunks_bytes_length cs). lia. }
    rewrite P. repeat split; reflexivity.
  Qed.

  Lemma truncation_detectable_chunked p eof :
    sprefix p (wire sl hls (chunks_bytes cs)) -> is_complete (client_parse p eof false) = false.
  Proof.
    intro SP. destruct (cut_cases sl hls _ p SP) as [C|(m & -> & SM)].
    - exact (client_parse_cut_in_head sl hls mi st p eof false WF C).
    - change (sl ++ CRLF ++ head_bytes hls ++ m) with (wire sl hls m).
      rewrite (client_parse_wire sl hls mi st m eof false WF), after_head_chunked.
      destruct (chunks_prefix cs (S (length m)) m [] Chunks SM) as (b' & ->). reflexivity.
  Qed.
End Chunked.

(* a concrete response in each framing (non-vacuity of the hypotheses above) *)
Lemma c12_example :
  let sl := b "HTTP/1.1 200 OK" in
  wf_head sl [b "Content-Length: 5"; b "X-A: b"] 1 200 /\
  pv (client_parse (wire sl [b "Content-Length: 5"] (b "hello")) false false) = Complete /\
  pv (client_parse (wire sl [b "Content-Length: 5"] (b "hell")) true false) = Incomplete /\
  pv (client_parse (wire sl [b "Transfer-Encoding: chunked"] (chunks_bytes [(b "5", b "hello")])) false false) = Complete /\
  pv (client_parse (wire sl [b "X-A: b"] (b "hel")) true false) = Complete /\
  classify (Build_feat false (Some false) false true false false (Some 400) true false false false false 0 false) = 502.
Proof.
  cbn zeta. split; [|repeat split; vm_compute; reflexivity].
  unfold wf_head. repeat split; try (vm_compute; reflexivity). apply N.leb_le. reflexivity.
Qed.
