(* G12.ExchangeProofs — facts about the exchange path model.
   The valuation type is finite; per-exchange facts are established by
   evaluating a boolean predicate on EVERY valuation (all_vals, proved
   complete below) inside the kernel and lifting with forallb_forall.  Facts
   about sequences of exchanges are by induction. *)
From Coq Require Import List Bool Arith ZArith Lia.
From FwdLib Require Import Bytes.
From G12 Require Import ExchangeCore.
Import ListNotations.
Local Open Scope nat_scope.

(* ---- all_vals is complete ---- *)
Lemma all_vals_complete : forall v, In v all_vals.
Proof.
  intros [a b0 c d e f g h i j k l m n o]. unfold all_vals.
  apply in_flat_map; exists a; split; [destruct a; simpl; tauto|].
  apply in_flat_map; exists b0; split; [destruct b0; simpl; tauto|].
  apply in_flat_map; exists c; split; [destruct c; simpl; tauto|].
  apply in_flat_map; exists d; split; [destruct d; simpl; tauto|].
  apply in_flat_map; exists e; split; [destruct e; simpl; tauto|].
  apply in_flat_map; exists f; split; [destruct f; simpl; tauto|].
  apply in_flat_map; exists g; split; [destruct g; simpl; tauto|].
  apply in_flat_map; exists h; split; [destruct h; simpl; tauto|].
  apply in_flat_map; exists i; split; [destruct i; simpl; tauto|].
  apply in_flat_map; exists j; split; [destruct j; simpl; tauto|].
  apply in_flat_map; exists k; split; [destruct k; simpl; tauto|].
  apply in_flat_map; exists l; split; [destruct l; simpl; tauto|].
  apply in_flat_map; exists m; split; [destruct m; simpl; tauto|].
  apply in_flat_map; exists n; split; [destruct n; simpl; tauto|].
  apply in_map_iff. exists o. split; [reflexivity | destruct o; simpl; tauto].
Qed.

Lemma for_all_vals (P : val -> bool) : forallb P all_vals = true -> forall v, P v = true.
Proof. intros H v. exact (proj1 (forallb_forall P all_vals) H v (all_vals_complete v)). Qed.

(* ---- one exchange ---- *)
(* a request was read and the proxy is not shutting down (neither right after reading nor when the response is written) *)
Definition active (v : val) : bool := match v_rd v with RdOk => negb (v_closing v) && negb (v_closing_w v) | _ => false end.

(* no request was read, or the proxy was already shutting down when it had been read *)
Definition idle (v : val) : bool := match v_rd v with RdOk => v_closing v | _ => true end.

Lemma idle_not_active v : idle v = true -> active v = false.
Proof. unfold idle, active. destruct (v_rd v); [intros ->; reflexivity | reflexivity..]. Qed.

Definition exch_okb (fl : flags) (v : val) : bool :=
  let evs := run_with fl v in
  if active v then
    Nat.eqb (count is_read_req evs) 1 && Nat.eqb (count is_wrote_own evs) 1 && Nat.eqb (count is_wrote_transport evs) 0 &&
    Nat.leb (length (head_srcs evs)) 1 &&
    match wrote_srcs evs with [s] => forallb (src_eqb s) (head_srcs evs) | _ => false end
  else if idle v then
    Nat.eqb (count is_wrote evs) 0 &&
    Nat.eqb (count is_read_req evs) (match v_rd v with RdOk => 1 | _ => 0 end)
  else
    (* a request was read and a shutdown began before its response was written: outside the statement;
       at most one report *)
    Nat.leb (count is_wrote evs) 1 && Nat.eqb (count is_read_req evs) 1.

Lemma exch_ok_good_all : forallb (exch_okb good_flags) all_vals = true.
Proof. vm_compute. reflexivity. Qed.

Lemma exch_ok_good v : exch_okb good_flags v = true.
Proof. exact (for_all_vals _ exch_ok_good_all v). Qed.

(* the two shapes of the unrepaired source each break the statement: witnesses *)
Definition v_connect_rejected_101 : val :=
  Build_val RdOk false true false false RtOk St101 false false CnRejected WOk false false AfPlain false.
Definition v_https_via_rejecting_upstream : val :=
  Build_val RdOk false false false false RtConnErr StOther false false CnOk WOk false false AfPlain false.
(* CONNECT whose dial completes after a shutdown has begun: 200 with Connection: close, no tunnel, never reported *)
Definition v_connect_during_shutdown : val :=
  Build_val RdOk false true false false RtOk St2xx false false CnOk WOk false false AfPlain true.
Lemma shutdown_leaks_tunnel_report : count is_wrote (run_with good_flags v_connect_during_shutdown) = 0.
Proof. vm_compute. reflexivity. Qed.

Definition v_upgrade_from_closing_request : val :=
  Build_val RdOk false false false false RtOk St101 false true CnOk WOk false true AfPlain false.

Lemma exch_not_ok_without_defer : exch_okb (Build_flags false true true) v_connect_rejected_101 = false.
Proof. vm_compute. reflexivity. Qed.
Lemma exch_not_ok_without_rebind : exch_okb (Build_flags true false true) v_https_via_rejecting_upstream = false.
Proof. vm_compute. reflexivity. Qed.
Lemma exch_not_ok_without_upgrade_keep : exch_okb (Build_flags true true false) v_upgrade_from_closing_request = false.
Proof. vm_compute. reflexivity. Qed.

(* shape of every path, whatever the flags: starts with the read event, ends
   with close/keep, after a failed write nothing more is written and the
   connection is closed, at most one response head per exchange *)
Fixpoint no_head_after_fail (seen_fail : bool) (l : list ev) : bool :=
  match l with
  | [] => true
  | EWriteFail :: r => no_head_after_fail true r
  | EHead _ :: r => negb seen_fail && no_head_after_fail seen_fail r
  | _ :: r => no_head_after_fail seen_fail r
  end.
Definition has_fail (l : list ev) : bool := existsb (fun e => match e with EWriteFail => true | _ => false end) l.
Definition ends_closed (l : list ev) : bool := match last l EKeep with EClose => true | _ => false end.
Definition ends_decided (l : list ev) : bool := match last l EDial with EClose | EKeep => true | _ => false end.
Definition starts_with_read (l : list ev) : bool := match l with ERead _ :: _ => true | _ => false end.

Definition path_okb (fl : flags) (v : val) : bool :=
  let evs := run_with fl v in
  starts_with_read evs && ends_decided evs &&
  Nat.leb (length (head_srcs evs)) 1 &&
  no_head_after_fail false evs &&
  (negb (has_fail evs) || ends_closed evs) &&
  (* an error response is only ever written when no other head was written in this exchange *)
  Nat.leb (count is_wrote evs) 1.

Definition all_flags : list flags :=
  flat_map (fun a => flat_map (fun c => map (fun d => Build_flags a c d) [true; false]) [true; false]) [true; false].
Lemma all_flags_complete fl : In fl all_flags.
Proof. destruct fl as [[|] [|] [|]]; simpl; tauto. Qed.

(* no upstream contact after a refusal by the request modifiers *)
Definition is_dial (e : ev) : bool := match e with EDial => true | _ => false end.
Definition refusal_okb (fl : flags) (v : val) : bool :=
  negb (v_mreq_err v) || Nat.eqb (count is_dial (run_with fl v)) 0.

(* which response is relayed when the upstream proxy rejects a CONNECT *)
Fixpoint list_eqb_src (a c : list src) : bool :=
  match a, c with
  | [], [] => true
  | x :: a', y :: c' => src_eqb x y && list_eqb_src a' c'
  | _, _ => false
  end.
Definition rejected_pre (v : val) : bool :=
  match v_rd v with RdOk => true | _ => false end && negb (v_closing v) && negb (v_mreq_err v) && negb (v_mres_err v) &&
  negb (st_2xx (v_st v)).
Definition heads_if_sent (v : val) (s : src) : list src := match v_w v with WFailEarly => [] | _ => [s] end.
Definition rejected_checkb (fl : flags) (v : val) : bool :=
  negb (rejected_pre v) ||
  ((negb (v_connect v && negb (v_mitm v) && match v_cn v with CnRejected => true | _ => false end)
    || list_eqb_src (head_srcs (run_with fl v)) (heads_if_sent v SUp)) &&
   (negb (negb (v_connect v) && match v_rt v with RtConnErr => true | _ => false end)
    || list_eqb_src (head_srcs (run_with fl v)) (heads_if_sent v SConnErr))).

(* the three shape facts in ONE pass over all valuations per flag combination *)
Definition shape_okb (fl : flags) (v : val) : bool := path_okb fl v && refusal_okb fl v && rejected_checkb fl v.
Lemma shape_ok_all : forallb (fun fl => forallb (shape_okb fl) all_vals) all_flags = true.
Proof. vm_compute. reflexivity. Qed.
Lemma shape_ok fl v : shape_okb fl v = true.
Proof.
  pose proof (proj1 (forallb_forall _ all_flags) shape_ok_all fl (all_flags_complete fl)) as H.
  exact (for_all_vals _ H v).
Qed.

Lemma path_ok fl v : path_okb fl v = true.
Proof. pose proof (shape_ok fl v) as H. unfold shape_okb in H. apply andb_true_iff in H as [H _]. apply andb_true_iff in H as [H _]. exact H. Qed.

(* ---- Prometheus effect of an event list, for the method m of the request ---- *)
Definition ind (x y : str) : Z := if str_eqb x y then 1%Z else 0%Z.
Definition connect_s : str := b "CONNECT".

Fixpoint inflight_delta (m : str) (evs : list ev) (l : str) : Z :=
  match evs with
  | [] => 0
  | ERead true :: r => ind m l + inflight_delta m r l
  | EWrote _ LOwn _ :: r => - ind m l + inflight_delta m r l
  | EWrote _ LTransport _ :: r => - ind connect_s l + inflight_delta m r l
  | _ :: r => inflight_delta m r l
  end%Z.

Lemma inflight_delta_counts m evs l :
  inflight_delta m evs l =
  (ind m l * (Z.of_nat (count is_read_req evs) - Z.of_nat (count is_wrote_own evs))
   - ind connect_s l * Z.of_nat (count is_wrote_transport evs))%Z.
Proof.
  unfold count. induction evs as [|e r IH]; [simpl; lia|].
  destruct e as [[|]| | | | | | |s [|] err| | |]; cbn [inflight_delta filter is_read_req is_wrote_own is_wrote_transport length];
    rewrite IH; try lia.
Qed.

Lemma count_of_okb v :
  exch_okb good_flags v = true -> active v = true ->
  count is_read_req (run_with good_flags v) = 1 /\ count is_wrote_own (run_with good_flags v) = 1 /\
  count is_wrote_transport (run_with good_flags v) = 0.
Proof.
  unfold exch_okb. intros H A. rewrite A in H.
  repeat (apply andb_true_iff in H; destruct H as [H ?]).
  repeat match goal with X : Nat.eqb _ _ = true |- _ => apply Nat.eqb_eq in X end. auto.
Qed.

Lemma exchange_balanced m v l : active v = true -> inflight_delta m (run_with good_flags v) l = 0%Z.
Proof.
  intro A. rewrite inflight_delta_counts.
  destruct (count_of_okb v (exch_ok_good v) A) as (-> & -> & ->). lia.
Qed.

Lemma exchange_inactive m v l :
  v_rd v <> RdOk -> inflight_delta m (run_with good_flags v) l = 0%Z.
Proof.
  intro A. rewrite inflight_delta_counts.
  assert (I : idle v = true) by (unfold idle; destruct (v_rd v); [contradiction | reflexivity..]).
  pose proof (exch_ok_good v) as H. unfold exch_okb in H. rewrite (idle_not_active v I), I in H.
  apply andb_true_iff in H as [H1 H2]. apply Nat.eqb_eq in H1, H2.
  assert (W : count is_wrote_own (run_with good_flags v) = 0 /\ count is_wrote_transport (run_with good_flags v) = 0).
  { unfold count in *. revert H1. generalize (run_with good_flags v). induction l0 as [|e r IH]; [auto|].
    destruct e as [| | | | | | |s [|] err| | |]; cbn [filter is_wrote is_wrote_own is_wrote_transport length]; intro; try (apply IH; assumption); discriminate. }
  destruct W as [-> ->]. rewrite H2. destruct (v_rd v); [contradiction | lia..].
Qed.

(* ---- any sequence of exchanges (on any number of connections: only the
        order of the events of ONE exchange matters for the sums) ---- *)
Definition seq_delta (xs : list (str * val)) (l : str) : Z :=
  fold_right (fun x a => (inflight_delta (fst x) (run_with good_flags (snd x)) l + a)%Z) 0%Z xs.

Lemma gauge_zero_seq xs l :
  (forall x, In x xs -> active (snd x) = true \/ v_rd (snd x) <> RdOk) -> seq_delta xs l = 0%Z.
Proof.
  induction xs as [|x r IH]; intro H; [reflexivity|].
  cbn [seq_delta fold_right]. fold (seq_delta r l). rewrite IH by (intros y Hy; apply H; right; exact Hy).
  destruct (H x (or_introl eq_refl)) as [A|A].
  - rewrite exchange_balanced by exact A. reflexivity.
  - destruct (active (snd x)) eqn:E.
    + rewrite exchange_balanced by exact E. reflexivity.
    + rewrite exchange_inactive by exact A. reflexivity.
Qed.

(* requests_total: every completion event adds one; per active exchange exactly one *)
Definition total_delta (evs : list ev) : nat := count is_wrote evs.
Lemma count_wrote_split evs : count is_wrote evs = count is_wrote_own evs + count is_wrote_transport evs.
Proof.
  unfold count. induction evs as [|e r IH]; [reflexivity|].
  destruct e as [| | | | | | |s [|] err| | |]; cbn [filter is_wrote is_wrote_own is_wrote_transport length]; lia.
Qed.
Lemma total_plus_one v : active v = true -> total_delta (run_with good_flags v) = 1.
Proof.
  intro A. unfold total_delta. rewrite count_wrote_split.
  destruct (count_of_okb v (exch_ok_good v) A) as (_ & -> & ->). reflexivity.
Qed.

Definition seq_total (xs : list val) : nat := fold_right (fun v a => total_delta (run_with good_flags v) + a) 0 xs.
Definition seq_requests (xs : list val) : nat :=
  fold_right (fun v a => count is_read_req (run_with good_flags v) + a) 0 xs.
Lemma total_is_requests xs :
  (forall v, In v xs -> active v = true \/ v_rd v <> RdOk) -> seq_total xs = seq_requests xs.
Proof.
  induction xs as [|v r IH]; intro H; [reflexivity|].
  cbn [seq_total seq_requests fold_right]. fold (seq_total r) (seq_requests r).
  rewrite IH by (intros y Hy; apply H; right; exact Hy). f_equal.
  destruct (active v) eqn:E.
  - rewrite total_plus_one by exact E. destruct (count_of_okb v (exch_ok_good v) E) as (-> & _). reflexivity.
  - destruct (H v (or_introl eq_refl)) as [A|A]; [congruence|].
    assert (I : idle v = true) by (unfold idle; destruct (v_rd v); [contradiction | reflexivity..]).
    pose proof (exch_ok_good v) as K. unfold exch_okb in K. rewrite E, I in K.
    apply andb_true_iff in K as [K1 K2]. apply Nat.eqb_eq in K1, K2. unfold total_delta. rewrite K1, K2.
    destruct (v_rd v); [contradiction| |]; reflexivity.
Qed.

(* ---- the per-exchange statement in Prop form ---- *)
Lemma src_eqb_eq a c : src_eqb a c = true -> a = c.
Proof. destruct a, c; simpl; intro H; try reflexivity; discriminate. Qed.

Lemma exactly_once_good v : active v = true ->
  count is_read_req (run_with good_flags v) = 1 /\
  count is_wrote_own (run_with good_flags v) = 1 /\
  count is_wrote_transport (run_with good_flags v) = 0 /\
  length (head_srcs (run_with good_flags v)) <= 1 /\
  exists s, wrote_srcs (run_with good_flags v) = [s] /\
            forall s', In s' (head_srcs (run_with good_flags v)) -> s' = s.
Proof.
  intro A. pose proof (exch_ok_good v) as H. unfold exch_okb in H. rewrite A in H.
  repeat (apply andb_true_iff in H; destruct H as [H ?]).
  repeat match goal with X : Nat.eqb _ _ = true |- _ => apply Nat.eqb_eq in X end.
  match goal with X : Nat.leb _ _ = true |- _ => apply Nat.leb_le in X end.
  repeat split; auto.
  destruct (wrote_srcs (run_with good_flags v)) as [|s [|s2 r]]; try discriminate.
  exists s. split; [reflexivity|]. intros s' Hs.
  match goal with X : forallb _ _ = true |- _ => pose proof (proj1 (forallb_forall _ _) X s' Hs) as E end.
  symmetry. exact (src_eqb_eq _ _ E).
Qed.

Lemma nothing_without_request_good v : idle v = true ->
  count is_wrote (run_with good_flags v) = 0.
Proof.
  intro I. pose proof (exch_ok_good v) as H. unfold exch_okb in H. rewrite (idle_not_active v I), I in H.
  apply andb_true_iff in H as [H _]. apply Nat.eqb_eq in H. exact H.
Qed.

Lemma path_shape fl v :
  starts_with_read (run_with fl v) = true /\ ends_decided (run_with fl v) = true /\
  length (head_srcs (run_with fl v)) <= 1 /\
  no_head_after_fail false (run_with fl v) = true /\
  (has_fail (run_with fl v) = true -> ends_closed (run_with fl v) = true) /\
  count is_wrote (run_with fl v) <= 1.
Proof.
  pose proof (path_ok fl v) as H. unfold path_okb in H.
  repeat (apply andb_true_iff in H; destruct H as [H ?]).
  repeat match goal with X : Nat.leb _ _ = true |- _ => apply Nat.leb_le in X end.
  repeat split; auto.
  intro F. match goal with X : negb _ || _ = true |- _ => rewrite F in X; exact X end.
Qed.

Lemma no_dial_after_refusal fl v : v_mreq_err v = true -> count is_dial (run_with fl v) = 0.
Proof.
  intro R. pose proof (shape_ok fl v) as H. unfold shape_okb in H.
  apply andb_true_iff in H as [H _]. apply andb_true_iff in H as [_ K]. unfold refusal_okb in K. rewrite R in K. simpl in K.
  apply Nat.eqb_eq in K. exact K.
Qed.

Lemma list_eqb_src_eq a : forall c, list_eqb_src a c = true -> a = c.
Proof.
  induction a as [|x a IH]; intros [|y c] H; simpl in H; try discriminate; [reflexivity|].
  apply andb_true_iff in H as [H1 H2]. rewrite (src_eqb_eq _ _ H1), (IH c H2). reflexivity.
Qed.

Lemma rejected_connect_sources fl v :
  v_rd v = RdOk -> v_closing v = false -> v_mreq_err v = false -> v_mres_err v = false -> st_2xx (v_st v) = false ->
  (v_connect v = true -> v_mitm v = false -> v_cn v = CnRejected ->
   head_srcs (run_with fl v) = match v_w v with WFailEarly => [] | _ => [SUp] end) /\
  (v_connect v = false -> v_rt v = RtConnErr ->
   head_srcs (run_with fl v) = match v_w v with WFailEarly => [] | _ => [SConnErr] end).
Proof.
  intros R C M1 M2 S.
  pose proof (shape_ok fl v) as H0. unfold shape_okb in H0. apply andb_true_iff in H0 as [_ K].
  unfold rejected_checkb, rejected_pre in K.
  rewrite R, C, M1, M2, S in K. cbn [negb andb orb] in K. apply andb_true_iff in K as [K1 K2].
  split.
  - intros A B D. rewrite A, B, D in K1. cbn [negb andb orb] in K1. exact (list_eqb_src_eq _ _ K1).
  - intros A B. rewrite A, B in K2. cbn [negb andb orb] in K2. exact (list_eqb_src_eq _ _ K2).
Qed.
