(* G12.Check — executable checkers evaluated on what the harness observed of the
   REAL proxy (C13 part: exchange accounting and conntrack).
     obs_model_ok : the model predicts the observed trace / client view / gauges
     obs_prop_ok  : the observation itself satisfies the accounting property *)
From FwdLib Require Export Bytes.
From G12 Require Export Tables Errors Exchange Conntrack.
Open Scope N_scope.

(* ---- numeric constructors used by the generated cases ---- *)
Definition rd_of (n : N) : rd_t := if n =? 0 then RdOk else if n =? 1 then RdEOF else RdErr.
Definition rt_of (n : N) : rt_t := if n =? 0 then RtOk else if n =? 1 then RtErr else RtConnErr.
Definition st_of (n : N) : st_t := if n =? 0 then St2xx else if n =? 1 then St101 else StOther.
Definition cn_of (n : N) : cn_t := if n =? 0 then CnOk else if n =? 1 then CnErr else CnRejected.
Definition w_of (n : N) : w_t := if n =? 0 then WOk else if n =? 1 then WFailEarly else WFailLate.
Definition after_of (n : N) : after_t :=
  if n =? 0 then AfPlain else if n =? 1 then AfTLS else if n =? 2 then AfPeekErr else if n =? 3 then AfHandshakeErr else AfH2.

Definition mkval (rd : N) (closing connect mreq mitm_ : bool) (rt st : N) (mres rwc : bool) (cn w : N)
                 (drain reqclose : bool) (after : N) (closing_w : bool) : val :=
  Build_val (rd_of rd) closing connect mreq mitm_ (rt_of rt) (st_of st) mres rwc (cn_of cn) (w_of w) drain reqclose (after_of after) closing_w.

Definition mkfeat (win : bool) (op : N) (rec cert ech alert : bool) (st : option N)
                  (auth deny prohibited canceled https : bool) (text : N) (timeout : bool) : feat :=
  Build_feat win (if op =? 0 then None else if op =? 1 then Some false else Some true)
             rec cert ech alert st auth deny prohibited canceled https text timeout.

(* ---- observations ---- *)
(* one ProxyTrace event as seen through the hook *)
Record tev := mktev {
  t_read : bool;      (* ReadRequest (true) or WroteResponse (false) *)
  t_hasreq : bool;    (* read: req != nil; wrote: res.Request != nil *)
  t_label : str;      (* read: req.Method; wrote: res.Request.Method (the Prometheus method label) *)
  t_own : bool;       (* wrote: res.Request is the very request object that was read *)
  t_status : N;       (* wrote: res.StatusCode *)
  t_err : bool;       (* the event carries an error *)
  t_after : bool      (* the harness had already torn the tunnel down *)
}.

(* one exchange: the valuation the harness drove, plus what the client saw *)
Record ex := mkex {
  x_val : val;
  x_method : str;     (* method the client sent ([] if it sent no request) *)
  x_up : N;           (* status scripted at the origin / upstream proxy *)
  x_feat : feat;      (* errors.As/Is facts of the injected failure *)
  x_seen : bool;      (* the client read the reply to its end *)
  x_client : N        (* status of the complete, well-formed response the client parsed (0: none) *)
}.

Record obs := {
  o_exs : list ex;                (* exchanges on ONE client connection, in order *)
  o_trace : list tev;
  o_closed : bool;                (* the proxy closed the connection after the last reply *)
  o_check_end : bool;             (* o_closed was observed *)
  o_inflight : list (str * Z);    (* http_requests_in_flight by method, at quiescence *)
  o_total : list (str * Z);       (* http_requests_total by "code|method" *)
  o_lact : Z;                     (* listener_cx_active *)
  o_dact : Z;                     (* dialer_cx_active *)
  o_upopen : Z;                   (* connections from the proxy a watching scripted upstream still sees open at quiescence *)
  o_harness_ok : bool;
  o_handler : bool;               (* driven through martian's http.Handler: net/http's server reads the requests, so no
                                     read event without a request is ever reported, and closing is the server's decision *)
  o_shutdown : bool               (* the harness shut the proxy down during the case: the property does not apply *)
}.

(* ---- what the model predicts ---- *)
Definition status_of (x : ex) (s : src) : N :=
  match s with SUp | SConnErr => x_up x | SErr => classify (x_feat x) | SConnOK => 200 end.
Definition label_of (x : ex) (l : lab) : str :=
  match l with LOwn => x_method x | LTransport => b "CONNECT" end.
Definition own_of (l : lab) : bool := match l with LOwn => true | LTransport => false end.

Fixpoint project (x : ex) (after : bool) (evs : list ev) : list tev :=
  match evs with
  | [] => []
  | ERead hr :: r => mktev true hr (if hr then x_method x else []) false 0 (negb hr) false :: project x after r
  | EWrote s l e :: r => mktev false true (label_of x l) (own_of l) (status_of x s) e after :: project x after r
  | ETunnel :: r => project x true r
  | _ :: r => project x after r
  end.

Definition trace_of (x : ex) : list tev := project x false (run (x_val x)).

Fixpoint last_keeps (xs : list ex) : bool :=
  match xs with
  | [] => false
  | [x] => keeps (run (x_val x))
  | _ :: r => last_keeps r
  end.

(* the harness always ends by closing the client connection: a kept connection
   then yields one more ReadRequest event with an error and no request *)
Definition conn_trace (xs : list ex) : list tev :=
  flat_map trace_of xs ++ (if last_keeps xs then [mktev true false [] false 0 true false] else []).

Definition tev_eqb (a c : tev) : bool :=
  Bool.eqb (t_read a) (t_read c) && Bool.eqb (t_hasreq a) (t_hasreq c) && str_eqb (t_label a) (t_label c) &&
  Bool.eqb (t_own a) (t_own c) && (t_status a =? t_status c) && Bool.eqb (t_err a) (t_err c) && Bool.eqb (t_after a) (t_after c).

Fixpoint list_eqb {A} (f : A -> A -> bool) (x y : list A) : bool :=
  match x, y with
  | [], [] => true
  | a :: x', c :: y' => f a c && list_eqb f x' y'
  | _, _ => false
  end.

(* status the client can parse for this exchange: the head and the whole body
   arrived, and the status line is well formed (a *connectError response keeps
   the protocol version 0.0 of the transport's CONNECT request unless
   writeErrorResponse rebinds it) *)
Definition client_status (x : ex) : N :=
  let evs := run (x_val x) in
  match head_srcs evs with
  | [s] => if existsb (fun e => match e with EBodyEnd => true | _ => false end) evs
           then (if src_eqb s SConnErr && negb conn_err_rebinds_proto then 0 else status_of x s)
           else 0
  | _ => 0
  end.

(* ---- Prometheus middleware (middleware/prometheus.go ReadRequest / WroteResponse),
        driven by forwarder's trace hooks (http_proxy.go: nil guards) ---- *)
Fixpoint gauge_add (k : str) (d : Z) (g : list (str * Z)) : list (str * Z) :=
  match g with
  | [] => [(k, d)]
  | (k', v) :: r => if str_eqb k k' then (k', (v + d)%Z) :: r else (k', v) :: gauge_add k d r
  end.
Fixpoint gauge_get (k : str) (g : list (str * Z)) : Z :=
  match g with
  | [] => 0%Z
  | (k', v) :: r => if str_eqb k k' then v else gauge_get k r
  end.
Definition gauge_eqb (g1 g2 : list (str * Z)) : bool :=
  forallb (fun kv => Z.eqb (gauge_get (fst kv) g1) (gauge_get (fst kv) g2)) (g1 ++ g2).

Definition total_key (status : N) (label : str) : str := itoa status ++ [124] ++ label.

Fixpoint prom_inflight (tr : list tev) (g : list (str * Z)) : list (str * Z) :=
  match tr with
  | [] => g
  | e :: r =>
      if t_read e then (if t_hasreq e || negb trace_read_guards_nil_req then prom_inflight r (gauge_add (t_label e) 1%Z g) else prom_inflight r g)
      else prom_inflight r (gauge_add (t_label e) (-1)%Z g)
  end.
Fixpoint prom_total (tr : list tev) (g : list (str * Z)) : list (str * Z) :=
  match tr with
  | [] => g
  | e :: r => if t_read e then prom_total r g else prom_total r (gauge_add (total_key (t_status e) (t_label e)) 1%Z g)
  end.

Definition zsum (g : list (str * Z)) : Z := fold_right (fun kv a => (snd kv + a)%Z) 0%Z g.

(* ---- correspondence ---- *)
(* what one connection reports: through martian's http.Handler net/http's server reads the requests, so a read event
   without a request is never reported *)
Definition conn_view (handler : bool) (tr : list tev) : list tev :=
  if handler then filter (fun e => negb (t_read e) || t_hasreq e) tr else tr.

Definition obs_model_ok (o : obs) : bool :=
  o_harness_ok o &&
  list_eqb tev_eqb (conn_view (o_handler o) (conn_trace (o_exs o))) (o_trace o) &&
  forallb (fun x => negb (x_seen x) || (client_status x =? x_client x)) (o_exs o) &&
  (negb (o_check_end o) || Bool.eqb (o_closed o) (negb (last_keeps (o_exs o)))) &&
  gauge_eqb (prom_inflight (o_trace o) []) (o_inflight o) &&
  gauge_eqb (prom_total (o_trace o) []) (o_total o).

(* ---- the accounting property on the observation itself ---- *)
(* every request read is reported complete exactly once, bound to the request
   that was read, before the next request of the connection is read *)
Fixpoint paired (pending : option str) (tr : list tev) : bool :=
  match tr with
  | [] => match pending with None => true | Some _ => false end
  | e :: r =>
      if t_read e then
        if t_hasreq e then match pending with None => paired (Some (t_label e)) r | Some _ => false end
        else paired pending r
      else match pending with
           | Some l => t_hasreq e && t_own e && str_eqb l (t_label e) && paired None r
           | None => false
           end
  end.

Definition wrote_statuses (tr : list tev) : list N :=
  flat_map (fun e => if t_read e then [] else [t_status e]) tr.

(* the status reported is the status the client was sent *)
Fixpoint statuses_agree (xs : list ex) (ws : list N) : bool :=
  match xs with
  | [] => true
  | x :: r =>
      match x_method x with
      | [] => statuses_agree r ws
      | _ => match ws with
             | [] => true
             | w :: ws' => (negb (x_seen x) || (x_client x =? 0) || (x_client x =? w)) && statuses_agree r ws'
             end
      end
  end.

Definition n_reads (tr : list tev) : Z := Z.of_nat (length (filter (fun e => t_read e && t_hasreq e) tr)).

Definition obs_prop_ok (o : obs) : bool :=
  o_shutdown o ||
  paired None (o_trace o) &&
  statuses_agree (o_exs o) (wrote_statuses (o_trace o)) &&
  forallb (fun kv => Z.eqb (snd kv) 0%Z) (o_inflight o) &&
  Z.eqb (zsum (o_total o)) (n_reads (o_trace o)) &&
  Z.eqb (o_lact o) 0%Z && Z.eqb (o_dact o) 0%Z && Z.eqb (o_upopen o) 0%Z.

(* ---- many connections at once against one proxy ---- *)
Record mobs := {
  m_traces : list (list tev);   (* events grouped by client connection (req.RemoteAddr), each in order *)
  m_all : list tev;             (* every event, in the order the hooks were called *)
  m_inflight : list (str * Z); m_total : list (str * Z);
  m_lact : Z; m_dact : Z; m_ltot : Z;
  m_conns : N;                  (* connections the clients opened *)
  m_ok : bool
}.

(* the Prometheus model applied to the whole event stream gives the gathered registry *)
Definition mobs_model_ok (o : mobs) : bool :=
  m_ok o &&
  gauge_eqb (prom_inflight (m_all o) []) (m_inflight o) &&
  gauge_eqb (prom_total (m_all o) []) (m_total o) &&
  Z.eqb (m_ltot o) (Z.of_N (m_conns o)).

(* on every connection every request is reported exactly once, bound to itself, before the next one
   is read; at quiescence the gauges are zero and the counter equals the requests read *)
Definition mobs_prop_ok (o : mobs) : bool :=
  forallb (paired None) (m_traces o) &&
  forallb (fun kv => Z.eqb (snd kv) 0%Z) (m_inflight o) &&
  Z.eqb (zsum (m_total o)) (n_reads (m_all o)) &&
  Z.eqb (m_lact o) 0%Z && Z.eqb (m_dact o) 0%Z.

(* ---- conntrack experiments ---- *)
Record ctobs := mkct {
  c_kind : N;        (* 0 conntrack.Builder, 1 forwarder.Listener, 2 forwarder.Dialer *)
  c_track : bool;
  c_closers : nat;   (* goroutines calling Close on each connection at the same time *)
  c_conns : nat;
  c_onclose : nat;   (* OnClose invocations over all connections (kinds 1,2: total - active) *)
  c_under : nat;     (* Close calls that reached the underlying connection (kind 0) *)
  c_active : Z;      (* active gauge at the end (kinds 1,2) *)
  c_total : nat;     (* total counter (kinds 1,2) *)
  c_min : nat; c_max : nat;  (* OnClose invocations per connection: min and max *)
  c_pre : bool               (* a layer below the wrapper closed the connection before the first Close *)
}.

(* canonical schedule; pre: the connection was closed below the wrapper before the first Close *)
Definition csched (early pre : bool) (n : nat) : list clabel :=
  if early && pre then crepeat CUnderEarly n
  else match n with
       | O => []
       | S k => if early then [CUnder] ++ crepeat CUnderEarly k ++ [CEnterRun; CFire; CExit] else csched_seq n
       end.
Definition ct_model (closers : nat) (pre : bool) : option cst :=
  crun close_uses_once close_returns_early_on_errclosed (cinit closers pre)
       (csched close_returns_early_on_errclosed pre closers).

Definition ct_model_ok (c : ctobs) : bool :=
  match ct_model (c_closers c) (c_pre c) with
  | Some s =>
      cfinalb s &&
      Nat.eqb (c_onclose c) (c_conns c * fired s) &&
      (if c_kind c =? 0 then Nat.eqb (c_under c) (c_conns c * under s) && Nat.eqb (c_min c) (fired s) && Nat.eqb (c_max c) (fired s)
       else Z.eqb (c_active c) (Z.of_nat (c_conns c) - Z.of_nat (c_conns c * fired s))%Z && Nat.eqb (c_total c) (c_conns c))
  | None => false
  end.

Definition ct_prop_ok (c : ctobs) : bool :=
  Nat.eqb (c_onclose c) (c_conns c) && Nat.eqb (c_min c) 1 && Nat.eqb (c_max c) 1 &&
  (if c_kind c =? 0 then Nat.eqb (c_under c) (c_conns c * c_closers c)
   else Z.eqb (c_active c) 0%Z && Nat.eqb (c_total c) (c_conns c)).

(* ---- byte counters (conntrack Observer) ---- *)
Record bobs := mkbobs {
  b_ops : list (N * N);   (* per call through the tracking wrapper: (0 Read | 1 Write | 2 ReadFrom, n returned) *)
  b_rx : N; b_tx : N;     (* Observer.Rx(), Observer.Tx() *)
  b_peer_sent : N; b_peer_got : N
}.
(* conn.Read adds n to rx; conn.Write and conn.ReadFrom add n to tx *)
Definition byte_model (ops : list (N * N)) : N * N :=
  fold_right (fun o a => if fst o =? 0 then (fst a + snd o, snd a) else (fst a, snd a + snd o)) (0, 0) ops.
Definition bobs_model_ok (o : bobs) : bool :=
  (fst (byte_model (b_ops o)) =? b_rx o) && (snd (byte_model (b_ops o)) =? b_tx o).
(* the counters equal the bytes actually transferred *)
Definition bobs_prop_ok (o : bobs) : bool := (b_rx o =? b_peer_sent o) && (b_tx o =? b_peer_got o).

(* indices (from 0) of the cases on which f fails *)
Fixpoint bad_from {A} (f : A -> bool) (i : N) (l : list A) : list N :=
  match l with
  | [] => []
  | x :: r => if f x then bad_from f (i + 1) r else i :: bad_from f (i + 1) r
  end.
Definition bad {A} (f : A -> bool) (l : list A) : list N := bad_from f 0 l.
