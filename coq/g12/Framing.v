(* G12.Framing — what a client can conclude from the bytes it received:
   an independent HTTP/1.x response parser (RFC 7230 section 3.3.3 message
   framing for a client), mirrored line by line by harness/faultrig/parse.go,
   and the wire form of a response head + body in the three framings. *)
From Coq Require Import ZArith.
From FwdLib Require Import Bytes.
Open Scope N_scope.

Definition CR : N := 13.
Definition LF : N := 10.
Definition CRLF : str := [CR; LF].

(* ---- the parser ---- *)
Inductive verdict := Complete | Incomplete | Malformed | Nothing.

Record presult := mkp {
  pv : verdict;
  pmajor : N; pminor : N; pstatus : N;
  phdr : list (str * str);      (* field name, value with outer blanks removed *)
  pframing : N;                 (* 0 no body, 1 Content-Length, 2 chunked, 3 delimited by connection close *)
  pbody : str;
  prest : str                   (* bytes after the message *)
}.

(* line up to the first LF (LF removed, CR kept) and the rest *)
Fixpoint read_line (s : str) : option (str * str) :=
  match s with
  | [] => None
  | c :: r => if c =? LF then Some ([], r)
              else match read_line r with
                   | Some (l, t) => Some (c :: l, t)
                   | None => None
                   end
  end.

(* one trailing CR removed *)
Definition strip_cr (l : str) : str :=
  match rev l with
  | c :: r => if c =? CR then rev r else l
  | [] => l
  end.

Definition is_ows (c : N) : bool := (c =? 32) || (c =? 9).
Fixpoint trim_ows_left (s : str) : str :=
  match s with
  | c :: r => if is_ows c then trim_ows_left r else s
  | [] => []
  end.
Definition trim_ows (s : str) : str := rev (trim_ows_left (rev (trim_ows_left s))).

Fixpoint parse_dec_acc (acc : N) (s : str) : option N :=
  match s with
  | [] => Some acc
  | c :: r => if is_digit c then parse_dec_acc (acc * 10 + (c - 48)) r else None
  end.
Definition parse_dec (s : str) : option N :=
  match s with
  | [] => None
  | _ => if (length s <=? 18)%nat then parse_dec_acc 0 s else None
  end.

Definition hex_val (c : N) : option N :=
  if is_digit c then Some (c - 48)
  else if (97 <=? c) && (c <=? 102) then Some (c - 87)
  else if (65 <=? c) && (c <=? 70) then Some (c - 55)
  else None.
Fixpoint parse_hex_acc (acc : N) (s : str) : option N :=
  match s with
  | [] => Some acc
  | c :: r => match hex_val c with Some d => parse_hex_acc (acc * 16 + d) r | None => None end
  end.
Definition parse_hex (s : str) : option N :=
  match s with
  | [] => None
  | _ => if (length s <=? 15)%nat then parse_hex_acc 0 s else None
  end.

(* "HTTP/" d "." d SP d d d [SP reason] *)
Definition parse_status_line (l : str) : option (N * N * N) :=
  if has_prefix l (b "HTTP/") then
    match skipn 5 l with
    | a :: dot :: c :: sp :: x :: y :: z :: r =>
        if is_digit a && (dot =? 46) && is_digit c && (sp =? 32) && is_digit x && is_digit y && is_digit z &&
           (match r with [] => true | s :: _ => s =? 32 end)
        then Some (a - 48, c - 48, (x - 48) * 100 + (y - 48) * 10 + (z - 48))
        else None
    | _ => None
    end
  else None.

(* "name: value" with a non-empty token as name *)
Definition parse_header_line (l : str) : option (str * str) :=
  match cut_byte 58 l with
  | Some (n, v) => if is_token n then Some (n, trim_ows v) else None
  | None => None
  end.

(* read header lines up to the empty line.  None: the input ended first.
   Some (inl _): a malformed line.  fuel: number of lines allowed. *)
Fixpoint read_headers (fuel : nat) (s : str) : option (option (list (str * str)) * str) :=
  match fuel with
  | O => None
  | S f =>
      match read_line s with
      | None => None
      | Some (l0, r) =>
          let l := strip_cr l0 in
          match l with
          | [] => Some (Some [], r)
          | _ => match parse_header_line l with
                 | None => Some (None, r)
                 | Some kv => match read_headers f r with
                              | None => None
                              | Some (None, t) => Some (None, t)
                              | Some (Some hs, t) => Some (Some (kv :: hs), t)
                              end
                 end
          end
      end
  end.

Definition values_of (name : str) (hs : list (str * str)) : list str :=
  map snd (filter (fun kv => eq_fold (fst kv) name) hs).

Fixpoint last_str (d : str) (l : list str) : str :=
  match l with [] => d | [x] => x | _ :: r => last_str d r end.

(* trailer section: lines up to the empty line *)
Fixpoint skip_trailers (fuel : nat) (s : str) : option str :=
  match fuel with
  | O => None
  | S f => match read_line s with
           | None => None
           | Some (l0, r) => match strip_cr l0 with [] => Some r | _ => skip_trailers f r end
           end
  end.

Inductive chunk_res :=
| ChComplete (body rest : str)
| ChIncomplete (body : str)
| ChMalformed.

Definition size_of_line (l : str) : option N :=
  let s := match cut_byte 59 l with Some (x, _) => x | None => l end in
  parse_hex (trim_ows s).

Fixpoint parse_chunks (fuel : nat) (s : str) (acc : str) : chunk_res :=
  match fuel with
  | O => ChIncomplete acc
  | S f =>
      match read_line s with
      | None => ChIncomplete acc
      | Some (l0, r) =>
          match size_of_line (strip_cr l0) with
          | None => ChMalformed
          | Some n =>
              if n =? 0 then
                match skip_trailers (S (length r)) r with
                | Some t => ChComplete acc t
                | None => ChIncomplete acc
                end
              else
                let k := N.to_nat n in
                if (length r <? k + 2)%nat then ChIncomplete (acc ++ firstn k r)
                else match skipn k r with
                     | c1 :: c2 :: t => if (c1 =? CR) && (c2 =? LF) then parse_chunks f t (acc ++ firstn k r) else ChMalformed
                     | _ => ChMalformed
                     end
          end
      end
  end.

Definition fail (v : verdict) : presult := mkp v 0 0 0 [] 0 [] [].

Definition all_same (x : str) (l : list str) : bool := forallb (str_eqb x) l.

(* the message after a well-formed head: framing decision and body.
   eof: the stream ended with an orderly close.  head_only: the request was HEAD. *)
Definition after_head (ma mi st : N) (hs : list (str * str)) (rest : str) (eof head_only : bool) : presult :=
  if head_only || (st / 100 =? 1) || (st =? 204) || (st =? 304) then mkp Complete ma mi st hs 0 [] rest
  else
  match values_of (b "transfer-encoding") hs with
  | (_ :: _) as te =>
      let lastv := last_str [] te in
      let tok := trim_ows (last_str [] (split_byte 44 lastv)) in
      if eq_fold tok (b "chunked") then
        match parse_chunks (S (length rest)) rest [] with
        | ChComplete body t => mkp Complete ma mi st hs 2 body t
        | ChIncomplete body => mkp Incomplete ma mi st hs 2 body []
        | ChMalformed => mkp Malformed ma mi st hs 2 [] []
        end
      else mkp Malformed ma mi st hs 0 [] []
  | [] =>
      match values_of (b "content-length") hs with
      | v :: vs =>
          match parse_dec v with
          | None => mkp Malformed ma mi st hs 1 [] []
          | Some n =>
              if negb (all_same v vs) then mkp Malformed ma mi st hs 1 [] []
              else let k := N.to_nat n in
                   if (length rest <? k)%nat then mkp Incomplete ma mi st hs 1 rest []
                   else mkp Complete ma mi st hs 1 (firstn k rest) (skipn k rest)
          end
      | [] => if eof then mkp Complete ma mi st hs 3 rest [] else mkp Incomplete ma mi st hs 3 rest []
      end
  end.

Definition client_parse (d : str) (eof head_only : bool) : presult :=
  match d with
  | [] => fail (if eof then Nothing else Incomplete)
  | _ =>
    match read_line d with
    | None => fail Incomplete
    | Some (l0, r0) =>
      match parse_status_line (strip_cr l0) with
      | None => fail Malformed
      | Some (ma, mi, st) =>
        if negb (ma =? 1) || (st <? 100) then mkp Malformed ma mi st [] 0 [] []
        else
        match read_headers (S (length r0)) r0 with
        | None => mkp Incomplete ma mi st [] 0 [] []
        | Some (None, _) => mkp Malformed ma mi st [] 0 [] []
        | Some (Some hs, rest) => after_head ma mi st hs rest eof head_only
        end
      end
    end
  end.

Definition is_complete (p : presult) : bool := match pv p with Complete => true | _ => false end.

(* ---- the wire form of a response ---- *)
Definition head_bytes (lines : list str) : str := concat (map (fun l => l ++ CRLF) lines) ++ CRLF.

(* one chunk on the wire: its size line (any spelling the parser reads as the length) and its data *)
Definition chunk_bytes (c : str * str) : str := fst c ++ CRLF ++ snd c ++ CRLF.
Definition chunks_bytes (cs : list (str * str)) : str := concat (map chunk_bytes cs) ++ b "0" ++ CRLF ++ CRLF.

(* decimal rendering (Content-Length) *)
Fixpoint dec_fuel (fuel : nat) (n : N) : str :=
  match fuel with
  | O => []
  | S f => if n <? 10 then [48 + n] else dec_fuel f (n / 10) ++ [48 + n mod 10]
  end.
Definition dec (n : N) : str := dec_fuel 18 n.

Definition no_byte (c : N) (s : str) : bool := forallb (fun x => negb (x =? c)) s.
Definition line_ok (l : str) : bool := no_byte LF l && no_byte CR l && match l with [] => false | _ => true end.

(* ---- the error response forwarder builds (http_proxy_errors.go errorResponse +
        proxyutil.NewResponse + Response.Write for a body of known length) ---- *)
(* net/http writes header values with CR and LF replaced by a blank and outer blanks trimmed *)
Definition sanitize (v : str) : str :=
  trim_ows (map (fun c => if (c =? CR) || (c =? LF) then 32 else c) v).

(* "HTTP/1.<minor> <d2><d1><d0> <reason>" *)
Definition status_line (minor d2 d1 d0 : N) (reason : str) : str :=
  b "HTTP/1." ++ [48 + minor] ++ [32] ++ [48 + d2; 48 + d1; 48 + d0] ++ [32] ++ reason.
Definition code_of (d2 d1 d0 : N) : N := d2 * 100 + d1 * 10 + d0.

Definition error_body (name msg errtext : str) : str := name ++ [32] ++ msg ++ [LF] ++ errtext ++ [LF].

(* header lines in the order net/http emits them: the transfer writer's lines first, then the header map sorted by name *)
Definition error_lines (d2 d1 d0 : N) (name msg errtext : str) (close : bool) : list str :=
  (if close then [b "Connection: close"] else []) ++
  [b "Content-Length: " ++ dec (N.of_nat (length (error_body name msg errtext)));
   b "Content-Type: text/plain; charset=utf-8"] ++
  (if code_of d2 d1 d0 =? 407 then [b "Proxy-Authenticate: Basic realm=""" ++ sanitize name ++ b """"] else []) ++
  [b "X-Forwarder-Error: " ++ sanitize (name ++ [32] ++ errtext)].

Definition error_wire (minor d2 d1 d0 : N) (reason name msg errtext : str) (close : bool) : str :=
  status_line minor d2 d1 d0 reason ++ CRLF ++ head_bytes (error_lines d2 d1 d0 name msg errtext close) ++ error_body name msg errtext.

(* ---- relay of a rejected CONNECT (proxy_connect.go onProxyConnectResponse), proofs in Reject.v ---- *)
(* io.ReadAll on the rejection's body: the whole announced body / the connection ended early (error) / the upstream
   sends less than it announced — or an unframed body — and keeps its connection open: the read never ends by itself *)
Inductive body_read := RdAll (bs : str) | RdFail | RdStall.

(* shape flags (Tables.v): only_pos — the body is read iff ContentLength > 0 (other shape: iff ContentLength != 0, which
   includes -1, a body without framing); bounded — the read is given up after the connect timeout *)
Definition reject_reads (only_pos : bool) (cl : Z) : bool := if only_pos then (0 <? cl)%Z else negb (cl =? 0)%Z.

(* the body relayed; None: the function never returns, the client gets nothing *)
Definition reject_body (only_pos bounded : bool) (cl : Z) (rd : body_read) : option str :=
  if reject_reads only_pos cl then
    match rd with
    | RdAll bs => Some bs
    | RdFail => Some []
    | RdStall => if bounded then Some [] else None
    end
  else Some [].

