(* G12.ConntrackProofs — invariants of the closeListener LTS over ALL schedules. *)
From Coq Require Import List Arith NArith ZArith Bool Lia Permutation.
From G12 Require Import Conntrack.
Import ListNotations.

Definition b2n (x : bool) : nat := if x then 1 else 0.

(* invariant of the shape with sync.Once, for n callers *)
Definition cinv (n : nat) (s : cst) : Prop :=
  fired s = n3 s + b2n (done s) /\
  n2 s + n3 s <= 1 /\
  (done s = true -> n2 s + n3 s = 0) /\
  (nd s > 0 -> done s = true) /\
  (done s = true -> nd s > 0) /\
  under s = n1 s + n2 s + n3 s + nd s /\
  n0 s + n1 s + n2 s + n3 s + nd s = n.

Lemma cinv_init n pre : cinv n (cinit n pre).
Proof. unfold cinv, cinit; simpl. repeat split; try lia; intros; try discriminate; lia. Qed.

Lemma cinv_step n s l s' : cinv n s -> cstep true false s l = Some s' -> cinv n s'.
Proof.
  unfold cinv. intros (I1 & I2 & I3 & I4 & I5 & I6 & I7) H.
  destruct s as [a0 a1 a2 a3 ad dn fi un uc]; simpl in *.
  destruct l; simpl in H.
  - (* CUnder *) destruct a0; [discriminate|]. inversion H; subst; clear H; simpl. repeat split; try lia; auto.
  - (* CEnterRun *)
    destruct dn; simpl in H; [discriminate|].
    destruct (a2 + a3 =? 0) eqn:E; simpl in H; [|discriminate]. apply Nat.eqb_eq in E.
    destruct a1; [discriminate|]. inversion H; subst; clear H; simpl in *.
    repeat split; try lia; intros; try discriminate; auto.
  - (* CEnterSkip *)
    destruct dn; simpl in H; [|discriminate].
    destruct a1; [discriminate|]. inversion H; subst; clear H; simpl in *.
    specialize (I3 eq_refl). repeat split; try lia; auto.
  - (* CFire *)
    destruct a2; [discriminate|]. inversion H; subst; clear H; simpl in *.
    repeat split; try lia; auto.
    intro D. specialize (I3 D). lia.
  - (* CExit *)
    destruct a3; [discriminate|]. inversion H; subst; clear H; simpl in *.
    assert (dn = false) as -> by (destruct dn; [specialize (I3 eq_refl); lia | reflexivity]).
    simpl in *. repeat split; try lia; auto.
  - (* CDirect *) discriminate.
  - (* CUnderEarly *) discriminate.
Qed.

Lemma cinv_run n ls : forall s s', cinv n s -> crun true false s ls = Some s' -> cinv n s'.
Proof.
  induction ls as [|l r IH]; intros s s' I H; simpl in H.
  - inversion H; subst; exact I.
  - destruct (cstep true false s l) as [s1|] eqn:E; [|discriminate].
    exact (IH s1 s' (cinv_step n s l s1 I E) H).
Qed.

(* SAFETY, every reachable state of every schedule: onClose has run at most once *)
Lemma fired_at_most_once n pre ls s : crun true false (cinit n pre) ls = Some s -> fired s <= 1.
Proof.
  intro H. destruct (cinv_run n ls _ _ (cinv_init n pre) H) as (I1 & I2 & I3 & _).
  rewrite I1. destruct (done s); simpl; [rewrite (I3 eq_refl) in *|]; lia.
Qed.

(* when every caller has returned: onClose ran exactly once (if anybody called
   Close at all) and the underlying Close ran once per call *)
Lemma close_once n pre ls s :
  crun true false (cinit n pre) ls = Some s -> cfinal s ->
  fired s = (if n =? 0 then 0 else 1) /\ under s = n /\ nd s = n.
Proof.
  intros H (F0 & F1 & F2 & F3).
  destruct (cinv_run n ls _ _ (cinv_init n pre) H) as (I1 & I2 & I3 & I4 & I5 & I6 & I7).
  rewrite F0, F1, F2, F3 in *. simpl in *.
  assert (nd s = n) by lia. repeat split; try lia.
  destruct (n =? 0) eqn:E.
  - apply Nat.eqb_eq in E. destruct (done s); [specialize (I5 eq_refl); lia | simpl in I1; lia].
  - apply Nat.eqb_neq in E. rewrite I4 in I1 by lia. simpl in I1. lia.
Qed.

(* PROGRESS: while some caller has not returned, some step is enabled — no
   schedule can get stuck, so every maximal schedule ends in a final state *)
Lemma progress n pre ls s :
  crun true false (cinit n pre) ls = Some s -> ~ cfinal s -> exists l s', cstep true false s l = Some s'.
Proof.
  intros H NF. destruct (cinv_run n ls _ _ (cinv_init n pre) H) as (I1 & I2 & I3 & I4 & I5 & I6 & I7).
  destruct s as [a0 a1 a2 a3 ad dn fi un uc]; unfold cfinal in NF; simpl in *.
  destruct a0 as [|a0]; [|exists CUnder; eexists; reflexivity].
  destruct a2 as [|a2]; [|exists CFire; eexists; reflexivity].
  destruct a3 as [|a3]; [|exists CExit; eexists; reflexivity].
  destruct a1 as [|a1]; [exfalso; apply NF; repeat split; reflexivity|].
  destruct dn.
  - exists CEnterSkip; eexists; reflexivity.
  - exists CEnterRun; eexists; reflexivity.
Qed.

(* the canonical schedule is a complete run *)
Lemma csched_seq_example : forall n pre, n <= 20 ->
  match crun true false (cinit n pre) (csched_seq n) with Some s => cfinalb s = true | None => False end.
Proof.
  intros n pre H. do 21 (destruct n as [|n]; [destruct pre; vm_compute; reflexivity|]). lia.
Qed.

(* the shape WITHOUT sync.Once runs the callback once per call: two callers, two callbacks *)
Lemma direct_fires_twice :
  exists ls s, crun false false (cinit 2 false) ls = Some s /\ cfinal s /\ fired s = 2.
Proof.
  exists [CUnder; CUnder; CDirect; CDirect]. eexists. split; [vm_compute; reflexivity|].
  split; [repeat split; reflexivity | reflexivity].
Qed.

(* the shape that returns before the Once when the underlying Close reports "already closed":
   if a layer BELOW the wrapper closed the connection first, the callback never runs *)
Lemma early_return_never_fires :
  exists ls s, crun true true (cinit 1 true) ls = Some s /\ cfinal s /\ fired s = 0.
Proof.
  exists [CUnderEarly]. eexists. split; [vm_compute; reflexivity|]. split; [repeat split; reflexivity | reflexivity].
Qed.

(* ---- the active gauge: +1 per accepted/dialled connection, -1 per onClose ---- *)
Lemma active_zero (fires : list nat) : (forall k, In k fires -> k = 1) -> active_after fires = 0%Z.
Proof.
  unfold active_after. intro H.
  assert (E : fold_right plus 0 fires = length fires).
  { induction fires as [|k r IH]; [reflexivity|]. simpl.
    rewrite (H k (or_introl eq_refl)). rewrite IH by (intros; apply H; right; assumption). reflexivity. }
  rewrite E. lia.
Qed.

(* each connection closed by c >= 1 concurrent callers, arbitrary schedule each *)
Definition conn_run (c : nat) (pre : bool) (ls : list clabel) : option nat :=
  match crun true false (cinit c pre) ls with
  | Some s => if cfinalb s then Some (fired s) else None
  | None => None
  end.

Lemma cfinalb_final s : cfinalb s = true -> cfinal s.
Proof.
  unfold cfinalb, cfinal. intro H. repeat (apply andb_true_iff in H; destruct H as [H ?]).
  repeat match goal with X : (_ =? _) = true |- _ => apply Nat.eqb_eq in X end. auto.
Qed.

Lemma conn_run_one c pre ls k : c >= 1 -> conn_run c pre ls = Some k -> k = 1.
Proof.
  unfold conn_run. intros C H. destruct (crun true false (cinit c pre) ls) as [s|] eqn:E; [|discriminate].
  destruct (cfinalb s) eqn:F; [|discriminate]. inversion H; subst.
  destruct (close_once c pre ls s E (cfinalb_final s F)) as (-> & _).
  destruct (c =? 0) eqn:Z; [apply Nat.eqb_eq in Z; lia | reflexivity].
Qed.

(* ---- byte counters ---- *)
Lemma brun_from s ops : fold_left bstep ops s = (fst s + rx_sum ops, snd s + tx_sum ops)%N.
Proof.
  revert s. induction ops as [|o r IH]; intros [a c].
  - cbn [fold_left rx_sum tx_sum fold_right fst snd]. f_equal; lia.
  - cbn [fold_left]. rewrite IH. destruct o; unfold rx_sum, tx_sum; cbn [fold_right bstep fst snd]; f_equal; lia.
Qed.

(* the counters are exactly the sums of the n returned by the calls: rx over Read, tx over Write and ReadFrom *)
Lemma byte_counters_are_sums ops : brun ops = (rx_sum ops, tx_sum ops).
Proof. unfold brun. rewrite brun_from. reflexivity. Qed.

(* ... whatever the order in which concurrent calls add to them *)
Lemma rx_sum_perm a c : Permutation a c -> rx_sum a = rx_sum c.
Proof.
  induction 1 as [|x l l' _ IH|x y l|l l' l'' _ IH1 _ IH2]; [reflexivity | | | congruence].
  - unfold rx_sum in *. cbn [fold_right]. rewrite IH. reflexivity.
  - unfold rx_sum. cbn [fold_right]. destruct x, y; lia.
Qed.
Lemma tx_sum_perm a c : Permutation a c -> tx_sum a = tx_sum c.
Proof.
  induction 1 as [|x l l' _ IH|x y l|l l' l'' _ IH1 _ IH2]; [reflexivity | | | congruence].
  - unfold tx_sum in *. cbn [fold_right]. rewrite IH. reflexivity.
  - unfold tx_sum. cbn [fold_right]. destruct x, y; lia.
Qed.
Lemma byte_counters_order_irrelevant a c : Permutation a c -> brun a = brun c.
Proof. intro P. rewrite !byte_counters_are_sums, (rx_sum_perm a c P), (tx_sum_perm a c P). reflexivity. Qed.
