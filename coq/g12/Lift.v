(* G12.Lift — the generic lemmas restated for the shapes Tables.v reports, with
   the facts about the source as hypotheses (discharged in Obligations.v). *)
From Coq Require Import List Bool Arith NArith ZArith Lia.
From FwdLib Require Import Bytes.
From G12 Require Import Tables Errors Exchange Conntrack Check ExchangeProofs ConntrackProofs PromProofs.
Import ListNotations.
Local Open Scope nat_scope.

Section WithTables.
  Hypothesis T : table_flags = good_flags.

  Lemma exactly_once v : active v = true ->
    count is_read_req (run v) = 1 /\
    count is_wrote_own (run v) = 1 /\
    count is_wrote_transport (run v) = 0 /\
    length (head_srcs (run v)) <= 1 /\
    exists s, wrote_srcs (run v) = [s] /\ forall s', In s' (head_srcs (run v)) -> s' = s.
  Proof. unfold run. rewrite T. apply exactly_once_good. Qed.

  Lemma nothing_without_request v : idle v = true -> count is_wrote (run v) = 0.
  Proof. unfold run. rewrite T. apply nothing_without_request_good. Qed.
End WithTables.

Section WithOnce.
  Hypothesis O : close_uses_once = true.
  Hypothesis E : close_returns_early_on_errclosed = false.

  Lemma close_once_tab n pre ls s :
    crun close_uses_once close_returns_early_on_errclosed (cinit n pre) ls = Some s -> cfinal s ->
    fired s = (if n =? 0 then 0 else 1) /\ under s = n /\ nd s = n.
  Proof. rewrite O, E. apply close_once. Qed.

  Lemma close_never_twice_tab n pre ls s :
    crun close_uses_once close_returns_early_on_errclosed (cinit n pre) ls = Some s -> fired s <= 1.
  Proof. rewrite O, E. apply fired_at_most_once. Qed.

  Lemma close_progress_tab n pre ls s :
    crun close_uses_once close_returns_early_on_errclosed (cinit n pre) ls = Some s -> ~ cfinal s ->
    exists l s', cstep close_uses_once close_returns_early_on_errclosed s l = Some s'.
  Proof. rewrite O, E. apply progress. Qed.
End WithOnce.

Lemma active_zero_conns (conns : list (nat * bool * list clabel)) fires :
  Forall2 (fun c k => fst (fst c) >= 1 /\ conn_run (fst (fst c)) (snd (fst c)) (snd c) = Some k) conns fires ->
  active_after fires = 0%Z.
Proof.
  intro H. apply active_zero. intros k Hk.
  induction H as [|c k' cs fs [C R] _ IH]; [contradiction|].
  destruct Hk as [<-|Hk]; [exact (conn_run_one _ _ _ _ C R) | exact (IH Hk)].
Qed.

(* the byte model evaluated on the implementation's calls (Check.byte_model) is the wrapper model of Conntrack.v *)
Definition bop_of (o : N * N) : bop :=
  if N.eqb (fst o) 0 then BRead (snd o) else if N.eqb (fst o) 1 then BWrite (snd o) else BReadFrom (snd o).
Lemma byte_model_is_brun ops : byte_model ops = brun (map bop_of ops).
Proof.
  rewrite byte_counters_are_sums. induction ops as [|[k n] r IH]; [reflexivity|].
  change (byte_model ((k, n) :: r)) with
    (if N.eqb k 0 then (fst (byte_model r) + n, snd (byte_model r))%N else (fst (byte_model r), snd (byte_model r) + n)%N).
  rewrite IH. cbn [fst snd map].
  assert (B : bop_of (k, n) = if N.eqb k 0 then BRead n else if N.eqb k 1 then BWrite n else BReadFrom n) by reflexivity.
  rewrite B. generalize (map bop_of r). intro l.
  destruct (N.eqb k 0).
  - unfold rx_sum, tx_sum. cbn [fold_right]. f_equal. lia.
  - destruct (N.eqb k 1); unfold rx_sum, tx_sum; cbn [fold_right]; f_equal; lia.
Qed.
