#!/usr/bin/env python3
"""Regenerate Expected.v from the current Tables.v.

Expected.v records the control-flow skeletons of the Go functions AS THEY WERE WHEN THE
MODEL WAS TRANSCRIBED.  Obligations.v compares the skeletons extracted on every run
(Tables.v) with these.  Run this script only after re-reading the changed Go function and
updating the model to match it."""
import os, re
here = os.path.dirname(os.path.abspath(__file__))
out = ["(* Skeletons of the transcribed Go functions at transcription time (see mk_expected.py). *)",
       "From FwdLib Require Import Bytes.", "Open Scope N_scope."]
for l in open(os.path.join(here, "Tables.v")):
    m = re.match(r"Definition (skel_\w+|index_sites|type_assert_sites) : list str := (.*)$", l)
    if m:
        out.append("Definition exp_%s : list str := %s" % (m.group(1), m.group(2)))
open(os.path.join(here, "Expected.v"), "w").write("\n".join(out) + "\n")
