(* G12.Exchange — the path model (G12.ExchangeCore) instantiated with the shapes of the source
   as extracted into Tables.v on this run. *)
From FwdLib Require Import Bytes.
From G12 Require Import Tables.
From G12 Require Export ExchangeCore.

Definition table_flags : flags :=
  Build_flags trace_skip_only_when_deferred conn_err_rebinds_request upgrade_clears_close.

Definition run (v : val) : list ev := run_with table_flags v.
