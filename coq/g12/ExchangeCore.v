(* G12.ExchangeCore — per-exchange control-flow path model of
     internal/martian/proxy_conn.go : proxyConn.handle, handleConnectRequest,
     handleMITM, tunnel, handleUpgradeResponse, writeErrorResponse,
     writeResponse, skipTraceWroteResponse.
   Every branch condition of the Go code is an oracle input (record [val],
   a finite type); [run_with fl] produces the list of externally relevant events of
   ONE pass through proxyConn.handle, for the shape flags fl.  This file does not depend on
   Tables.v (so the exhaustive proofs over it are not redone when the tables change);
   G12.Exchange instantiates fl with the shapes read from the source. *)
From FwdLib Require Import Bytes.

(* ---- oracle inputs (all finite) ---- *)
Inductive rd_t := RdOk | RdEOF | RdErr.                 (* readRequest: request / io.EOF / other error *)
Inductive rt_t := RtOk | RtErr | RtConnErr.             (* roundTrip: response / error / *connectError (upstream proxy rejected the transport's CONNECT) *)
Inductive st_t := St2xx | St101 | StOther.              (* class of res.StatusCode as the code tests it: /100==2, ==101, else *)
Inductive cn_t := CnOk | CnErr | CnRejected.            (* Proxy.Connect: tunnel conn / error / upstream proxy's non-2xx response *)
Inductive w_t := WOk | WFailEarly | WFailLate.          (* the response write: ok / error before any byte reached the client / error after the head *)
Inductive after_t := AfPlain | AfTLS | AfPeekErr | AfHandshakeErr | AfH2.  (* handleMITM after the 200 *)

Record val := Build_val {
  v_rd : rd_t;
  v_closing : bool;       (* p.closing() right after the request was read *)
  v_connect : bool;       (* req.Method == CONNECT *)
  v_mreq_err : bool;      (* p.modifyRequest(req) != nil *)
  v_mitm : bool;          (* p.shouldMITM(req) *)
  v_rt : rt_t;
  v_st : st_t;            (* status class of the upstream response / of the relayed rejection *)
  v_mres_err : bool;      (* p.modifyResponse(res) != nil for the first response of the exchange *)
  v_rwc : bool;           (* res.Body.(io.ReadWriteCloser) ok, for a 101 *)
  v_cn : cn_t;
  v_w : w_t;
  v_drain_err : bool;     (* drainBuffer(...) != nil *)
  v_req_close : bool;     (* req.Close, or res.Close already set on the response *)
  v_after : after_t;
  v_closing_w : bool      (* p.closing() when the response is written (a shutdown began during the exchange) *)
}.

(* ---- events ---- *)
Inductive src :=
| SUp        (* the response obtained from the origin / the upstream proxy's own response to the client's CONNECT *)
| SErr       (* response built by Proxy.errorResponse (forwarder's classifier) *)
| SConnErr   (* response carried by *connectError (built in OnProxyConnectResponse) *)
| SConnOK.   (* newConnectResponse: 200 *)

Inductive lab :=
| LOwn         (* res.Request is the request read from the client *)
| LTransport.  (* res.Request is http.Transport's internal CONNECT request *)

Inductive ev :=
| ERead (hasreq : bool)                (* traceReadRequest(req, err); hasreq = (req != nil) *)
| EModReq                              (* request modifiers ran *)
| EDial                                (* the upstream side was contacted: p.roundTrip / p.Connect *)
| EModRes (s : src)                    (* response modifiers ran on response s *)
| EHead (s : src)                      (* the head of response s reached the client connection *)
| EBodyEnd                             (* ... and so did all of its body, flushed *)
| EWriteFail                           (* the write / flush returned an error *)
| EWrote (s : src) (l : lab) (err : bool)   (* traceWroteResponse(res, err) *)
| ETunnel                              (* bicopy ran and returned *)
| EClose                               (* handle returns errClose: the connection is closed *)
| EKeep.                               (* handle returns nil: next request is read from the same connection *)

Definition st_2xx (s : st_t) : bool := match s with St2xx => true | _ => false end.
Definition st_101 (s : st_t) : bool := match s with St101 => true | _ => false end.

(* the two shapes of the source the model knows, read from Tables.v *)
Record flags := Build_flags {
  fl_defer : bool;      (* the skip test is consulted only for writes whose caller reports the completion later (tunnel, handleMITM) *)
  fl_rebind : bool;     (* writeErrorResponse binds a *connectError response to the request that was read *)
  fl_upgrade : bool     (* writeResponse clears res.Close for a 101 (as it does for CONNECT + 2xx) *)
}.
Definition good_flags : flags := Build_flags true true true.

(* skipTraceWroteResponse(res, err) *)
Definition skip_trace (req_is_connect : bool) (st : st_t) (werr : bool) : bool :=
  if werr then false
  else if req_is_connect && st_2xx st then true
  else if st_101 st then true
  else false.

(* writeResponse(res).  [defer] = the caller is tunnel / handleMITM, which
   report the completion themselves after the tunnel.  Tables.trace_skip_only_when_deferred
   tells which shape the source has: (false) the skip test alone decides,
   (true) the skip test is consulted only for deferred writes.
   Returns the events and whether handle must return errClose. *)
Definition write_resp (fl : flags) (v : val) (defer : bool) (s : src) (l : lab) (st : st_t) : list ev * bool :=
  let req_is_connect := match l with LOwn => v_connect v | LTransport => true end in
  let werr := match v_w v with WOk => false | _ => true end in
  let bytes := match v_w v with
               | WOk => [EHead s; EBodyEnd]
               | WFailEarly => [EWriteFail]
               | WFailLate => [EHead s; EWriteFail]
               end in
  let skip := (if fl_defer fl then defer else true) && skip_trace req_is_connect st werr in
  let tr := if skip then [] else [EWrote s l werr] in
  (* res.Close: set from req.Close, cleared for CONNECT + 2xx (and, in the repaired shape, for 101).
     writeResponse returns errClose when res.Close is set even though the write succeeded. *)
  let res_close := if v_closing_w v then true   (* if p.closing() { res.Close = true }: no exception for tunnels *)
                   else v_req_close v && negb (req_is_connect && st_2xx st) && negb (fl_upgrade fl && st_101 st) in
  (bytes ++ tr, werr || res_close).

Definition finish (r : list ev * bool) : list ev :=
  fst r ++ [if snd r then EClose else EKeep].

(* writeErrorResponse(req, err): a *connectError carries its own response,
   anything else goes through the classifier. *)
Definition error_path (fl : flags) (v : val) (conn_err : bool) : list ev :=
  if conn_err then
    let l := if fl_rebind fl then LOwn else LTransport in
    EModRes SConnErr :: finish (write_resp fl v false SConnErr l (v_st v))
  else
    EModRes SErr :: finish (write_resp fl v false SErr LOwn StOther).

(* tunnel(name, res, crw) followed by `return errClose` in both callers *)
Definition tunnel (fl : flags) (v : val) (s : src) (st : st_t) : list ev :=
  let r := write_resp fl v true s LOwn st in
  if snd r then fst r ++ [EClose]
  else if v_drain_err v then fst r ++ [EWrote s LOwn true; EClose]
  else fst r ++ [ETunnel; EWrote s LOwn false; EClose].

(* handleMITM(req) *)
Definition mitm (fl : flags) (v : val) : list ev :=
  if v_mres_err v then
    (* return p.writeResponse(p.errorResponse(req, err)) *)
    EModRes SConnOK :: finish (write_resp fl v false SErr LOwn StOther)
  else
    let r := write_resp fl v true SConnOK LOwn St2xx in
    if negb (match v_w v with WOk => true | _ => false end) then EModRes SConnOK :: fst r ++ [EClose]
    else EModRes SConnOK :: fst r ++ [EWrote SConnOK LOwn false] ++
         match v_after v with
         (* AfH2: `return p.MITMConfig.H2Config().Proxy(...)` hands the connection to the h2 relay; when the h2
            session is over it returns nil (or an error that is not errClose), so handleLoop calls handle again,
            whose readRequest fails on the finished connection: modelled as "kept", the next exchange is a read error *)
         | AfPlain | AfTLS | AfH2 => [EKeep]
         | AfPeekErr | AfHandshakeErr => [EClose]
         end.

(* one pass through proxyConn.handle *)
Definition run_with (fl : flags) (v : val) : list ev :=
  match v_rd v with
  | RdEOF | RdErr => [ERead false; EClose]
  | RdOk =>
    ERead true ::
    if v_closing v then [EClose] else
    if v_connect v then
      EModReq ::
      if v_mreq_err v then error_path fl v false else
      if v_mitm v then mitm fl v else
      EDial ::
      match v_cn v with
      | CnErr => error_path fl v false
      | CnOk =>
          if v_mres_err v then EModRes SConnOK :: error_path fl v false
          else EModRes SConnOK :: tunnel fl v SConnOK St2xx
      | CnRejected =>
          if v_mres_err v then EModRes SUp :: error_path fl v false
          else if st_2xx (v_st v) then EModRes SUp :: tunnel fl v SUp St2xx   (* not produced by connectHTTP; kept total *)
          else EModRes SUp :: finish (write_resp fl v false SUp LOwn (v_st v))
      end
    else
      EModReq ::
      if v_mreq_err v then error_path fl v false else
      EDial ::
      match v_rt v with
      | RtErr => error_path fl v false
      | RtConnErr => error_path fl v true
      | RtOk =>
          if v_mres_err v then EModRes SUp :: error_path fl v false
          else if st_101 (v_st v) then
            (if v_rwc v then EModRes SUp :: tunnel fl v SUp St101
             else [EModRes SUp; EWrote SUp LOwn true; EClose])
          else EModRes SUp :: finish (write_resp fl v false SUp LOwn (v_st v))
      end
  end.

(* ---- counting ---- *)
Definition is_read_req (e : ev) : bool := match e with ERead true => true | _ => false end.
Definition is_wrote (e : ev) : bool := match e with EWrote _ _ _ => true | _ => false end.
Definition is_wrote_own (e : ev) : bool := match e with EWrote _ LOwn _ => true | _ => false end.
Definition is_wrote_transport (e : ev) : bool := match e with EWrote _ LTransport _ => true | _ => false end.
Definition is_head (e : ev) : bool := match e with EHead _ => true | _ => false end.
Definition count (f : ev -> bool) (l : list ev) : nat := length (filter f l).

Definition src_eqb (a c : src) : bool :=
  match a, c with SUp, SUp | SErr, SErr | SConnErr, SConnErr | SConnOK, SConnOK => true | _, _ => false end.

Definition wrote_srcs (l : list ev) : list src :=
  flat_map (fun e => match e with EWrote s _ _ => [s] | _ => [] end) l.
Definition head_srcs (l : list ev) : list src :=
  flat_map (fun e => match e with EHead s => [s] | _ => [] end) l.

(* does the exchange end with the connection kept? *)
Definition keeps (l : list ev) : bool := existsb (fun e => match e with EKeep => true | _ => false end) l.

(* ---- enumeration of all valuations ---- *)
Definition all_bool := [true; false].
Definition all_rd := [RdOk; RdEOF; RdErr].
Definition all_rt := [RtOk; RtErr; RtConnErr].
Definition all_st := [St2xx; St101; StOther].
Definition all_cn := [CnOk; CnErr; CnRejected].
Definition all_w := [WOk; WFailEarly; WFailLate].
Definition all_after := [AfPlain; AfTLS; AfPeekErr; AfHandshakeErr; AfH2].

Definition all_vals : list val :=
  flat_map (fun a => flat_map (fun b0 => flat_map (fun c => flat_map (fun d => flat_map (fun e =>
  flat_map (fun f => flat_map (fun g => flat_map (fun h => flat_map (fun i => flat_map (fun j =>
  flat_map (fun k => flat_map (fun l => flat_map (fun m => flat_map (fun n => map (fun o =>
    Build_val a b0 c d e f g h i j k l m n o)
  all_bool) all_after) all_bool) all_bool) all_w) all_cn) all_bool) all_bool) all_st) all_rt) all_bool) all_bool) all_bool) all_bool) all_rd.
