(* G12.Reject — how the rejection of the transport's CONNECT by an upstream proxy reaches the client
   (proxy_connect.go OnProxyConnectResponse / onProxyConnectResponse + maybeConnectErrorResponse, then Response.Write):
   the upstream's status and header, and as body what could be read of the upstream's body — read only when a positive
   Content-Length announces one, and only for a bounded time —, announced with the length that was read. *)
From Coq Require Import List Bool Arith NArith ZArith Lia.
From FwdLib Require Import Bytes.
From G12 Require Import Framing FramingProofs.
Import ListNotations.
Local Open Scope N_scope.

(* an upstream that stalls is the only way not to answer, and only an unbounded read falls for it *)
Lemma reject_always_answers : forall only_pos cl rd, exists body,
  reject_body only_pos true cl rd = Some body /\
  (body = [] \/ exists bs, rd = RdAll bs /\ body = bs /\ reject_reads only_pos cl = true).
Proof.
  intros op cl rd. unfold reject_body. destruct (reject_reads op cl) eqn:R.
  - destruct rd as [bs| |]; eexists; split; try reflexivity; auto. right. exists bs. auto.
  - eexists; split; [reflexivity|auto].
Qed.

Lemma reject_unbounded_read_never_answers : reject_body true false 100 RdStall = None.
Proof. reflexivity. Qed.
Lemma reject_unframed_body_read_never_answers : reject_body false false (-1) RdStall = None.
Proof. reflexivity. Qed.

(* the bytes: the upstream's status line and header lines (Response.Write leaves Content-Length and Transfer-Encoding
   of the header map out and writes its own Content-Length first), then the body that was read *)
Definition reject_wire (sl : str) (others : list str) (body : str) : str :=
  wire sl (cl_line (dec (N.of_nat (length body))) :: others) body.

Lemma reject_wire_wellformed : forall sl others mi st body eof,
  N.of_nat (length body) < 10 ^ 18 ->
  wf_head sl (cl_line (dec (N.of_nat (length body))) :: others) mi st ->
  (st / 100 =? 1) || (st =? 204) || (st =? 304) = false ->
  values_of (b "transfer-encoding") (map kv_of others) = [] ->
  values_of (b "content-length") (map kv_of others) = [] ->
  let r := client_parse (reject_wire sl others body) eof false in
  pv r = Complete /\ pstatus r = st /\ pbody r = body /\ prest r = [] /\ pframing r = 1.
Proof.
  intros sl others mi st body eof L WF NB TE CL.
  set (n := N.of_nat (length body)) in *.
  assert (TE' : values_of (b "transfer-encoding") (map kv_of (cl_line (dec n) :: others)) = []).
  { cbn [map]. unfold kv_of at 1. rewrite ph_cl. unfold values_of in *. cbn [filter fst].
    change (eq_fold (b "Content-Length") (b "transfer-encoding")) with false. exact TE. }
  assert (CL' : values_of (b "content-length") (map kv_of (cl_line (dec n) :: others)) = [dec n]).
  { cbn [map]. unfold kv_of at 1. rewrite ph_cl. unfold values_of in *. cbn [filter fst].
    change (eq_fold (b "Content-Length") (b "content-length")) with true. cbn [map snd]. rewrite CL.
    rewrite (trim_ows_digits (dec n)) by apply dec_fuel_digits. reflexivity. }
  exact (complete_length sl _ mi st body (dec n) [] n WF NB TE' CL' (parse_dec_dec n L) eq_refl (Nat2N.id _) eof).
Qed.

Lemma digits_no_byte c : c < 48 -> forall s, forallb is_digit s = true -> no_byte c s = true.
Proof.
  intros H s D. unfold no_byte. rewrite forallb_forall in *. intros x Hx. specialize (D x Hx).
  unfold is_digit in D. apply andb_true_iff in D as [D1 _]. apply N.leb_le in D1.
  apply negb_true_iff. apply N.eqb_neq. lia.
Qed.

Lemma cl_line_ok : forall n, hdr_ok (cl_line (dec n)) = true.
Proof.
  intro n. eapply (hdr_ok_prefixed (b "Content-Length: ") (dec n)); [reflexivity | | | apply ph_cl];
    apply digits_no_byte; try (unfold LF, CR; lia); apply dec_fuel_digits.
Qed.

(* together: whatever the upstream does with the body of its rejection, the client gets a complete, well-formed
   response with the upstream's status whose body is the whole announced body or empty, nothing after it *)
Theorem rejected_connect_relay : forall cl rd sl others mi st eof,
  (forall bs, rd = RdAll bs -> N.of_nat (length bs) < 10 ^ 18) ->
  line_ok sl = true -> parse_status_line sl = Some (1, mi, st) -> 100 <= st -> forallb hdr_ok others = true ->
  (st / 100 =? 1) || (st =? 204) || (st =? 304) = false ->
  values_of (b "transfer-encoding") (map kv_of others) = [] ->
  values_of (b "content-length") (map kv_of others) = [] ->
  exists body, reject_body true true cl rd = Some body /\
    (body = [] \/ (rd = RdAll body /\ (0 < cl)%Z)) /\
    let r := client_parse (reject_wire sl others body) eof false in
    pv r = Complete /\ pstatus r = st /\ pbody r = body /\ prest r = [] /\ pframing r = 1.
Proof.
  intros cl rd sl others mi st eof L W1 W2 W3 W4 NB TE CL.
  assert (WF : forall body : str, wf_head sl (cl_line (dec (N.of_nat (length body))) :: others) mi st).
  { intro body. repeat split; auto. cbn [forallb]. rewrite cl_line_ok, W4. reflexivity. }
  destruct (reject_always_answers true cl rd) as (body & E & D).
  exists body. split; [exact E|]. split.
  - destruct D as [->|(bs & -> & -> & R)]; [left; reflexivity|]. right. split; [reflexivity|].
    unfold reject_reads in R. apply Z.ltb_lt in R. exact R.
  - apply (reject_wire_wellformed sl others mi st body eof); auto.
    destruct D as [->|(bs & Hrd & -> & _)]; [vm_compute; reflexivity|exact (L bs Hrd)].
Qed.
