(* G12.Errors — model of forwarder's error -> status classifier
   (http_proxy_errors.go: HTTPProxy.errorResponse and its ordered handler list)
   and of the error response it builds.  The handler ORDER and every status
   constant come from Tables.v (regenerated from the source on every run). *)
From FwdLib Require Import Bytes.
From G12 Require Import Tables.

(* What the handlers can observe of an error: the errors.As / errors.Is facts. *)
Record feat := Build_feat {
  f_win : bool;              (* GOOS=windows and *os.SyscallError wsarecv/wsasend with WSAENETUNREACH *)
  f_operr : option bool;     (* errors.As *net.OpError; Some true = Timeout() *)
  f_record : bool;           (* tls.RecordHeaderError *)
  f_cert : bool;             (* *tls.CertificateVerificationError *)
  f_ech : bool;              (* *tls.ECHRejectionError *)
  f_alert : bool;            (* tls.AlertError *)
  f_status : option N;       (* martian.ErrorStatus: Some Status *)
  f_auth : bool;             (* errors.Is ErrProxyAuthentication *)
  f_deny : bool;             (* denyError *)
  f_prohibited : bool;       (* prohibitedError *)
  f_canceled : bool;         (* errors.Is context.Canceled *)
  f_https : bool;            (* req.URL.Scheme == "https" *)
  f_text : N;                (* smallest i with err.Error() == http.StatusText(i), 0 if there is none *)
  f_timeout : bool           (* errors.As interface{ Timeout() bool } finds an error whose Timeout() is true *)
}.

(* one handler: code 0 = "not mine" *)
Definition h_windows (f : feat) : N := if goos_windows && f_win f then code_windows else 0.
Definition h_net (f : feat) : N :=
  match f_operr f with Some true => code_net_timeout | Some false => code_net_other | None => 0 end.
Definition h_flag (c : N) (b0 : bool) : N := if b0 then c else 0.
Definition h_status (f : feat) : N := match f_status f with Some n => n | None => 0 end.
(* for i := lo; i < hi; i++ { if err.Error() == http.StatusText(i) { return i } } *)
Definition h_text (f : feat) : N :=
  if f_https f && (status_text_lo <=? f_text f) && (f_text f <? status_text_hi) then f_text f else 0.

Definition handler_of (name : str) (f : feat) : N :=
  if str_eqb name (b "handleWindowsNetError") then h_windows f
  else if str_eqb name (b "handleNetError") then h_net f
  else if str_eqb name (b "handleTLSRecordHeader") then h_flag code_tls_record (f_record f)
  else if str_eqb name (b "handleTLSCertificateError") then h_flag code_tls_cert (f_cert f)
  else if str_eqb name (b "handleTLSECHRejectionError") then h_flag code_tls_ech (f_ech f)
  else if str_eqb name (b "handleTLSAlertError") then h_flag code_tls_alert (f_alert f)
  else if str_eqb name (b "handleMartianErrorStatus") then h_status f
  else if str_eqb name (b "handleAuthenticationError") then h_flag code_auth (f_auth f)
  else if str_eqb name (b "handleDenyError") then h_flag code_deny (f_deny f)
  else if str_eqb name (b "handleProhibitedError") then h_flag code_prohibited (f_prohibited f)
  else if str_eqb name (b "handleContextCancelationError") then h_flag code_canceled (f_canceled f)
  else if str_eqb name (b "handleStatusText") then h_text f
  else if str_eqb name (b "handleTimeoutError") then h_flag code_timeout (f_timeout f)
  else 0.

(* for _, h := range handlers { code = h(req, err); if code != 0 { break } } *)
Fixpoint first_code (hs : list str) (f : feat) : N :=
  match hs with
  | [] => 0
  | h :: r => let c := handler_of h f in if c =? 0 then first_code r f else c
  end.

(* if code == 0 { code = http.StatusInternalServerError } *)
Definition classify_with (hs : list str) (f : feat) : N :=
  let c := first_code hs f in if c =? 0 then code_default else c.

Definition classify (f : feat) : N := classify_with handler_order f.

Definition in_error_range (c : N) : bool := (400 <=? c) && (c <=? 599).

(* features are realisable: an ErrorStatus in the error chain was built by one
   of the composite literals in the sources *)
Definition feat_ok (f : feat) : Prop :=
  match f_status f with Some n => In n error_status_literals | None => True end.
Definition feat_okb (f : feat) : bool :=
  match f_status f with Some n => existsb (N.eqb n) error_status_literals | None => true end.

Definition no_feat : feat :=
  Build_feat false None false false false false None false false false false false 0 false.
