(* C13 — request and connection accounting is conserved on every path.
   Nothing but statements, `exact`, Print Assumptions (+ examples). *)
From Coq Require Import List Bool Arith ZArith.
From FwdLib Require Import Bytes.
From G12 Require Import Tables Errors Exchange Conntrack Dial Check ExchangeProofs ConntrackProofs PromProofs Lift Obligations.
Import ListNotations.

(* Every request read while the proxy is not shutting down is reported complete
   exactly once, bound to the request that was read, and the response reported
   is the one whose head was sent (same response object, hence same status):
   for EVERY valuation of the branch conditions of proxyConn.handle and its
   callees (finite path tree, exhaustive evaluation inside the kernel). *)
Theorem T13_exactly_once : forall v, active v = true ->
  count is_read_req (run v) = 1%nat /\
  count is_wrote_own (run v) = 1%nat /\
  count is_wrote_transport (run v) = 0%nat /\
  (length (head_srcs (run v)) <= 1)%nat /\
  exists s, wrote_srcs (run v) = [s] /\ forall s', In s' (head_srcs (run v)) -> s' = s.
Proof. exact (exactly_once ob_flags). Qed.
Print Assumptions T13_exactly_once.

(* No completion report without a request (read error, or shutdown right after reading). *)
Theorem T13_nothing_without_request : forall v, idle v = true -> count is_wrote (run v) = 0%nat.
Proof. exact (nothing_without_request ob_flags). Qed.
Print Assumptions T13_nothing_without_request.

(* The three shapes of the unrepaired source each break exactly-once: kept as witnesses. *)
Theorem T13_exactly_once_refuted_for_old_shapes :
  exch_okb (Build_flags false true true) v_connect_rejected_101 = false /\
  exch_okb (Build_flags true false true) v_https_via_rejecting_upstream = false /\
  exch_okb (Build_flags true true false) v_upgrade_from_closing_request = false.
Proof. exact (conj exch_not_ok_without_defer (conj exch_not_ok_without_rebind exch_not_ok_without_upgrade_keep)). Qed.
Print Assumptions T13_exactly_once_refuted_for_old_shapes.

(* Outside the statement (a shutdown began during the exchange), kept visible: a CONNECT whose dial
   completes after Shutdown was called is answered "200 ... Connection: close", the tunnel is not
   started and the completion is never reported. *)
Theorem T13_exactly_once_refuted_during_shutdown :
  count is_wrote (run_with good_flags v_connect_during_shutdown) = 0%nat.
Proof. exact shutdown_leaks_tunnel_report. Qed.
Print Assumptions T13_exactly_once_refuted_during_shutdown.

(* In-flight gauge (the Prometheus model that is also run on the implementation's
   traces): after ANY sequence of exchanges, for EVERY method label, it is zero. *)
Theorem T13_gauge_zero : forall xs l, exs_ok xs ->
  gauge_get l (prom_inflight (flat_map trace_of xs) []) = 0%Z.
Proof. exact (fun xs l => gauge_zero xs l ob_flags ob_trace_read_guards_nil_req). Qed.
Print Assumptions T13_gauge_zero.

(* Request counter: increases by exactly one per request read. *)
Theorem T13_total_plus_one : forall xs, exs_ok xs ->
  zsum (prom_total (flat_map trace_of xs) []) = Z.of_nat (seq_requests (map x_val xs)).
Proof. exact (fun xs => total_counts_requests xs ob_flags). Qed.
Print Assumptions T13_total_plus_one.

(* ... and for ANY number of connections at once: each connection is served by the TCP server or by the http.Handler
   variant (flag), runs any list of exchanges, a kept connection ends with its failed read; the registry sees the events
   of all of them in ANY order (every interleaving is a permutation).  Gauge zero for every label, counter = requests. *)
Theorem T13_gauge_zero_any_interleaving : forall (conns : list (bool * list ex)) tr l,
  (forall c, In c conns -> exs_ok (snd c)) ->
  Permutation.Permutation tr (flat_map conn_events conns) ->
  gauge_get l (prom_inflight tr []) = 0%Z /\
  zsum (prom_total tr []) = Z.of_nat (seq_requests (map x_val (flat_map snd conns))).
Proof.
  exact (fun conns tr l H P => conj (gauge_zero_concurrent conns tr l ob_flags ob_trace_read_guards_nil_req H P)
                                    (total_concurrent conns tr ob_flags H P)).
Qed.
Print Assumptions T13_gauge_zero_any_interleaving.

(* closeListener.Close under n concurrent callers, ANY interleaving, whether or not a layer below the
   wrapper has already closed the connection (pre): when all have returned the callback ran once
   (n >= 1) and the underlying Close n times *)
Theorem T13_close_once : forall n pre ls s,
  crun close_uses_once close_returns_early_on_errclosed (cinit n pre) ls = Some s -> cfinal s ->
  fired s = (if Nat.eqb n 0 then 0 else 1)%nat /\ under s = n /\ nd s = n.
Proof. exact (close_once_tab ob_close_uses_once ob_close_not_early). Qed.
Print Assumptions T13_close_once.

(* ... at no point of any schedule has the callback run twice ... *)
Theorem T13_close_never_twice : forall n pre ls s,
  crun close_uses_once close_returns_early_on_errclosed (cinit n pre) ls = Some s -> (fired s <= 1)%nat.
Proof. exact (close_never_twice_tab ob_close_uses_once ob_close_not_early). Qed.
Print Assumptions T13_close_never_twice.

(* ... and no schedule can get stuck before every caller has returned. *)
Theorem T13_close_progress : forall n pre ls s,
  crun close_uses_once close_returns_early_on_errclosed (cinit n pre) ls = Some s -> ~ cfinal s ->
  exists l s', cstep close_uses_once close_returns_early_on_errclosed s l = Some s'.
Proof. exact (close_progress_tab ob_close_uses_once ob_close_not_early). Qed.
Print Assumptions T13_close_progress.

(* Without sync.Once two callers run the callback twice (why the obligation is needed). *)
Theorem T13_close_once_refuted_without_once : exists ls s, crun false false (cinit 2 false) ls = Some s /\ cfinal s /\ fired s = 2%nat.
Proof. exact direct_fires_twice. Qed.
Print Assumptions T13_close_once_refuted_without_once.

(* A Close that returns before the Once when the underlying Close reports "already closed" never runs
   the callback for a connection that a lower layer closed first (e.g. the PROXY-protocol reader after
   its header timeout): why `close_returns_early_on_errclosed = false` is an obligation. *)
Theorem T13_close_once_refuted_with_early_return :
  exists ls s, crun true true (cinit 1 true) ls = Some s /\ cfinal s /\ fired s = 0%nat.
Proof. exact early_return_never_fires. Qed.
Print Assumptions T13_close_once_refuted_with_early_return.

(* Active-connection gauge: every connection closed by >= 1 concurrent callers
   (any schedule each) leaves the gauge at zero. *)
Theorem T13_active_zero : forall (conns : list (nat * bool * list clabel)) fires,
  Forall2 (fun c k => (fst (fst c) >= 1)%nat /\ conn_run (fst (fst c)) (snd (fst c)) (snd c) = Some k) conns fires ->
  active_after fires = 0%Z.
Proof. exact active_zero_conns. Qed.
Print Assumptions T13_active_zero.

(* Byte counters of the tracking wrapper: after ANY sequence of Read / Write / ReadFrom calls the counters are exactly
   the sums of the n those calls returned (rx over Read, tx over Write and ReadFrom), in whatever order concurrent
   calls add to them; the function evaluated on the implementation's calls is this model. *)
Theorem T13_byte_counters_are_sums : forall ops, brun ops = (rx_sum ops, tx_sum ops).
Proof. exact byte_counters_are_sums. Qed.
Print Assumptions T13_byte_counters_are_sums.
Theorem T13_byte_counters_order_irrelevant : forall a c, Permutation.Permutation a c -> brun a = brun c.
Proof. exact byte_counters_order_irrelevant. Qed.
Print Assumptions T13_byte_counters_order_irrelevant.
Theorem T13_byte_oracle_is_model : forall ops, byte_model ops = brun (map bop_of ops).
Proof. exact byte_model_is_brun. Qed.
Print Assumptions T13_byte_oracle_is_model.

(* CONNECT through an upstream proxy (dialvia DialContextR, shape flag from the source of this run): wherever the
   function fails after the connection to the upstream proxy has been dialled (building the CONNECT header, writing,
   flushing, context end, reading the reply) the connection is closed exactly once and not handed over; on success it
   is handed over unclosed; so with a caller that closes what it was given the dialer's active gauge is back at 0. *)
Theorem T13_dialled_connection_owned_or_closed : forall f,
  (dialvia dialvia_closes_before_every_error_return f = (true, 0%nat) \/
   dialvia dialvia_closes_before_every_error_return f = (false, 1%nat)) /\
  (fst (dialvia dialvia_closes_before_every_error_return f) = true <-> f = FNone) /\
  dialvia_active dialvia_closes_before_every_error_return f true = 0%Z.
Proof.
  intro f. rewrite ob_dialvia_closes_before_every_error_return.
  exact (conj (dialvia_owned_or_closed_once f) (conj (dialvia_handed_over_only_on_success f) (dialvia_gauge_returns_to_zero f))).
Qed.
Print Assumptions T13_dialled_connection_owned_or_closed.
Theorem T13_dialled_connection_refuted_with_deferred_close : dialvia false FHeader = (false, 0%nat).
Proof. exact dialvia_deferred_close_leaks. Qed.
Print Assumptions T13_dialled_connection_refuted_with_deferred_close.

(* Non-vacuity: a concrete exchange (CONNECT tunnel) and a concrete 3-way concurrent close. *)
Example T13_example :
  let v := Build_val RdOk false true false false RtOk St2xx false false CnOk WOk false false AfPlain false in
  active v = true /\
  run v = [ERead true; EModReq; EDial; EModRes SConnOK; EHead SConnOK; EBodyEnd; ETunnel; EWrote SConnOK LOwn false; EClose] /\
  crun close_uses_once close_returns_early_on_errclosed (cinit 3 true) (csched_seq 3) = Some (mkcst 0 0 0 0 3 true 1 3 true).
Proof. exact (conj eq_refl (conj eq_refl eq_refl)). Qed.

(* Non-vacuity of T13_gauge_zero_any_interleaving: a GET on a TCP-server connection and a GET on an http.Handler
   connection whose events reach the registry interleaved (read, read, wrote, wrote, final failed read). *)
Example T13_example_interleaving :
  let nf := mkfeat false 0 false false false false None false false false false false 0 false in
  let x := mkex (mkval 0 false false false false 0 0 false false 0 0 false false 0 false) (b "GET") 200 nf true 200 in
  let conns := [(false, [x]); (true, [x])] in
  let tr := match conn_events (false, [x]), conn_events (true, [x]) with
            | [r1; w1; e1], [r2; w2] => [r1; r2; w2; w1; e1]
            | _, _ => []
            end in
  (forall c, In c conns -> exs_ok (snd c)) /\
  length tr = 5%nat /\
  Permutation.Permutation tr (flat_map conn_events conns) /\
  gauge_get (b "GET") (prom_inflight tr []) = 0%Z /\ zsum (prom_total tr []) = 2%Z.
Proof.
  cbv zeta. split.
  - intros c [<-|[<-|[]]] y [<-|[]]; left; vm_compute; reflexivity.
  - split; [vm_compute; reflexivity|]. split.
    + vm_compute.
      match goal with |- Permutation.Permutation [?r1; ?r2; ?w2; ?w1; ?e1] _ =>
        apply Permutation.perm_skip;
        apply (Permutation.Permutation_trans (l' := [w1; r2; w2; e1]));
        [ apply (Permutation.Permutation_trans (l' := [r2; w1; w2; e1]));
          [apply Permutation.perm_skip, Permutation.perm_swap | apply Permutation.perm_swap]
        | apply Permutation.perm_skip; apply (Permutation.Permutation_trans (l' := [e1; r2; w2]));
          [ apply (Permutation.Permutation_trans (l' := [r2; e1; w2]));
            [apply Permutation.perm_skip, Permutation.perm_swap | apply Permutation.perm_swap]
          | apply Permutation.perm_skip; apply Permutation.Permutation_refl ] ]
      end.
    + split; vm_compute; reflexivity.
Qed.
