(* G12.Indexing — the places where the transcribed Go functions could panic by themselves:
   index expressions, slice expressions, one-value type assertions, label-arity of the Prometheus calls.
   The translator lists EVERY such site of the transcribed functions (Tables.index_sites,
   Tables.type_assert_sites); Obligations.v requires the lists to be exactly the ones recorded when the
   model was transcribed (Expected.v), and every recorded site has its obligation here:

   site                                                        obligation
   proxy_conn.go  handleMITM           b[0]                     ix_mitm_first_byte (guarded by len(b) > 0)
   dialvia/http.go byteReader.Read     p[:1]                    ix_byte_reader_slice (bufio hands over >= 1 free byte; size from Tables)
   http_proxy_errors.go tlsRecordHeaderLooksLikeHTTP hdr[:] x6  ix_full_slice (full slice of an array) + ix_record_prefixes_fit
   proxy.go       handleLoop           p.conns[conn] = ...      map write; the map is made in Proxy.init, which Serve runs first (ix_map_ops_total)
   proxy.go       upgradeType          h["Connection"]          map read (ix_map_ops_total)
   conntrack.go   conn.ReadFrom        c.Conn.(io.ReaderFrom)   one-value assertion; connfu.Combine exposes ReadFrom only when the wrapped
                                                                conn has it (library contract, modelled; exercised by the byte-counter run)
   all other type assertions are in the two-value form (ta_all_others_two_valued)
   middleware/prometheus.go            WithLabelValues(labels...) ix_label_arity (as many values as label names, both with and without a custom label)
   Go's runtime, net/http, crypto/tls, bufio are not covered (tested by the hostile-input tier). *)
From Coq Require Import List Bool Arith NArith Lia.
From FwdLib Require Import Bytes.
From G12 Require Import Tables Expected.
Import ListNotations.

(* an index expression evaluates to None where Go would panic *)
Definition idx {A} (l : list A) (i : nat) : option A := nth_error l i.

(* handleMITM: `len(b) > 0 && b[0] == 22` (short-circuit &&) *)
Definition first_is_handshake (b0 : str) : option bool :=
  if (0 <? length b0)%nat
  then match idx b0 0 with Some x => Some (N.eqb x 22) | None => None end
  else Some false.
Lemma ix_mitm_first_byte : forall b0, first_is_handshake b0 <> None.
Proof. intros [|x r]; simpl; discriminate. Qed.

(* x[i:j] on a slice of capacity c needs i <= j <= c *)
Definition slice_ok (cap i j : nat) : bool := (i <=? j)%nat && (j <=? cap)%nat.
(* byteReader.Read(p): p[:1]; bufio.Reader.fill reads into b.buf[b.w:] with b.w < len(b.buf) = the configured size *)
Lemma ix_byte_reader_slice : (1 <=? byte_reader_buffer_size)%N = true ->
  forall w, (w < N.to_nat byte_reader_buffer_size)%nat -> slice_ok (N.to_nat byte_reader_buffer_size - w) 0 1 = true.
Proof. intros _ w H. unfold slice_ok. apply andb_true_iff. split; apply Nat.leb_le; lia. Qed.

(* hdr[:] : the full slice of an array / slice never panics *)
Lemma ix_full_slice : forall n, slice_ok n 0 n = true.
Proof. intro n. unfold slice_ok. rewrite Nat.leb_refl. reflexivity. Qed.
(* the literals compared with the 5-byte record header fit into it (a longer one could never match) *)
Definition record_prefixes_fit : bool := forallb (fun p => (length p <=? 5)%nat) record_header_prefixes.

(* Go maps: reading a missing key yields the zero value, writing needs a non-nil map *)
Definition map_read {A} (m : list (str * A)) (k : str) (zero : A) : A :=
  match find (fun kv => str_eqb (fst kv) k) m with Some kv => snd kv | None => zero end.
Lemma ix_map_ops_total : forall A (m : list (str * A)) k z, exists v, map_read m k z = v.
Proof. intros. eexists. reflexivity. Qed.

(* Prometheus: WithLabelValues panics unless it gets as many values as the vector has label names.
   NewPrometheus: labels = ["method"] (+ the custom label); labelsWithStatus = "code" :: labels.
   Prometheus.labels(req): [req.Method] (+ labeler(req)) *)
Definition label_names (custom : bool) : list str := b "method" :: (if custom then [b "custom"] else []).
Definition label_values (custom : bool) (method custom_value : str) : list str :=
  method :: (if custom then [custom_value] else []).
Lemma ix_label_arity : forall custom m c,
  length (label_values custom m c) = length (label_names custom) /\
  length (b "code" :: label_values custom m c) = length (b "code" :: label_names custom).
Proof. intros [|] m c; split; reflexivity. Qed.

(* every type assertion except the recorded one is in the two-value form *)
Definition ta_unchecked (s : str) : bool := has_prefix s (b "unchecked ").
Fixpoint strs_eqb (x y : list str) : bool :=
  match x, y with
  | [], [] => true
  | a :: x', c :: y' => str_eqb a c && strs_eqb x' y'
  | _, _ => false
  end.
Definition ta_all_others_two_valued : bool :=
  strs_eqb (filter ta_unchecked type_assert_sites)
           [b "unchecked conntrack/conntrack.go:conn.ReadFrom: c.Conn.(io.ReaderFrom)"].
