(* C12 — upstream faults and hostile input yield a clean error or close.
   Nothing but statements, `exact`, Print Assumptions (+ examples). *)
From Coq Require Import List Bool Arith NArith ZArith.
From FwdLib Require Import Bytes.
From G12 Require Import Tables Expected Errors Exchange Framing Check ErrorsProofs ExchangeProofs FramingProofs Reject Indexing Dial Obligations.
Import ListNotations.
Local Open Scope N_scope.

(* The classifier always answers with a status in 400..599 — whatever the order
   or contents of the handler list — for every error whose ErrorStatus (if any)
   was built by one of the composite literals in the sources. *)
Theorem T12_classify_total : forall f, feat_ok f -> 400 <= classify f <= 599.
Proof. exact (classify_total ob_codes_ok). Qed.
Print Assumptions T12_classify_total.

(* The mapping of fault classes to statuses, for the handler order of the source. *)
Theorem T12_map_connection_failure : forall f, f_operr f = Some false -> classify f = 502.
Proof. exact (map_connection_failure ob_handler_order ob_goos_not_windows ob_code_net_other). Qed.
Print Assumptions T12_map_connection_failure.

Theorem T12_map_connect_timeout : forall f,
  f_operr f = Some true \/ (f_operr f = None /\ f_timeout f = true) -> classify f = 504.
Proof. exact (map_connect_timeout ob_handler_order ob_goos_not_windows ob_code_net_timeout ob_code_timeout). Qed.
Print Assumptions T12_map_connect_timeout.

Theorem T12_map_tls_failure : forall f, f_operr f = None -> f_timeout f = false ->
  f_record f || f_cert f || f_ech f || f_alert f = true -> classify f = 502.
Proof. exact (map_tls_failure ob_handler_order ob_goos_not_windows ob_code_tls_record ob_code_tls_cert ob_code_tls_ech ob_code_tls_alert). Qed.
Print Assumptions T12_map_tls_failure.

Theorem T12_map_error_status : forall f n, f_operr f = None -> f_timeout f = false ->
  f_record f || f_cert f || f_ech f || f_alert f = false -> f_status f = Some n -> n <> 0 -> classify f = n.
Proof. exact (map_error_status ob_handler_order ob_goos_not_windows). Qed.
Print Assumptions T12_map_error_status.

Theorem T12_map_otherwise_500 : forall f, f_operr f = None -> f_timeout f = false ->
  f_record f || f_cert f || f_ech f || f_alert f = false -> f_status f = None ->
  f_auth f || f_deny f || f_prohibited f = false -> h_text f = 0 -> classify f = 500.
Proof. exact (map_otherwise ob_handler_order ob_goos_not_windows ob_code_default ob_code_canceled). Qed.
Print Assumptions T12_map_otherwise_500.

(* The response forwarder builds for a classified error (status line of the client's protocol
   version, Content-Length of the body, Content-Type, X-Forwarder-Error, optionally Connection:
   close and Proxy-Authenticate) is a complete well-formed response for a client: it parses with
   the classifier's status, exactly the body, nothing after it, and carries X-Forwarder-Error —
   for every error text (CR / LF in it are neutralised in the header), every name and message. *)
Theorem T12_error_response_wellformed : forall minor d2 d1 d0 reason name msg errtext close,
  minor <= 9 -> 4 <= d2 <= 5 -> d1 <= 9 -> d0 <= 9 ->
  no_byte LF reason = true -> no_byte CR reason = true ->
  N.of_nat (length (error_body name msg errtext)) < 10 ^ 18 ->
  forall eof, let r := client_parse (error_wire minor d2 d1 d0 reason name msg errtext close) eof false in
  pv r = Complete /\ pstatus r = code_of d2 d1 d0 /\ pbody r = error_body name msg errtext /\ prest r = [] /\
  pframing r = 1 /\ existsb (fun kv => eq_fold (fst kv) (b "X-Forwarder-Error")) (phdr r) = true.
Proof. exact error_response_wellformed. Qed.
Print Assumptions T12_error_response_wellformed.

(* A rejected CONNECT is answered with the upstream proxy's own status: on both
   paths (dialvia for a client CONNECT, the transport's *connectError for an
   https request) the response written is the upstream's (source SUp / SConnErr),
   never one built by the classifier. *)
Theorem T12_rejected_connect_relays_upstream_status : forall fl v,
  v_rd v = RdOk -> v_closing v = false -> v_mreq_err v = false -> v_mres_err v = false -> st_2xx (v_st v) = false ->
  (v_connect v = true -> v_mitm v = false -> v_cn v = CnRejected -> head_srcs (run_with fl v) = match v_w v with WFailEarly => [] | _ => [SUp] end) /\
  (v_connect v = false -> v_rt v = RtConnErr -> head_srcs (run_with fl v) = match v_w v with WFailEarly => [] | _ => [SConnErr] end).
Proof. exact rejected_connect_sources. Qed.
Print Assumptions T12_rejected_connect_relays_upstream_status.

(* Every path, whatever the shape flags: at most one response head per exchange
   (an error response is never written after another head), after a failed
   write nothing more is written and the connection is closed. *)
Theorem T12_fail_before_head_xor_close_after : forall fl v,
  starts_with_read (run_with fl v) = true /\ ends_decided (run_with fl v) = true /\
  (length (head_srcs (run_with fl v)) <= 1)%nat /\
  no_head_after_fail false (run_with fl v) = true /\
  (has_fail (run_with fl v) = true -> ends_closed (run_with fl v) = true) /\
  (count is_wrote (run_with fl v) <= 1)%nat.
Proof. exact path_shape. Qed.
Print Assumptions T12_fail_before_head_xor_close_after.

(* Truncation is detectable when the body is framed by Content-Length: EVERY
   strict prefix of the response, followed by the end of the stream, is not a
   complete message for the client. *)
Theorem T12_truncation_detectable_length : forall sl hls mi st body v vs n,
  wf_head sl hls mi st -> (st / 100 =? 1) || (st =? 204) || (st =? 304) = false ->
  values_of (b "transfer-encoding") (map kv_of hls) = [] ->
  values_of (b "content-length") (map kv_of hls) = v :: vs -> parse_dec v = Some n -> all_same v vs = true ->
  N.to_nat n = length body ->
  forall p eof, sprefix p (wire sl hls body) -> is_complete (client_parse p eof false) = false.
Proof. exact truncation_detectable_length. Qed.
Print Assumptions T12_truncation_detectable_length.

(* ... and when it is chunked (any chunk sizes, any spelling of the size lines). *)
Theorem T12_truncation_detectable_chunked : forall sl hls mi st cs te,
  wf_head sl hls mi st -> (st / 100 =? 1) || (st =? 204) || (st =? 304) = false ->
  values_of (b "transfer-encoding") (map kv_of hls) = te -> te <> [] ->
  eq_fold (trim_ows (last_str [] (split_byte 44 (last_str [] te)))) (b "chunked") = true ->
  forallb chunk_ok cs = true ->
  forall p eof, sprefix p (wire sl hls (chunks_bytes cs)) -> is_complete (client_parse p eof false) = false.
Proof. exact truncation_detectable_chunked. Qed.
Print Assumptions T12_truncation_detectable_chunked.

(* REFUTED for a body delimited by connection close: whatever arrived before an
   orderly close parses as a complete message (F19: the proxy ends the client
   connection with an orderly close when the origin's connection was reset). *)
Theorem T12_truncation_detectable_refuted_close_delimited : forall sl hls mi st,
  wf_head sl hls mi st -> (st / 100 =? 1) || (st =? 204) || (st =? 304) = false ->
  values_of (b "transfer-encoding") (map kv_of hls) = [] -> values_of (b "content-length") (map kv_of hls) = [] ->
  forall m, pv (client_parse (wire sl hls m) true false) = Complete /\ pbody (client_parse (wire sl hls m) true false) = m /\
            pframing (client_parse (wire sl hls m) true false) = 3.
Proof. exact close_delimited_any_prefix_complete. Qed.
Print Assumptions T12_truncation_detectable_refuted_close_delimited.

(* What remains true for close-delimited bodies: the truncation IS detectable if
   the stream does not end in an orderly way (reset, or still open). *)
Theorem T12_truncation_detectable_partial_close_needs_abort : forall sl hls mi st,
  wf_head sl hls mi st -> (st / 100 =? 1) || (st =? 204) || (st =? 304) = false ->
  values_of (b "transfer-encoding") (map kv_of hls) = [] -> values_of (b "content-length") (map kv_of hls) = [] ->
  forall m, is_complete (client_parse (wire sl hls m) false false) = false.
Proof. exact close_delimited_needs_eof. Qed.
Print Assumptions T12_truncation_detectable_partial_close_needs_abort.

(* Untruncated responses parse as complete, with exactly their body and nothing left over. *)
Theorem T12_complete_roundtrip_length : forall sl hls mi st body v vs n,
  wf_head sl hls mi st -> (st / 100 =? 1) || (st =? 204) || (st =? 304) = false ->
  values_of (b "transfer-encoding") (map kv_of hls) = [] ->
  values_of (b "content-length") (map kv_of hls) = v :: vs -> parse_dec v = Some n -> all_same v vs = true ->
  N.to_nat n = length body ->
  forall eof, let r := client_parse (wire sl hls body) eof false in
  pv r = Complete /\ pstatus r = st /\ pbody r = body /\ prest r = [] /\ pframing r = 1.
Proof. exact complete_length. Qed.
Print Assumptions T12_complete_roundtrip_length.

(* ... and not mixed with what follows: a Content-Length framed response (the proxy's error response is one) followed by
   ANY bytes — a pipelined second response, garbage — is parsed as exactly that response, and exactly those bytes are left
   for the next message. *)
Theorem T12_not_mixed_length : forall sl hls mi st body v vs n,
  wf_head sl hls mi st -> (st / 100 =? 1) || (st =? 204) || (st =? 304) = false ->
  values_of (b "transfer-encoding") (map kv_of hls) = [] ->
  values_of (b "content-length") (map kv_of hls) = v :: vs -> parse_dec v = Some n -> all_same v vs = true ->
  N.to_nat n = length body ->
  forall tail eof, let r := client_parse (wire sl hls body ++ tail) eof false in
  pv r = Complete /\ pstatus r = st /\ pbody r = body /\ prest r = tail /\ pframing r = 1.
Proof. exact not_mixed_length. Qed.
Print Assumptions T12_not_mixed_length.

Theorem T12_complete_roundtrip_chunked : forall sl hls mi st cs te,
  wf_head sl hls mi st -> (st / 100 =? 1) || (st =? 204) || (st =? 304) = false ->
  values_of (b "transfer-encoding") (map kv_of hls) = te -> te <> [] ->
  eq_fold (trim_ows (last_str [] (split_byte 44 (last_str [] te)))) (b "chunked") = true ->
  forallb chunk_ok cs = true ->
  forall eof, let r := client_parse (wire sl hls (chunks_bytes cs)) eof false in
  pv r = Complete /\ pstatus r = st /\ pbody r = concat (map snd cs) /\ prest r = [] /\ pframing r = 2.
Proof. exact complete_chunked. Qed.
Print Assumptions T12_complete_roundtrip_chunked.

(* The connection is dropped after max_consecutive_errors failed exchanges. *)
Theorem T12_five_errors_then_close : forall rs, (forall x, In x rs -> x = HErr) ->
  (loop max_consecutive_errors 0 rs <= 5)%nat.
Proof. exact (five_errors ob_max_consecutive_errors). Qed.
Print Assumptions T12_five_errors_then_close.

(* Crash-freedom, the part proof can carry: the sites where the transcribed functions index, slice or assert a type
   are exactly the recorded ones (obligations ob_index_sites, ob_type_assert_sites against the source of this run), and
   each is in range: b[0] in handleMITM under its guard, p[:1] of dialvia's byteReader for every fill of its bufio
   buffer, the full slices hdr[:], the label arity of the Prometheus calls; every type assertion but conn.ReadFrom's
   is in the two-value form. *)
Theorem T12_index_obligations :
  (forall b0, first_is_handshake b0 <> None) /\
  (forall w, (w < N.to_nat byte_reader_buffer_size)%nat -> slice_ok (N.to_nat byte_reader_buffer_size - w) 0 1 = true) /\
  (forall n, slice_ok n 0 n = true) /\
  record_prefixes_fit = true /\
  (forall custom m c, length (label_values custom m c) = length (label_names custom) /\
                      length (b "code" :: label_values custom m c) = length (b "code" :: label_names custom)) /\
  ta_all_others_two_valued = true /\
  index_sites = exp_index_sites /\ type_assert_sites = exp_type_assert_sites.
Proof.
  exact (conj ix_mitm_first_byte (conj (ix_byte_reader_slice ob_byte_reader_buffer) (conj ix_full_slice (conj ob_record_prefixes_fit
        (conj ix_label_arity (conj ob_ta_all_others_two_valued (conj ob_index_sites ob_type_assert_sites))))))).
Qed.
Print Assumptions T12_index_obligations.

(* A CONNECT rejected by the upstream proxy, at byte level (shape flags from the source of this run): whatever the
   upstream's status (not 1xx/204/304), reason, other header fields, announced Content-Length cl, and whatever happens to
   the body of its rejection — sent whole, connection ended early, or the upstream STALLS with its connection open —
   the proxy answers, and the client parses a complete, well-formed response with the upstream's status whose body is the
   whole body the upstream sent (only if cl > 0) or empty, announced with its true length, nothing after it. *)
Theorem T12_rejected_connect_relay_wellformed : forall cl rd sl others mi st eof,
  (forall bs, rd = RdAll bs -> N.of_nat (length bs) < 10 ^ 18) ->
  line_ok sl = true -> parse_status_line sl = Some (1, mi, st) -> 100 <= st -> forallb hdr_ok others = true ->
  (st / 100 =? 1) || (st =? 204) || (st =? 304) = false ->
  values_of (b "transfer-encoding") (map kv_of others) = [] ->
  values_of (b "content-length") (map kv_of others) = [] ->
  exists body, reject_body reject_reads_body_only_when_length_positive reject_body_read_is_bounded cl rd = Some body /\
    (body = [] \/ (rd = RdAll body /\ (0 < cl)%Z)) /\
    let r := client_parse (reject_wire sl others body) eof false in
    pv r = Complete /\ pstatus r = st /\ pbody r = body /\ prest r = [] /\ pframing r = 1.
Proof.
  rewrite ob_reject_reads_body_only_when_length_positive, ob_reject_body_read_is_bounded. exact rejected_connect_relay.
Qed.
Print Assumptions T12_rejected_connect_relay_wellformed.
(* ... kept visible: with an unbounded read a stalling upstream gets no answer at all for the client (the shape before
   the repair; replayed on the implementation: status:rt-upstream-rejects-connect-403-short-body-keeps-open), and so does
   reading a body without framing (ContentLength != 0). *)
Theorem T12_rejected_connect_relay_refuted_for_other_shapes :
  reject_body true false 100 RdStall = None /\ reject_body false false (-1) RdStall = None.
Proof. exact (conj reject_unbounded_read_never_answers reject_unframed_body_read_never_answers). Qed.
Print Assumptions T12_rejected_connect_relay_refuted_for_other_shapes.
(* non-vacuity: the rejection the cut sweep scripts *)
Example T12_example_rejected_connect :
  let sl := b "HTTP/1.1 403 Forbidden" in
  let others := [b "Content-Type: text/plain"; b "X-Upstream: vf"] in
  line_ok sl = true /\ parse_status_line sl = Some (1, 1, 403) /\ forallb hdr_ok others = true /\
  values_of (b "transfer-encoding") (map kv_of others) = [] /\ values_of (b "content-length") (map kv_of others) = [] /\
  pv (client_parse (reject_wire sl others (b "go away")) false false) = Complete /\
  pbody (client_parse (reject_wire sl others []) false false) = [].
Proof. vm_compute. repeat split; reflexivity. Qed.

(* The dialer's retry loop (shape flags from the source of this run): whatever the outcomes of the attempts, whatever
   the configured number of attempts, and whether or not the caller's context ended while an attempt was pending,
   DialContext never gets "no connection, no error" and so never wraps (dereferences) a nil connection; it gets a
   connection exactly when some attempt succeeded. *)
Theorem T12_dial_never_wraps_nil : forall n (results : nat -> att),
  let l := map results (seq 0 (attempts_of dial_attempts_at_least_one n)) in
  wraps_nil (dial_loop dial_records_error_before_leaving_loop l false) = false /\
  fst (dial_loop dial_records_error_before_leaving_loop l false) = existsb (fun a => match a with AOk => true | _ => false end) l.
Proof.
  intros n results. rewrite ob_dial_records_error_before_leaving_loop, ob_dial_attempts_at_least_one. cbv zeta.
  split; [apply dial_context_never_wraps_nil|apply dial_returns_conn_iff].
Qed.
Print Assumptions T12_dial_never_wraps_nil.
(* ... kept visible: a loop that can be left before the error is recorded (context ended during the attempt), or
   without the floor on the number of attempts, does return (nil, nil). *)
Theorem T12_dial_never_wraps_nil_refuted_for_other_shapes :
  wraps_nil (dial_loop false [AFail true] false) = true /\
  (forall results, wraps_nil (dial_loop true (map results (seq 0 (attempts_of false 0))) false) = true).
Proof. exact (conj dial_break_before_record_wraps_nil dial_zero_attempts_wraps_nil). Qed.
Print Assumptions T12_dial_never_wraps_nil_refuted_for_other_shapes.

(* Non-vacuity: a concrete response in each framing meets the hypotheses. *)
Example T12_example :
  let sl := b "HTTP/1.1 200 OK" in
  wf_head sl [b "Content-Length: 5"; b "X-A: b"] 1 200 /\
  pv (client_parse (wire sl [b "Content-Length: 5"] (b "hello")) false false) = Complete /\
  pv (client_parse (wire sl [b "Content-Length: 5"] (b "hell")) true false) = Incomplete /\
  pv (client_parse (wire sl [b "Transfer-Encoding: chunked"] (chunks_bytes [(b "5", b "hello")])) false false) = Complete /\
  pv (client_parse (wire sl [b "X-A: b"] (b "hel")) true false) = Complete /\
  classify (Build_feat false (Some false) false true false false (Some 400) true false false false false 0 false) = 502.
Proof. exact c12_example. Qed.
