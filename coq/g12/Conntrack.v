(* G12.Conntrack — conntrack/conntrack.go closeListener.Close under concurrent
   callers, as a labelled transition system.

     func (c *closeListener) Close() error {
         err := c.close()          // underlying close, every call
         c.once.Do(c.onClose)      // sync.Once
         return err
     }

   n goroutines each execute this body once.  Goroutines are indistinguishable,
   so the state records how many of them are at each program point:
     n0 before c.close()      n1 before once.Do       n2 inside Do, before f()
     n3 f() returned, before done is stored           nd returned
   sync.Once: a caller that finds done set returns at once; otherwise it takes
   the mutex (blocks while another caller holds it), re-checks done, and if
   still unset runs f and then stores done.  A blocked goroutine is simply one
   whose step is not enabled.
   Tables.close_uses_once selects the shape of the source (true: once.Do(onClose);
   false: onClose() called directly). *)
From Coq Require Import List Arith ZArith Bool Lia.
Import ListNotations.

Record cst := mkcst { n0 : nat; n1 : nat; n2 : nat; n3 : nat; nd : nat; done : bool; fired : nat; under : nat;
                      uclosed : bool (* the underlying connection has been closed (by a Close call, or by a layer below the wrapper) *) }.

Inductive clabel :=
| CUnder      (* a goroutine runs c.close() *)
| CEnterRun   (* a goroutine enters once.Do, finds done unset and the mutex free: it will run f *)
| CEnterSkip  (* a goroutine (possibly after waiting for the mutex) finds done set: returns *)
| CFire       (* the goroutine inside Do runs onClose *)
| CExit       (* ... stores done, releases the mutex, returns *)
| CDirect     (* shape without sync.Once: onClose() is called directly *)
| CUnderEarly. (* shape "return early when the underlying Close reports net.ErrClosed": a goroutine runs c.close() on an
                 already closed connection and returns without reaching the Once *)

Definition cstep (once early : bool) (s : cst) (l : clabel) : option cst :=
  match l with
  | CUnder => match n0 s with
              | S k => if early && uclosed s then None   (* this caller takes the early return instead *)
                       else Some (mkcst k (S (n1 s)) (n2 s) (n3 s) (nd s) (done s) (fired s) (S (under s)) true)
              | O => None end
  | CEnterRun => if once && negb (done s) && (n2 s + n3 s =? 0) then
                   match n1 s with
                   | S k => Some (mkcst (n0 s) k (S (n2 s)) (n3 s) (nd s) (done s) (fired s) (under s) (uclosed s))
                   | O => None end
                 else None
  | CEnterSkip => if once && done s then
                    match n1 s with
                    | S k => Some (mkcst (n0 s) k (n2 s) (n3 s) (S (nd s)) (done s) (fired s) (under s) (uclosed s))
                    | O => None end
                  else None
  | CFire => match n2 s with
             | S k => Some (mkcst (n0 s) (n1 s) k (S (n3 s)) (nd s) (done s) (S (fired s)) (under s) (uclosed s))
             | O => None end
  | CExit => match n3 s with
             | S k => Some (mkcst (n0 s) (n1 s) (n2 s) k (S (nd s)) true (fired s) (under s) (uclosed s))
             | O => None end
  | CDirect => if once then None else
               match n1 s with
               | S k => Some (mkcst (n0 s) k (n2 s) (n3 s) (S (nd s)) (done s) (S (fired s)) (under s) (uclosed s))
               | O => None end
  | CUnderEarly => if early && uclosed s then
                     match n0 s with
                     | S k => Some (mkcst k (n1 s) (n2 s) (n3 s) (S (nd s)) (done s) (fired s) (S (under s)) true)
                     | O => None end
                   else None
  end.

Fixpoint crun (once early : bool) (s : cst) (ls : list clabel) : option cst :=
  match ls with
  | [] => Some s
  | l :: r => match cstep once early s l with Some s' => crun once early s' r | None => None end
  end.

(* n callers; pre: a layer below the wrapper has already closed the connection *)
Definition cinit (n : nat) (pre : bool) : cst := mkcst n 0 0 0 0 false 0 0 pre.
Definition cfinal (s : cst) : Prop := n0 s = 0 /\ n1 s = 0 /\ n2 s = 0 /\ n3 s = 0.
Definition cfinalb (s : cst) : bool := (n0 s =? 0) && (n1 s =? 0) && (n2 s =? 0) && (n3 s =? 0).

(* a canonical complete schedule for n callers (used for examples / by the checker) *)
Fixpoint crepeat (l : clabel) (k : nat) : list clabel := match k with O => [] | S k' => l :: crepeat l k' end.
Definition csched_seq (n : nat) : list clabel :=
  match n with
  | O => []
  | S k => crepeat CUnder n ++ [CEnterRun; CFire; CExit] ++ crepeat CEnterSkip k
  end.

(* ---- active-connection gauge: accept/dial increments, onClose decrements ---- *)
(* one connection = the number of onClose invocations its closers produced *)
Definition active_after (fires : list nat) : Z :=
  Z.sub (Z.of_nat (length fires)) (Z.of_nat (fold_right plus 0 fires)).

(* ---- byte counters of the tracking wrapper (conntrack.conn): Read adds the n it returns to rx,
        Write and ReadFrom add the n they return to tx (atomic adds) ---- *)
Inductive bop := BRead (n : N) | BWrite (n : N) | BReadFrom (n : N).
Definition bstep (s : N * N) (o : bop) : N * N :=
  match o with
  | BRead n => (fst s + n, snd s)%N
  | BWrite n | BReadFrom n => (fst s, snd s + n)%N
  end.
Definition brun (ops : list bop) : N * N := fold_left bstep ops (0, 0)%N.
Definition rx_sum (ops : list bop) : N := fold_right (fun o a => match o with BRead n => (n + a)%N | _ => a end) 0%N ops.
Definition tx_sum (ops : list bop) : N := fold_right (fun o a => match o with BRead _ => a | BWrite n | BReadFrom n => (n + a)%N end) 0%N ops.
