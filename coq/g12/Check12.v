(* G12.Check12 — executable checkers for C12, evaluated on what the harness
   observed of the REAL code:
     ecase : a synthetic error run through HTTPProxy.errorResponse and serialised by net/http
     fcase : an origin reply cut after k bytes (FIN / RST), as the raw client saw it through the proxy *)
From FwdLib Require Export Bytes.
From G12 Require Export Tables Errors Framing Check.
Open Scope N_scope.

Definition verdict_n (v : verdict) : N :=
  match v with Complete => 0 | Incomplete => 1 | Malformed => 2 | Nothing => 3 end.

Definition has_header (name : str) (p : presult) : bool :=
  existsb (fun kv => eq_fold (fst kv) name) (phdr p).

(* ---- classifier ---- *)
Record ecase := mkecase {
  e_feat : feat;
  e_code : N;          (* res.StatusCode chosen by the implementation *)
  e_raw : str;         (* res.Write output *)
  e_go_verdict : N; e_go_status : N; e_go_bodylen : N;   (* what the Go-side parser made of e_raw *)
  e_reason : str; e_name : str; e_msg : str; e_errtext : str   (* reason phrase, proxy name, the handler's message, err.Error() *)
}.

(* the model classifies like the implementation, and the Gallina parser reads the bytes like the Go parser *)
(* the bytes the model of the error response predicts (HTTP/1.1 request, connection kept) *)
Definition ecase_model_wire (c : ecase) : str :=
  let k := e_code c in
  error_wire 1 (k / 100) ((k / 10) mod 10) (k mod 10) (e_reason c) (e_name c) (e_msg c) (e_errtext c) false.

Definition ecase_model_ok_r (c : ecase) (r : presult) : bool :=
  (classify (e_feat c) =? e_code c) && str_eqb (ecase_model_wire c) (e_raw c) &&
  (verdict_n (pv r) =? e_go_verdict c) && (pstatus r =? e_go_status c) && (N.of_nat (length (pbody r)) =? e_go_bodylen c).

(* the implementation's own output: status in 400..599, a complete well-formed response
   carrying X-Forwarder-Error, Content-Length framing, nothing after the body *)
Definition ecase_prop_ok_r (c : ecase) (r : presult) : bool :=
  (* the statement's mapping: a connection failure is answered 502, a connect time-out 504, whatever else the error carries *)
  match f_operr (e_feat c) with Some false => e_code c =? 502 | Some true => e_code c =? 504 | None => true end &&
  in_error_range (e_code c) && is_complete r && (pstatus r =? e_code c) && (pmajor r =? 1) &&
  has_header error_header r && (pframing r =? 1) && match prest r with [] => true | _ => false end.

(* both verdicts with the byte stream parsed once *)
Definition ecase_check (c : ecase) : bool * bool :=
  let r := client_parse (e_raw c) true false in (ecase_model_ok_r c r, ecase_prop_ok_r c r).
Definition ecase_model_ok (c : ecase) : bool := fst (ecase_check c).
Definition ecase_prop_ok (c : ecase) : bool := snd (ecase_check c).

(* ---- fault classes of the property statement, end to end ---- *)
Record scase := mkscase {
  s_class : N;     (* 1 connection failure, 2 TLS failure, 3 connect time-out, 4 CONNECT rejected by the upstream proxy,
                      5 any other upstream failure, 6 refusal by the proxy's own modifiers *)
  s_feat : feat;   (* errors.As/Is facts of the error the fault produces (by construction of the scenario) *)
  s_up : N;        (* class 4: the upstream proxy's status *)
  s_raw : str; s_eof : bool;
  s_go_verdict : N; s_go_status : N
}.

Definition scase_model_ok_r (c : scase) (r : presult) : bool :=
  (verdict_n (pv r) =? s_go_verdict c) && (pstatus r =? s_go_status c) &&
  (if s_class c =? 4 then pstatus r =? s_up c else pstatus r =? classify (s_feat c)).

Definition scase_prop_ok_r (c : scase) (r : presult) : bool :=
  is_complete r && (pmajor r =? 1) && match prest r with [] => true | _ => false end &&
  (if s_class c =? 4 then pstatus r =? s_up c
   else has_header error_header r && (pframing r =? 1) &&
        (if (s_class c =? 1) || (s_class c =? 2) then pstatus r =? 502
         else if s_class c =? 3 then pstatus r =? 504
         else if s_class c =? 5 then (500 <=? pstatus r) && (pstatus r <=? 599)
         else in_error_range (pstatus r))).

Definition scase_check (c : scase) : bool * bool :=
  let r := client_parse (s_raw c) (s_eof c) false in (scase_model_ok_r c r, scase_prop_ok_r c r).

(* ---- error pages of concurrently failing requests ---- *)
Record pgcase := mkpgcase {
  g_raw : str;      (* every byte the client received *)
  g_target : str    (* host:port this client asked for (refused); distinct per client *)
}.
Fixpoint header_value (name : str) (hs : list (str * str)) : option str :=
  match hs with
  | [] => None
  | (k, v) :: r => if eq_fold k name then Some v else header_value name r
  end.
(* the response is a complete error response whose X-Forwarder-Error names THIS client's target, and whose page (body)
   is the page of that same error: it ends with the error text of the header followed by LF, and names the target *)
Definition pgcase_check (c : pgcase) : bool * bool :=
  let r := client_parse (g_raw c) false false in
  let ok :=
    is_complete r && (500 <=? pstatus r) && (pstatus r <=? 599) && (pframing r =? 1) &&
    match header_value error_header (phdr r) with
    | Some v =>
        (* a refused connection (502) names the target in the error text and in the page *)
        (negb (pstatus r =? 502) || (contains v (g_target c) && contains (pbody r) (g_target c))) &&
        (* header value = "<proxy name> <error text>": drop the name and the blank *)
        match cut_byte 32 v with
        | Some (_, errtext) => has_suffix (pbody r) (errtext ++ [LF])
        | None => false
        end
    | None => false
    end in
  (is_complete r, ok).

(* ---- cut sweep ---- *)
Record fcase := mkfcase {
  f_framing : N;        (* framing of the origin's reply: 1 Content-Length, 2 chunked, 3 close-delimited *)
  f_rst : bool;         (* the origin ended with RST (else FIN) *)
  f_full : bool;        (* the origin's reply was complete (all bytes sent; for close-delimited: orderly end) *)
  f_up : N;             (* status of the origin's reply *)
  f_sent : N;           (* decoded body bytes that left the origin *)
  f_body : str;         (* the body the origin's reply was meant to carry (for an orderly-closed close-delimited reply: what it sent) *)
  f_raw : str;          (* every byte the client received *)
  f_eof : bool;         (* the client's stream ended with an orderly FIN (false: reset, or still open) *)
  f_go_verdict : N; f_go_status : N; f_go_bodylen : N; f_go_restlen : N;
  f_go_errhdr : bool;
  f_harness_ok : bool;
  f_k : N; f_headlen : N; f_replylen : N;   (* cut point, length of the reply's head, of the whole reply *)
  f_client_minor : N;                        (* the client spoke HTTP/1.<minor> *)
  f_closed : bool;                           (* the client's stream ended (FIN or reset) — false: still open when the client gave up *)
  f_reject : bool;                           (* the reply is an upstream proxy's rejection of the transport's CONNECT (relayed via connectError) *)
  f_handler : bool;                          (* the proxy is served through martian's http.Handler on net/http's server *)
  f_tlscut : bool                            (* https origin whose TCP connection ended WITHOUT a TLS close_notify *)
}.

Definition is_error_response (r : presult) : bool := has_header error_header r.

(* what the client ends up with:
   0 a complete error response of the proxy, 1 the origin's response with its whole body,
   2 no complete message, connection closed, 3 a complete-looking message with a truncated body,
   4 a CONNECT rejection relayed WITHOUT its body (honestly announced: Content-Length: 0),
   5 no complete message and the connection still open when the client gave up *)
Definition fcase_class_r (c : fcase) (r : presult) : N :=
  match pv r with
  | Complete => if is_error_response r then 0 else if str_eqb (pbody r) (f_body c) then 1
                else if f_reject c && match pbody r with [] => true | _ => false end && (pframing r =? 1) then 4 else 3
  | _ => if f_closed c then 2 else 5
  end.

(* what the path model says: a failure before the origin's head is complete yields the proxy's error
   response; after that the head has been relayed and the only continuation is closing the client
   connection (orderly) — which ends a body that is delivered close-delimited, and leaves a
   length- or chunk-framed body visibly short.  A chunked reply is delivered close-delimited to an
   HTTP/1.0 client. *)
Definition fcase_expect (c : fcase) : N :=
  if f_k c <? f_headlen c then 0
  else if f_handler c then
    (* net/http's server frames a body of unknown length as chunked for an HTTP/1.1 client and the handler aborts
       (panic(http.ErrAbortHandler)) when copying the body fails: the terminating chunk is never written *)
    (if f_framing c =? 3 then (if f_rst c then 2 else 1) else if f_k c =? f_replylen c then 1 else 2)
  else if f_reject c then
    (* Reject.v: the rejection's body (positive Content-Length) is relayed whole when it could be read, else the status
       and header are relayed with an empty body, honestly announced *)
    match reject_body reject_reads_body_only_when_length_positive reject_body_read_is_bounded
                      (Z.of_N (f_replylen c - f_headlen c)) (if f_k c =? f_replylen c then RdAll (f_body c) else RdFail) with
    | Some [] => 4
    | Some _ => 1
    | None => 5
    end
  else if (f_k c =? f_replylen c) && negb ((f_framing c =? 3) && f_rst c && negb (f_tlscut c)) then 1
  else if f_framing c =? 3 then
    (* a close-delimited origin reply.  An orderly end of the origin's connection IS the end of the body.
       Tables.close_delimited_rechunked: an HTTP/1.1 client gets the body in chunks, so an upstream failure leaves it
       visibly unterminated; an HTTP/1.0 client gets it close-delimited and the proxy's orderly close completes it.
       net/http's transport reports a TCP end without close_notify on a close-delimited body as a clean end, so the
       proxy cannot tell that cut from the end of the body. *)
    if negb (f_rst c) || f_tlscut c then (if f_tlscut c then 3 else 1)
    else if close_delimited_rechunked && (f_client_minor c =? 1) then 2 else 3
  else if (f_framing c =? 2) && (f_client_minor c =? 0) then 3   (* chunked reply delivered close-delimited to an HTTP/1.0 client *)
  else 2.

(* correspondence: the relay behaves as the path model says, and the two parsers agree *)
Definition fcase_model_ok_r (c : fcase) (r : presult) : bool :=
  f_harness_ok c && (fcase_class_r c r =? fcase_expect c) &&
  (verdict_n (pv r) =? f_go_verdict c) && (pstatus r =? f_go_status c) &&
  (N.of_nat (length (pbody r)) =? f_go_bodylen c) && (N.of_nat (length (prest r)) =? f_go_restlen c) &&
  Bool.eqb (is_error_response r) (f_go_errhdr c).

(* the property on the bytes the client received *)
Definition fcase_prop_ok_r (c : fcase) (r : presult) : bool :=
  match pv r with
  | Complete =>
      match prest r with [] => true | _ => false end &&       (* not mixed with anything else *)
      (if is_error_response r
       then (500 <=? pstatus r) && (pstatus r <=? 599) && ((pframing r =? 1) || (f_handler c && (pframing r =? 2)))
       else (* the origin's own response: then it must be ALL of it *)
            (pstatus r =? f_up c) &&
            ((str_eqb (pbody r) (f_body c) && (f_full c || (f_sent c =? N.of_nat (length (f_body c))))) ||
             (* a rejected CONNECT may be relayed without its body, announced as empty *)
             (f_reject c && match pbody r with [] => true | _ => false end && (pframing r =? 1))))
  | Incomplete | Nothing => f_closed c    (* after the head only a CLOSED connection is acceptable *)
  | Malformed => false
  end.

Definition fcase_check (c : fcase) : bool * bool :=
  let r := client_parse (f_raw c) (f_eof c) false in (fcase_model_ok_r c r, fcase_prop_ok_r c r).
Definition fcase_model_ok (c : fcase) : bool := fst (fcase_check c).
Definition fcase_prop_ok (c : fcase) : bool := snd (fcase_check c).
Definition fcase_class (c : fcase) : N := fcase_class_r c (client_parse (f_raw c) (f_eof c) false).

(* indices of the pairs whose first / second component is false *)
Definition bad_fst (l : list (bool * bool)) : list N := bad (fun x => fst x) l.
Definition bad_snd (l : list (bool * bool)) : list N := bad (fun x => snd x) l.

(* which class of violation a failing cut case belongs to: framing in which the
   client received the body (3 = delimited by close) *)
Definition fcase_client_framing (c : fcase) : N := pframing (client_parse (f_raw c) (f_eof c) false).
