(* G12 — table obligations: facts about the source as extracted into Tables.v on this
   run, each discharged by closed computation.  When the source changes shape,
   exactly the lemma naming that shape stops checking. *)
From FwdLib Require Import Bytes.
From G12 Require Import Tables Expected Errors Exchange ErrorsProofs Indexing.

(* --- shapes the accounting theorems need (C13) --- *)
(* writeResponse consults skipTraceWroteResponse only for writes whose caller reports the completion later *)
Lemma ob_trace_skip_only_when_deferred : trace_skip_only_when_deferred = true.
Proof. vm_compute. reflexivity. Qed.
(* writeErrorResponse binds a *connectError response to the request that was read ... *)
Lemma ob_conn_err_rebinds_request : conn_err_rebinds_request = true.
Proof. vm_compute. reflexivity. Qed.
(* ... and gives it that request's protocol version *)
Lemma ob_conn_err_rebinds_proto : conn_err_rebinds_proto = true.
Proof. vm_compute. reflexivity. Qed.
(* writeResponse clears res.Close for a 101 *)
Lemma ob_upgrade_clears_close : upgrade_clears_close = true.
Proof. vm_compute. reflexivity. Qed.
(* exactly tunnel and handleMITM defer the completion report (they report it themselves) *)
Lemma ob_deferred_trace_callers : deferred_trace_callers = [b "handleMITM"; b "tunnel"].
Proof. vm_compute. reflexivity. Qed.
(* writeResponse: the header-only case precedes every case that calls res.Write (a 101 carries a Body that panics when read) *)
Lemma ob_header_only_case_before_body_writers : header_only_case_before_body_writers = true.
Proof. vm_compute. reflexivity. Qed.
Lemma ob_flags : table_flags = good_flags.
Proof. unfold table_flags. rewrite ob_trace_skip_only_when_deferred, ob_conn_err_rebinds_request, ob_upgrade_clears_close. reflexivity. Qed.
(* forwarder's trace hooks skip events without a request / response *)
Lemma ob_trace_read_guards_nil_req : trace_read_guards_nil_req = true.
Proof. vm_compute. reflexivity. Qed.
Lemma ob_trace_wrote_guards_nil_res : trace_wrote_guards_nil_res = true.
Proof. vm_compute. reflexivity. Qed.
(* closeListener.Close: underlying close every time, callback through sync.Once *)
Lemma ob_close_uses_once : close_uses_once = true.
Proof. vm_compute. reflexivity. Qed.
(* ... and nothing lets Close return between the underlying close and the Once *)
Lemma ob_close_not_early : close_returns_early_on_errclosed = false.
Proof. vm_compute. reflexivity. Qed.
Lemma ob_close_calls_underlying : close_calls_underlying = true.
Proof. vm_compute. reflexivity. Qed.

(* --- the error classifier (C12) --- *)
(* the handlers are tried in this order *)
Lemma ob_handler_order : handler_order = expected_order.
Proof. vm_compute. reflexivity. Qed.
(* every status constant of a handler, every ErrorStatus literal in the sources and the
   loop bounds of handleStatusText lie in 400..599 *)
Lemma ob_codes_ok : codes_ok = true.
Proof. vm_compute. reflexivity. Qed.
Lemma ob_goos_not_windows : goos_windows = false.
Proof. vm_compute. reflexivity. Qed.
Lemma ob_code_net_timeout : code_net_timeout = 504.
Proof. vm_compute. reflexivity. Qed.
Lemma ob_code_timeout : code_timeout = 504.
Proof. vm_compute. reflexivity. Qed.
Lemma ob_code_net_other : code_net_other = 502.
Proof. vm_compute. reflexivity. Qed.
Lemma ob_code_tls_record : code_tls_record = 502.
Proof. vm_compute. reflexivity. Qed.
Lemma ob_code_tls_cert : code_tls_cert = 502.
Proof. vm_compute. reflexivity. Qed.
Lemma ob_code_tls_ech : code_tls_ech = 502.
Proof. vm_compute. reflexivity. Qed.
Lemma ob_code_tls_alert : code_tls_alert = 502.
Proof. vm_compute. reflexivity. Qed.
Lemma ob_code_default : code_default = 500.
Proof. vm_compute. reflexivity. Qed.
Lemma ob_code_canceled : code_canceled = 500.
Proof. vm_compute. reflexivity. Qed.
Lemma ob_max_consecutive_errors : max_consecutive_errors = 5.
Proof. vm_compute. reflexivity. Qed.
Lemma ob_error_header : error_header = b "X-Forwarder-Error".
Proof. vm_compute. reflexivity. Qed.

(* --- the transcribed functions still have the control-flow skeleton they were transcribed from --- *)
Lemma ob_skel_errorResponse : skel_errorResponse = exp_skel_errorResponse.
Proof. vm_compute. reflexivity. Qed.
Lemma ob_skel_handleAuthenticationError : skel_handleAuthenticationError = exp_skel_handleAuthenticationError.
Proof. vm_compute. reflexivity. Qed.
Lemma ob_skel_handleContextCancelationError : skel_handleContextCancelationError = exp_skel_handleContextCancelationError.
Proof. vm_compute. reflexivity. Qed.
Lemma ob_skel_handleDenyError : skel_handleDenyError = exp_skel_handleDenyError.
Proof. vm_compute. reflexivity. Qed.
Lemma ob_skel_handleMartianErrorStatus : skel_handleMartianErrorStatus = exp_skel_handleMartianErrorStatus.
Proof. vm_compute. reflexivity. Qed.
Lemma ob_skel_handleNetError : skel_handleNetError = exp_skel_handleNetError.
Proof. vm_compute. reflexivity. Qed.
Lemma ob_skel_handleProhibitedError : skel_handleProhibitedError = exp_skel_handleProhibitedError.
Proof. vm_compute. reflexivity. Qed.
Lemma ob_skel_handleStatusText : skel_handleStatusText = exp_skel_handleStatusText.
Proof. vm_compute. reflexivity. Qed.
Lemma ob_skel_handleTLSAlertError : skel_handleTLSAlertError = exp_skel_handleTLSAlertError.
Proof. vm_compute. reflexivity. Qed.
Lemma ob_skel_handleTLSCertificateError : skel_handleTLSCertificateError = exp_skel_handleTLSCertificateError.
Proof. vm_compute. reflexivity. Qed.
Lemma ob_skel_handleTLSECHRejectionError : skel_handleTLSECHRejectionError = exp_skel_handleTLSECHRejectionError.
Proof. vm_compute. reflexivity. Qed.
Lemma ob_skel_handleTLSRecordHeader : skel_handleTLSRecordHeader = exp_skel_handleTLSRecordHeader.
Proof. vm_compute. reflexivity. Qed.
Lemma ob_skel_handleWindowsNetError : skel_handleWindowsNetError = exp_skel_handleWindowsNetError.
Proof. vm_compute. reflexivity. Qed.
Lemma ob_skel_handle : skel_handle = exp_skel_handle.
Proof. vm_compute. reflexivity. Qed.
Lemma ob_skel_handleConnectRequest : skel_handleConnectRequest = exp_skel_handleConnectRequest.
Proof. vm_compute. reflexivity. Qed.
Lemma ob_skel_handleMITM : skel_handleMITM = exp_skel_handleMITM.
Proof. vm_compute. reflexivity. Qed.
Lemma ob_skel_tunnel : skel_tunnel = exp_skel_tunnel.
Proof. vm_compute. reflexivity. Qed.
Lemma ob_skel_handleUpgradeResponse : skel_handleUpgradeResponse = exp_skel_handleUpgradeResponse.
Proof. vm_compute. reflexivity. Qed.
Lemma ob_skel_writeErrorResponse : skel_writeErrorResponse = exp_skel_writeErrorResponse.
Proof. vm_compute. reflexivity. Qed.
Lemma ob_skel_writeResponse : skel_writeResponse = exp_skel_writeResponse.
Proof. vm_compute. reflexivity. Qed.
Lemma ob_skel_skipTraceWroteResponse : skel_skipTraceWroteResponse = exp_skel_skipTraceWroteResponse.
Proof. vm_compute. reflexivity. Qed.
Lemma ob_skel_OnProxyConnectResponse : skel_OnProxyConnectResponse = exp_skel_OnProxyConnectResponse.
Proof. vm_compute. reflexivity. Qed.
Lemma ob_skel_connectHTTP : skel_connectHTTP = exp_skel_connectHTTP.
Proof. vm_compute. reflexivity. Qed.
Lemma ob_skel_maybeConnectErrorResponse : skel_maybeConnectErrorResponse = exp_skel_maybeConnectErrorResponse.
Proof. vm_compute. reflexivity. Qed.
Lemma ob_skel_handleLoop : skel_handleLoop = exp_skel_handleLoop.
Proof. vm_compute. reflexivity. Qed.
Lemma ob_skel_martian_errorResponse : skel_martian_errorResponse = exp_skel_martian_errorResponse.
Proof. vm_compute. reflexivity. Qed.
Lemma ob_skel_traceReadRequest : skel_traceReadRequest = exp_skel_traceReadRequest.
Proof. vm_compute. reflexivity. Qed.
Lemma ob_skel_traceWroteResponse : skel_traceWroteResponse = exp_skel_traceWroteResponse.
Proof. vm_compute. reflexivity. Qed.
Lemma ob_skel_prom_ReadRequest : skel_prom_ReadRequest = exp_skel_prom_ReadRequest.
Proof. vm_compute. reflexivity. Qed.
Lemma ob_skel_prom_WroteResponse : skel_prom_WroteResponse = exp_skel_prom_WroteResponse.
Proof. vm_compute. reflexivity. Qed.
Lemma ob_skel_prom_labels : skel_prom_labels = exp_skel_prom_labels.
Proof. vm_compute. reflexivity. Qed.
Lemma ob_skel_closeListener_Close : skel_closeListener_Close = exp_skel_closeListener_Close.
Proof. vm_compute. reflexivity. Qed.
Lemma ob_skel_Listener_Accept : skel_Listener_Accept = exp_skel_Listener_Accept.
Proof. vm_compute. reflexivity. Qed.
Lemma ob_skel_Dialer_DialContext : skel_Dialer_DialContext = exp_skel_Dialer_DialContext.
Proof. vm_compute. reflexivity. Qed.
Lemma ob_skel_listenerMetrics_accept : skel_listenerMetrics_accept = exp_skel_listenerMetrics_accept.
Proof. vm_compute. reflexivity. Qed.
Lemma ob_skel_listenerMetrics_close : skel_listenerMetrics_close = exp_skel_listenerMetrics_close.
Proof. vm_compute. reflexivity. Qed.
Lemma ob_skel_dialerMetrics_dial : skel_dialerMetrics_dial = exp_skel_dialerMetrics_dial.
Proof. vm_compute. reflexivity. Qed.
Lemma ob_skel_dialerMetrics_close : skel_dialerMetrics_close = exp_skel_dialerMetrics_close.
Proof. vm_compute. reflexivity. Qed.

(* --- where the transcribed functions index, slice or assert a type (crash-freedom obligations, Indexing.v) --- *)
Lemma ob_index_sites : index_sites = exp_index_sites.
Proof. vm_compute. reflexivity. Qed.
Lemma ob_type_assert_sites : type_assert_sites = exp_type_assert_sites.
Proof. vm_compute. reflexivity. Qed.
Lemma ob_ta_all_others_two_valued : ta_all_others_two_valued = true.
Proof. vm_compute. reflexivity. Qed.
Lemma ob_record_prefixes_fit : record_prefixes_fit = true.
Proof. vm_compute. reflexivity. Qed.
Lemma ob_byte_reader_buffer : N.leb 1 byte_reader_buffer_size = true.
Proof. vm_compute. reflexivity. Qed.
(* --- conntrack byte counters: which counter each wrapper method feeds --- *)
Lemma ob_read_feeds_rx : read_feeds_rx = true.
Proof. vm_compute. reflexivity. Qed.
Lemma ob_write_feeds_tx : write_feeds_tx = true.
Proof. vm_compute. reflexivity. Qed.
Lemma ob_readfrom_feeds_tx : readfrom_feeds_tx = true.
Proof. vm_compute. reflexivity. Qed.
Lemma ob_skel_conn_Read : skel_conn_Read = exp_skel_conn_Read.
Proof. vm_compute. reflexivity. Qed.
Lemma ob_skel_conn_Write : skel_conn_Write = exp_skel_conn_Write.
Proof. vm_compute. reflexivity. Qed.
Lemma ob_skel_conn_ReadFrom : skel_conn_ReadFrom = exp_skel_conn_ReadFrom.
Proof. vm_compute. reflexivity. Qed.
(* --- the http.Handler variant of the exchange (proxy_handler.go): same leaves, driven with the same cases --- *)
Lemma ob_skel_h_handleRequest : skel_h_handleRequest = exp_skel_h_handleRequest.
Proof. vm_compute. reflexivity. Qed.
Lemma ob_skel_h_handleConnectRequest : skel_h_handleConnectRequest = exp_skel_h_handleConnectRequest.
Proof. vm_compute. reflexivity. Qed.
Lemma ob_skel_h_tunnel : skel_h_tunnel = exp_skel_h_tunnel.
Proof. vm_compute. reflexivity. Qed.
Lemma ob_skel_h_handleUpgradeResponse : skel_h_handleUpgradeResponse = exp_skel_h_handleUpgradeResponse.
Proof. vm_compute. reflexivity. Qed.
Lemma ob_skel_h_writeErrorResponse : skel_h_writeErrorResponse = exp_skel_h_writeErrorResponse.
Proof. vm_compute. reflexivity. Qed.
Lemma ob_skel_h_writeResponse : skel_h_writeResponse = exp_skel_h_writeResponse.
Proof. vm_compute. reflexivity. Qed.
(* --- between "dialled" and "owned by the caller" (Dial.v) --- *)
Lemma ob_skel_DialContextR : skel_DialContextR = exp_skel_DialContextR.
Proof. vm_compute. reflexivity. Qed.
Lemma ob_dialvia_closes_before_every_error_return : dialvia_closes_before_every_error_return = true.
Proof. vm_compute. reflexivity. Qed.
Lemma ob_skel_Dialer_dialContext : skel_Dialer_dialContext = exp_skel_Dialer_dialContext.
Proof. vm_compute. reflexivity. Qed.
Lemma ob_dial_records_error_before_leaving_loop : dial_records_error_before_leaving_loop = true.
Proof. vm_compute. reflexivity. Qed.
Lemma ob_dial_attempts_at_least_one : dial_attempts_at_least_one = true.
Proof. vm_compute. reflexivity. Qed.
(* --- relay of a rejected CONNECT (Reject.v) --- *)
Lemma ob_skel_OnProxyConnectResponse_wrapper : skel_OnProxyConnectResponse_wrapper = exp_skel_OnProxyConnectResponse_wrapper.
Proof. vm_compute. reflexivity. Qed.
Lemma ob_skel_readAllWithin : skel_readAllWithin = exp_skel_readAllWithin.
Proof. vm_compute. reflexivity. Qed.
Lemma ob_reject_reads_body_only_when_length_positive : reject_reads_body_only_when_length_positive = true.
Proof. vm_compute. reflexivity. Qed.
Lemma ob_reject_body_read_is_bounded : reject_body_read_is_bounded = true.
Proof. vm_compute. reflexivity. Qed.
