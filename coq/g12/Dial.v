(* G12.Dial — the two places between "a connection has been dialled" and "the caller owns it":

   net.go Dialer.dialContext  — the retry loop: up to `attempts` dial attempts, the error of a failed attempt is
     recorded in lastErr, `return nil, lastErr` after the loop.  Dialer.DialContext wraps the connection it gets
     whenever the error is nil: a (nil, nil) result makes it dereference a nil connection — a panic in a goroutine
     without recover, i.e. the process dies.
   dialvia/http.go HTTPProxyDialer.DialContextR — after the dial to the upstream proxy: build the CONNECT
     header, write, flush, wait for {context done, read error, response}.  Every failure must close the dialled
     connection exactly once (it is counted in dialer_cx_active), success hands it to the caller unclosed.

   Each function has a flag for the shape of the source (read by the translator); the other value of the flag is a
   faithful model of the shape that does not have the property, with a witness. *)
From Coq Require Import List Bool Arith ZArith Lia.
Import ListNotations.

(* ---- the retry loop -------------------------------------------------------------------------------------- *)
(* outcome of one dial attempt; for a failure: has the caller's context ended meanwhile? *)
Inductive att := AOk | AFail (ctx_done : bool).

(* result: (a connection is returned, an error is returned) *)
(* rec_first = true: `lastErr = err` is the first thing after a failed attempt (the source);
   rec_first = false: something may leave the loop before the error is recorded — here: `if ctx.Err() != nil { break }` *)
Fixpoint dial_loop (rec_first : bool) (l : list att) (last : bool) : bool * bool :=
  match l with
  | [] => (false, last)
  | AOk :: _ => (true, false)
  | AFail done :: r =>
      if rec_first then dial_loop rec_first r true
      else if done then (false, last) else dial_loop rec_first r true
  end.

(* `if attempts <= 0 { attempts = 1 }` *)
Definition attempts_of (floor_one : bool) (n : Z) : nat :=
  if floor_one then (if (n <=? 0)%Z then 1 else Z.to_nat n) else Z.to_nat n.

Lemma attempts_positive : forall n, (1 <= attempts_of true n)%nat.
Proof.
  intro n. unfold attempts_of. destruct (n <=? 0)%Z eqn:E; [lia|].
  apply Z.leb_gt in E. lia.
Qed.

Lemma dial_loop_recorded : forall l, dial_loop true l true = (true, false) \/ dial_loop true l true = (false, true).
Proof.
  induction l as [|a r IH]; simpl; [right; reflexivity|].
  destruct a; [left; reflexivity|exact IH].
Qed.

(* the loop as the source has it never returns (nil, nil) once it made an attempt, and never a connection AND an error *)
Lemma dial_never_nil_nil : forall l, l <> [] ->
  dial_loop true l false = (true, false) \/ dial_loop true l false = (false, true).
Proof.
  intros [|a r] H; [congruence|]. simpl. destruct a; [left; reflexivity|apply dial_loop_recorded].
Qed.

(* a connection is returned iff some attempt succeeded *)
Lemma dial_returns_conn_iff : forall l last, fst (dial_loop true l last) = existsb (fun a => match a with AOk => true | _ => false end) l.
Proof.
  induction l as [|a r IH]; intro last; simpl; [reflexivity|].
  destruct a; simpl; [reflexivity|apply IH].
Qed.

(* DialContext: wraps the connection iff the error is nil; "wraps a nil connection" is the crash *)
Definition wraps_nil (res : bool * bool) : bool := negb (fst res) && negb (snd res).

Lemma dial_context_never_wraps_nil : forall n (results : nat -> att),
  wraps_nil (dial_loop true (map results (seq 0 (attempts_of true n))) false) = false.
Proof.
  intros n results.
  assert (H : map results (seq 0 (attempts_of true n)) <> []).
  { pose proof (attempts_positive n) as P. destruct (attempts_of true n); [lia|]. simpl. discriminate. }
  destruct (dial_never_nil_nil _ H) as [E|E]; rewrite E; reflexivity.
Qed.

(* the other shape: one attempt interrupted by the end of the caller's context gives (nil, nil) *)
Lemma dial_break_before_record_wraps_nil : wraps_nil (dial_loop false [AFail true] false) = true.
Proof. reflexivity. Qed.
(* without the floor, attempts = 0 gives (nil, nil) without any attempt *)
Lemma dial_zero_attempts_wraps_nil : forall results,
  wraps_nil (dial_loop true (map results (seq 0 (attempts_of false 0))) false) = true.
Proof. reflexivity. Qed.

(* ---- CONNECT through an upstream proxy ------------------------------------------------------------------- *)
(* where DialContextR fails after the dial succeeded *)
Inductive dv_fail := FNone | FHeader | FWrite | FFlush | FCtx | FRead.
Definition all_dv_fail := [FNone; FHeader; FWrite; FFlush; FCtx; FRead].

(* result: (the connection is handed to the caller, number of Close calls on it) *)
(* close_each = true: `conn.Close()` before every error return (the source);
   close_each = false: one deferred `if err != nil { conn.Close() }` on the function's err, where the header step
   declares its own err (`headers, err := ...`) and so never sets the one the deferred function tests *)
Definition dialvia (close_each : bool) (f : dv_fail) : bool * nat :=
  match f with
  | FNone => (true, 0)
  | FHeader => (false, if close_each then 1 else 0)
  | _ => (false, 1)
  end.

Lemma dialvia_owned_or_closed_once : forall f,
  dialvia true f = (true, 0) \/ dialvia true f = (false, 1).
Proof. intros []; simpl; auto. Qed.

Lemma dialvia_handed_over_only_on_success : forall f, fst (dialvia true f) = true <-> f = FNone.
Proof. intros []; simpl; split; intro H; try reflexivity; try discriminate. Qed.

Lemma dialvia_deferred_close_leaks : dialvia false FHeader = (false, 0).
Proof. reflexivity. Qed.

(* the dialer's active gauge: +1 at the dial, -1 per OnClose (at most once, T13_close_once); the connection handed to
   the caller is closed by the caller (the tunnel) *)
Definition dialvia_active (close_each : bool) (f : dv_fail) (caller_closes : bool) : Z :=
  let '(handed, closes) := dialvia close_each f in
  (1 - (if (0 <? closes)%nat then 1 else 0) - (if handed && caller_closes then 1 else 0))%Z.

Lemma dialvia_gauge_returns_to_zero : forall f, dialvia_active true f true = 0%Z.
Proof. intros []; reflexivity. Qed.
