(* G12.PromProofs — the Prometheus middleware model of Check.v (the very
   functions evaluated on the implementation's traces) applied to the traces the
   exchange model produces: in-flight gauge and request counter. *)
From Coq Require Import List Bool Arith ZArith Lia.
From FwdLib Require Import Bytes.
From G12 Require Import Tables Errors Exchange Conntrack Check ExchangeProofs.
Import ListNotations.
Local Open Scope Z_scope.

Lemma gauge_get_add l k d g :
  gauge_get l (gauge_add k d g) = gauge_get l g + (if str_eqb l k then d else 0).
Proof.
  induction g as [|[k' v] r IH]; cbn [gauge_add gauge_get].
  - destruct (str_eqb l k); lia.
  - destruct (str_eqb k k') eqn:E; cbn [gauge_get].
    + apply str_eqb_eq in E. subst k'. destruct (str_eqb l k); lia.
    + destruct (str_eqb l k') eqn:E2.
      * apply str_eqb_eq in E2. subst k'. rewrite str_eqb_sym, E. lia.
      * exact IH.
Qed.

Fixpoint tdelta (l : str) (tr : list tev) : Z :=
  match tr with
  | [] => 0
  | e :: r => (if t_read e then (if t_hasreq e then ind (t_label e) l else 0) else - ind (t_label e) l) + tdelta l r
  end.

Lemma tdelta_app l a c : tdelta l (a ++ c) = tdelta l a + tdelta l c.
Proof. induction a as [|e r IH]; cbn [app tdelta]; [lia | rewrite IH; lia]. Qed.

Lemma prom_inflight_get l tr : trace_read_guards_nil_req = true ->
  forall g, gauge_get l (prom_inflight tr g) = gauge_get l g + tdelta l tr.
Proof.
  intro G. induction tr as [|e r IH]; intro g; cbn [prom_inflight tdelta]; [lia|].
  rewrite G. cbn [negb orb]. rewrite orb_false_r.
  destruct (t_read e).
  - destruct (t_hasreq e).
    + rewrite IH, gauge_get_add. unfold ind. rewrite (str_eqb_sym l). destruct (str_eqb (t_label e) l); lia.
    + rewrite IH. lia.
  - rewrite IH, gauge_get_add. unfold ind. rewrite (str_eqb_sym l). destruct (str_eqb (t_label e) l); lia.
Qed.

Lemma tdelta_project x l evs : forall a, tdelta l (project x a evs) = inflight_delta (x_method x) evs l.
Proof.
  induction evs as [|e r IH]; intro a; [reflexivity|].
  destruct e as [[|]| | | | | | |s [|] err| | |]; cbn [project tdelta inflight_delta t_read t_hasreq t_label label_of];
    rewrite ?IH; unfold connect_s; lia.
Qed.

Definition exs_ok (xs : list ex) : Prop :=
  forall x, In x xs -> active (x_val x) = true \/ v_rd (x_val x) <> RdOk.

Lemma tdelta_flat l xs :
  table_flags = good_flags ->
  tdelta l (flat_map trace_of xs) = seq_delta (map (fun x => (x_method x, x_val x)) xs) l.
Proof.
  intro T. induction xs as [|x r IH]; [reflexivity|].
  cbn [flat_map map seq_delta fold_right]. rewrite tdelta_app, IH. unfold trace_of, run. rewrite T, tdelta_project.
  reflexivity.
Qed.

(* in-flight gauge: zero for every label after any sequence of exchanges *)
Lemma gauge_zero xs l :
  table_flags = good_flags -> trace_read_guards_nil_req = true -> exs_ok xs ->
  gauge_get l (prom_inflight (flat_map trace_of xs) []) = 0.
Proof.
  intros T G H. rewrite prom_inflight_get by exact G. cbn [gauge_get]. rewrite tdelta_flat by exact T.
  rewrite gauge_zero_seq; [reflexivity|].
  intros y Hy. apply in_map_iff in Hy as (x & <- & Hx). exact (H x Hx).
Qed.

(* ---- requests_total ---- *)
Lemma zsum_add k d g : zsum (gauge_add k d g) = zsum g + d.
Proof.
  induction g as [|[k' v] r IH]; cbn [gauge_add zsum fold_right snd]; [lia|].
  destruct (str_eqb k k'); cbn [zsum fold_right snd]; [lia|]. fold (zsum (gauge_add k d r)). rewrite IH.
  fold (zsum r). lia.
Qed.

Definition n_wrotes (tr : list tev) : Z := Z.of_nat (length (filter (fun e => negb (t_read e)) tr)).

Lemma prom_total_sum tr : forall g, zsum (prom_total tr g) = zsum g + n_wrotes tr.
Proof.
  unfold n_wrotes. induction tr as [|e r IH]; intro g; cbn [prom_total filter length]; [simpl; lia|].
  destruct (t_read e); cbn [negb]; [rewrite IH; lia|].
  rewrite IH, zsum_add. cbn [length]. lia.
Qed.

Lemma n_wrotes_app a c : n_wrotes (a ++ c) = n_wrotes a + n_wrotes c.
Proof. unfold n_wrotes. rewrite filter_app, app_length. lia. Qed.

Lemma n_wrotes_project x evs : forall a, n_wrotes (project x a evs) = Z.of_nat (count is_wrote evs).
Proof.
  unfold n_wrotes, count. induction evs as [|e r IH]; intro a; [reflexivity|].
  destruct e; cbn [project filter t_read negb is_wrote length]; rewrite ?IH; try reflexivity.
  rewrite !Nat2Z.inj_succ, IH. reflexivity.
Qed.

Lemma n_wrotes_flat xs :
  table_flags = good_flags ->
  n_wrotes (flat_map trace_of xs) = Z.of_nat (seq_total (map x_val xs)).
Proof.
  intro T. induction xs as [|x r IH]; [reflexivity|].
  change (flat_map trace_of (x :: r)) with (trace_of x ++ flat_map trace_of r).
  change (seq_total (map x_val (x :: r))) with (total_delta (run_with good_flags (x_val x)) + seq_total (map x_val r))%nat.
  rewrite n_wrotes_app, Nat2Z.inj_add, IH. unfold trace_of, run. rewrite T, n_wrotes_project.
  reflexivity.
Qed.

Lemma total_counts_requests xs :
  table_flags = good_flags -> exs_ok xs ->
  zsum (prom_total (flat_map trace_of xs) []) = Z.of_nat (seq_requests (map x_val xs)).
Proof.
  intros T H. rewrite prom_total_sum. cbn [zsum fold_right].
  rewrite <- total_is_requests by (intros v Hv; apply in_map_iff in Hv as (x & <- & Hx); exact (H x Hx)).
  rewrite n_wrotes_flat by exact T. lia.
Qed.
