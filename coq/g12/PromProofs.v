(* G12.PromProofs — the Prometheus middleware model of Check.v (the very
   functions evaluated on the implementation's traces) applied to the traces the
   exchange model produces: in-flight gauge and request counter. *)
From Coq Require Import List Bool Arith ZArith Lia.
From FwdLib Require Import Bytes.
From G12 Require Import Tables Errors Exchange Conntrack Check ExchangeProofs.
Import ListNotations.
Local Open Scope Z_scope.

Lemma gauge_get_add l k d g :
  gauge_get l (gauge_add k d g) = gauge_get l g + (if str_eqb l k then d else 0).
Proof.
  induction g as [|[k' v] r IH]; cbn [gauge_add gauge_get].
  - destruct (str_eqb l k); lia.
  - destruct (str_eqb k k') eqn:E; cbn [gauge_get].
    + apply str_eqb_eq in E. subst k'. destruct (str_eqb l k); lia.
    + destruct (str_eqb l k') eqn:E2.
      * apply str_eqb_eq in E2. subst k'. rewrite str_eqb_sym, E. lia.
      * exact IH.
Qed.

Fixpoint tdelta (l : str) (tr : list tev) : Z :=
  match tr with
  | [] => 0
  | e :: r => (if t_read e then (if t_hasreq e then ind (t_label e) l else 0) else - ind (t_label e) l) + tdelta l r
  end.

Lemma tdelta_app l a c : tdelta l (a ++ c) = tdelta l a + tdelta l c.
Proof. induction a as [|e r IH]; cbn [app tdelta]; [lia | rewrite IH; lia]. Qed.

Lemma prom_inflight_get l tr : trace_read_guards_nil_req = true ->
  forall g, gauge_get l (prom_inflight tr g) = gauge_get l g + tdelta l tr.
Proof.
  intro G. induction tr as [|e r IH]; intro g; cbn [prom_inflight tdelta]; [lia|].
  rewrite G. cbn [negb orb]. rewrite orb_false_r.
  destruct (t_read e).
  - destruct (t_hasreq e).
    + rewrite IH, gauge_get_add. unfold ind. rewrite (str_eqb_sym l). destruct (str_eqb (t_label e) l); lia.
    + rewrite IH. lia.
  - rewrite IH, gauge_get_add. unfold ind. rewrite (str_eqb_sym l). destruct (str_eqb (t_label e) l); lia.
Qed.

Lemma tdelta_project x l evs : forall a, tdelta l (project x a evs) = inflight_delta (x_method x) evs l.
Proof.
  induction evs as [|e r IH]; intro a; [reflexivity|].
  destruct e as [[|]| | | | | | |s [|] err| | |]; cbn [project tdelta inflight_delta t_read t_hasreq t_label label_of];
    rewrite ?IH; unfold connect_s; lia.
Qed.

Definition exs_ok (xs : list ex) : Prop :=
  forall x, In x xs -> active (x_val x) = true \/ v_rd (x_val x) <> RdOk.

Lemma tdelta_flat l xs :
  table_flags = good_flags ->
  tdelta l (flat_map trace_of xs) = seq_delta (map (fun x => (x_method x, x_val x)) xs) l.
Proof.
  intro T. induction xs as [|x r IH]; [reflexivity|].
  cbn [flat_map map seq_delta fold_right]. rewrite tdelta_app, IH. unfold trace_of, run. rewrite T, tdelta_project.
  reflexivity.
Qed.

(* in-flight gauge: zero for every label after any sequence of exchanges *)
Lemma gauge_zero xs l :
  table_flags = good_flags -> trace_read_guards_nil_req = true -> exs_ok xs ->
  gauge_get l (prom_inflight (flat_map trace_of xs) []) = 0.
Proof.
  intros T G H. rewrite prom_inflight_get by exact G. cbn [gauge_get]. rewrite tdelta_flat by exact T.
  rewrite gauge_zero_seq; [reflexivity|].
  intros y Hy. apply in_map_iff in Hy as (x & <- & Hx). exact (H x Hx).
Qed.

(* ---- requests_total ---- *)
Lemma zsum_add k d g : zsum (gauge_add k d g) = zsum g + d.
Proof.
  induction g as [|[k' v] r IH]; cbn [gauge_add zsum fold_right snd]; [lia|].
  destruct (str_eqb k k'); cbn [zsum fold_right snd]; [lia|]. fold (zsum (gauge_add k d r)). rewrite IH.
  fold (zsum r). lia.
Qed.

Definition n_wrotes (tr : list tev) : Z := Z.of_nat (length (filter (fun e => negb (t_read e)) tr)).

Lemma prom_total_sum tr : forall g, zsum (prom_total tr g) = zsum g + n_wrotes tr.
Proof.
  unfold n_wrotes. induction tr as [|e r IH]; intro g; cbn [prom_total filter length]; [simpl; lia|].
  destruct (t_read e); cbn [negb]; [rewrite IH; lia|].
  rewrite IH, zsum_add. cbn [length]. lia.
Qed.

Lemma n_wrotes_app a c : n_wrotes (a ++ c) = n_wrotes a + n_wrotes c.
Proof. unfold n_wrotes. rewrite filter_app, app_length. lia. Qed.

Lemma n_wrotes_project x evs : forall a, n_wrotes (project x a evs) = Z.of_nat (count is_wrote evs).
Proof.
  unfold n_wrotes, count. induction evs as [|e r IH]; intro a; [reflexivity|].
  destruct e; cbn [project filter t_read negb is_wrote length]; rewrite ?IH; try reflexivity.
  rewrite !Nat2Z.inj_succ, IH. reflexivity.
Qed.

Lemma n_wrotes_flat xs :
  table_flags = good_flags ->
  n_wrotes (flat_map trace_of xs) = Z.of_nat (seq_total (map x_val xs)).
Proof.
  intro T. induction xs as [|x r IH]; [reflexivity|].
  change (flat_map trace_of (x :: r)) with (trace_of x ++ flat_map trace_of r).
  change (seq_total (map x_val (x :: r))) with (total_delta (run_with good_flags (x_val x)) + seq_total (map x_val r))%nat.
  rewrite n_wrotes_app, Nat2Z.inj_add, IH. unfold trace_of, run. rewrite T, n_wrotes_project.
  reflexivity.
Qed.

Lemma total_counts_requests xs :
  table_flags = good_flags -> exs_ok xs ->
  zsum (prom_total (flat_map trace_of xs) []) = Z.of_nat (seq_requests (map x_val xs)).
Proof.
  intros T H. rewrite prom_total_sum. cbn [zsum fold_right].
  rewrite <- total_is_requests by (intros v Hv; apply in_map_iff in Hv as (x & <- & Hx); exact (H x Hx)).
  rewrite n_wrotes_flat by exact T. lia.
Qed.

(* ---- any number of connections at once ----
   The registry sees ONE stream of events in which the events of concurrent connections are interleaved in whatever
   order the scheduler produced.  Both series are sums over the events, so they depend on the multiset of events only:
   for ANY permutation of the events of ANY set of connections (TCP server or http.Handler variant each, any list of
   exchanges each, with the final failed read of a kept connection) the gauge is zero for every label and the counter
   equals the number of requests read. *)
From Coq Require Import Permutation.

Definition conn_events (c : bool * list ex) : list tev := conn_view (fst c) (conn_trace (snd c)).

Lemma tdelta_perm l a c : Permutation a c -> tdelta l a = tdelta l c.
Proof. induction 1; cbn [tdelta]; lia. Qed.

Lemma perm_filter {A} (f : A -> bool) a c : Permutation a c -> Permutation (filter f a) (filter f c).
Proof.
  induction 1; cbn [filter].
  - constructor.
  - destruct (f x); [constructor|]; assumption.
  - destruct (f x), (f y); first [apply perm_swap | apply Permutation_refl].
  - eapply Permutation_trans; eassumption.
Qed.

Lemma n_wrotes_perm a c : Permutation a c -> n_wrotes a = n_wrotes c.
Proof. unfold n_wrotes. intro H. f_equal. apply Permutation_length, perm_filter, H. Qed.

Lemma tdelta_view l h tr : tdelta l (conn_view h tr) = tdelta l tr.
Proof.
  destruct h; [|reflexivity]. unfold conn_view.
  induction tr as [|e r IH]; [reflexivity|]. cbn [filter tdelta].
  destruct (t_read e) eqn:R, (t_hasreq e) eqn:Q; cbn [negb orb tdelta]; rewrite ?R, ?Q, IH; lia.
Qed.

Lemma n_wrotes_view h tr : n_wrotes (conn_view h tr) = n_wrotes tr.
Proof.
  destruct h; [|reflexivity]. unfold conn_view, n_wrotes. f_equal. f_equal.
  induction tr as [|e r IH]; [reflexivity|]. cbn [filter].
  destruct (t_read e) eqn:R, (t_hasreq e) eqn:Q; cbn [negb orb filter]; rewrite ?R; cbn [negb]; rewrite IH; reflexivity.
Qed.

Lemma tdelta_conn_trace l xs : tdelta l (conn_trace xs) = tdelta l (flat_map trace_of xs).
Proof. unfold conn_trace. rewrite tdelta_app. destruct (last_keeps xs); cbn; lia. Qed.

Lemma n_wrotes_conn_trace xs : n_wrotes (conn_trace xs) = n_wrotes (flat_map trace_of xs).
Proof. unfold conn_trace. rewrite n_wrotes_app. destruct (last_keeps xs); cbn; lia. Qed.

Lemma tdelta_zero xs l : table_flags = good_flags -> exs_ok xs -> tdelta l (flat_map trace_of xs) = 0.
Proof.
  intros T H. rewrite tdelta_flat by exact T. apply gauge_zero_seq.
  intros y Hy. apply in_map_iff in Hy as (x & <- & Hx). exact (H x Hx).
Qed.

Lemma gauge_zero_concurrent conns tr l :
  table_flags = good_flags -> trace_read_guards_nil_req = true ->
  (forall c, In c conns -> exs_ok (snd c)) ->
  Permutation tr (flat_map conn_events conns) ->
  gauge_get l (prom_inflight tr []) = 0.
Proof.
  intros T G H P. rewrite prom_inflight_get by exact G. cbn [gauge_get]. rewrite (tdelta_perm l _ _ P).
  clear P. induction conns as [|c r IH]; [reflexivity|].
  cbn [flat_map]. rewrite tdelta_app. unfold conn_events at 1. rewrite tdelta_view, tdelta_conn_trace.
  rewrite tdelta_zero; [|exact T|apply H; left; reflexivity].
  rewrite Z.add_0_l in IH |- *. apply IH. intros c' Hc. apply H. right. exact Hc.
Qed.

Lemma total_concurrent conns tr :
  table_flags = good_flags ->
  (forall c, In c conns -> exs_ok (snd c)) ->
  Permutation tr (flat_map conn_events conns) ->
  zsum (prom_total tr []) = Z.of_nat (seq_requests (map x_val (flat_map snd conns))).
Proof.
  intros T H P. rewrite prom_total_sum. cbn [zsum fold_right]. rewrite (n_wrotes_perm _ _ P). clear P.
  assert (E : n_wrotes (flat_map conn_events conns) = n_wrotes (flat_map trace_of (flat_map snd conns))).
  { induction conns as [|c r IH]; [reflexivity|].
    cbn [flat_map]. rewrite flat_map_app, !n_wrotes_app. unfold conn_events at 1.
    rewrite n_wrotes_view, n_wrotes_conn_trace, IH; [reflexivity|].
    intros c' Hc. apply H. right. exact Hc. }
  rewrite E, Z.add_0_l.
  assert (K : exs_ok (flat_map snd conns)).
  { intros x Hx. apply in_flat_map in Hx as (c & Hc & Hx). exact (H c Hc x Hx). }
  pose proof (total_counts_requests _ T K) as Q. rewrite prom_total_sum in Q. cbn [zsum fold_right] in Q. lia.
Qed.
