(* C16 — table obligations: facts about the source as extracted into Tables.v
   on this run, each discharged by closed computation.  When the source changes
   shape exactly the lemma naming that shape stops checking. *)
From G16 Require Import Model.

Lemma ob_value_excludes_cr : value_excludes_cr = true.
Proof. vm_compute. reflexivity. Qed.
Lemma ob_prefix_deletes_matching_key : prefix_delete_canon = false.
Proof. vm_compute. reflexivity. Qed.
Lemma ob_rename_skips_canonical_name : rename_guard_same = true.
Proof. vm_compute. reflexivity. Qed.
Lemma ob_rename_merges_values : rename_merges = true.
Proof. vm_compute. reflexivity. Qed.
Lemma ob_empty_form_checks_name : empty_checks_name = true.
Proof. vm_compute. reflexivity. Qed.
Lemma ob_action_order :
  action_order = [b "Remove"; b "RemoveByPrefix"; b "Empty"; b "Add"; b "RenameCase"].
Proof. vm_compute. reflexivity. Qed.

From G16 Require Import WiringExpected.
(* which rule list reaches which message kind, and in which order rules are applied:
   the source statements are the ones Model.dispatch / apply_rules were transcribed from *)
Lemma ob_wiring : wiring = wiring_expected.
Proof. vm_compute. reflexivity. Qed.
