(* C16 — proofs about the channels (ModelChan.v): a list of rule strings written the
   way a user has to write it for a CSV-reading channel reaches the element parser
   unchanged, element by element, in order. *)
From G16 Require Import ModelChan.
From Coq Require Import Lia.
Local Open Scope nat_scope.

Definition nocd (c : N) : bool := negb (N.eqb c c_comma) && negb (N.eqb c c_dq).

Lemma nocd_inv c : nocd c = true -> N.eqb c c_comma = false /\ N.eqb c c_dq = false.
Proof.
  unfold nocd; intros H; apply andb_prop in H; destruct H as [H1 H2].
  split; [destruct (N.eqb c c_comma) | destruct (N.eqb c c_dq)]; simpl in *; congruence.
Qed.

Lemma csv_unq_plain_end s : forall acc, forallb nocd s = true ->
  csv_unq s acc = Some (rev acc ++ s, None).
Proof.
  induction s as [|c t IH]; intros acc H; cbn [csv_unq].
  - now rewrite app_nil_r.
  - cbn [forallb] in H; apply andb_prop in H; destruct H as [Hc Ht].
    destruct (nocd_inv c Hc) as [E1 E2]; rewrite E1, E2, (IH (c :: acc) Ht).
    cbn [rev]; now rewrite <- app_assoc.
Qed.

Lemma csv_unq_plain_comma s u : forall acc, forallb nocd s = true ->
  csv_unq (s ++ c_comma :: u) acc = Some (rev acc ++ s, Some u).
Proof.
  induction s as [|c t IH]; intros acc H; cbn [csv_unq app].
  - rewrite N.eqb_refl; now rewrite app_nil_r.
  - cbn [forallb] in H; apply andb_prop in H; destruct H as [Hc Ht].
    destruct (nocd_inv c Hc) as [E1 E2]; rewrite E1, E2, (IH (c :: acc) Ht).
    cbn [rev]; now rewrite <- app_assoc.
Qed.

Lemma dq_not_comma : N.eqb c_comma c_dq = false.
Proof. reflexivity. Qed.

Lemma csv_quo_end s : forall acc, csv_quo (csv_esc s ++ [c_dq]) acc = Some (rev acc ++ s, None).
Proof.
  induction s as [|c t IH]; intros acc.
  - cbn [csv_esc app csv_quo]; rewrite N.eqb_refl; now rewrite app_nil_r.
  - cbn [csv_esc]; destruct (N.eqb c c_dq) eqn:E.
    + apply N.eqb_eq in E; subst c.
      cbn [app csv_quo]; rewrite N.eqb_refl.
      rewrite (IH (c_dq :: acc)); cbn [rev]; now rewrite <- app_assoc.
    + cbn [app csv_quo]; rewrite E.
      rewrite (IH (c :: acc)); cbn [rev]; now rewrite <- app_assoc.
Qed.

Lemma csv_quo_comma s u : forall acc,
  csv_quo (csv_esc s ++ c_dq :: c_comma :: u) acc = Some (rev acc ++ s, Some u).
Proof.
  induction s as [|c t IH]; intros acc.
  - cbn [csv_esc app csv_quo]; rewrite N.eqb_refl, dq_not_comma, N.eqb_refl; now rewrite app_nil_r.
  - cbn [csv_esc]; destruct (N.eqb c c_dq) eqn:E.
    + apply N.eqb_eq in E; subst c.
      cbn [app csv_quo]; rewrite N.eqb_refl.
      rewrite (IH (c_dq :: acc)); cbn [rev]; now rewrite <- app_assoc.
    + cbn [app csv_quo]; rewrite E.
      rewrite (IH (c :: acc)); cbn [rev]; now rewrite <- app_assoc.
Qed.

Lemma plainb_inv s : csv_plainb s = true -> s <> [] /\ forallb nocd s = true.
Proof.
  unfold csv_plainb; intros H; apply andb_prop in H; destruct H as [H1 H2]; split.
  - destruct s; [discriminate | congruence].
  - exact H2.
Qed.

Lemma plain_head s : csv_plainb s = true ->
  exists c t, s = c :: t /\ N.eqb c c_dq = false.
Proof.
  intros H; destruct (plainb_inv s H) as [Hn Hf].
  destruct s as [|c t]; [congruence|].
  exists c, t; split; [reflexivity|].
  cbn [forallb] in Hf; apply andb_prop in Hf; destruct Hf as [Hc _].
  exact (proj2 (nocd_inv c Hc)).
Qed.

Lemma csv_field_enc1_end s : csv_field (csv_enc1 s) = Some (s, None).
Proof.
  unfold csv_enc1; destruct (csv_plainb s) eqn:P.
  - destruct (plain_head s P) as (c & t & -> & E).
    unfold csv_field; rewrite E.
    rewrite (csv_unq_plain_end (c :: t) [] (proj2 (plainb_inv _ P))); reflexivity.
  - unfold csv_quote, csv_field; rewrite N.eqb_refl.
    rewrite (csv_quo_end s []); reflexivity.
Qed.

Lemma csv_field_enc1_comma s u : csv_field (csv_enc1 s ++ c_comma :: u) = Some (s, Some u).
Proof.
  unfold csv_enc1; destruct (csv_plainb s) eqn:P.
  - destruct (plain_head s P) as (c & t & -> & E).
    unfold csv_field; cbn [app]; rewrite E.
    change (c :: t ++ c_comma :: u) with ((c :: t) ++ c_comma :: u).
    rewrite (csv_unq_plain_comma (c :: t) u [] (proj2 (plainb_inv _ P))); reflexivity.
  - unfold csv_quote, csv_field; cbn [app]; rewrite N.eqb_refl.
    rewrite <- app_assoc; cbn [app].
    rewrite (csv_quo_comma s u []); reflexivity.
Qed.

Lemma csv_fields_join : forall l fuel, l <> [] -> length l <= fuel ->
  csv_fields fuel (csv_join l) = Some l.
Proof.
  induction l as [|x r IH]; intros fuel Hn Hf; [congruence|].
  destruct fuel as [|f]; [cbn [length] in Hf; lia|].
  destruct r as [|y r'].
  - cbn [csv_join csv_fields]; now rewrite csv_field_enc1_end.
  - change (csv_join (x :: y :: r')) with (csv_enc1 x ++ c_comma :: csv_join (y :: r')).
    cbn [csv_fields]; rewrite csv_field_enc1_comma.
    rewrite (IH f); [reflexivity | discriminate | cbn [length] in *; lia].
Qed.

Lemma enc1_nonempty s : 1 <= length (csv_enc1 s).
Proof.
  unfold csv_enc1; destruct (csv_plainb s) eqn:P.
  - destruct (plain_head s P) as (c & t & -> & _); cbn [length]; lia.
  - unfold csv_quote; cbn [length]; lia.
Qed.

Lemma length_join l : length l <= length (csv_join l).
Proof.
  induction l as [|x r IH]; [cbn; lia|].
  destruct r as [|y r'].
  - cbn [csv_join length]; pose proof (enc1_nonempty x); lia.
  - change (csv_join (x :: y :: r')) with (csv_enc1 x ++ c_comma :: csv_join (y :: r')).
    rewrite app_length; cbn [length] in *; pose proof (enc1_nonempty x); lia.
Qed.

Lemma csv_line_join l : l <> [] -> csv_line (csv_join l) = Some l.
Proof.
  intros Hn; unfold csv_line.
  pose proof (length_join l) as HL.
  destruct (csv_join l) as [|c t] eqn:E.
  - destruct l; [congruence | cbn [length] in HL; lia].
  - rewrite <- E in *; apply csv_fields_join; [exact Hn | lia].
Qed.

(* a plain string needs no quoting at all *)
Lemma csv_line_plain s : csv_plainb s = true -> csv_line s = Some [s].
Proof.
  intros P; pose proof (csv_line_join [s]) as H.
  cbn [csv_join] in H; unfold csv_enc1 in H; rewrite P in H; apply H; discriminate.
Qed.

(* ---- parse_all *)
Lemma parse_all_app a : forall c,
  parse_all (a ++ c) = match parse_all a, parse_all c with
                       | Some x, Some y => Some (x ++ y)
                       | _, _ => None
                       end.
Proof.
  induction a as [|s r IH]; intros c; cbn [app parse_all].
  - destruct (parse_all c); reflexivity.
  - rewrite IH; destruct (parse_rule s), (parse_all r), (parse_all c); reflexivity.
Qed.

Lemma parse_all_spec ss : forall rs,
  parse_all ss = Some rs <-> Forall2 (fun s r => parse_rule s = Some r) ss rs.
Proof.
  induction ss as [|s r IH]; intros rs; cbn [parse_all]; split; intros H.
  - injection H as <-; constructor.
  - inversion H; reflexivity.
  - destruct (parse_rule s) eqn:E1; [|discriminate].
    destruct (parse_all r) eqn:E2; [|discriminate].
    injection H as <-; constructor; [exact E1 | apply IH; reflexivity].
  - inversion H as [|s0 x l l' Hx Hl]; subst.
    rewrite Hx; apply IH in Hl; rewrite Hl; reflexivity.
Qed.

(* ---- Set / Replace *)
Lemma slice_set_join cur g : g <> [] ->
  slice_set cur (csv_join g) =
  option_map (fun rs => (true, if fst cur then snd cur ++ rs else rs)) (parse_all g).
Proof.
  intros Hg; unfold slice_set; rewrite (csv_line_join g Hg).
  destruct (parse_all g); reflexivity.
Qed.

Lemma slice_set_all_true groups : forall cur,
  Forall (fun g => g <> []) groups ->
  slice_set_all (true, cur) (map csv_join groups) =
  option_map (fun rs => (true, cur ++ rs)) (parse_all (concat groups)).
Proof.
  induction groups as [|g r IH]; intros cur HF; cbn [map slice_set_all concat].
  - cbn [parse_all option_map]; now rewrite app_nil_r.
  - inversion HF as [|g0 r0 Hg Hr]; subst.
    rewrite (slice_set_join (true, cur) g Hg), parse_all_app; cbn [fst snd].
    destruct (parse_all g) as [x|]; cbn [option_map]; [|reflexivity].
    rewrite (IH (cur ++ x) Hr).
    destruct (parse_all (concat r)) as [y|]; cbn [option_map]; [|reflexivity].
    now rewrite app_assoc.
Qed.

Lemma slice_set_all_first groups :
  groups <> [] -> Forall (fun g => g <> []) groups ->
  option_map snd (slice_set_all (false, []) (map csv_join groups)) = parse_all (concat groups).
Proof.
  intros Hn HF; destruct groups as [|g r]; [congruence|].
  inversion HF as [|g0 r0 Hg Hr]; subst.
  cbn [map slice_set_all concat].
  rewrite (slice_set_join (false, []) g Hg), parse_all_app; cbn [fst snd].
  destruct (parse_all g) as [x|]; cbn [option_map]; [|reflexivity].
  rewrite (slice_set_all_true r x Hr).
  destruct (parse_all (concat r)) as [y|]; reflexivity.
Qed.

(* ---- the three channels *)
Lemma flags_transparent groups env file :
  groups <> [] -> Forall (fun g => g <> []) groups ->
  rules_in_effect {| ci_flags := map csv_join groups; ci_env := env; ci_file := file |} =
  parse_all (concat groups).
Proof.
  intros Hn HF; unfold rules_in_effect; cbn [ci_flags].
  destruct groups as [|g r]; [congruence|].
  change (map csv_join (g :: r)) with (csv_join g :: map csv_join r).
  change (csv_join g :: map csv_join r) with (map csv_join (g :: r)).
  destruct (map csv_join (g :: r)) as [|a args] eqn:E; [discriminate|].
  rewrite <- E; apply slice_set_all_first; assumption.
Qed.

Lemma env_transparent l file : l <> [] ->
  rules_in_effect {| ci_flags := []; ci_env := csv_join l; ci_file := file |} = parse_all l.
Proof.
  intros Hn; unfold rules_in_effect; cbn [ci_flags ci_env].
  pose proof (length_join l) as HL.
  destruct (csv_join l) as [|c t] eqn:E.
  - destruct l; [congruence | cbn [length] in HL; lia].
  - rewrite <- E, (slice_set_join (false, []) l Hn); cbn [fst].
    destruct (parse_all l); reflexivity.
Qed.

Lemma file_list_transparent l :
  rules_in_effect {| ci_flags := []; ci_env := []; ci_file := FileList l |} = parse_all l.
Proof. reflexivity. Qed.

Lemma file_scalar_transparent l : l <> [] ->
  rules_in_effect {| ci_flags := []; ci_env := []; ci_file := FileScalar (csv_join l) |} = parse_all l.
Proof.
  intros Hn; unfold rules_in_effect; cbn [ci_flags ci_env ci_file].
  rewrite (slice_set_join (false, []) l Hn); cbn [fst].
  destruct (parse_all l); reflexivity.
Qed.

(* precedence: what is given on the command line hides the other two sources *)
Lemma flags_hide_rest a args env file env' file' :
  rules_in_effect {| ci_flags := a :: args; ci_env := env; ci_file := file |} =
  rules_in_effect {| ci_flags := a :: args; ci_env := env'; ci_file := file' |}.
Proof. reflexivity. Qed.

Lemma env_hides_file c t file file' :
  rules_in_effect {| ci_flags := []; ci_env := c :: t; ci_file := file |} =
  rules_in_effect {| ci_flags := []; ci_env := c :: t; ci_file := file' |}.
Proof. reflexivity. Qed.

(* an unquoted comma always separates: a rule string with a comma written as it is
   never reaches the parser in one piece (why such values need quotes or the file) *)
Lemma bare_comma_splits s u : forallb nocd s = true ->
  csv_field (s ++ c_comma :: u) = Some (s, Some u) \/ s = [].
Proof.
  intros H; destruct s as [|c t]; [now right|left].
  cbn [forallb] in H; apply andb_prop in H; destruct H as [Hc Ht].
  unfold csv_field; cbn [app]; rewrite (proj2 (nocd_inv c Hc)).
  change (c :: t ++ c_comma :: u) with ((c :: t) ++ c_comma :: u).
  rewrite (csv_unq_plain_comma (c :: t) u []); [reflexivity|].
  cbn [forallb]; now rewrite Hc, Ht.
Qed.

(* a string that parses can be given through a flag: quoted if need be *)
Lemma one_rule_through_flag x r : parse_rule x = Some r ->
  rules_in_effect {| ci_flags := [csv_enc1 x]; ci_env := []; ci_file := FileAbsent |} = Some [r].
Proof.
  intros H.
  pose proof (flags_transparent [[x]] [] FileAbsent) as T.
  cbn [map csv_join concat app] in T.
  rewrite T; [cbn [parse_all]; now rewrite H | discriminate | repeat constructor; discriminate].
Qed.
