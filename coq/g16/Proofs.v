(* C16 — lemmas.  Generic lemmas take the facts they need about the source
   (Tables.v flags) as hypotheses; C16.v discharges them by computation. *)
From Coq Require Import Permutation.
From G16 Require Import Model Check.

(* ------------------------------------------------------------------ *)
(* one-step: the applier computes the documented meaning (pointwise)   *)

Definition Spec (r : rule) (h h' : hmap) : Prop := forall k, raw_get k h' = spec_get r h k.

Inductive Specs : list rule -> hmap -> hmap -> Prop :=
| Specs_nil h h' : hequiv h h' -> Specs [] h h'
| Specs_cons r rs h hm h' : Spec r h hm -> Specs rs hm h' -> Specs (r :: rs) h h'.

Lemma raw_get_filter_keys (f : str -> bool) h k :
  raw_get k (filter (fun kv => f (fst kv)) h) = if f k then raw_get k h else None.
Proof.
  induction h as [|[k' vs] r IH]; simpl; [destruct (f k); reflexivity|].
  destruct (f k') eqn:Ek'; simpl.
  - destruct (str_eqb k k') eqn:E; [apply str_eqb_eq in E; subst; rewrite Ek'; reflexivity | exact IH].
  - destruct (str_eqb k k') eqn:E; [apply str_eqb_eq in E; subst; rewrite Ek' in *; exact IH | exact IH].
Qed.

(* the prefix loop with exact deletion: order-independent characterisation *)
Lemma prefix_loop_get p order : prefix_delete_canon = false -> forall h k,
  raw_get k (remove_by_prefix_order p order h) =
  if fold_prefix k p && existsb (str_eqb k) order then None else raw_get k h.
Proof.
  intro Hflag. unfold remove_by_prefix_order.
  induction order as [|o order IH]; intros h k; cbn [fold_left existsb].
  - rewrite andb_false_r. reflexivity.
  - rewrite IH. unfold prefix_step. rewrite Hflag.
    destruct (str_eqb k o) eqn:Eko.
    + apply str_eqb_eq in Eko. subst o. simpl.
      destruct (fold_prefix k p) eqn:Ep; simpl.
      * destruct (existsb (str_eqb k) order); [reflexivity | apply raw_get_del_same].
      * reflexivity.
    + simpl. destruct (fold_prefix k p && existsb (str_eqb k) order); [reflexivity|].
      destruct (fold_prefix o p); [|reflexivity].
      apply raw_get_del_other. apply str_eqb_neq. exact Eko.
Qed.

Lemma existsb_str_in k l : existsb (str_eqb k) l = true <-> In k l.
Proof.
  rewrite existsb_exists. split.
  - intros [x [Hin E]]. apply str_eqb_eq in E. subst. exact Hin.
  - intro H. exists k. split; [exact H | apply str_eqb_refl].
Qed.

Lemma prefix_order_irrelevant p o1 o2 h :
  prefix_delete_canon = false ->
  (forall x, In x o1 <-> In x o2) ->
  hequiv (remove_by_prefix_order p o1 h) (remove_by_prefix_order p o2 h).
Proof.
  intros Hf Hio k. rewrite !prefix_loop_get by exact Hf.
  assert (existsb (str_eqb k) o1 = existsb (str_eqb k) o2) as ->; [|reflexivity].
  destruct (existsb (str_eqb k) o1) eqn:E1, (existsb (str_eqb k) o2) eqn:E2; try reflexivity.
  - apply existsb_str_in in E1. apply Hio in E1. apply existsb_str_in in E1. congruence.
  - apply existsb_str_in in E2. apply Hio in E2. apply existsb_str_in in E2. congruence.
Qed.

Lemma remove_by_prefix_get p h k : prefix_delete_canon = false ->
  raw_get k (remove_by_prefix p h) = if fold_prefix k p then None else raw_get k h.
Proof.
  intro Hf. unfold remove_by_prefix. rewrite prefix_loop_get by exact Hf.
  destruct (fold_prefix k p); simpl; [|reflexivity].
  destruct (existsb (str_eqb k) (keys h)) eqn:E; [reflexivity|].
  simpl. apply raw_get_none_notin. intro Hin. apply existsb_str_in in Hin. congruence.
Qed.

Lemma str_eqb_false_ne x y : str_eqb x y = false -> x <> y.
Proof. apply str_eqb_neq. Qed.

Lemma apply_is_spec r h :
  prefix_delete_canon = false -> rename_guard_same = true -> rename_merges = true ->
  Spec r h (apply_rule r h).
Proof.
  intros Hp Hg Hm k. unfold apply_rule, spec_get.
  destruct (r_act r).
  - (* Remove *) unfold h_del. destruct (str_eqb k (canon (r_name r))) eqn:E.
    + apply str_eqb_eq in E. subst. apply raw_get_del_same.
    + apply raw_get_del_other. apply str_eqb_neq. exact E.
  - (* RemoveByPrefix *) apply remove_by_prefix_get. exact Hp.
  - (* Empty *) unfold h_set. destruct (str_eqb k (canon (r_name r))) eqn:E.
    + apply str_eqb_eq in E. subst. apply raw_get_set_same.
    + apply raw_get_set_other. apply str_eqb_neq. exact E.
  - (* Add *) unfold h_add, h_values. destruct (str_eqb k (canon (r_name r))) eqn:E.
    + apply str_eqb_eq in E. subst. rewrite raw_get_set_same. reflexivity.
    + apply raw_get_set_other. apply str_eqb_neq. exact E.
  - (* RenameCase *) unfold rename_case. rewrite Hg, Hm.
    destruct (raw_get (canon (r_name r)) h) as [vs|] eqn:Ec; [|reflexivity].
    destruct (str_eqb (r_name r) (canon (r_name r))) eqn:En; cbn [andb]; [reflexivity|].
    apply str_eqb_false_ne in En.
    destruct (str_eqb k (r_name r)) eqn:Ek.
    + apply str_eqb_eq in Ek. subst k. rewrite raw_get_del_other by exact En.
      apply raw_get_set_same.
    + apply str_eqb_false_ne in Ek. destruct (str_eqb k (canon (r_name r))) eqn:Ek2.
      * apply str_eqb_eq in Ek2. subst k. apply raw_get_del_same.
      * apply str_eqb_false_ne in Ek2. rewrite raw_get_del_other by exact Ek2.
        apply raw_get_set_other. exact Ek.
Qed.

Lemma spec_get_equiv r h1 h2 k : hequiv h1 h2 -> spec_get r h1 k = spec_get r h2 k.
Proof. intro H. unfold spec_get. rewrite !H. destruct (r_act r); rewrite ?H; reflexivity. Qed.

Lemma Spec_functional r h1 h2 a c : hequiv h1 h2 -> Spec r h1 a -> Spec r h2 c -> hequiv a c.
Proof. intros He Ha Hc k. rewrite Ha, Hc. apply spec_get_equiv. exact He. Qed.

Lemma Specs_functional rs : forall h1 h2 a c,
  hequiv h1 h2 -> Specs rs h1 a -> Specs rs h2 c -> hequiv a c.
Proof.
  induction rs as [|r rs IH]; intros h1 h2 a c He Ha Hc; inversion Ha; inversion Hc; subst.
  - eapply hequiv_trans; [apply hequiv_sym; eassumption|].
    eapply hequiv_trans; [exact He | assumption].
  - eapply IH; [|eassumption|eassumption]. eapply Spec_functional; eassumption.
Qed.

Lemma apply_rules_specs rs :
  prefix_delete_canon = false -> rename_guard_same = true -> rename_merges = true ->
  forall h, Specs rs h (apply_rules rs h).
Proof.
  intros Hp Hg Hm. unfold apply_rules.
  induction rs as [|r rs IH]; intro h; cbn [fold_left].
  - constructor. apply hequiv_refl.
  - econstructor; [apply apply_is_spec; assumption | apply IH].
Qed.

(* ------------------------------------------------------------------ *)
(* well-formedness is preserved                                        *)

Lemma wf_filter f h : wf h -> wf (filter f h).
Proof.
  unfold wf, keys. induction h as [|[k vs] r IH]; simpl; intro H; [constructor|].
  inversion H as [|? ? Hnin Hnd]; subst. destruct (f (k, vs)); simpl; [|apply IH; exact Hnd].
  constructor; [|apply IH; exact Hnd].
  intro Hin. apply Hnin. apply in_map_iff in Hin as [[k' vs'] [E Hin]]. simpl in E. subst k'.
  apply filter_In in Hin as [Hin _]. apply in_map_iff. exists (k, vs'). split; [reflexivity | exact Hin].
Qed.

Lemma wf_prefix_loop p order : forall h, wf h -> wf (remove_by_prefix_order p order h).
Proof.
  unfold remove_by_prefix_order. induction order as [|o order IH]; intros h H; cbn [fold_left]; [exact H|].
  apply IH. unfold prefix_step. destruct (fold_prefix o p); [|exact H].
  destruct prefix_delete_canon; apply wf_raw_del; exact H.
Qed.

Lemma wf_apply_rule r h : wf h -> wf (apply_rule r h).
Proof.
  intro H. unfold apply_rule. destruct (r_act r).
  - apply wf_raw_del. exact H.
  - apply wf_prefix_loop. exact H.
  - apply wf_raw_set. exact H.
  - apply wf_raw_set. exact H.
  - unfold rename_case. destruct (raw_get (canon (r_name r)) h); [|exact H].
    destruct (rename_guard_same && str_eqb (r_name r) (canon (r_name r))); [exact H|].
    apply wf_raw_del. apply wf_raw_set. exact H.
Qed.

Lemma wf_apply_rules rs : forall h, wf h -> wf (apply_rules rs h).
Proof.
  unfold apply_rules. induction rs as [|r rs IH]; intros h H; cbn [fold_left]; [exact H|].
  apply IH. apply wf_apply_rule. exact H.
Qed.

(* ------------------------------------------------------------------ *)
(* %name is conservative: values (multiset) and folded key set          *)

Lemma all_values_del k h vs : wf h -> raw_get k h = Some vs ->
  Permutation (all_values h) (vs ++ all_values (raw_del k h)).
Proof.
  unfold all_values, wf, keys. induction h as [|[k' vs'] r IH]; simpl; intros Hwf Hget; [discriminate|].
  inversion Hwf as [|? ? Hnin Hnd]; subst.
  destruct (str_eqb k k') eqn:E.
  - apply str_eqb_eq in E. subst k'. inversion Hget; subst vs'. simpl.
    assert (raw_del k r = r) as ->; [|apply Permutation_refl].
    unfold raw_del. clear - Hnin. induction r as [|[k2 v2] r IH]; simpl; [reflexivity|].
    destruct (str_eqb k k2) eqn:E2.
    + apply str_eqb_eq in E2. subst. exfalso. apply Hnin. left. reflexivity.
    + simpl. f_equal. apply IH. intro Hin. apply Hnin. right. exact Hin.
  - simpl. eapply Permutation_trans; [apply Permutation_app_head; apply IH; assumption|].
    rewrite !app_assoc. apply Permutation_app_tail. apply Permutation_app_comm.
Qed.

Lemma all_values_del_absent k h : raw_get k h = None -> raw_del k h = h.
Proof.
  induction h as [|[k' vs'] r IH]; simpl; intro H; [reflexivity|].
  destruct (str_eqb k k') eqn:E; [discriminate|]. simpl. f_equal. apply IH. exact H.
Qed.

Lemma rename_values_perm n h :
  rename_guard_same = true -> rename_merges = true -> wf h ->
  Permutation (all_values (rename_case n h)) (all_values h).
Proof.
  intros Hg Hm Hwf. unfold rename_case. rewrite Hg, Hm.
  destruct (raw_get (canon n) h) as [vs|] eqn:Ec; [|apply Permutation_refl].
  destruct (str_eqb n (canon n)) eqn:En; cbn [andb]; [apply Permutation_refl|].
  apply str_eqb_false_ne in En.
  (* after: raw_del c ((n, old ++ vs) :: raw_del n h) *)
  unfold raw_set. cbn [raw_del filter fst].
  replace (negb (str_eqb (canon n) n)) with true
    by (symmetry; apply negb_true_iff; apply str_eqb_neq; congruence).
  fold (raw_del (canon n) (raw_del n h)).
  unfold all_values at 1. cbn [map concat snd]. fold (all_values (raw_del (canon n) (raw_del n h))).
  assert (Hc' : raw_get (canon n) (raw_del n h) = Some vs).
  { rewrite raw_get_del_other by congruence. exact Ec. }
  pose proof (all_values_del (canon n) (raw_del n h) vs (wf_raw_del n h Hwf) Hc') as P1.
  destruct (raw_get n h) as [old|] eqn:Eo.
  - pose proof (all_values_del n h old Hwf Eo) as P2.
    eapply Permutation_trans; [|apply Permutation_sym; exact P2].
    rewrite <- app_assoc. apply Permutation_app_head. apply Permutation_sym. exact P1.
  - rewrite (all_values_del_absent n h Eo) in *. simpl. apply Permutation_sym. exact P1.
Qed.

Lemma lowerc_upperc c : lowerc (upperc c) = lowerc c.
Proof.
  unfold lowerc, upperc, is_upper, is_lower.
  destruct ((97 <=? c) && (c <=? 122)) eqn:E1.
  - apply andb_true_iff in E1 as [A B]. apply N.leb_le in A, B.
    replace ((65 <=? c - 32) && (c - 32 <=? 90)) with true
      by (symmetry; apply andb_true_iff; split; apply N.leb_le; lia).
    replace ((65 <=? c) && (c <=? 90)) with false
      by (symmetry; apply andb_false_iff; right; apply N.leb_gt; lia).
    lia.
  - reflexivity.
Qed.

Lemma lower_canon_go up s : lower (canon_go up s) = lower s.
Proof.
  revert up; induction s as [|c s IH]; intro up; simpl; [reflexivity|].
  f_equal; [|apply IH]. destruct up; [apply lowerc_upperc | apply lowerc_idem].
Qed.

Lemma lower_canon s : lower (canon s) = lower s.
Proof. unfold canon. destruct (forallb is_token_char s); [apply lower_canon_go | reflexivity]. Qed.

Lemma keys_raw_del_in k h x : In x (keys (raw_del k h)) <-> In x (keys h) /\ x <> k.
Proof.
  split; [apply keys_raw_del_subset|]. intros [Hin Hne].
  unfold keys, raw_del in *. apply in_map_iff in Hin as [[k' vs] [E Hin]]. simpl in E. subst k'.
  apply in_map_iff. exists (x, vs). split; [reflexivity|]. apply filter_In. split; [exact Hin|].
  simpl. apply negb_true_iff. apply str_eqb_neq. congruence.
Qed.

Lemma rename_fold_keys n h x : rename_guard_same = true ->
  In x (fold_keys (rename_case n h)) <-> In x (fold_keys h).
Proof.
  intro Hg. unfold rename_case. rewrite Hg.
  destruct (raw_get (canon n) h) as [vs|] eqn:Ec; [|tauto].
  destruct (str_eqb n (canon n)) eqn:En; cbn [andb]; [tauto|].
  apply str_eqb_false_ne in En.
  assert (Hcin : In (canon n) (keys h)).
  { destruct (in_dec (list_eq_dec N.eq_dec) (canon n) (keys h)) as [H|H]; [exact H|].
    apply raw_get_none_notin in H. congruence. }
  unfold fold_keys. rewrite !in_map_iff. split.
  - intros [k [<- Hk]]. apply keys_raw_del_in in Hk as [Hk Hne].
    unfold raw_set in Hk. simpl in Hk. destruct Hk as [<-|Hk].
    + exists (canon n). split; [apply lower_canon | exact Hcin].
    + apply keys_raw_del_in in Hk as [Hk _]. exists k. split; [reflexivity | exact Hk].
  - intros [k [<- Hk]].
    destruct (list_eq_dec N.eq_dec k (canon n)) as [->|Hne].
    + exists n. split; [symmetry; apply lower_canon|].
      apply keys_raw_del_in. split; [|exact En]. unfold raw_set. simpl. left. reflexivity.
    + exists k. split; [reflexivity|]. apply keys_raw_del_in. split; [|exact Hne].
      unfold raw_set. simpl.
      destruct (list_eq_dec N.eq_dec k n) as [->|Hn2]; [left; reflexivity|].
      right. apply keys_raw_del_in. split; assumption.
Qed.

(* ------------------------------------------------------------------ *)
(* the run-time oracle is sound: if step_prop_ok accepts an observed step,
   the observed map satisfies the documented meaning on every key          *)

Lemma forallb_probe r h h' k :
  step_prop_ok r h h' = true -> In k (probe_keys r h h') -> raw_get k h' = spec_get r h k.
Proof.
  unfold step_prop_ok. rewrite forallb_forall. intros H Hin.
  apply opt_vals_eqb_eq. apply H. exact Hin.
Qed.

Lemma step_prop_ok_sound r h h' : step_prop_ok r h h' = true -> Spec r h h'.
Proof.
  intros H k.
  destruct (in_dec (list_eq_dec N.eq_dec) k (probe_keys r h h')) as [Hin|Hnin].
  - apply forallb_probe; assumption.
  - unfold probe_keys in Hnin. simpl in Hnin.
    assert (Hn : k <> r_name r) by (intro E; apply Hnin; left; congruence).
    assert (Hc : k <> canon (r_name r)) by (intro E; apply Hnin; right; left; congruence).
    assert (Hh : raw_get k h = None).
    { apply raw_get_none_notin. intro Hi. apply Hnin. right. right. apply in_or_app. left. exact Hi. }
    assert (Hh' : raw_get k h' = None).
    { apply raw_get_none_notin. intro Hi. apply Hnin. right. right. apply in_or_app. right. exact Hi. }
    rewrite Hh'. unfold spec_get.
    apply str_eqb_neq in Hn, Hc. rewrite Hh.
    destruct (r_act r); rewrite ?Hc, ?Hn; try reflexivity.
    + destruct (fold_prefix k (r_name r)); reflexivity.
    + destruct (raw_get (canon (r_name r)) h); [|reflexivity].
      destruct (str_eqb (r_name r) (canon (r_name r))); reflexivity.
Qed.

Lemma steps_prop_ok_sound steps : forall h,
  steps_prop_ok h steps = true ->
  Specs (map fst steps) h (match rev steps with (_, hl) :: _ => hl | [] => h end).
Proof.
  induction steps as [|[r h'] rest IH]; intros h H; simpl in *.
  - constructor. apply hequiv_refl.
  - apply andb_true_iff in H as [H1 H2]. econstructor; [apply step_prop_ok_sound; exact H1|].
    specialize (IH h' H2).
    destruct (rev rest) as [|[r2 hl] rr] eqn:Er; simpl.
    + exact IH.
    + exact IH.
Qed.

(* ------------------------------------------------------------------ *)
(* CONNECT as seen by an upstream proxy: the connect rules are applied twice
   (see Model.connect_upstream_view).                                       *)

Lemma overlay_get over : forall base k,
  raw_get k (overlay base over) =
  match raw_get k (rev over) with Some vs => Some vs | None => raw_get k base end.
Proof.
  unfold overlay. induction over as [|[k' vs] over IH]; intros base k; cbn [fold_left rev fst snd].
  - reflexivity.
  - rewrite IH.
    assert (Hsplit : raw_get k (rev over ++ [(k', vs)]) =
            match raw_get k (rev over) with Some x => Some x
            | None => if str_eqb k k' then Some vs else None end).
    { generalize (rev over). intro l. induction l as [|[k2 v2] l IHl]; simpl.
      - reflexivity.
      - destruct (str_eqb k k2); [reflexivity | exact IHl]. }
    rewrite Hsplit. destruct (raw_get k (rev over)); [reflexivity|].
    destruct (str_eqb k k') eqn:E.
    + apply str_eqb_eq in E. subst. apply raw_get_set_same.
    + apply raw_get_set_other. apply str_eqb_neq. exact E.
Qed.

Lemma raw_get_rev_none k l : raw_get k l = None -> raw_get k (rev l) = None.
Proof.
  rewrite !raw_get_none_notin. intros H Hin. apply H.
  unfold keys in *. rewrite map_rev in Hin. apply in_rev. exact Hin.
Qed.

(* the strongest true statement: keys the second application does not bind are
   exactly what the rules applied once give *)
Lemma connect_view_partial cfg h k :
  raw_get k (apply_rules (connect_rules cfg) []) = None ->
  raw_get k (connect_upstream_view cfg h) = raw_get k (dispatch cfg ReqConnect h).
Proof.
  intro H. unfold connect_upstream_view. rewrite overlay_get.
  rewrite (raw_get_rev_none _ _ H). reflexivity.
Qed.

(* ------------------------------------------------------------------ *)
(* the whole-list oracle (Check.spec_fold / lcase_prop_ok) is sound      *)

Definition spec_upd (r : rule) (h acc : hmap) (k : str) : hmap :=
  match spec_get r h k with Some vs => raw_set k vs acc | None => raw_del k acc end.

Lemma spec_upd_same r h acc k : raw_get k (spec_upd r h acc k) = spec_get r h k.
Proof.
  unfold spec_upd. destruct (spec_get r h k); [apply raw_get_set_same | apply raw_get_del_same].
Qed.

Lemma spec_upd_other r h acc k x : x <> k -> raw_get x (spec_upd r h acc k) = raw_get x acc.
Proof.
  intro Hne. unfold spec_upd. destruct (spec_get r h k);
    [apply raw_get_set_other | apply raw_get_del_other]; exact Hne.
Qed.

Lemma spec_fold_step_get r h ks : forall acc x,
  raw_get x (fold_left (spec_upd r h) ks acc) =
  if existsb (str_eqb x) ks then spec_get r h x else raw_get x acc.
Proof.
  induction ks as [|k ks IH]; intros acc x; cbn [fold_left existsb]; [reflexivity|].
  rewrite IH. destruct (str_eqb x k) eqn:E; cbn [orb].
  - apply str_eqb_eq in E. subst k.
    destruct (existsb (str_eqb x) ks); [reflexivity | apply spec_upd_same].
  - destruct (existsb (str_eqb x) ks); [reflexivity|].
    apply spec_upd_other. apply str_eqb_neq. exact E.
Qed.

Lemma spec_outside_probe r h x :
  ~ In x (probe_keys r h []) -> raw_get x h = None /\ spec_get r h x = None.
Proof.
  intro Hnin. unfold probe_keys in Hnin. simpl in Hnin. rewrite app_nil_r in Hnin.
  assert (Hn : x <> r_name r) by (intro E; apply Hnin; left; congruence).
  assert (Hc : x <> canon (r_name r)) by (intro E; apply Hnin; right; left; congruence).
  assert (Hh : raw_get x h = None).
  { apply raw_get_none_notin. intro Hi. apply Hnin. right. right. exact Hi. }
  split; [exact Hh|]. unfold spec_get. apply str_eqb_neq in Hn, Hc. rewrite Hh.
  destruct (r_act r); rewrite ?Hc, ?Hn; try reflexivity.
  - destruct (fold_prefix x (r_name r)); reflexivity.
  - destruct (raw_get (canon (r_name r)) h); [|reflexivity].
    destruct (str_eqb (r_name r) (canon (r_name r))); reflexivity.
Qed.

Lemma spec_fold_one r h :
  Spec r h (fold_left (spec_upd r h) (probe_keys r h []) h).
Proof.
  intro x. rewrite spec_fold_step_get.
  destruct (existsb (str_eqb x) (probe_keys r h [])) eqn:E; [reflexivity|].
  assert (Hnin : ~ In x (probe_keys r h [])).
  { intro Hin. apply existsb_str_in in Hin. congruence. }
  destruct (spec_outside_probe r h x Hnin) as [A C]. congruence.
Qed.

Lemma spec_fold_unfold r rest h :
  spec_fold (r :: rest) h = spec_fold rest (fold_left (spec_upd r h) (probe_keys r h []) h).
Proof. reflexivity. Qed.

Lemma spec_fold_specs rs : forall h, Specs rs h (spec_fold rs h).
Proof.
  induction rs as [|r rs IH]; intro h.
  - constructor. apply hequiv_refl.
  - rewrite spec_fold_unfold. econstructor; [apply spec_fold_one | apply IH].
Qed.

Lemma Spec_equiv_r r h a c : hequiv a c -> Spec r h a -> Spec r h c.
Proof. intros He Ha k. rewrite <- He. apply Ha. Qed.

Lemma Specs_equiv_r rs : forall h a c, hequiv a c -> Specs rs h a -> Specs rs h c.
Proof.
  induction rs as [|r rs IH]; intros h a c He Ha; inversion Ha; subst.
  - constructor. eapply hequiv_trans; eassumption.
  - econstructor; [eassumption | eapply IH; eassumption].
Qed.

Lemma lcase_prop_ok_sound c : lcase_prop_ok c = true ->
  Specs (l_rules c) (l_start c) (l_final_req c) /\ Specs (l_rules c) (l_start c) (l_final_resp c).
Proof.
  unfold lcase_prop_ok. intro H. apply andb_true_iff in H as [H1 H2].
  apply hmap_eqb_equiv in H1, H2.
  split; eapply Specs_equiv_r; try eassumption; apply spec_fold_specs.
Qed.
