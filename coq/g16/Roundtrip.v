(* C16 — print/parse round trip: parse_rule s = Some r -> parse_rule (print_rule r) = Some r *)
From G16 Require Import Model Check ParseProofs.

Lemma span_spec (p : N -> bool) s x y : span p s = (x, y) ->
  s = x ++ y /\ forallb p x = true /\ (match y with c :: _ => p c = false | [] => True end).
Proof.
  revert x y; induction s as [|c s IH]; intros x y H; simpl in H.
  - inversion H; subst. auto.
  - destruct (p c) eqn:E.
    + destruct (span p s) as [x' y'] eqn:Es. inversion H; subst.
      destruct (IH x' y eq_refl) as [-> [Hf Hy]]. simpl. rewrite E, Hf. auto.
    + inversion H; subst. simpl. rewrite E. auto.
Qed.

Lemma span_app_stop (p : N -> bool) x c y :
  forallb p x = true -> p c = false -> span p (x ++ c :: y) = (x, c :: y).
Proof.
  induction x as [|d x IH]; simpl; intros Hx Hc.
  - rewrite Hc. reflexivity.
  - apply andb_true_iff in Hx as [Hd Hx]. rewrite Hd, (IH Hx Hc). reflexivity.
Qed.

Lemma span_none (p : N -> bool) s :
  (match s with c :: _ => p c = false | [] => True end) -> span p s = ([], s).
Proof. destruct s as [|c s]; simpl; [reflexivity|]. intros ->. reflexivity. Qed.

Lemma last_is_app c s d : last_is c (s ++ [d]) = N.eqb c d.
Proof. unfold last_is. rewrite rev_app_distr. reflexivity. Qed.

Lemma but_last_app s d : but_last (s ++ [d]) = s.
Proof. unfold but_last. apply removelast_last. Qed.

Lemma last_is_true_split c s : last_is c s = true -> s = but_last s ++ [c].
Proof.
  unfold last_is, but_last. intro H.
  destruct s as [|a s'] using rev_ind; [discriminate|].
  rewrite rev_app_distr in H. simpl in H. apply N.eqb_eq in H. subst.
  rewrite removelast_last. reflexivity.
Qed.

Lemma drop_last_if_no c s : existsb (N.eqb c) s = false -> drop_last_if c s = s.
Proof.
  unfold drop_last_if. intro H. destruct (rev s) as [|d r] eqn:E; [reflexivity|].
  destruct (N.eqb c d) eqn:Ec; [|reflexivity].
  apply N.eqb_eq in Ec. subst d.
  assert (existsb (N.eqb c) s = true); [|congruence].
  apply existsb_exists. exists c. split; [|apply N.eqb_refl].
  apply in_rev. rewrite E. left. reflexivity.
Qed.

Lemma drop_last_if_first c s x : (match s with d :: _ => d = x | [] => False end) ->
  drop_last_if c s = [] \/ (match drop_last_if c s with d :: _ => d = x | [] => False end).
Proof.
  unfold drop_last_if. destruct s as [|a s]; [tauto|]. intros ->.
  destruct (rev (x :: s)) as [|d r] eqn:E; [right; reflexivity|].
  destruct (N.eqb c d); [|right; reflexivity].
  (* rev (x::s) = d :: r  ->  x :: s = rev r ++ [d] *)
  assert (Hs : x :: s = rev r ++ [d]).
  { rewrite <- (rev_involutive (x :: s)), E. reflexivity. }
  destruct (rev r) as [|e r'] eqn:Er; [left; reflexivity|].
  right. simpl in Hs. inversion Hs. reflexivity.
Qed.

Lemma name_char_not_colon c : is_name_char c = true -> N.eqb c 58 = false.
Proof.
  intro H. destruct (N.eqb c 58) eqn:E; [|reflexivity].
  apply N.eqb_eq in E. subst. discriminate.
Qed.

Lemma valid_name_no_colon s : In 58 s -> valid_name s = false.
Proof.
  intro Hin. unfold valid_name. destruct s as [|c s]; [reflexivity|].
  destruct (forallb is_name_char (c :: s)) eqn:E; [|reflexivity].
  rewrite forallb_forall in E. specialize (E 58 Hin). discriminate.
Qed.

Lemma first_is_app c x y : x <> [] -> first_is c (x ++ y) = first_is c x.
Proof. destruct x; [congruence | reflexivity]. Qed.

Lemma re_space_13 : is_re_space 13 = true. Proof. reflexivity. Qed.
Lemma re_space_10 : is_re_space 10 = true. Proof. reflexivity. Qed.

(* the Add case *)
Lemma match_line_print s n v :
  value_excludes_cr = true ->
  match_line s = Some (n, v) ->
  match_line (n ++ 58 :: v) = Some (n, v) /\ n <> [] /\ first_is 45 s = first_is 45 n /\
  first_is 37 s = first_is 37 n /\ forallb is_name_char n = true.
Proof.
  intros Hf H. pose proof (match_line_value_clean s n v Hf H) as Hclean.
  unfold match_line in H. rewrite Hf in H.
  destruct (span is_name_char s) as [name rest] eqn:Es.
  apply span_spec in Es as [Hs [Hname Hrest]].
  destruct name as [|c name]; [discriminate|].
  destruct rest as [|d rest]; [discriminate|].
  destruct (N.eqb d 58) eqn:Ed; [|discriminate]. simpl in H.
  apply N.eqb_eq in Ed. subst d.
  destruct (span is_re_space rest) as [sp rest2] eqn:Esp.
  apply span_spec in Esp as [Hrest2 [_ Hfirst]].
  destruct (existsb (N.eqb 10) (drop_last_if 10 rest2)) eqn:E10; [discriminate|].
  destruct (existsb (N.eqb 13) (drop_last_if 13 (drop_last_if 10 rest2))) eqn:E13; [discriminate|].
  inversion H; subst n v. clear H.
  set (v := drop_last_if 13 (drop_last_if 10 rest2)) in *.
  assert (Hv10 : existsb (N.eqb 10) v = false).
  { destruct (existsb (N.eqb 10) v) eqn:E; [|reflexivity].
    apply existsb_exists in E as [x [Hin Hx]]. apply N.eqb_eq in Hx. subst x.
    assert (existsb (fun c0 => N.eqb c0 13 || N.eqb c0 10) v = true); [|congruence].
    apply existsb_exists. exists 10. split; [exact Hin | reflexivity]. }
  (* first byte of v is not white space *)
  assert (Hvfirst : match v with e :: _ => is_re_space e = false | [] => True end).
  { destruct rest2 as [|e rest2']; [subst v; reflexivity|].
    assert (A : drop_last_if 10 (e :: rest2') = [] \/
                match drop_last_if 10 (e :: rest2') with d :: _ => d = e | [] => False end)
      by (apply drop_last_if_first; reflexivity).
    destruct A as [A|A].
    - subst v. rewrite A. reflexivity.
    - destruct (drop_last_if 10 (e :: rest2')) as [|e1 l1] eqn:E1; [tauto|]. subst e1.
      assert (B : drop_last_if 13 (e :: l1) = [] \/
                  match drop_last_if 13 (e :: l1) with d :: _ => d = e | [] => False end)
        by (apply drop_last_if_first; reflexivity).
      subst v. destruct B as [B|B]; [rewrite B; reflexivity|].
      destruct (drop_last_if 13 (e :: l1)) as [|e2 l2]; [tauto|]. subst e2. exact Hfirst. }
  split; [|split; [discriminate | split; [|split]]].
  - unfold match_line. rewrite Hf.
    rewrite (span_app_stop is_name_char (c :: name) 58 v Hname eq_refl).
    cbn [N.eqb negb]. replace (N.eqb 58 58) with true by reflexivity. cbn [negb].
    rewrite (span_none is_re_space v Hvfirst).
    rewrite (drop_last_if_no 10 v Hv10), Hv10.
    rewrite (drop_last_if_no 13 v E13), E13. reflexivity.
  - rewrite Hs. reflexivity.
  - rewrite Hs. reflexivity.
  - exact Hname.
Qed.

Lemma in_app_colon n v : In 58 (n ++ 58 :: v). 
Proof. apply in_or_app. right. left. reflexivity. Qed.

Lemma parse_roundtrip s r :
  value_excludes_cr = true -> empty_checks_name = true ->
  parse_rule s = Some r -> parse_rule (print_rule r) = Some r.
Proof.
  intros Hf He. unfold parse_rule.
  destruct (parse_shape s) as [r0|] eqn:Es; [|discriminate].
  destruct (valid_name (r_name r0)) eqn:Ev; [|discriminate].
  intro H. inversion H; subst r0. clear H.
  unfold parse_shape in Es. rewrite He in Es. cbn [negb orb] in Es.
  destruct (first_is 45 s) eqn:E45.
  { (* "-" forms: print r = s *)
    destruct s as [|c0 s']; [discriminate|]. cbn [first_is] in E45. apply N.eqb_eq in E45. subst c0.
    destruct (last_is 42 (45 :: s')) eqn:E42; inversion Es; subst r; clear Es; simpl in *.
    - assert (Hs' : s' <> []).
      { intro; subst s'. discriminate. }
      assert (Hl : last_is 42 s' = true).
      { unfold last_is in *. simpl in E42. destruct (rev s') as [|d l] eqn:Er.
        - exfalso. apply Hs'. rewrite <- (rev_involutive s'), Er. reflexivity.
        - simpl in E42. exact E42. }
      unfold print_rule; simpl. rewrite <- (last_is_true_split 42 s' Hl).
      unfold parse_shape. simpl. rewrite E42. simpl. rewrite Ev. reflexivity.
    - unfold print_rule; simpl. unfold parse_shape. simpl. rewrite E42. simpl. rewrite Ev. reflexivity. }
  destruct (first_is 37 s) eqn:E37.
  { destruct s as [|c0 s']; [discriminate|]. cbn [first_is] in E37. apply N.eqb_eq in E37. subst c0.
    inversion Es; subst r; clear Es; simpl in *.
    unfold print_rule; simpl. unfold parse_shape. simpl. rewrite Ev. reflexivity. }
  destruct (last_is 59 s && valid_name (but_last s)) eqn:E59.
  { inversion Es; subst r; clear Es; simpl in *.
    apply andb_true_iff in E59 as [El Evn].
    unfold print_rule; simpl. rewrite <- (last_is_true_split 59 s El).
    unfold parse_shape. rewrite E45, E37, He. cbn [negb orb]. rewrite El, Evn. simpl. rewrite Ev. reflexivity. }
  destruct (match_line s) as [[n v]|] eqn:Em; [|discriminate].
  inversion Es; subst r; clear Es; simpl in *.
  destruct (match_line_print s n v Hf Em) as [Hml [Hn [H45 [H37 Hnc]]]].
  unfold print_rule; simpl.
  unfold parse_shape. rewrite He. cbn [negb orb].
  rewrite (first_is_app 45 n (58 :: v) Hn), <- H45, E45.
  rewrite (first_is_app 37 n (58 :: v) Hn), <- H37, E37.
  assert (Hnot : last_is 59 (n ++ 58 :: v) && valid_name (but_last (n ++ 58 :: v)) = false).
  { destruct (last_is 59 (n ++ 58 :: v)) eqn:El; [|reflexivity]. simpl.
    apply valid_name_no_colon.
    destruct v as [|e v'] using rev_ind.
    - (* last byte is ':' , not ';' *)
      exfalso. change (n ++ [58]) with (n ++ [58]) in El. rewrite last_is_app in El. discriminate.
    - replace (n ++ 58 :: v' ++ [e]) with ((n ++ 58 :: v') ++ [e]) by (rewrite <- app_assoc; reflexivity).
      rewrite but_last_app. apply in_app_colon. }
  rewrite Hnot, Hml. simpl. rewrite Ev. reflexivity.
Qed.
