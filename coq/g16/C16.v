(* C16 — property theorems.  Nothing but statements, `exact`, Print Assumptions. *)
From Coq Require Import Permutation.
From G16 Require Import Model ModelChan Check Proofs ParseProofs Roundtrip ChanProofs WiringExpected Obligations.

(* Applying a rule list computes the documented meaning: there is a chain of
   intermediate maps, each related to its predecessor by the pointwise
   documented meaning of the rule (spec_get) — for every rule list and every map. *)
Theorem T16_apply_is_spec : forall rs h, Specs rs h (apply_rules rs h).
Proof. exact (fun rs => apply_rules_specs rs ob_prefix_deletes_matching_key ob_rename_skips_canonical_name ob_rename_merges_values). Qed.
Print Assumptions T16_apply_is_spec.

(* ... and the documented meaning determines the result (as a finite map). *)
Theorem T16_spec_deterministic : forall rs h a c, Specs rs h a -> Specs rs h c -> hequiv a c.
Proof. exact (fun rs h a c => Specs_functional rs h h a c (hequiv_refl h)). Qed.
Print Assumptions T16_spec_deterministic.

(* Go's map iteration order does not matter for '-prefix*'. *)
Theorem T16_prefix_order_irrelevant : forall p o1 o2 h,
  (forall x, In x o1 <-> In x o2) ->
  hequiv (remove_by_prefix_order p o1 h) (remove_by_prefix_order p o2 h).
Proof. exact (fun p o1 o2 h => prefix_order_irrelevant p o1 o2 h ob_prefix_deletes_matching_key). Qed.
Print Assumptions T16_prefix_order_irrelevant.

(* '%name' never adds, drops or alters values, and changes no name except in spelling. *)
Theorem T16_rename_conservative : forall n h, wf h ->
  Permutation (all_values (rename_case n h)) (all_values h) /\
  (forall x, In x (fold_keys (rename_case n h)) <-> In x (fold_keys h)).
Proof. exact (fun n h Hwf => conj (rename_values_perm n h ob_rename_skips_canonical_name ob_rename_merges_values Hwf)
                                   (fun x => rename_fold_keys n h x ob_rename_skips_canonical_name)). Qed.
Print Assumptions T16_rename_conservative.

(* Every accepted rule is a legal header field. *)
Theorem T16_parse_legal : forall s r, parse_rule s = Some r -> legal_rule r = true.
Proof. exact (fun s r => parse_legal s r ob_value_excludes_cr). Qed.
Print Assumptions T16_parse_legal.

(* ... and prints back to a string that parses to the same rule. *)
Theorem T16_roundtrip : forall s r, parse_rule s = Some r -> parse_rule (print_rule r) = Some r.
Proof. exact (fun s r => parse_roundtrip s r ob_value_excludes_cr ob_empty_form_checks_name). Qed.
Print Assumptions T16_roundtrip.

(* Rules keep header maps well formed (keys stay unique), so the above compose. *)
Theorem T16_wf_preserved : forall rs h, wf h -> wf (apply_rules rs h).
Proof. exact wf_apply_rules. Qed.
Print Assumptions T16_wf_preserved.

(* Dispatch by message kind. *)
Theorem T16_dispatch : forall cfg h,
  dispatch cfg ReqPlain h = apply_rules (request_rules cfg) h /\
  dispatch cfg ReqConnect h = apply_rules (connect_rules cfg) h /\
  dispatch cfg RespPlain h = apply_rules (response_rules cfg) h /\
  dispatch cfg RespConnect h = h.
Proof. exact (fun cfg h => conj eq_refl (conj eq_refl (conj eq_refl eq_refl))). Qed.
Print Assumptions T16_dispatch.

(* ... and the source statements that Model.dispatch transcribes are unchanged. *)
Theorem T16_dispatch_source_unchanged : wiring = wiring_expected.
Proof. exact ob_wiring. Qed.
Print Assumptions T16_dispatch_source_unchanged.

(* What an upstream proxy sees on a CONNECT is NOT the connect rules applied once in
   order: the wiring applies them a second time to an empty header and copies that over
   (known finding, see known_findings.d/C16.json).  Witness: client sends X: c, rule "X: v". *)
Theorem T16_connect_upstream_refuted : exists cfg h,
  hmap_eqb (connect_upstream_view cfg h) (dispatch cfg ReqConnect h) = false.
Proof. exact (ex_intro _ {| request_rules := []; connect_rules := [mk 3 (b "X") (b "v")]; response_rules := [] |}
               (ex_intro _ [(b "X", [b "c"])] eq_refl)). Qed.
Print Assumptions T16_connect_upstream_refuted.

(* Strongest true statement: every field the second application does not bind is as documented. *)
Theorem T16_connect_upstream_partial : forall cfg h k,
  raw_get k (apply_rules (connect_rules cfg) []) = None ->
  raw_get k (connect_upstream_view cfg h) = raw_get k (dispatch cfg ReqConnect h).
Proof. exact connect_view_partial. Qed.
Print Assumptions T16_connect_upstream_partial.

(* The run-time oracle evaluated on the implementation's outputs is sound. *)
Theorem T16_oracle_sound : forall r h h', step_prop_ok r h h' = true -> Spec r h h'.
Proof. exact step_prop_ok_sound. Qed.
Print Assumptions T16_oracle_sound.

(* ... and so is the whole-list oracle run on Headers.ModifyRequest / ModifyResponse outputs. *)
Theorem T16_list_oracle_sound : forall c, lcase_prop_ok c = true ->
  Specs (l_rules c) (l_start c) (l_final_req c) /\ Specs (l_rules c) (l_start c) (l_final_resp c).
Proof. exact lcase_prop_ok_sound. Qed.
Print Assumptions T16_list_oracle_sound.

(* "Given with --header ...": the channels.  Rule strings written as a CSV-reading
   channel needs them (plain ones as they are, anything with a comma or a quote, or the
   empty string, in quotes with inner quotes doubled; several per occurrence separated by
   commas) reach the element parser unchanged, one by one, in order of occurrence; the
   list in effect is the element-wise parse, refused as a whole iff one element is
   refused.  The CSV reader is modelled for arguments without CR and LF (hypothesis). *)
Theorem T16_flags_transparent : forall groups env file,
  groups <> [] -> Forall (fun g => g <> []) groups ->
  forallb csv_in_domain (map csv_join groups) = true ->
  rules_in_effect {| ci_flags := map csv_join groups; ci_env := env; ci_file := file |} =
  parse_all (concat groups).
Proof. exact (fun groups env file Hn HF _ => flags_transparent groups env file Hn HF). Qed.
Print Assumptions T16_flags_transparent.

Theorem T16_env_transparent : forall l file, l <> [] -> csv_in_domain (csv_join l) = true ->
  rules_in_effect {| ci_flags := []; ci_env := csv_join l; ci_file := file |} = parse_all l.
Proof. exact (fun l file Hn _ => env_transparent l file Hn). Qed.
Print Assumptions T16_env_transparent.

(* a config-file list is taken element by element, no quoting needed or understood *)
Theorem T16_file_list_transparent : forall l,
  rules_in_effect {| ci_flags := []; ci_env := []; ci_file := FileList l |} = parse_all l.
Proof. exact file_list_transparent. Qed.
Print Assumptions T16_file_list_transparent.

Theorem T16_file_scalar_transparent : forall l, l <> [] -> csv_in_domain (csv_join l) = true ->
  rules_in_effect {| ci_flags := []; ci_env := []; ci_file := FileScalar (csv_join l) |} = parse_all l.
Proof. exact (fun l Hn _ => file_scalar_transparent l Hn). Qed.
Print Assumptions T16_file_scalar_transparent.

(* element-wise, all or nothing *)
Theorem T16_parse_all_spec : forall ss rs,
  parse_all ss = Some rs <-> Forall2 (fun s r => parse_rule s = Some r) ss rs.
Proof. exact parse_all_spec. Qed.
Print Assumptions T16_parse_all_spec.

(* precedence: command line over environment over file *)
Theorem T16_channel_precedence : forall a args c t env file env' file',
  rules_in_effect {| ci_flags := a :: args; ci_env := env; ci_file := file |} =
  rules_in_effect {| ci_flags := a :: args; ci_env := env'; ci_file := file' |} /\
  rules_in_effect {| ci_flags := []; ci_env := c :: t; ci_file := file |} =
  rules_in_effect {| ci_flags := []; ci_env := c :: t; ci_file := file' |}.
Proof. exact (fun a args c t env file env' file' => conj (flags_hide_rest a args env file env' file') (env_hides_file c t file file')). Qed.
Print Assumptions T16_channel_precedence.

(* every rule the parser accepts can be given on the command line: its printed form,
   quoted if need be, yields exactly that rule *)
Theorem T16_every_rule_expressible : forall s r, parse_rule s = Some r ->
  rules_in_effect {| ci_flags := [csv_enc1 (print_rule r)]; ci_env := []; ci_file := FileAbsent |} = Some [r].
Proof. exact (fun s r H => one_rule_through_flag (print_rule r) r (parse_roundtrip s r ob_value_excludes_cr ob_empty_form_checks_name H)). Qed.
Print Assumptions T16_every_rule_expressible.

(* Non-vacuity for the channels: a quoted value with a comma, two occurrences *)
Example T16_channel_example :
  rules_in_effect {| ci_flags := [csv_join [b "Accept-Language: en-US,en;q=0.9"; b "-X-B"]; b "X-C;"];
                     ci_env := b "X-Shadowed: 1"; ci_file := FileAbsent |} =
  Some [mk 3 (b "Accept-Language") (b "en-US,en;q=0.9"); mk 0 (b "X-B") []; mk 2 (b "X-C") []].
Proof. exact eq_refl. Qed.

(* Non-vacuity: a concrete non-trivial rule list and map meet the hypotheses. *)
Example T16_example :
  let h := [(b "Foo", [b "v1"]); (b "Fox", [b "x"]); (b "Bar", [b "y"])] in
  let rs := [mk 4 (b "foo") []; mk 3 (b "Foo") (b "v2"); mk 4 (b "foo") []; mk 1 (b "fo") []] in
  wf h /\ hmap_eqb (apply_rules rs h) [(b "Bar", [b "y"])] = true /\
  parse_rule (b "fOo:  a b") = Some (mk 3 (b "fOo") (b "a b")).
Proof. exact (let h := [(b "Foo", [b "v1"]); (b "Fox", [b "x"]); (b "Bar", [b "y"])] in conj (wfb_wf h eq_refl) (conj eq_refl eq_refl)). Qed.
