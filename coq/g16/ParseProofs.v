(* C16 — parser lemmas: accepted rules are legal; print/parse round trip. *)
From G16 Require Import Model Check.

Lemma name_char_token c : is_name_char c = true -> is_token_char c = true.
Proof.
  unfold is_name_char, is_token_char. intro H.
  apply orb_true_iff in H as [H|H]; [rewrite H; reflexivity|].
  apply N.eqb_eq in H. subst. reflexivity.
Qed.

Lemma valid_name_token n : valid_name n = true -> is_token n = true.
Proof.
  unfold valid_name, is_token. destruct n as [|c n]; [discriminate|].
  rewrite !forallb_forall. intros H x Hx. apply name_char_token. apply H. exact Hx.
Qed.

Lemma drop_last_if_incl c s x : In x (drop_last_if c s) -> In x s.
Proof.
  unfold drop_last_if. destruct (rev s) as [|d r] eqn:E; [tauto|].
  destruct (N.eqb c d); [|tauto].
  intro H. apply in_rev in H. rewrite (in_rev s), E. right. exact H.
Qed.

Lemma existsb_false_drop f c s : existsb f s = false -> existsb f (drop_last_if c s) = false.
Proof.
  intro H. destruct (existsb f (drop_last_if c s)) eqn:E; [|reflexivity].
  apply existsb_exists in E as [x [Hin Hf]]. apply drop_last_if_incl in Hin.
  assert (existsb f s = true) by (apply existsb_exists; exists x; split; assumption). congruence.
Qed.

Lemma match_line_value_clean s n v : value_excludes_cr = true ->
  match_line s = Some (n, v) ->
  existsb (fun c => N.eqb c 13 || N.eqb c 10) v = false.
Proof.
  intros Hf. unfold match_line. rewrite Hf.
  destruct (span is_name_char s) as [name rest].
  destruct name as [|c name]; [discriminate|].
  destruct rest as [|d rest]; [discriminate|].
  destruct (negb (N.eqb d 58)); [discriminate|].
  destruct (span is_re_space rest) as [sp rest2].
  destruct (existsb (N.eqb 10) (drop_last_if 10 rest2)) eqn:E10; [discriminate|].
  destruct (existsb (N.eqb 13) (drop_last_if 13 (drop_last_if 10 rest2))) eqn:E13; [discriminate|].
  intro H. inversion H; subst. clear H.
  apply (existsb_false_drop _ 13) in E10.
  destruct (existsb (fun c0 => N.eqb c0 13 || N.eqb c0 10) (drop_last_if 13 (drop_last_if 10 rest2))) eqn:E; [|reflexivity].
  apply existsb_exists in E as [x [Hin Hx]].
  apply orb_true_iff in Hx as [Hx|Hx]; apply N.eqb_eq in Hx; subst x.
  - assert (existsb (N.eqb 13) (drop_last_if 13 (drop_last_if 10 rest2)) = true)
      by (apply existsb_exists; exists 13; split; [exact Hin | reflexivity]). congruence.
  - assert (existsb (N.eqb 10) (drop_last_if 13 (drop_last_if 10 rest2)) = true)
      by (apply existsb_exists; exists 10; split; [exact Hin | reflexivity]). congruence.
Qed.

Lemma parse_shape_val_nil_or_add s r : parse_shape s = Some r ->
  r_val r = [] \/ (r_act r = Add /\ match_line s = Some (r_name r, r_val r)).
Proof.
  unfold parse_shape. intro H.
  destruct (first_is 45 s).
  { destruct (last_is 42 s); inversion H; subst; simpl; auto. }
  destruct (first_is 37 s).
  { inversion H; subst; simpl; auto. }
  destruct (last_is 59 s && (negb empty_checks_name || valid_name (but_last s))).
  { inversion H; subst; simpl; auto. }
  destruct (match_line s) as [[n v]|]; inversion H; subst; simpl; auto.
Qed.

Lemma parse_legal s r : value_excludes_cr = true ->
  parse_rule s = Some r -> legal_rule r = true.
Proof.
  intros Hf. unfold parse_rule.
  destruct (parse_shape s) as [r0|] eqn:Es; [|discriminate].
  destruct (valid_name (r_name r0)) eqn:Ev; [|discriminate].
  intro H. inversion H; subst r0. clear H.
  unfold legal_rule. rewrite (valid_name_token _ Ev). simpl.
  apply negb_true_iff.
  destruct (parse_shape_val_nil_or_add _ _ Es) as [Hnil|[_ Hml]].
  - rewrite Hnil. reflexivity.
  - eapply match_line_value_clean; eassumption.
Qed.
