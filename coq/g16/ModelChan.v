(* C16 — how a list of rule strings reaches the parser (given with --header ...):
   the three channels of command/run (bind/flag.go binds every header flag to
   anyflag.SliceValue[header.Header] with header.ParseHeader as element parser):

     flags        each occurrence of --header ARG calls SliceValue.Set(ARG):
                  ARG is read as ONE record of comma-separated values (encoding/csv,
                  default options), every field goes through ParseHeader; the first Set
                  replaces the default list, later ones append
     environment  FORWARDER_HEADER=VAL: cobrautil calls Set(VAL) once (same CSV reading)
     config file  a YAML/JSON list: cobrautil calls Replace(list): element-wise
                  ParseHeader, NO CSV reading; a scalar string: Set(string)
   precedence (viper): flags, then a non-empty environment variable, then the file.

   The CSV reader is modelled for arguments WITHOUT CR and LF only (csv_in_domain);
   outside that domain encoding/csv reads further lines and trims a final CR and
   this model says nothing (Check.fcase_model_ok skips such cases, the theorems carry
   the hypothesis).  No proofs in this file. *)
From G16 Require Export Model.

Definition c_dq : N := 34.      (* the double quote *)
Definition c_comma : N := 44.   (* ',' *)

Definition csv_in_domain (s : str) : bool :=
  forallb (fun c => negb (N.eqb c 10) && negb (N.eqb c 13)) s.

(* a non-quoted field: up to the next comma; a quote inside it is ErrBareQuote.
   Result: the field and, if a comma ended it, the rest of the line after the comma. *)
Fixpoint csv_unq (s acc : str) : option (str * option str) :=
  match s with
  | [] => Some (rev acc, None)
  | c :: t => if N.eqb c c_comma then Some (rev acc, Some t)
              else if N.eqb c c_dq then None
              else csv_unq t (c :: acc)
  end.

(* a quoted field, after its opening quote: two quotes are a quote, quote+comma ends the field, a quote
   at the very end ends field and record, a quote before anything else is ErrQuote,
   and a line that ends inside the quotes is ErrQuote as well. *)
Fixpoint csv_quo (s acc : str) : option (str * option str) :=
  match s with
  | [] => None
  | c :: t =>
      if N.eqb c c_dq then
        match t with
        | [] => Some (rev acc, None)
        | d :: u => if N.eqb d c_dq then csv_quo u (c_dq :: acc)
                    else if N.eqb d c_comma then Some (rev acc, Some u)
                    else None
        end
      else csv_quo t (c :: acc)
  end.

Definition csv_field (line : str) : option (str * option str) :=
  match line with
  | c :: t => if N.eqb c c_dq then csv_quo t [] else csv_unq line []
  | [] => csv_unq line []
  end.

Fixpoint csv_fields (fuel : nat) (line : str) : option (list str) :=
  match fuel with
  | O => None
  | S f =>
      match csv_field line with
      | None => None
      | Some (fld, None) => Some [fld]
      | Some (fld, Some rest) =>
          match csv_fields f rest with
          | Some l => Some (fld :: l)
          | None => None
          end
      end
  end.

(* Reader.Read on a one-line argument: the empty argument is io.EOF (an error) *)
Definition csv_line (s : str) : option (list str) :=
  match s with
  | [] => None
  | _ => csv_fields (S (length s)) s
  end.

(* every element must parse, else the whole call fails *)
Fixpoint parse_all (ss : list str) : option (list rule) :=
  match ss with
  | [] => Some []
  | s :: r =>
      match parse_rule s, parse_all r with
      | Some x, Some xs => Some (x :: xs)
      | _, _ => None
      end
  end.

(* SliceValue.Set *)
Definition slice_set (cur : bool * list rule) (arg : str) : option (bool * list rule) :=
  match csv_line arg with
  | None => None
  | Some fs =>
      match parse_all fs with
      | None => None
      | Some rs => Some (true, if fst cur then snd cur ++ rs else rs)
      end
  end.

Fixpoint slice_set_all (cur : bool * list rule) (args : list str) : option (bool * list rule) :=
  match args with
  | [] => Some cur
  | a :: r => match slice_set cur a with
              | Some c => slice_set_all c r
              | None => None
              end
  end.

(* SliceValue.Replace *)
Definition slice_replace (ss : list str) : option (list rule) := parse_all ss.

Inductive file_value := FileAbsent | FileList (ss : list str) | FileScalar (s : str).

Record chan_input := { ci_flags : list str;        (* one entry per occurrence of the flag, in order *)
                       ci_env : str;               (* [] = not set (viper ignores an empty variable) *)
                       ci_file : file_value }.

(* the rule list in effect; None = start-up refused *)
Definition rules_in_effect (c : chan_input) : option (list rule) :=
  match ci_flags c with
  | _ :: _ => option_map snd (slice_set_all (false, []) (ci_flags c))
  | [] =>
      match ci_env c with
      | _ :: _ => option_map snd (slice_set (false, []) (ci_env c))
      | [] =>
          match ci_file c with
          | FileAbsent => Some []
          | FileList ss => slice_replace ss
          | FileScalar s => option_map snd (slice_set (false, []) s)
          end
      end
  end.

(* ---- what a user writes to pass given rule strings through a CSV-reading channel *)
Definition csv_plainb (s : str) : bool :=
  negb (match s with [] => true | _ => false end) &&
  forallb (fun c => negb (N.eqb c c_comma) && negb (N.eqb c c_dq)) s.

Fixpoint csv_esc (s : str) : str :=
  match s with
  | [] => []
  | c :: t => if N.eqb c c_dq then c_dq :: c_dq :: csv_esc t else c :: csv_esc t
  end.
Definition csv_quote (s : str) : str := c_dq :: csv_esc s ++ [c_dq].
(* plain strings as they are, anything else (comma, quote, empty) in quotes *)
Definition csv_enc1 (s : str) : str := if csv_plainb s then s else csv_quote s.
Fixpoint csv_join (l : list str) : str :=
  match l with
  | [] => []
  | [x] => csv_enc1 x
  | x :: r => csv_enc1 x ++ c_comma :: csv_join r
  end.
