(* C16 — executable checkers run on the implementation's observed behaviour.
   model_ok : the model computes what the implementation computed (correspondence)
   prop_ok  : the implementation's own output satisfies the property (oracle)   *)
From G16 Require Export Model.

Definition opt_rule_eqb (x y : option rule) : bool :=
  match x, y with
  | Some a, Some c => rule_eqb a c
  | None, None => true
  | _, _ => false
  end.

(* parser case: input, ParseHeader's result, String() of it, and whether
   ParseHeader(String(r)) returned r again (computed by the implementation) *)
Record pcase := { p_in : str; p_out : option rule; p_printed : str; p_reparse : option rule }.

Definition pcase_model_ok (c : pcase) : bool :=
  opt_rule_eqb (parse_rule (p_in c)) (p_out c) &&
  match p_out c with
  | Some r => str_eqb (print_rule r) (p_printed c) &&
              opt_rule_eqb (parse_rule (p_printed c)) (p_reparse c)
  | None => true
  end.

Definition pcase_prop_ok (c : pcase) : bool :=
  match p_out c with
  | Some r => legal_rule r && opt_rule_eqb (p_reparse c) (Some r)
  | None => true
  end.

(* applier case: start map and, per rule, the map observed after applying it *)
Record acase := { a_start : hmap; a_steps : list (rule * hmap) }.

Fixpoint steps_model_ok (h : hmap) (steps : list (rule * hmap)) : bool :=
  match steps with
  | [] => true
  | (r, h') :: rest => hmap_eqb (apply_rule r h) h' && steps_model_ok h' rest
  end.
Definition acase_model_ok (c : acase) : bool := steps_model_ok (a_start c) (a_steps c).

Definition probe_keys (r : rule) (h h' : hmap) : list str :=
  r_name r :: canon (r_name r) :: keys h ++ keys h'.

Definition step_prop_ok (r : rule) (h h' : hmap) : bool :=
  forallb (fun k => opt_vals_eqb (raw_get k h') (spec_get r h k)) (probe_keys r h h').

Fixpoint steps_prop_ok (h : hmap) (steps : list (rule * hmap)) : bool :=
  match steps with
  | [] => true
  | (r, h') :: rest => step_prop_ok r h h' && steps_prop_ok h' rest
  end.
Definition acase_prop_ok (c : acase) : bool := steps_prop_ok (a_start c) (a_steps c).

(* indices (from 0) of the cases on which f fails *)
Fixpoint bad_from {A} (f : A -> bool) (i : N) (l : list A) : list N :=
  match l with
  | [] => []
  | x :: r => if f x then bad_from f (i + 1) r else i :: bad_from f (i + 1) r
  end.
Definition bad {A} (f : A -> bool) (l : list A) : list N := bad_from f 0 l.

Definition mk (a : N) (n v : str) : rule :=
  {| r_act := match a with 0 => Remove | 1 => RemoveByPrefix | 2 => Empty | 3 => Add | _ => RenameCase end;
     r_name := n; r_val := v |}.

(* end-to-end case (real binary): message kind, configured rules, the probe
   fields of the message as sent, and as observed at the next hop / the client *)
Record ecase := { e_kind : msg_kind; e_cfg : rule_cfg; e_in : hmap; e_out : hmap; e_probe : list str }.

Definition ecase_expected (c : ecase) : hmap :=
  match e_kind c with
  | ReqConnect => connect_upstream_view (e_cfg c) (e_in c)
  | k => dispatch (e_cfg c) k (e_in c)
  end.

Definition agree_on (probe : list str) (h1 h2 : hmap) : bool :=
  forallb (fun k => opt_vals_eqb (raw_get k h1) (raw_get k h2)) (probe ++ keys h1 ++ keys h2).

(* correspondence: the binary shows what the model of the wiring predicts *)
Definition ecase_model_ok (c : ecase) : bool := agree_on (e_probe c) (e_out c) (ecase_expected c).
(* oracle: what is observed equals the rules applied once, in order, to the message *)
Definition ecase_prop_ok (c : ecase) : bool :=
  agree_on (e_probe c) (e_out c) (dispatch (e_cfg c) (e_kind c) (e_in c)).

(* whole-list case: Headers.ModifyRequest / ModifyResponse on a complete rule list *)
Record lcase := { l_rules : list rule; l_start : hmap; l_final_req : hmap; l_final_resp : hmap }.
Definition lcase_model_ok (c : lcase) : bool :=
  hmap_eqb (apply_rules (l_rules c) (l_start c)) (l_final_req c) &&
  hmap_eqb (apply_rules (l_rules c) (l_start c)) (l_final_resp c).
(* oracle: fold the pointwise documented meaning over the list *)
Fixpoint spec_fold (rs : list rule) (h : hmap) : hmap :=
  match rs with
  | [] => h
  | r :: rest =>
      let ks := probe_keys r h [] in
      let h' := fold_left (fun acc k => match spec_get r h k with
                                        | Some vs => raw_set k vs acc
                                        | None => raw_del k acc end) ks h in
      spec_fold rest h'
  end.
Definition lcase_prop_ok (c : lcase) : bool :=
  hmap_eqb (spec_fold (l_rules c) (l_start c)) (l_final_req c) &&
  hmap_eqb (spec_fold (l_rules c) (l_start c)) (l_final_resp c).
