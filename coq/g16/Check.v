(* C16 — executable checkers run on the implementation's observed behaviour.
   model_ok : the model computes what the implementation computed (correspondence)
   prop_ok  : the implementation's own output satisfies the property (oracle)   *)
From G16 Require Export Model.

Definition opt_rule_eqb (x y : option rule) : bool :=
  match x, y with
  | Some a, Some c => rule_eqb a c
  | None, None => true
  | _, _ => false
  end.

(* parser case: input, ParseHeader's result, String() of it, and whether
   ParseHeader(String(r)) returned r again (computed by the implementation) *)
Record pcase := { p_in : str; p_out : option rule; p_printed : str; p_reparse : option rule }.

Definition pcase_model_ok (c : pcase) : bool :=
  opt_rule_eqb (parse_rule (p_in c)) (p_out c) &&
  match p_out c with
  | Some r => str_eqb (print_rule r) (p_printed c) &&
              opt_rule_eqb (parse_rule (p_printed c)) (p_reparse c)
  | None => true
  end.

Definition pcase_prop_ok (c : pcase) : bool :=
  match p_out c with
  | Some r => legal_rule r && opt_rule_eqb (p_reparse c) (Some r)
  | None => true
  end.

(* applier case: start map and, per rule, the map observed after applying it *)
Record acase := { a_start : hmap; a_steps : list (rule * hmap) }.

Fixpoint steps_model_ok (h : hmap) (steps : list (rule * hmap)) : bool :=
  match steps with
  | [] => true
  | (r, h') :: rest => hmap_eqb (apply_rule r h) h' && steps_model_ok h' rest
  end.
Definition acase_model_ok (c : acase) : bool := steps_model_ok (a_start c) (a_steps c).

Definition probe_keys (r : rule) (h h' : hmap) : list str :=
  r_name r :: canon (r_name r) :: keys h ++ keys h'.

Definition step_prop_ok (r : rule) (h h' : hmap) : bool :=
  forallb (fun k => opt_vals_eqb (raw_get k h') (spec_get r h k)) (probe_keys r h h').

Fixpoint steps_prop_ok (h : hmap) (steps : list (rule * hmap)) : bool :=
  match steps with
  | [] => true
  | (r, h') :: rest => step_prop_ok r h h' && steps_prop_ok h' rest
  end.
Definition acase_prop_ok (c : acase) : bool := steps_prop_ok (a_start c) (a_steps c).

(* indices (from 0) of the cases on which f fails *)
Fixpoint bad_from {A} (f : A -> bool) (i : N) (l : list A) : list N :=
  match l with
  | [] => []
  | x :: r => if f x then bad_from f (i + 1) r else i :: bad_from f (i + 1) r
  end.
Definition bad {A} (f : A -> bool) (l : list A) : list N := bad_from f 0 l.

Definition mk (a : N) (n v : str) : rule :=
  {| r_act := match a with 0 => Remove | 1 => RemoveByPrefix | 2 => Empty | 3 => Add | _ => RenameCase end;
     r_name := n; r_val := v |}.

(* end-to-end case (real binary): message kind, configured rules, the probe
   fields of the message as sent, and as observed at the next hop / the client *)
Record ecase := { e_kind : msg_kind; e_cfg : rule_cfg; e_in : hmap; e_out : hmap; e_probe : list str }.

Definition ecase_expected (c : ecase) : hmap :=
  match e_kind c with
  | ReqConnect => connect_upstream_view (e_cfg c) (e_in c)
  | k => dispatch (e_cfg c) k (e_in c)
  end.

Definition agree_on (probe : list str) (h1 h2 : hmap) : bool :=
  forallb (fun k => opt_vals_eqb (raw_get k h1) (raw_get k h2)) (probe ++ keys h1 ++ keys h2).

(* correspondence: the binary shows what the model of the wiring predicts *)
Definition ecase_model_ok (c : ecase) : bool := agree_on (e_probe c) (e_out c) (ecase_expected c).
(* oracle: what is observed equals the rules applied once, in order, to the message *)
Definition ecase_prop_ok (c : ecase) : bool :=
  agree_on (e_probe c) (e_out c) (dispatch (e_cfg c) (e_kind c) (e_in c)).

(* The same two checks modulo ONE artefact of net/http's request writer: it writes the
   User-Agent field (exactly this spelling of the key) itself, ONCE, from the first value,
   and not at all when that value is empty (the empty value is net/http's own way of saying
   "send none").  ua_norm maps a header set to what that writer puts on the wire for this
   one key.  A case that fails the strict check but passes this one shows exactly that
   artefact ('User-Agent;' yields no field at the next hop instead of an empty one;
   'User-Agent: x' added to a request that has one already is not seen) and is reported
   under its own key. *)
Fixpoint ua_norm (h : hmap) : hmap :=
  match h with
  | [] => []
  | (k, vs) :: r =>
      if str_eqb k (b "User-Agent") then
        match vs with
        | [] => ua_norm r
        | v :: _ => match v with [] => ua_norm r | _ => (k, [v]) :: ua_norm r end
        end
      else (k, vs) :: ua_norm r
  end.
Definition is_request_kind (k : msg_kind) : bool :=
  match k with ReqPlain | ReqConnect => true | _ => false end.
Definition ecase_model_ok_ua (c : ecase) : bool :=
  if is_request_kind (e_kind c)
  then agree_on (e_probe c) (ua_norm (e_out c)) (ua_norm (ecase_expected c))
  else ecase_model_ok c.
Definition ecase_prop_ok_ua (c : ecase) : bool :=
  if is_request_kind (e_kind c)
  then agree_on (e_probe c) (ua_norm (e_out c)) (ua_norm (dispatch (e_cfg c) (e_kind c) (e_in c)))
  else ecase_prop_ok c.

(* whole-list case: Headers.ModifyRequest / ModifyResponse on a complete rule list *)
Record lcase := { l_rules : list rule; l_start : hmap; l_final_req : hmap; l_final_resp : hmap }.
Definition lcase_model_ok (c : lcase) : bool :=
  hmap_eqb (apply_rules (l_rules c) (l_start c)) (l_final_req c) &&
  hmap_eqb (apply_rules (l_rules c) (l_start c)) (l_final_resp c).
(* oracle: fold the pointwise documented meaning over the list *)
Fixpoint spec_fold (rs : list rule) (h : hmap) : hmap :=
  match rs with
  | [] => h
  | r :: rest =>
      let ks := probe_keys r h [] in
      let h' := fold_left (fun acc k => match spec_get r h k with
                                        | Some vs => raw_set k vs acc
                                        | None => raw_del k acc end) ks h in
      spec_fold rest h'
  end.
Definition lcase_prop_ok (c : lcase) : bool :=
  hmap_eqb (spec_fold (l_rules c) (l_start c)) (l_final_req c) &&
  hmap_eqb (spec_fold (l_rules c) (l_start c)) (l_final_resp c).

(* channel case: what was given on the command line / in the environment / in the
   config file for ONE header flag, the element-wise result of the real ParseHeader
   on the rule strings the generator meant to pass (when it meant any), and the rule
   list the real flag machinery ended up with (None = refused) *)
From G16 Require Export ModelChan.
Record fcase := { f_in : chan_input; f_meant : bool; f_each : list (option rule); f_out : option (list rule) }.

Fixpoint rules_eqb (a c : list rule) : bool :=
  match a, c with
  | [], [] => true
  | x :: r, y :: s => rule_eqb x y && rules_eqb r s
  | _, _ => false
  end.
Definition opt_rules_eqb (x y : option (list rule)) : bool :=
  match x, y with
  | Some a, Some c => rules_eqb a c
  | None, None => true
  | _, _ => false
  end.

Definition chan_in_domain (c : chan_input) : bool :=
  forallb csv_in_domain (ci_flags c) && csv_in_domain (ci_env c) &&
  match ci_file c with FileScalar s => csv_in_domain s | _ => true end.

Definition fcase_model_ok (c : fcase) : bool :=
  if chan_in_domain (f_in c) then opt_rules_eqb (rules_in_effect (f_in c)) (f_out c) else true.

Fixpoint all_or_nothing (l : list (option rule)) : option (list rule) :=
  match l with
  | [] => Some []
  | Some x :: r => match all_or_nothing r with Some xs => Some (x :: xs) | None => None end
  | None :: _ => None
  end.

(* oracle: the rules in effect are the rules given, each parsed on its own, in order
   (refused iff one of them is refused); whatever is in effect is a legal rule *)
Definition fcase_prop_ok (c : fcase) : bool :=
  (if f_meant c then opt_rules_eqb (f_out c) (all_or_nothing (f_each c)) else true) &&
  match f_out c with Some rs => forallb legal_rule rs | None => true end.
