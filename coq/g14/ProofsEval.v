(* C14 — lemmas, part 9: evaluations issued concurrently through the pool give the answers they would
   give one at a time — for every interleaving of the callers' steps (get / load arguments / run / put),
   any number of callers, when the resolver is put back after the evaluation.  With the put before the
   evaluation the statement is false (witness). *)
From G14 Require Import Model ProofsPool.
Open Scope nat_scope.

Lemma assoc_set k v l k' : assoc_nat k' (set_nat k v l) = if Nat.eqb k' k then Some v else assoc_nat k' l.
Proof. reflexivity. Qed.

Lemma pc_set s c n c' xp' h' a' sc' an' :
  pc_of {| xp := xp'; xpc := set_nat c n (xpc s); xhandle := h'; xarg := a'; xscratch := sc'; xanswers := an' |} c' =
  if Nat.eqb c' c then n else pc_of s c'.
Proof. unfold pc_of. cbn [xpc]. rewrite assoc_set. destruct (Nat.eqb c' c); reflexivity. Qed.

Lemma lookup_In c v l : lookup_caller c l = Some v -> In (c, v) l.
Proof.
  induction l as [|[c' v'] r IH]; simpl; [discriminate|]. destruct (Nat.eqb c c') eqn:E.
  - intro H. inversion H; subst. apply Nat.eqb_eq in E. subst. left. reflexivity.
  - intro H. right. exact (IH H).
Qed.

Lemma lookup_remove_other c c' l : c' <> c -> lookup_caller c' (remove_caller c l) = lookup_caller c' l.
Proof.
  intro Hne. induction l as [|[k v] r IH]; [reflexivity|]. cbn [remove_caller lookup_caller].
  destruct (Nat.eqb c k) eqn:E.
  - apply Nat.eqb_eq in E. subst k. destruct (Nat.eqb c' c) eqn:E2; [apply Nat.eqb_eq in E2; contradiction|reflexivity].
  - cbn [lookup_caller]. destruct (Nat.eqb c' k); [reflexivity|exact IH].
Qed.

(* two callers never hold the same resolver *)
Lemma held_distinct p c c' v v' :
  pool_inv p -> lookup_caller c (held p) = Some v -> lookup_caller c' (held p) = Some v' -> c <> c' -> v <> v'.
Proof.
  intros [Hnd _] H1 H2 Hne E. subst v'. apply lookup_In in H1, H2.
  pose proof (nodup_app_r _ _ Hnd) as Hh. clear Hnd.
  revert H1 H2 Hh. generalize (held p) as l. induction l as [|[k w] r IH]; intros H1 H2 Hh; [contradiction|].
  cbn [map] in Hh. apply NoDup_cons_iff in Hh as [Hn Hh]. cbn [snd] in Hn.
  destruct H1 as [E1|I1], H2 as [E2|I2].
  - inversion E1; inversion E2; subst. contradiction.
  - inversion E1; subst. apply Hn. exact (in_map snd _ _ I2).
  - inversion E2; subst. apply Hn. exact (in_map snd _ _ I1).
  - exact (IH I1 I2 Hh).
Qed.

Section Late.
  Variable f : nat -> nat.

  (* the invariant of all reachable states when the resolver is put back after the evaluation *)
  Definition xinv (s : xstate) : Prop :=
    pool_inv (xp s) /\
    (forall c, 1 <= pc_of s c <= 3 ->
       exists v, assoc_nat c (xhandle s) = Some v /\ lookup_caller c (held (xp s)) = Some v) /\
    (forall c, pc_of s c = 2 ->
       exists v a, assoc_nat c (xhandle s) = Some v /\ assoc_nat c (xarg s) = Some a /\ assoc_nat v (xscratch s) = Some a) /\
    (forall c, pc_of s c <= 3) /\
    (forall c a r, In (c, a, r) (xanswers s) -> r = f a).

  Lemma xinv_init : xinv xinit.
  Proof.
    repeat split; try (intros; cbn in *; lia); try apply pool_inv_init;
      try (intros v []); try (intros c a r []).
  Qed.

  Lemma xstep_inv s l s' : xinv s -> xstep f true s l = Some s' -> xinv s'.
  Proof.
    intros (Hp & Hh & Hl & Hb & Ha) Hs. destruct l as [c|c a|c|c|]; cbn [xstep] in Hs.
    - (* XGet *)
      destruct (Nat.eqb (pc_of s c) 0) eqn:Epc; [|discriminate]. apply Nat.eqb_eq in Epc.
      destruct (pstep (xp s) (Get c)) as [p'|] eqn:Ep; [|discriminate].
      destruct (lookup_caller c (held p')) as [v|] eqn:El; [|discriminate]. inversion Hs; subst; clear Hs.
      assert (Hother : forall c', c' <> c -> lookup_caller c' (held p') = lookup_caller c' (held (xp s))).
      { intros c' Hne. cbn [pstep] in Ep. destruct (lookup_caller c (held (xp s))); [discriminate|].
        destruct (free (xp s)); inversion Ep; subst; cbn [held lookup_caller];
          (destruct (Nat.eqb c' c) eqn:E; [apply Nat.eqb_eq in E; contradiction|reflexivity]). }
      refine (conj _ (conj _ (conj _ (conj _ _)))).
      + exact (pstep_inv _ _ _ Hp Ep).
      + intros c' H. rewrite pc_set in H. cbn [xhandle xp]. rewrite assoc_set. destruct (Nat.eqb c' c) eqn:E.
        * apply Nat.eqb_eq in E. subst c'. exists v. split; [reflexivity|exact El].
        * apply Nat.eqb_neq in E. destruct (Hh c' H) as [w [H1 H2]]. exists w. split; [exact H1|]. rewrite (Hother c' E). exact H2.
      + intros c' H. rewrite pc_set in H. cbn [xhandle xarg xscratch]. rewrite assoc_set. destruct (Nat.eqb c' c) eqn:E; [discriminate|].
        exact (Hl c' H).
      + intro c'. rewrite pc_set. destruct (Nat.eqb c' c); [lia|apply Hb].
      + exact Ha.
    - (* XLoad *)
      destruct (Nat.eqb (pc_of s c) 1) eqn:Epc; [|discriminate]. apply Nat.eqb_eq in Epc.
      destruct (assoc_nat c (xhandle s)) as [v|] eqn:Eh; [|discriminate]. inversion Hs; subst; clear Hs.
      destruct (Hh c ltac:(lia)) as [v0 [H1 H2]]. rewrite Eh in H1. inversion H1; subst v0.
      refine (conj _ (conj _ (conj _ (conj _ _)))).
      + exact Hp.
      + intros c' H. rewrite pc_set in H. cbn [xhandle xp]. destruct (Nat.eqb c' c) eqn:E.
        * apply Nat.eqb_eq in E. subst c'. exists v. split; assumption.
        * apply (Hh c' H).
      + intros c' H. rewrite pc_set in H. cbn [xhandle xarg xscratch]. rewrite !assoc_set. destruct (Nat.eqb c' c) eqn:E.
        * apply Nat.eqb_eq in E. subst c'. exists v, a.
          repeat split; try exact Eh; try reflexivity; rewrite assoc_set, Nat.eqb_refl; reflexivity.
        * apply Nat.eqb_neq in E. destruct (Hl c' H) as [w [b [G1 [G2 G3]]]]. exists w, b. repeat split; try assumption.
          destruct (Hh c' ltac:(lia)) as [w' [K1 K2]]. rewrite G1 in K1. inversion K1; subst w'.
          assert (w <> v) by (apply (held_distinct (xp s) c' c w v Hp K2 H2 E)).
          rewrite assoc_set. destruct (Nat.eqb w v) eqn:E3; [apply Nat.eqb_eq in E3; contradiction|exact G3].
      + intro c'. rewrite pc_set. destruct (Nat.eqb c' c); [lia|apply Hb].
      + exact Ha.
    - (* XRun *)
      destruct (Nat.eqb (pc_of s c) 2) eqn:Epc; [|discriminate]. apply Nat.eqb_eq in Epc.
      destruct (assoc_nat c (xhandle s)) as [v|] eqn:Eh; [|discriminate].
      destruct (assoc_nat c (xarg s)) as [a|] eqn:Ea; [|discriminate]. inversion Hs; subst; clear Hs.
      destruct (Hl c Epc) as [w [b [G1 [G2 G3]]]]. rewrite Eh in G1. rewrite Ea in G2. inversion G1; inversion G2; subst w b.
      refine (conj _ (conj _ (conj _ (conj _ _)))).
      + exact Hp.
      + intros c' H. rewrite pc_set in H. cbn [xhandle xp]. destruct (Nat.eqb c' c) eqn:E.
        * apply Nat.eqb_eq in E. subst c'. apply Hh. lia.
        * apply (Hh c' H).
      + intros c' H. rewrite pc_set in H. cbn [xhandle xarg xscratch]. destruct (Nat.eqb c' c) eqn:E; [discriminate|]. exact (Hl c' H).
      + intro c'. rewrite pc_set. destruct (Nat.eqb c' c); [lia|apply Hb].
      + intros c' a' r [E|Hin]; [|exact (Ha c' a' r Hin)]. inversion E; subst. rewrite G3. reflexivity.
    - (* XPut *)
      destruct (Nat.eqb (pc_of s c) 3) eqn:Epc; [|discriminate]. apply Nat.eqb_eq in Epc.
      destruct (pstep (xp s) (Put c)) as [p'|] eqn:Ep; [|discriminate]. inversion Hs; subst; clear Hs.
      assert (Hother : forall c', c' <> c -> lookup_caller c' (held p') = lookup_caller c' (held (xp s))).
      { intros c' Hne. cbn [pstep] in Ep. destruct (lookup_caller c (held (xp s))); [|discriminate].
        inversion Ep; subst. cbn [held]. apply lookup_remove_other. exact Hne. }
      refine (conj _ (conj _ (conj _ (conj _ _)))).
      + exact (pstep_inv _ _ _ Hp Ep).
      + intros c' H. rewrite pc_set in H. cbn [xhandle xp]. destruct (Nat.eqb c' c) eqn:E; [lia|].
        apply Nat.eqb_neq in E. destruct (Hh c' H) as [w [H1 H2]]. exists w. split; [exact H1|]. rewrite (Hother c' E). exact H2.
      + intros c' H. rewrite pc_set in H. cbn [xhandle xarg xscratch]. destruct (Nat.eqb c' c) eqn:E; [discriminate|]. exact (Hl c' H).
      + intro c'. rewrite pc_set. destruct (Nat.eqb c' c); [lia|apply Hb].
      + exact Ha.
    - (* XDrop *)
      destruct (pstep (xp s) Drop) as [p'|] eqn:Ep; [|discriminate]. inversion Hs; subst; clear Hs.
      assert (Hheld : held p' = held (xp s)).
      { cbn [pstep] in Ep. destruct (free (xp s)); [discriminate|]. inversion Ep; reflexivity. }
      refine (conj _ (conj _ (conj _ (conj _ _)))).
      + exact (pstep_inv _ _ _ Hp Ep).
      + intros c' H. change (pc_of _ c') with (pc_of s c') in H. cbn [xhandle xp]. rewrite Hheld. exact (Hh c' H).
      + intros c' H. change (pc_of _ c') with (pc_of s c') in H. exact (Hl c' H).
      + intro c'. change (pc_of _ c') with (pc_of s c'). apply Hb.
      + exact Ha.
  Qed.

  Lemma xsteps_inv ls : forall s s', xinv s -> xsteps f true s ls = Some s' -> xinv s'.
  Proof.
    induction ls as [|l r IH]; intros s s' Hi Hs; cbn [xsteps] in Hs.
    - inversion Hs; subst. exact Hi.
    - destruct (xstep f true s l) as [s1|] eqn:E; [|discriminate]. exact (IH s1 s' (xstep_inv _ _ _ Hi E) Hs).
  Qed.

  (* every answer handed out in any interleaving is the answer of a sequential evaluation *)
  Lemma pool_answers_sequential ls s :
    xsteps f true xinit ls = Some s -> forall c a r, In (c, a, r) (xanswers s) -> r = f a.
  Proof. intro H. exact (proj2 (proj2 (proj2 (proj2 (xsteps_inv ls _ _ xinv_init H))))). Qed.
End Late.

(* with the put before the evaluation two callers can work with one resolver: a caller gets another caller's answer *)
Definition early_put_trace : list xlabel :=
  [XGet 1; XPut 1; XGet 2; XPut 2; XLoad 1 7; XLoad 2 9; XRun 1].
Lemma early_put_wrong_answer :
  exists s, xsteps (fun x => x) false xinit early_put_trace = Some s /\ In (1, 7, 9) (xanswers s).
Proof. eexists. split; [vm_compute; reflexivity|]. left. reflexivity. Qed.

(* a concrete interleaving of three callers on two resolvers (put after the evaluation) *)
Definition example_trace : list xlabel :=
  [XGet 1; XGet 2; XLoad 2 9; XLoad 1 7; XRun 1; XPut 1; XGet 3; XLoad 3 5; XRun 2; XRun 3; XPut 3; XPut 2; XDrop].
Lemma pool_example :
  exists s, xsteps (fun x => x * 2) true xinit example_trace = Some s /\
            xanswers s = [(3, 5, 10); (2, 9, 18); (1, 7, 14)].
Proof. eexists. split; vm_compute; reflexivity. Qed.
