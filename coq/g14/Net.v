(* C14 — PAC evaluation, part 2: executable model of pac/pac_ipv6.go and
   pac/utils.go (isResolvableEx, isInNetEx, dnsResolveEx, myIpAddressEx,
   sortIpAddressList) over a model of the parts of Go's net package they use:
   ParseIP / ParseCIDR on dotted quads (IPv6 texts come from a recorded
   oracle), IP.To4, CIDRMask, IPNet.Contains.  No proofs here. *)
From G14 Require Export Js.
Open Scope N_scope.

(* one decimal field of net.ParseIP's dotted quad: 1..3 digits, no leading zero, <= 255 *)
Definition go_dec_field (s : str) : option N :=
  match s with
  | [] => None
  | c :: r =>
      if negb (forallb is_digit s) || (3 <? length s)%nat then None
      else if (c =? 48) && negb (nil_str r) then None
      else let v := dec_value s 0 in if v <=? 255 then Some v else None
  end.

Fixpoint all_some {A} (l : list (option A)) : option (list A) :=
  match l with
  | [] => Some []
  | Some x :: r => option_map (cons x) (all_some r)
  | None :: _ => None
  end.

Definition parse_ipv4 (s : str) : option (list N) :=       (* the 4 bytes *)
  let parts := split_byte 46 s in
  if (length parts =? 4)%nat then all_some (map go_dec_field parts) else None.

Definition v4_in_v6_prefix : list N := [0;0;0;0;0;0;0;0;0;0;255;255].
Definition to16 (b4 : list N) : list N := v4_in_v6_prefix ++ b4.

(* net.ParseIP: always the 16-byte form *)
Definition parse_ip (e : env) (s : str) : option (list N) :=
  match parse_ipv4 s with
  | Some b4 => Some (to16 b4)
  | None => assoc s (e_ip6 e)
  end.

Fixpoint bytes_eqb (x y : list N) : bool :=
  match x, y with
  | [], [] => true
  | a :: x', c :: y' => (a =? c) && bytes_eqb x' y'
  | _, _ => false
  end.

(* IP.To4 *)
Definition to4 (ip : list N) : option (list N) :=
  if (length ip =? 4)%nat then Some ip
  else if (length ip =? 16)%nat && bytes_eqb (firstn 12 ip) v4_in_v6_prefix then Some (skipn 12 ip)
  else None.

(* net.CIDRMask(n, 8 * nbytes) *)
Fixpoint cidr_mask (n : nat) (nbytes : nat) : list N :=
  match nbytes with
  | O => []
  | S k => (if (8 <=? n)%nat then 255 else N.land 255 (N.shiftl 255 (N.of_nat (8 - n)))) :: cidr_mask (n - 8) k
  end.

(* the prefix length (net's dtoi): decimal digits, leading zeros allowed *)
Definition go_dec_small (s : str) : option nat :=
  match s with
  | [] => None
  | _ => if forallb is_digit s then Some (N.to_nat (N.min (dec_value s 0) 1000)) else None
  end.

Fixpoint mask_bytes (ip m : list N) : list N :=
  match ip, m with
  | a :: ip', c :: m' => N.land a c :: mask_bytes ip' m'
  | _, _ => []
  end.

(* net.ParseCIDR: network number and mask, as the IPNet stores them *)
Definition parse_cidr (e : env) (s : str) : option (list N * list N) :=
  match cut_byte 47 s with
  | None => None
  | Some (addr, pl) =>
      match parse_ipv4 addr with
      | Some b4 =>
          match go_dec_small pl with
          | Some n => if (n <=? 32)%nat then let m := cidr_mask n 4 in Some (mask_bytes b4 m, m) else None
          | None => None
          end
      | None => assoc s (e_cidr6 e)
      end
  end.

(* IPNet.Contains, as net/ip.go has it (networkNumberAndMask included) *)
Definition net_contains (nm : list N * list N) (ip0 : list N) : bool :=
  let (nip0, m0) := nm in
  let ip := match to4 ip0 with Some x => x | None => ip0 end in
  let nn := match to4 nip0 with
            | Some x => Some x
            | None => if (length nip0 =? 16)%nat then Some nip0 else None
            end in
  match nn with
  | None => false
  | Some nip =>
      let m := if (length m0 =? 4)%nat then (if (length nip =? 4)%nat then Some m0 else None)
               else if (length m0 =? 16)%nat then Some (if (length nip =? 4)%nat then skipn 12 m0 else m0)
               else None in
      match m with
      | None => false
      | Some mk => (length ip =? length nip)%nat && bytes_eqb (mask_bytes nip mk) (mask_bytes ip mk)
      end
  end.

Definition is_nullish (v : jsval) : bool := match v with JUndef | JNull => true | _ => false end.

(* Handler for isInNetEx(host, cidr) *)
Definition isInNetEx (e : env) (a0 a1 : jsval) : jsval :=
  if is_nullish a0 then JNull else
  match a0 with
  | JStr host =>
      if is_nullish a1 then JNull else
      match a1 with
      | JStr cidr =>
          match parse_ip e host with
          | None => JBool false
          | Some ip => match parse_cidr e cidr with
                       | None => JBool false
                       | Some nm => JBool (net_contains nm ip)
                       end
          end
      | _ => JBool false
      end
  | _ => JBool false
  end.

(* Handler for dnsResolveEx(host) *)
Definition dnsResolveEx (e : env) (a0 : jsval) : jsval :=
  if is_nullish a0 then JNull else
  match a0 with
  | JStr host => match assoc host (e_dns e) with
                 | Some (ip :: more) => JStr (join [59] (ip :: more))
                 | _ => JStr []
                 end
  | _ => JBool false
  end.

(* goja's Value.String() of what dnsResolveEx can return *)
Definition value_string (v : jsval) : str :=
  match v with
  | JNull => b "null"
  | JUndef => b "undefined"
  | JBool true => b "true"
  | JBool false => b "false"
  | JStr s => s
  | JNum _ => b "0"
  end.

(* Handler for isResolvableEx(host): dnsResolveEx(call).String() != "" *)
Definition isResolvableEx (e : env) (a0 : jsval) : jsval :=
  JBool (negb (nil_str (value_string (dnsResolveEx e a0)))).

Definition myIpAddressEx (e : env) : jsval :=
  match e_myipex e with [] => JStr [] | l => JStr (join [59] l) end.

(* utils.go asSlice: split, trim, skip empty values, parse each *)
Fixpoint parse_ip_list (e : env) (parts : list str) : option (list (list N * str)) :=
  match parts with
  | [] => Some []
  | p :: r =>
      let v := trim_space p in
      if nil_str v then parse_ip_list e r
      else match parse_ip e v with
           | None => None
           | Some ip => option_map (cons (ip, v)) (parse_ip_list e r)
           end
  end.

Fixpoint bytes_ltb (x y : list N) : bool :=                  (* bytes.Compare(x, y) < 0 *)
  match x, y with
  | [], [] => false
  | [], _ :: _ => true
  | _ :: _, [] => false
  | a :: x', c :: y' => if a <? c then true else if c <? a then false else bytes_ltb x' y'
  end.
Definition is_v4 (ip : list N) : bool := match to4 ip with Some _ => true | None => false end.

(* the less function given to sort.Slice: same family: byte order; else IPv6 first *)
Definition ip_less (x y : list N) : bool :=
  if Bool.eqb (is_v4 x) (is_v4 y) then bytes_ltb x y
  else if sort_ipv6_first then negb (is_v4 x) else is_v4 x.

(* a stable insertion sort stands for sort.Slice (which is not stable: elements that
   compare equal may come out in another order; the checker compares modulo that) *)
Fixpoint insert_ip (x : list N * str) (l : list (list N * str)) : list (list N * str) :=
  match l with
  | [] => [x]
  | y :: r => if ip_less (fst x) (fst y) then x :: l else y :: insert_ip x r
  end.
Definition sort_ips (l : list (list N * str)) : list (list N * str) := fold_right insert_ip [] l.

(* Handler for sortIpAddressList(list) *)
Definition sort_parsed (e : env) (s : str) : option (list (list N * str)) :=
  match parse_ip_list e (split_byte 59 s) with
  | None | Some [] => None
  | Some l => Some (sort_ips l)
  end.
Definition sortIpAddressList (e : env) (a0 : jsval) : jsval :=
  if is_nullish a0 then JNull else
  match a0 with
  | JStr s => match sort_parsed e s with
              | None => JBool false
              | Some l => JStr (join [59] (map snd l))
              end
  | _ => JBool false
  end.
