(* C14 — lemmas, part 8: the handler of sortIpAddressList, from its argument to its result. *)
From Coq Require Import Permutation.
From G14 Require Import Model Spec ProofsPool.
Open Scope N_scope.

(* the entries of the argument: split at ';', trimmed, empty ones dropped *)
Definition list_entries (s : str) : list str :=
  filter (fun v => negb (nil_str v)) (map trim_space (split_byte 59 s)).
Definition entry_ip (e : env) (v : str) : list N := match parse_ip e v with Some ip => ip | None => [] end.
Definition parses (e : env) (v : str) : bool := match parse_ip e v with Some _ => true | None => false end.
Definition keyed (e : env) (ents : list str) : list (list N * str) := map (fun v => (entry_ip e v, v)) ents.

Lemma parse_ip_list_spec e parts :
  parse_ip_list e parts =
  if forallb (parses e) (filter (fun v => negb (nil_str v)) (map trim_space parts))
  then Some (keyed e (filter (fun v => negb (nil_str v)) (map trim_space parts))) else None.
Proof.
  induction parts as [|p r IH]; [reflexivity|]. cbn [parse_ip_list map filter].
  destruct (nil_str (trim_space p)) eqn:En; cbn [negb]; [exact IH|].
  cbn [forallb map keyed]. unfold parses at 1, entry_ip at 1.
  destruct (parse_ip e (trim_space p)) as [ip|]; [|reflexivity].
  rewrite IH. cbn [andb]. destruct (forallb (parses e) _); reflexivity.
Qed.

Definition no_entries (l : list str) : bool := match l with [] => true | _ => false end.

(* the handler: null/undefined -> null; not a string -> false; no entry, or an entry that is not an address -> false;
   otherwise the entries, each exactly once, IPv6 first, each family ascending, joined with ';' *)
Lemma sort_handler_spec e a :
  sort_ipv6_first = true ->
  match a with
  | JUndef | JNull => sortIpAddressList e a = JNull
  | JStr s =>
      if no_entries (list_entries s) || negb (forallb (parses e) (list_entries s))
      then sortIpAddressList e a = JBool false
      else exists l, sortIpAddressList e a = JStr (join [59] (map snd l)) /\
                     Permutation (keyed e (list_entries s)) l /\
                     sorted_by ip_le (map fst l) = true
  | _ => sortIpAddressList e a = JBool false
  end.
Proof.
  intro Hs. destruct a as [| |v|z|s]; try reflexivity.
  unfold sortIpAddressList, sort_parsed. cbn [is_nullish]. rewrite parse_ip_list_spec. fold (list_entries s).
  destruct (forallb (parses e) (list_entries s)) eqn:Ep.
  - cbn [negb]. rewrite orb_false_r. destruct (list_entries s) as [|x r] eqn:El; [reflexivity|].
    cbn [no_entries keyed map]. exists (sort_ips ((entry_ip e x, x) :: keyed e r)). split; [reflexivity|]. split.
    + apply sort_perm.
    + apply sort_sorted_reference. exact Hs.
  - rewrite orb_true_r. reflexivity.
Qed.
