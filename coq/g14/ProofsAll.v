(* C14 — lemmas, part 6: every helper, and every generated script, evaluates to what the
   reference gives (or the arguments are outside the reference's domain). *)
From G14 Require Import Model Spec ProofsBasic ProofsGlob ProofsNet.
Open Scope N_scope.

Definition meets (e : env) (h : helper) (args : list jsval) : Prop :=
  spec_call e h args = OutsideModel \/ call_helper e h args = spec_call e h args.

Section All.
  Hypothesis Hrw : shexp_rewrites = [(46, [92; 46]); (42, [46; 42]); (63, [46])].
  Hypothesis Han : shexp_anchored = true.
  Hypothesis Hmax : ip_octet_max = 255.
  Hypothesis Hconv : convert_byte_mask = 255 /\ convert_shifts = [24; 16; 8; 0].

  Lemma isResolvable_spec e a :
    isResolvable e (JStr a) = match spec_resolve4 e a with Some _ => true | None => false end.
  Proof.
    unfold isResolvable, dnsResolve, spec_resolve4.
    destruct (assoc a (e_dns4 e)) as [[|ip r]|]; reflexivity.
  Qed.

  Lemma dnsResolve_spec e a :
    dnsResolve e (JStr a) = match spec_resolve4 e a with Some ip => JStr ip | None => JNull end.
  Proof.
    unfold dnsResolve, spec_resolve4. destruct (assoc a (e_dns4 e)) as [[|ip r]|]; reflexivity.
  Qed.

  Hypothesis Hmyip : my_ip_default = b "127.0.0.1".
  Hypothesis Hver : client_version = b "1.0".

  Ltac same := right; reflexivity.

  Lemma helpers_meet_reference e h args : env_quads e -> meets e h args.
  Proof.
    intro He. unfold meets. destruct Hconv as [Hm Hs]. destruct h.
    - (* dnsDomainIs *)
      destruct args as [|[| | | |s0] [|[| | | |s1] [|]]]; cbn [spec_call]; try same.
      right. cbn [call_helper]. rewrite dnsDomainIs_is_suffix. reflexivity.
    - (* dnsDomainLevels *)
      destruct args as [|[| | | |s0] [|]]; cbn [spec_call]; try same.
      right. cbn [call_helper]. rewrite levels_count_dots. reflexivity.
    - (* isPlainHostName *)
      destruct args as [|[| | | |s0] [|]]; cbn [spec_call]; try same.
      right. cbn [call_helper]. rewrite plain_no_dot_colon. reflexivity.
    - (* localHostOrDomainIs *)
      destruct args as [|[| | | |s0] [|[| | | |s1] [|]]]; cbn [spec_call]; same.
    - (* shExpMatch *)
      destruct args as [|[| | | |s0] [|[| | | |s1] [|]]]; cbn [spec_call]; try same.
      destruct (glob_domain s0 s1) eqn:Ed; [right|left; reflexivity].
      cbn [call_helper]. rewrite (shexp_is_glob s0 s1 Hrw Han Ed), glob_run_eq. destruct (glob s1 s0); reflexivity.
    - (* isInNet *)
      destruct args as [|[| | | |s0] [|[| | | |s1] [|[| | | |s2] [|]]]]; cbn [spec_call]; try same.
      right. cbn [call_helper]. rewrite (isInNet_is_mask Hmax Hm Hs e s0 s1 s2 He). reflexivity.
    - (* isResolvable *)
      destruct args as [|[| | | |s0] [|]]; cbn [spec_call]; try same.
      right. cbn [call_helper]. rewrite isResolvable_spec. reflexivity.
    - (* dnsResolve *)
      destruct args as [|[| | | |s0] [|]]; cbn [spec_call]; try same.
      right. cbn [call_helper]. rewrite dnsResolve_spec. reflexivity.
    - (* myIpAddress *)
      destruct args as [|a0 args]; cbn [spec_call]; [|same].
      right. cbn [call_helper]. unfold myIpAddress. rewrite Hmyip. destruct (e_myip e); reflexivity.
    - (* isResolvableEx *) destruct args as [|a0 [|]]; cbn [spec_call]; same.
    - (* isInNetEx *) destruct args as [|a0 [|a1 [|]]]; cbn [spec_call]; same.
    - (* dnsResolveEx *) destruct args as [|a0 [|]]; cbn [spec_call]; same.
    - (* myIpAddressEx *) destruct args; cbn [spec_call]; same.
    - (* sortIpAddressList *) destruct args as [|a0 [|]]; cbn [spec_call]; same.
    - (* getClientVersion *)
      destruct args as [|a0 args]; cbn [spec_call]; [|same].
      right. cbn [call_helper]. rewrite Hver. reflexivity.
  Qed.

  Lemma script_meets_reference e url host t :
    env_quads e ->
    eval_tree (spec_call e) url host t = OutsideModel \/
    eval_tree (call_helper e) url host t = eval_tree (spec_call e) url host t.
  Proof.
    intro He. induction t as [v|h args|h args yes IHy no IHn]; cbn [eval_tree].
    - right. reflexivity.
    - destruct (helpers_meet_reference e h (map (arg_val url host) args) He) as [Ho|Eq].
      + left. rewrite Ho. reflexivity.
      + right. rewrite Eq. reflexivity.
    - destruct (helpers_meet_reference e h (map (arg_val url host) args) He) as [Ho|Eq].
      + left. rewrite Ho. reflexivity.
      + rewrite Eq. destruct (spec_call e h (map (arg_val url host) args)) as [v| |]; try (right; reflexivity).
        destruct (truthy v); assumption.
  Qed.

  Hypothesis Hres : result_string_checked = true /\ result_ascii_checked = true.
  Hypothesis Hboth : entry_both_is_error = true.

  (* the whole evaluation: entry-point rule, script, result checks *)
  Lemma find_proxy_meets_reference e has_fn has_fnx t url hostname url_hostname :
    env_quads e ->
    spec_find_proxy e has_fn has_fnx t url hostname url_hostname = Some PacOutside \/
    find_proxy (call_helper e) has_fn has_fnx t url hostname url_hostname =
    spec_find_proxy e has_fn has_fnx t url hostname url_hostname.
  Proof.
    intro He. destruct Hres as [Hr1 Hr2]. unfold find_proxy, spec_find_proxy, entry_point. rewrite Hboth.
    destruct has_fn, has_fnx; cbn [xorb]; try (right; reflexivity);
      destruct (script_meets_reference e url (effective_host hostname url_hostname) t He) as [Ho|Eq];
      try (left; rewrite Ho; reflexivity); right; rewrite Eq;
      rewrite (check_result_spec _ Hr1 Hr2); reflexivity.
  Qed.

  (* ---- what the script itself declares: with the library evaluated before the script, the model follows the
     standard rules (own function wins, helpers available while loading, const of a helper's name = script error) ---- *)
  Hypothesis Hlib : library_before_script = true.

  Lemma scoped_call_meets sc e h args :
    env_quads e ->
    spec_scoped_call sc e h args = OutsideModel \/ scoped_call sc (call_helper e) h args = spec_scoped_call sc e h args.
  Proof.
    intro He. unfold scoped_call, spec_scoped_call, shadow_in_force. rewrite Hlib. cbn [orb].
    destruct (lookup_helper h (sc_shadow sc)); [right; reflexivity|]. apply helpers_meet_reference. exact He.
  Qed.

  Lemma scoped_script_meets sc e url host t :
    env_quads e ->
    eval_tree (spec_scoped_call sc e) url host t = OutsideModel \/
    eval_tree (scoped_call sc (call_helper e)) url host t = eval_tree (spec_scoped_call sc e) url host t.
  Proof.
    intro He. induction t as [v|h args|h args yes IHy no IHn]; cbn [eval_tree].
    - right. reflexivity.
    - destruct (scoped_call_meets sc e h (map (arg_val url host) args) He) as [Ho|Eq].
      + left. rewrite Ho. reflexivity.
      + right. rewrite Eq. reflexivity.
    - destruct (scoped_call_meets sc e h (map (arg_val url host) args) He) as [Ho|Eq].
      + left. rewrite Ho. reflexivity.
      + rewrite Eq. destruct (spec_scoped_call sc e h (map (arg_val url host) args)) as [v| |]; try (right; reflexivity).
        destruct (truthy v); assumption.
  Qed.

  Lemma creation_meets sc t :
    scope_creation sc t <> CreationPanic /\
    (scope_creation sc t = Created <-> spec_creation_fails sc = false).
  Proof.
    unfold scope_creation, spec_creation_fails. rewrite Hlib. cbn [negb andb].
    destruct (sc_lexical sc) as [h|]; [destruct (is_js_helper h)|]; rewrite ?andb_false_r;
      split; try discriminate; split; intro; try reflexivity; try discriminate.
  Qed.
End All.
