(* C14 — the reference ("standard PAC semantics"): what the Netscape text and the
   Mozilla/Chromium implementations agree the helpers mean, written directly,
   without regular expressions, 32-bit arithmetic or Go's net package.  No proofs here. *)
From G14 Require Export Model.
Open Scope N_scope.

(* shell expression: '*' any sequence of characters, '?' any one character, the rest literal *)
Fixpoint glob (p s : str) : bool :=
  match p with
  | [] => nil_str s
  | c :: p' =>
      if c =? 42 then
        (fix star (s : str) : bool :=
           glob p' s || match s with [] => false | _ :: s' => star s' end) s
      else match s with
           | [] => false
           | d :: s' => ((c =? 63) || (c =? d)) && glob p' s'
           end
  end.

(* the same relation evaluated on sets of remaining texts (polynomial; ProofsGlob.glob_run_eq: equal to [glob]);
   this is what the run-time oracle evaluates *)
Fixpoint suffixes (s : str) : list str := s :: match s with [] => [] | _ :: r => suffixes r end.
Fixpoint dedup_str (l : list str) : list str :=
  match l with
  | [] => []
  | x :: r => if existsb (str_eqb x) r then dedup_str r else x :: dedup_str r
  end.
Definition glob_step (c : N) (s : str) : list str :=
  match s with
  | [] => []
  | d :: s' => if (c =? 63) || (c =? d) then [s'] else []
  end.
Fixpoint gsets (p : str) (ss : list str) : list str :=
  match p with
  | [] => ss
  | c :: p' => gsets p' (if c =? 42 then dedup_str (flat_map suffixes ss) else flat_map (glob_step c) ss)
  end.
Definition glob_run (p s : str) : bool := existsb nil_str (gsets p [s]).

(* the characters a pattern / a matched text of the property's domain is made of *)
Definition pat_char_ok (c : N) : bool := negb (js_meta c) || (c =? 63).      (* literals, '.', '*', '?' *)
Definition text_char_ok (c : N) : bool := negb (c =? 10) && negb (c =? 13).   (* no line terminators *)
Definition glob_domain (url pattern : str) : bool :=
  forallb pat_char_ok pattern && forallb text_char_ok url.

Definition is_suffix (suffix s : str) : bool := has_prefix (rev s) (rev suffix).
Definition count_byte (c : N) (s : str) : Z := Z.of_nat (length (filter (N.eqb c) s)).

(* dotted quad as JavaScript's isValidIpAddress accepts it: 4 groups of 1..3 digits, each <= 255 *)
Definition quad (s : str) : option (list N) :=
  match ip_groups s with
  | Some gs => if forallb (fun g => g <=? 255) gs then Some gs else None
  | None => None
  end.

Fixpoint octets_match (h p m : list N) : bool :=
  match h, p, m with
  | [], [], [] => true
  | a :: h', c :: p', d :: m' => (N.land a d =? N.land c d) && octets_match h' p' m'
  | _, _, _ => false
  end.

Definition spec_resolve4 (e : env) (host : str) : option str :=
  match assoc host (e_dns4 e) with Some (ip :: _) => Some ip | _ => None end.

(* isInNet: the host (an address literal, else its first IPv4 address) masked equals the pattern masked *)
Definition spec_isInNet (e : env) (host pattern mask : str) : bool :=
  match quad pattern, quad mask with
  | Some p, Some m =>
      let addr := match quad host with
                  | Some h => Some h
                  | None => match spec_resolve4 e host with Some ip => quad ip | None => None end
                  end in
      match addr with
      | Some h => octets_match h p m
      | None => false
      end
  | _, _ => false
  end.

(* bits of an address, most significant first *)
Fixpoint byte_bits (n : nat) (c : N) : list bool :=
  match n with
  | O => []
  | S k => N.testbit c (N.of_nat k) :: byte_bits k c
  end.
Definition bits (ip : list N) : list bool := flat_map (byte_bits 8) ip.
Fixpoint bools_eqb (x y : list bool) : bool :=
  match x, y with
  | [], [] => true
  | a :: x', c :: y' => Bool.eqb a c && bools_eqb x' y'
  | _, _ => false
  end.
(* CIDR containment: same family and the first n bits agree *)
Definition in_prefix (n : nat) (ip net : list N) : bool :=
  (length ip =? length net)%nat && bools_eqb (firstn n (bits ip)) (firstn n (bits net)).

(* the order sortIpAddressList promises: IPv6 before IPv4, each family ascending *)
Fixpoint sorted_by (le : list N -> list N -> bool) (l : list (list N)) : bool :=
  match l with
  | [] => true
  | x :: r => match r with [] => true | y :: _ => le x y && sorted_by le r end
  end.
(* x may stand before y: IPv6 before IPv4, else not greater byte-wise *)
Definition ip_le (x y : list N) : bool :=
  if Bool.eqb (is_v4 x) (is_v4 y) then negb (bytes_ltb y x) else negb (is_v4 x).

(* ---- result list entries: "<type> <host>:<port>" ---- *)
Definition known_keywords : list str :=
  [b "DIRECT"; b "PROXY"; b "HTTP"; b "HTTPS"; b "SOCKS"; b "SOCKS4"; b "SOCKS5"].
Definition spec_scheme (kw : str) : option str :=
  if str_eqb kw (b "DIRECT") then None
  else if str_eqb kw (b "PROXY") then Some (b "http")
  else Some (lower kw).
Definition host_char_ok (c : N) : bool := negb (blank_or_control c).     (* no blank, no control character *)

Inductive entry_spec :=
| SDirect                                 (* no proxy *)
| SProxy (kw host port : str)             (* a proxy of the type the keyword names *)
| SUnknown (kw host port : str)           (* an unrecognised keyword is treated as DIRECT (so says property C05) *)
| SMalformed.

(* a well-formed entry, after trimming white space around it *)
Definition spec_entry (s0 : str) : entry_spec :=
  let s := trim_space s0 in
  if nil_str s then SDirect                      (* an empty entry means: no proxy *)
  else if str_eqb s (b "DIRECT") then SDirect
  else match cut_byte 32 s with
       | None => SMalformed
       | Some (kw, hp) =>
           match split_host_port hp with
           | None => SMalformed
           | Some (h, p) =>
               if nil_str h || negb (forallb host_char_ok h) then SMalformed
               else if negb (valid_port16 p) then SMalformed
               else if existsb (str_eqb kw) known_keywords then SProxy kw h p
               else SUnknown kw h p
           end
       end.

(* ---- helper semantics under the reference ---- *)
Definition spec_call (e : env) (h : helper) (args : list jsval) : outcome :=
  match h, args with
  | HdnsDomainIs, [JStr a; JStr c] => Val (JBool (is_suffix c a))
  | HdnsDomainLevels, [JStr a] => Val (JNum (count_byte 46 a))
  | HisPlainHostName, [JStr a] => Val (JBool (negb (has_byte 46 a) && negb (has_byte 58 a)))
  | HlocalHostOrDomainIs, [JStr a; JStr c] => Val (JBool (str_eqb a c || has_prefix c (a ++ [46])))
  | HshExpMatch, [JStr a; JStr c] => if glob_domain a c then Val (JBool (glob_run c a)) else OutsideModel
  | HisInNet, [JStr a; JStr c; JStr d] => Val (JBool (spec_isInNet e a c d))
  | HisResolvable, [JStr a] => Val (JBool (match spec_resolve4 e a with Some _ => true | None => false end))
  | HdnsResolve, [JStr a] => Val (match spec_resolve4 e a with Some ip => JStr ip | None => JNull end)
  | HmyIpAddress, [] => Val (JStr (match e_myip e with ip :: _ => ip | [] => b "127.0.0.1" end))
  | HgetClientVersion, [] => Val (JStr (b "1.0"))
  | _, _ => call_helper e h args       (* resolver tables and argument handling of the other Go helpers: as transcribed *)
  end.

(* ---- the reference for a whole evaluation: exactly one entry point; the result must be an ASCII string ---- *)
Definition spec_check_result (o : outcome) : fpresult :=
  match o with
  | OutsideModel => PacOutside
  | Throws => PacErr
  | Val (JStr s) => if is_ascii s then PacOk s else PacErr
  | Val _ => PacErr
  end.
Definition spec_find_proxy (e : env) (has_fn has_fnx : bool) (t : tree) (url hostname url_hostname : str) : option fpresult :=
  if xorb has_fn has_fnx
  then Some (spec_check_result (eval_tree (spec_call e) url (effective_host hostname url_hostname) t))
  else None.

(* ---- standard PAC rules for what the script declares: its own function replaces a predefined helper of that name,
   the helpers are there while the script body is loaded, redeclaring a predefined JavaScript helper with const/let is
   an error of the script ---- *)
Definition spec_scoped_call (sc : scope) (e : env) (h : helper) (args : list jsval) : outcome :=
  match lookup_helper h (sc_shadow sc) with Some v => Val v | None => spec_call e h args end.
Definition spec_creation_fails (sc : scope) : bool :=
  match sc_lexical sc with Some h => is_js_helper h | None => false end.
Definition spec_find_proxy_scoped (sc : scope) (e : env) (has_fn has_fnx : bool) (t : tree) (url hostname url_hostname : str) : option fpresult :=
  if spec_creation_fails sc then None
  else if xorb has_fn has_fnx
  then Some (spec_check_result (eval_tree (spec_scoped_call sc e) url (effective_host hostname url_hostname) t))
  else None.
