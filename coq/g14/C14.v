(* C14 — property theorems.  Nothing but statements, `exact`, Print Assumptions. *)
From G14 Require Import Model Spec Check Obligations.

Example T14_placeholder : dnsDomainIs (b "www.x.com") (b ".x.com") = true.
Proof. exact eq_refl. Qed.
