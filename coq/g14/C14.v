(* C14 — property theorems.  Nothing but statements, `exact`, Print Assumptions.

   Vocabulary: G14.Js/Net are the hand transcription of pac/ascii_pac_utils.js and of the Go helpers;
   G14.Spec is the reference ("standard PAC semantics": glob, suffix, dot count, masked octets, ...);
   [call_helper e] / [spec_call e] evaluate one helper call under the model / the reference with the
   resolver tables [e]; [find_proxy] is NewProxyResolver's entry-point rule followed by FindProxyForURL
   (script, then the checks on the result); [parse_proxy], [proxies_first], [proxy_url] are pac/proxy.go. *)
From Coq Require Import Permutation.
From G14 Require Import Model Spec Check ProofsBasic ProofsPool ProofsParse ProofsGlob ProofsNet ProofsAll ProofsCidr ProofsSort ProofsEval PinnedExpected Obligations.
Open Scope N_scope.

(* shExpMatch is shell-expression (glob) matching: for every pattern made of literals, '.', '*', '?' and
   every text without line terminators — translation correctness of the three textual rewrites
   followed by an anchored regular-expression match. *)
Theorem T14_shexp_is_glob : forall url pattern,
  glob_domain url pattern = true -> shExpMatch url pattern = if glob pattern url then Yes else No.
Proof. exact (fun url pattern => shexp_is_glob url pattern ob_shexp_rewrites ob_shexp_anchored). Qed.
Print Assumptions T14_shexp_is_glob.

(* the polynomial evaluator of glob that the run-time oracle uses is glob *)
Theorem T14_glob_evaluator : forall p s, glob_run p s = glob p s.
Proof. exact glob_run_eq. Qed.
Print Assumptions T14_glob_evaluator.

(* isInNet is masked equality of the four octets (the 32-bit << | & arithmetic included), for all
   strings: invalid pattern or mask = false, host literal or its first IPv4 address. *)
Theorem T14_isInNet_is_mask : forall e host pattern mask,
  env_quads e -> isInNet e host pattern mask = spec_isInNet e host pattern mask.
Proof. exact (isInNet_is_mask ob_ip_octet_max (proj1 ob_convert_shape) (proj2 ob_convert_shape)). Qed.
Print Assumptions T14_isInNet_is_mask.

(* the bit-level core, for all octets *)
Theorem T14_masked_equality_bits : forall h0 h1 h2 h3 p0 p1 p2 p3 m0 m1 m2 m3,
  byte h0 -> byte h1 -> byte h2 -> byte h3 -> byte p0 -> byte p1 -> byte p2 -> byte p3 ->
  byte m0 -> byte m1 -> byte m2 -> byte m3 ->
  (Z.land (U4 h0 h1 h2 h3) (U4 m0 m1 m2 m3) = Z.land (U4 p0 p1 p2 p3) (U4 m0 m1 m2 m3) <->
   Z.land h0 m0 = Z.land p0 m0 /\ Z.land h1 m1 = Z.land p1 m1 /\ Z.land h2 m2 = Z.land p2 m2 /\ Z.land h3 m3 = Z.land p3 m3).
Proof. exact masked_eq_iff. Qed.
Print Assumptions T14_masked_equality_bits.

(* isInNetEx's test (IPNet.Contains with the mask CIDRMask(n, bits), as ParseCIDR stores the network) is CIDR
   containment: same family and the first n bits of address and network agree — for IPv4 and for IPv6 *)
Theorem T14_isInNetEx_is_prefix_v4 : forall n ip nt,
  length ip = 4%nat -> length nt = 4%nat -> all_octets ip -> all_octets nt ->
  net_contains (mask_bytes nt (cidr_mask n 4), cidr_mask n 4) ip = in_prefix n ip nt.
Proof. exact contains_v4. Qed.
Print Assumptions T14_isInNetEx_is_prefix_v4.

Theorem T14_isInNetEx_is_prefix_v6 : forall n ip nt,
  length ip = 16%nat -> length nt = 16%nat -> all_octets ip -> all_octets nt ->
  to4 ip = None -> to4 (mask_bytes nt (cidr_mask n 16)) = None ->
  net_contains (mask_bytes nt (cidr_mask n 16), cidr_mask n 16) ip = in_prefix n ip nt.
Proof. exact contains_v6. Qed.
Print Assumptions T14_isInNetEx_is_prefix_v6.

Theorem T14_dnsDomainIs_suffix : forall host dom, dnsDomainIs host dom = true <-> exists pre, host = pre ++ dom.
Proof. exact dnsDomainIs_suffix. Qed.
Print Assumptions T14_dnsDomainIs_suffix.

Theorem T14_levels_count_dots : forall host, dnsDomainLevels host = count_byte 46 host.
Proof. exact levels_count_dots. Qed.
Print Assumptions T14_levels_count_dots.

Theorem T14_plain_iff_no_dot_colon : forall host,
  isPlainHostName host = negb (has_byte 46 host) && negb (has_byte 58 host).
Proof. exact plain_no_dot_colon. Qed.
Print Assumptions T14_plain_iff_no_dot_colon.

Theorem T14_localHostOrDomainIs : forall host hostdom,
  localHostOrDomainIs host hostdom = true <-> host = hostdom \/ exists rest, hostdom = host ++ [46] ++ rest.
Proof. exact localHostOrDomainIs_spec. Qed.
Print Assumptions T14_localHostOrDomainIs.

(* every helper call gives what the reference gives, or its arguments are outside the reference's domain
   (only: a shExpMatch pattern with a regexp metacharacter other than . * ?, or a line terminator in the text) *)
Theorem T14_helpers_meet_reference : forall e h args,
  env_quads e -> spec_call e h args = OutsideModel \/ call_helper e h args = spec_call e h args.
Proof. exact (helpers_meet_reference ob_shexp_rewrites ob_shexp_anchored ob_ip_octet_max ob_convert_shape
                                      ob_my_ip_default ob_client_version). Qed.
Print Assumptions T14_helpers_meet_reference.

(* ... and so does every decision-tree script: the resolver exists iff exactly one entry point is defined,
   and FindProxyForURL returns the ASCII string the script's entry point returns under the reference
   semantics, an error for any other value *)
Theorem T14_script_meets_reference : forall e has_fn has_fnx t url hostname url_hostname,
  env_quads e ->
  spec_find_proxy e has_fn has_fnx t url hostname url_hostname = Some PacOutside \/
  find_proxy (call_helper e) has_fn has_fnx t url hostname url_hostname =
  spec_find_proxy e has_fn has_fnx t url hostname url_hostname.
Proof. exact (find_proxy_meets_reference ob_shexp_rewrites ob_shexp_anchored ob_ip_octet_max ob_convert_shape
                                         ob_my_ip_default ob_client_version ob_result_checks ob_entry_both_is_error). Qed.
Print Assumptions T14_script_meets_reference.

(* What the script declares itself follows the standard rules: its own function under a helper's name is the one its
   entry point calls, the helpers are there while the script body is loaded, a const/let of a JavaScript helper's
   name is an error of the script (never a panic) — for every scope description, tree, URL and host *)
Theorem T14_script_scope : forall sc e url host t,
  env_quads e ->
  (eval_tree (spec_scoped_call sc e) url host t = OutsideModel \/
   eval_tree (scoped_call sc (call_helper e)) url host t = eval_tree (spec_scoped_call sc e) url host t) /\
  scope_creation sc t <> CreationPanic /\
  (scope_creation sc t = Created <-> spec_creation_fails sc = false).
Proof. exact (fun sc e url host t He => conj
  (scoped_script_meets ob_shexp_rewrites ob_shexp_anchored ob_ip_octet_max ob_convert_shape ob_my_ip_default ob_client_version
                       ob_library_before_script sc e url host t He)
  (creation_meets ob_library_before_script sc t)). Qed.
Print Assumptions T14_script_scope.

(* sortIpAddressList: a permutation of its entries, IPv6 first, each family ascending *)
Theorem T14_sort_is_sorted_perm : forall l,
  Permutation l (sort_ips l) /\ sorted_by ip_le (map fst (sort_ips l)) = true.
Proof. exact (fun l => conj (sort_perm l) (sort_sorted_reference l ob_sort_ipv6_first)). Qed.
Print Assumptions T14_sort_is_sorted_perm.

(* the handler of sortIpAddressList, from its argument to its result, for every argument and every resolver table:
   null/undefined -> null; not a string -> false; no entry, or an entry that is not an address -> false; otherwise
   the entries (split at ';', trimmed, empty ones dropped), each exactly once, IPv6 first, each family ascending *)
Theorem T14_sort_handler : forall e a,
  match a with
  | JUndef | JNull => sortIpAddressList e a = JNull
  | JStr s =>
      if no_entries (list_entries s) || negb (forallb (parses e) (list_entries s))
      then sortIpAddressList e a = JBool false
      else exists l, sortIpAddressList e a = JStr (join [59] (map snd l)) /\
                     Permutation (keyed e (list_entries s)) l /\
                     sorted_by ip_le (map fst l) = true
  | _ => sortIpAddressList e a = JBool false
  end.
Proof. exact (fun e a => sort_handler_spec e a ob_sort_ipv6_first). Qed.
Print Assumptions T14_sort_handler.

(* a non-string or non-ASCII result is an error; an ASCII string is returned as it is *)
Theorem T14_result_checked : forall o,
  check_result o = match o with
                   | OutsideModel => PacOutside
                   | Throws => PacErr
                   | Val (JStr s) => if is_ascii s then PacOk s else PacErr
                   | Val _ => PacErr
                   end.
Proof. exact (fun o => check_result_spec o (proj1 ob_result_checks) (proj2 ob_result_checks)). Qed.
Print Assumptions T14_result_checked.

(* exactly one of FindProxyForURL / FindProxyForURLEx *)
Theorem T14_entry_point_exactly_one : forall has_fn has_fnx,
  (entry_point has_fn has_fnx = EntryError <-> xorb has_fn has_fnx = false) /\
  (entry_point has_fn has_fnx = EntryFn <-> has_fn = true /\ has_fnx = false) /\
  (entry_point has_fn has_fnx = EntryFnEx <-> has_fn = false /\ has_fnx = true).
Proof. exact (fun a c => entry_point_exactly_one a c ob_entry_both_is_error). Qed.
Print Assumptions T14_entry_point_exactly_one.

(* parsing a result entry: a well-formed entry is mapped to its proxy (keyword, host, port), an
   unrecognised keyword is DIRECT (property C05 says so), everything malformed is rejected — for all strings *)
Theorem T14_parse_entries : forall s, parse_proxy s = spec_parse s.
Proof. exact (parse_proxy_is_spec
  (eq_trans ob_parse_mode_arms (f_equal (map (fun m => (m, m))) ob_mode_consts))
  ob_parse_mode_default ob_mode_direct ob_parse_proxy_shape). Qed.
Print Assumptions T14_parse_entries.

Theorem T14_first_entry : forall s,
  proxies_first s = if nil_str s then Some direct
                    else spec_parse (match split_byte 59 s with x :: _ => x | [] => [] end).
Proof. exact (first_is_spec
  (eq_trans ob_parse_mode_arms (f_equal (map (fun m => (m, m))) ob_mode_consts))
  ob_parse_mode_default ob_mode_direct ob_parse_proxy_shape). Qed.
Print Assumptions T14_first_entry.

(* Proxies.All: every entry as the reference reads it, or an error as soon as one entry is malformed *)
Theorem T14_all_entries : forall specs,
  parse_all specs = (fix go (l : list str) : option (list proxy) :=
                       match l with
                       | [] => Some []
                       | x :: r => match spec_parse x with
                                   | None => None
                                   | Some p => option_map (cons p) (go r)
                                   end
                       end) specs.
Proof. exact (parse_all_spec
  (eq_trans ob_parse_mode_arms (f_equal (map (fun m => (m, m))) ob_mode_consts))
  ob_parse_mode_default ob_mode_direct ob_parse_proxy_shape). Qed.
Print Assumptions T14_all_entries.

(* keyword to scheme: lower-cased keyword, PROXY reads as http, DIRECT has no URL; IPv6 hosts are bracketed *)
Theorem T14_scheme_mapping : forall kw h p,
  proxy_url {| p_mode := kw; p_host := h; p_port := p |} =
  match spec_scheme kw with Some sc => Some (sc, join_host_port h p) | None => None end.
Proof. exact (url_wellformed ob_mode_direct ob_url_mode_alias). Qed.
Print Assumptions T14_scheme_mapping.

(* the pool: in every reachable state no resolver is with two callers, and none that is out lies in the pool;
   so a script whose result is a function of its arguments gives every caller the sequential answer *)
Theorem T14_pool_exclusive : forall ls s,
  psteps pinit ls = Some s ->
  (forall c1 c2 v, In (c1, v) (held s) -> In (c2, v) (held s) -> c1 = c2) /\
  (forall c v, In (c, v) (held s) -> ~ In v (free s)).
Proof. exact pool_exclusive. Qed.
Print Assumptions T14_pool_exclusive.

(* Evaluations issued concurrently through the pool give the same answers as if issued one at a time: for every script
   whose result is a function [f] of the arguments, any number of callers and EVERY interleaving of their steps
   (get a resolver / load the arguments into it / run / put it back; the runtime may drop pooled resolvers), each answer
   handed out is f of that caller's own arguments — in the order of steps the source has (put after the evaluation). *)
Theorem T14_pool_answers_sequential : forall (f : nat -> nat) ls s,
  xsteps f pool_put_after_eval xinit ls = Some s ->
  forall c a r, In (c, a, r) (xanswers s) -> r = f a.
Proof. exact (fun f => eq_ind_r (fun bl => forall ls s, xsteps f bl xinit ls = Some s -> forall c a r, In (c, a, r) (xanswers s) -> r = f a)
                               (pool_answers_sequential f) ob_pool_put_after_eval). Qed.
Print Assumptions T14_pool_answers_sequential.

(* ... and false for the other order (resolver put back before it is used): a caller receives another caller's answer *)
Theorem T14_pool_put_before_use_refuted :
  exists ls s, xsteps (fun x => x) false xinit ls = Some s /\ In (1, 7, 9)%nat (xanswers s).
Proof. exact (ex_intro _ early_put_trace early_put_wrong_answer). Qed.
Print Assumptions T14_pool_put_before_use_refuted.

Example T14_pool_example :
  exists s, xsteps (fun x => x * 2)%nat true xinit example_trace = Some s /\
            xanswers s = [(3, 5, 10); (2, 9, 18); (1, 7, 14)]%nat.
Proof. exact pool_example. Qed.

(* The helper bodies and Go functions the model transcribes are the ones that were read
   (everything not parameterised through Tables.v is pinned as text). *)
Theorem T14_transcribed_bodies_as_read : pinned = PinnedExpected.pinned_expected.
Proof. exact ob_pinned. Qed.
Print Assumptions T14_transcribed_bodies_as_read.

(* Non-vacuity: concrete calls in the domain, with the expected answers. *)
Example T14_example :
  let e := {| e_dns4 := [(b "hi.test", [b "200.1.2.3"])]; e_dns := []; e_myip := []; e_myipex := []; e_ip6 := []; e_cidr6 := [] |} in
  glob_domain (b "http://www.example.com/a.b") (b "http://*.example.com/*.?") = true /\
  shExpMatch (b "http://www.example.com/a.b") (b "http://*.example.com/*.?") = Yes /\
  isInNet e (b "hi.test") (b "200.1.0.0") (b "255.255.0.0") = true /\
  isInNet e (b "128.0.0.1") (b "0.0.0.1") (b "127.255.255.255") = true /\
  parse_proxy (b " HTTPS secure.example.com:443 ") = Some {| p_mode := b "HTTPS"; p_host := b "secure.example.com"; p_port := b "443" |} /\
  parse_proxy (b "PROXY  a:1") = None /\
  psteps pinit [Get 1; Get 2; Put 1; Drop; Get 3] <> None.
Proof. exact (conj eq_refl (conj eq_refl (conj eq_refl (conj eq_refl (conj eq_refl (conj eq_refl
  (fun E => eq_ind (psteps pinit [Get 1; Get 2; Put 1; Drop; Get 3])
                   (fun o => match o with Some _ => True | None => False end) I None E))))))). Qed.
