(* C14 — lemmas, part 3: result-list entries.  parseProxy against the reference
   [spec_entry]: every well-formed entry is mapped to its proxy; nothing well-formed
   is rejected; the converse (every malformed entry is rejected) is false. *)
From G14 Require Import Model Spec.
Open Scope N_scope.

Lemma assoc_str_identity k l :
  existsb (str_eqb k) l = true -> assoc_str k (map (fun m => (m, m)) l) = Some k.
Proof.
  induction l as [|x l IH]; simpl; [discriminate|].
  destruct (str_eqb k x) eqn:E.
  - intros _. apply str_eqb_eq in E. subst. reflexivity.
  - simpl. exact IH.
Qed.

Section Parse.
  Hypothesis Harms : parse_mode_arms = map (fun m => (m, m)) known_keywords.
  Hypothesis Hdirect : mode_direct = b "DIRECT".
  Hypothesis Hshape : parse_proxy_trims = true /\ parse_proxy_has_direct_literal = true /\ parse_proxy_validates_port = true.
  Hypothesis Halias : url_mode_alias = [(b "PROXY", b "HTTP")].

  Lemma parse_known kw : existsb (str_eqb kw) known_keywords = true -> parse_mode kw = Some kw.
  Proof. intro H. unfold parse_mode. rewrite Harms, (assoc_str_identity _ _ H). reflexivity. Qed.

  (* a well-formed entry is mapped to its proxy: keyword, host, port *)
  Lemma parse_wellformed s kw h p :
    spec_entry s = SProxy kw h p -> parse_proxy s = Some {| p_mode := kw; p_host := h; p_port := p |}.
  Proof.
    destruct Hshape as (Ht & Hd & Hv). unfold spec_entry, parse_proxy. rewrite Ht, Hd, Hv, Hdirect.
    destruct (nil_str (trim_space s)); [discriminate|].
    destruct (str_eqb (trim_space s) (b "DIRECT")); [discriminate|]. cbn [andb].
    destruct (cut_byte 32 (trim_space s)) as [[kw' hp]|]; [|discriminate].
    destruct (existsb (str_eqb kw') known_keywords) eqn:Ek; [|discriminate]. cbn [negb].
    destruct (split_host_port hp) as [[h' p']|]; [|discriminate].
    destruct (nil_str h' || negb (forallb host_char_ok h')) eqn:Eh; [discriminate|].
    destruct (valid_port16 p') eqn:Ep; [|discriminate]. cbn [negb andb].
    intro H. inversion H; subst. apply orb_false_iff in Eh as [Eh _]. rewrite Eh, andb_false_r.
    rewrite (parse_known _ Ek). reflexivity.
  Qed.

  Lemma parse_direct s : spec_entry s = SDirect -> parse_proxy s = Some direct.
  Proof.
    destruct Hshape as (Ht & Hd & Hv). unfold spec_entry, parse_proxy. rewrite Ht, Hd, Hdirect.
    destruct (nil_str (trim_space s)); [reflexivity|].
    destruct (str_eqb (trim_space s) (b "DIRECT")); [reflexivity|].
    destruct (cut_byte 32 (trim_space s)) as [[kw' hp]|]; [|discriminate].
    destruct (negb (existsb (str_eqb kw') known_keywords)); [discriminate|].
    destruct (split_host_port hp) as [[h' p']|]; [|discriminate].
    destruct (nil_str h' || negb (forallb host_char_ok h')); [discriminate|].
    destruct (negb (valid_port16 p')); discriminate.
  Qed.

  (* nothing well-formed is rejected *)
  Lemma parse_rejects_only_malformed s : parse_proxy s = None -> spec_entry s = SMalformed.
  Proof.
    intro H. destruct (spec_entry s) as [|kw h p|] eqn:E; [| |reflexivity].
    - rewrite (parse_direct _ E) in H. discriminate.
    - rewrite (parse_wellformed _ _ _ _ E) in H. discriminate.
  Qed.

  (* the scheme of a well-formed entry: lower-cased keyword, PROXY reads as http, DIRECT has no URL *)
  Lemma url_wellformed kw h p :
    existsb (str_eqb kw) known_keywords = true ->
    proxy_url {| p_mode := kw; p_host := h; p_port := p |} =
    match spec_scheme kw with Some sc => Some (sc, join_host_port h p) | None => None end.
  Proof.
    intro Hk. unfold proxy_url, proxy_scheme, spec_scheme. cbn [p_mode p_host p_port]. rewrite Hdirect, Halias.
    destruct (str_eqb kw (b "DIRECT")) eqn:E1; [reflexivity|].
    cbn [assoc_str]. destruct (str_eqb kw (b "PROXY")) eqn:E2; [reflexivity|reflexivity].
  Qed.
End Parse.

