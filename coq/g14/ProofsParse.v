(* C14 — lemmas, part 3: result-list entries.  parseProxy computes exactly the
   reference [spec_entry]: a well-formed entry is mapped to its proxy (keyword,
   host, port), an unrecognised keyword is DIRECT, a malformed entry is rejected. *)
From G14 Require Import Model Spec.
Open Scope N_scope.

Lemma assoc_str_identity k l :
  existsb (str_eqb k) l = true -> assoc_str k (map (fun m => (m, m)) l) = Some k.
Proof.
  induction l as [|x l IH]; simpl; [discriminate|].
  destruct (str_eqb k x) eqn:E.
  - intros _. apply str_eqb_eq in E. subst. reflexivity.
  - simpl. exact IH.
Qed.

Lemma assoc_str_absent k l :
  existsb (str_eqb k) l = false -> assoc_str k (map (fun m => (m, m)) l) = None.
Proof.
  induction l as [|x l IH]; simpl; [reflexivity|].
  destruct (str_eqb k x); simpl; [discriminate|]. exact IH.
Qed.

(* what the reference makes of an entry, as a parse result *)
Definition spec_parse (s : str) : option proxy :=
  match spec_entry s with
  | SDirect => Some direct
  | SProxy kw h p => Some {| p_mode := kw; p_host := h; p_port := p |}
  | SUnknown _ h p => Some {| p_mode := b "DIRECT"; p_host := h; p_port := p |}
  | SMalformed => None
  end.

Lemma forallb_negb_existsb {A} (f : A -> bool) l : forallb (fun x => negb (f x)) l = negb (existsb f l).
Proof. induction l as [|x l IH]; [reflexivity|]. simpl. rewrite IH, negb_orb. reflexivity. Qed.

Section Parse.
  Hypothesis Harms : parse_mode_arms = map (fun m => (m, m)) known_keywords.
  Hypothesis Hdefault : parse_mode_has_default = true /\ parse_mode_default = b "DIRECT".
  Hypothesis Hdirect : mode_direct = b "DIRECT".
  Hypothesis Hshape : parse_proxy_trims = true /\ parse_proxy_has_direct_literal = true /\
                      parse_proxy_validates_port = true /\ parse_proxy_validates_host = true.
  Hypothesis Halias : url_mode_alias = [(b "PROXY", b "HTTP")].

  Lemma parse_mode_spec kw :
    parse_mode kw = Some (if existsb (str_eqb kw) known_keywords then kw else b "DIRECT").
  Proof.
    destruct Hdefault as [Hd1 Hd2]. unfold parse_mode. rewrite Harms.
    destruct (existsb (str_eqb kw) known_keywords) eqn:E.
    - rewrite (assoc_str_identity _ _ E). reflexivity.
    - rewrite (assoc_str_absent _ _ E), Hd1, Hd2. reflexivity.
  Qed.

  (* parseProxy is the reference: every entry, well-formed or not *)
  Lemma parse_proxy_is_spec s : parse_proxy s = spec_parse s.
  Proof.
    destruct Hshape as (Ht & Hd & Hv & Hh). unfold spec_parse, spec_entry, parse_proxy.
    rewrite Ht, Hd, Hv, Hh, Hdirect. cbn [andb].
    destruct (nil_str (trim_space s)); [reflexivity|].
    destruct (str_eqb (trim_space s) (b "DIRECT")); [reflexivity|].
    destruct (cut_byte 32 (trim_space s)) as [[kw hp]|]; [|reflexivity].
    destruct (split_host_port hp) as [[h p]|]; [|reflexivity].
    unfold host_char_ok. rewrite forallb_negb_existsb, negb_involutive.
    destruct (nil_str h || existsb blank_or_control h); [reflexivity|].
    destruct (valid_port16 p); [|reflexivity]. cbn [negb].
    rewrite parse_mode_spec. destruct (existsb (str_eqb kw) known_keywords); reflexivity.
  Qed.

  (* the scheme of an entry: lower-cased keyword, PROXY reads as http, DIRECT has no URL *)
  Lemma url_wellformed kw h p :
    proxy_url {| p_mode := kw; p_host := h; p_port := p |} =
    match spec_scheme kw with Some sc => Some (sc, join_host_port h p) | None => None end.
  Proof.
    unfold proxy_url, proxy_scheme, spec_scheme. cbn [p_mode p_host p_port]. rewrite Hdirect, Halias.
    destruct (str_eqb kw (b "DIRECT")) eqn:E1; [reflexivity|].
    cbn [assoc_str]. destruct (str_eqb kw (b "PROXY")) eqn:E2; reflexivity.
  Qed.

  (* lists: First is the first entry; All is every entry or an error *)
  Lemma first_is_spec s :
    proxies_first s = if nil_str s then Some direct else spec_parse (match split_byte 59 s with x :: _ => x | [] => [] end).
  Proof.
    unfold proxies_first. destruct (nil_str s); [reflexivity|].
    destruct (split_byte 59 s) as [|x r]; [|apply parse_proxy_is_spec].
    unfold spec_parse, spec_entry. reflexivity.
  Qed.

  Lemma parse_all_spec specs :
    parse_all specs = (fix go (l : list str) : option (list proxy) :=
                         match l with
                         | [] => Some []
                         | x :: r => match spec_parse x with
                                     | None => None
                                     | Some p => option_map (cons p) (go r)
                                     end
                         end) specs.
  Proof. induction specs as [|x r IH]; [reflexivity|]. cbn [parse_all]. rewrite parse_proxy_is_spec, IH. reflexivity. Qed.
End Parse.
