(* C14 — PAC evaluation, part 1: executable model of pac/ascii_pac_utils.js
   (dnsDomainIs, dnsDomainLevels, isValidIpAddress, convert_addr, isInNet,
   isPlainHostName, isResolvable, localHostOrDomainIs, shExpMatch) and of
   pac/pac_ipv4.go (dnsResolve, myIpAddress).  The JavaScript bodies are
   transcribed by hand (goja is not modelled); shExpMatch's regular expression
   is given the regexp semantics of G17.Regex.  No proofs here. *)
From FwdLib Require Export Bytes.
From G17 Require Regex.
From G14 Require Export Tables.
Module R := G17.Regex.

Open Scope N_scope.

(* ------------------------------------------------------------------ JavaScript values that occur *)
Inductive jsval := JUndef | JNull | JBool (v : bool) | JNum (z : Z) | JStr (s : str).

Definition truthy (v : jsval) : bool :=
  match v with
  | JUndef | JNull => false
  | JBool x => x
  | JNum z => negb (Z.eqb z 0)
  | JStr s => match s with [] => false | _ => true end
  end.

(* ------------------------------------------------------------------ small text functions *)
Fixpoint replace_char (c : N) (rep : str) (s : str) : str :=      (* s.replace(/\c/g, rep) *)
  match s with
  | [] => []
  | d :: r => (if d =? c then rep else [d]) ++ replace_char c rep r
  end.

Definition nil_str (s : str) : bool := match s with [] => true | _ => false end.

(* ------------------------------------------------------------------ ascii_pac_utils.js *)
(* host.length >= domain.length && host.substring(host.length - domain.length) == domain *)
Definition dnsDomainIs (host domain : str) : bool :=
  (length domain <=? length host)%nat && str_eqb (skipn (length host - length domain) host) domain.

(* host.split(".").length - 1 *)
Definition dnsDomainLevels (host : str) : Z := Z.of_nat (length (split_byte 46 host)) - 1.

(* host.search("(\\.)|:") == -1 *)
Definition isPlainHostName (host : str) : bool :=
  negb (existsb (fun c => (c =? 46) || (c =? 58)) host).

(* host == hostdom || hostdom.lastIndexOf(host + ".", 0) == 0 *)
Definition localHostOrDomainIs (host hostdom : str) : bool :=
  str_eqb host hostdom || has_prefix hostdom (host ++ [46]).

(* /^(\d{1,3})\.(\d{1,3})\.(\d{1,3})\.(\d{1,3})$/ and every group <= ip_octet_max *)
Fixpoint dec_value (s : str) (acc : N) : N :=
  match s with
  | [] => acc
  | c :: r => dec_value r (acc * 10 + (c - 48))
  end.
Definition digits_1_3 (s : str) : bool :=
  forallb is_digit s && (1 <=? length s)%nat && (length s <=? 3)%nat.
Definition ip_groups (s : str) : option (list N) :=
  let parts := split_byte 46 s in
  if (length parts =? 4)%nat && forallb digits_1_3 parts
  then Some (map (fun p => dec_value p 0) parts) else None.
Definition isValidIpAddress (s : str) : bool :=
  match ip_groups s with
  | Some gs => forallb (fun g => g <=? ip_octet_max) gs
  | None => false
  end.

(* ((bytes[0] & 0xff) << 24) | ((bytes[1] & 0xff) << 16) | ((bytes[2] & 0xff) << 8) | (bytes[3] & 0xff)
   JavaScript's 32-bit integers are represented by their bit patterns (0 <= z < 2^32);
   &, |, << act on patterns and == on int32 values is equality of patterns. *)
Definition u32 (z : Z) : Z := Z.modulo z (2 ^ 32).
Fixpoint convert_parts (gs : list N) (shifts : list N) : Z :=
  match gs, shifts with
  | g :: gs', sh :: shifts' =>
      Z.lor (u32 (Z.shiftl (Z.land (Z.of_N g) (Z.of_N convert_byte_mask)) (Z.of_N sh))) (convert_parts gs' shifts')
  | _, _ => 0%Z
  end.
Definition convert_addr (s : str) : Z :=
  match ip_groups s with
  | Some gs => convert_parts gs convert_shifts
  | None => 0%Z               (* never reached: callers validate first *)
  end.

(* the resolver oracles of one evaluation *)
Record env := {
  e_dns4 : list (str * list str);     (* host -> addresses a "ip4" lookup returns, rendered by IP.String(); absent/[] = error *)
  e_dns : list (str * list str);      (* same for an "ip" lookup *)
  e_myip : list str;                  (* myIPAddress(false), rendered *)
  e_myipex : list str;                (* myIPAddress(true), rendered *)
  e_ip6 : list (str * list N);        (* net.ParseIP oracle for texts that are not dotted quads: 16 bytes *)
  e_cidr6 : list (str * (list N * list N))  (* net.ParseCIDR oracle for such texts: network bytes, mask bytes *)
}.

Fixpoint assoc {A} (k : str) (l : list (str * A)) : option A :=
  match l with
  | [] => None
  | (k', v) :: r => if str_eqb k k' then Some v else assoc k r
  end.

(* pac_ipv4.go dnsResolve *)
Definition dnsResolve (e : env) (a : jsval) : jsval :=
  match a with
  | JStr host => match assoc host (e_dns4 e) with
                 | Some (ip :: _) => JStr ip
                 | _ => JNull
                 end
  | _ => JUndef
  end.

Definition isResolvable (e : env) (a : jsval) : bool :=
  match dnsResolve e a with JNull | JUndef => false | _ => true end.      (* dnsResolve(host) != null *)

Definition isInNet (e : env) (ipaddr pattern maskstr : str) : bool :=
  if negb (isValidIpAddress pattern) || negb (isValidIpAddress maskstr) then false else
  let resolved :=
    if isValidIpAddress ipaddr then Some ipaddr
    else match dnsResolve e (JStr ipaddr) with JStr ip => Some ip | _ => None end in
  match resolved with
  | None => false
  | Some ip =>
      let host := convert_addr ip in
      let pat := convert_addr pattern in
      let mask := convert_addr maskstr in
      Z.eqb (Z.land host mask) (Z.land pat mask)
  end.

Definition myIpAddress (e : env) : jsval :=
  match e_myip e with [] => JStr my_ip_default | ip :: _ => JStr ip end.

(* ---- shExpMatch: textual rewrite, then new RegExp("^" + pattern + "$").test(url) ---- *)
Definition shexp_rewrite (p : str) : str :=
  fold_left (fun acc r => replace_char (fst r) (snd r) acc) shexp_rewrites p.

(* characters that mean something to a JavaScript RegExp besides the ones handled below *)
Definition js_meta (c : N) : bool :=
  existsb (N.eqb c) [36; 40; 41; 43; 63; 91; 92; 93; 94; 123; 124; 125].
(*                   $   (   )   +   ?   [   \   ]   ^   {    |    }  *)
Definition js_dot : R.item := R.Class true [(10, 10); (13, 13)].     (* any character but a line terminator (ASCII) *)

(* reader for the fragment the rewrite produces from literals, '.', '*', '?' *)
Fixpoint js_items (fuel : nat) (s : str) : option (list R.item) :=
  match fuel with
  | O => None
  | S n =>
      match s with
      | [] => Some []
      | c :: r =>
          let atom_rest :=
            if c =? 92 then match r with
                            | d :: r' => if is_alpha d || is_digit d then None else Some (R.Lit d, r')
                            | [] => None
                            end
            else if c =? 46 then Some (js_dot, r)
            else if (c =? 42) || js_meta c then None
            else Some (R.Lit c, r) in
          match atom_rest with
          | None => None
          | Some (a, r1) =>
              match r1 with
              | d :: r2 =>
                  if d =? 42 then
                    match r2 with
                    | d2 :: _ => if (d2 =? 42) || (d2 =? 63) || (d2 =? 43) then None
                                 else option_map (cons (R.Rep R.Star a)) (js_items n r2)
                    | [] => Some [R.Rep R.Star a]
                    end
                  else option_map (cons a) (js_items n r1)
              | [] => Some [a]
              end
          end
      end
  end.

Inductive tri := Yes | No | Outside.       (* Outside: the pattern is not in the modelled domain *)

Definition shExpMatch (url pattern : str) : tri :=
  let text := shexp_rewrite pattern in
  match js_items (S (length text)) text with
  | None => Outside
  | Some items =>
      match R.compile_top ((if shexp_anchored then [R.Bol] else []) ++ items ++ (if shexp_anchored then [R.Eol] else [])) with
      | R.Ok r => if R.matches r url then Yes else No
      | _ => Outside
      end
  end.

