(* C14 — table obligations: facts about pac/ascii_pac_utils.js and pac/*.go as
   extracted into Tables.v on this run, each discharged by closed computation. *)
From G14 Require Import Model PinnedExpected.

(* shExpMatch rewrites '.' to '\.', then '*' to '.*', then '?' to '.', in this order, and anchors the expression *)
Lemma ob_shexp_rewrites : shexp_rewrites = [(46, [92; 46]); (42, [46; 42]); (63, [46])].
Proof. vm_compute. reflexivity. Qed.
Lemma ob_shexp_anchored : shexp_anchored = true.
Proof. vm_compute. reflexivity. Qed.
(* isValidIpAddress bounds every octet by 255; convert_addr masks with 0xff and shifts by 24, 16, 8, 0 *)
Lemma ob_ip_octet_max : ip_octet_max = 255.
Proof. vm_compute. reflexivity. Qed.
Lemma ob_convert_shape : convert_byte_mask = 255 /\ convert_shifts = [24; 16; 8; 0].
Proof. vm_compute. split; reflexivity. Qed.
(* FindProxyForURL rejects a non-string and a non-ASCII result; both entry points defined is an error *)
Lemma ob_result_checks : result_string_checked = true /\ result_ascii_checked = true.
Proof. vm_compute. split; reflexivity. Qed.
Lemma ob_entry_both_is_error : entry_both_is_error = true.
Proof. vm_compute. reflexivity. Qed.
(* myIpAddress falls back to 127.0.0.1; getClientVersion is "1.0" *)
Lemma ob_my_ip_default : my_ip_default = b "127.0.0.1".
Proof. vm_compute. reflexivity. Qed.
Lemma ob_client_version : client_version = b "1.0".
Proof. vm_compute. reflexivity. Qed.
(* sortIpAddressList puts IPv6 addresses first *)
Lemma ob_sort_ipv6_first : sort_ipv6_first = true.
Proof. vm_compute. reflexivity. Qed.
(* keyword table: every Mode constant is its own keyword; scheme of PROXY is HTTP's *)
Lemma ob_parse_mode_arms : parse_mode_arms = map (fun m => (m, m)) mode_consts.
Proof. vm_compute. reflexivity. Qed.
Lemma ob_mode_consts : mode_consts = [b "DIRECT"; b "PROXY"; b "HTTP"; b "HTTPS"; b "SOCKS"; b "SOCKS4"; b "SOCKS5"].
Proof. vm_compute. reflexivity. Qed.
Lemma ob_mode_strings : mode_strings = mode_consts.
Proof. vm_compute. reflexivity. Qed.
Lemma ob_url_mode_alias : url_mode_alias = [(b "PROXY", b "HTTP")].
Proof. vm_compute. reflexivity. Qed.
(* parseProxy: trims, knows the literal DIRECT, demands a 16-bit port number, rejects an empty host and a
   host with a blank or control character; parseMode falls back to DIRECT for an unrecognised keyword *)
Lemma ob_parse_proxy_shape :
  parse_proxy_trims = true /\ parse_proxy_has_direct_literal = true /\
  parse_proxy_validates_port = true /\ parse_proxy_validates_host = true.
Proof. vm_compute. repeat split; reflexivity. Qed.
Lemma ob_parse_mode_default : parse_mode_has_default = true /\ parse_mode_default = b "DIRECT".
Proof. vm_compute. split; reflexivity. Qed.
Lemma ob_mode_direct : mode_direct = b "DIRECT".
Proof. vm_compute. reflexivity. Qed.

(* the transcribed bodies are the ones that were read *)
Lemma ob_pinned : pinned = pinned_expected.
Proof. vm_compute. reflexivity. Qed.

(* NewProxyResolver evaluates the helper library before the script *)
Lemma ob_library_before_script : library_before_script = true.
Proof. vm_compute. reflexivity. Qed.

(* ProxyResolverPool.FindProxyForURL puts the resolver back after the evaluation *)
Lemma ob_pool_put_after_eval : pool_put_after_eval = true.
Proof. vm_compute. reflexivity. Qed.
