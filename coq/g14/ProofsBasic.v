(* C14 — lemmas, part 1: the string helpers, result checks, entry-point rule. *)
From G14 Require Import Model Spec.
Open Scope N_scope.

(* ---- dnsDomainIs is the suffix test ---- *)
Lemma dnsDomainIs_suffix host dom : dnsDomainIs host dom = true <-> exists pre, host = pre ++ dom.
Proof.
  unfold dnsDomainIs. rewrite andb_true_iff, Nat.leb_le, str_eqb_eq. split.
  - intros [Hl He]. exists (firstn (length host - length dom) host).
    rewrite <- (firstn_skipn (length host - length dom) host) at 1. rewrite He. reflexivity.
  - intros [pre ->]. rewrite app_length. split; [lia|].
    replace (length pre + length dom - length dom)%nat with (length pre) by lia.
    rewrite skipn_app, skipn_all, Nat.sub_diag. reflexivity.
Qed.

Lemma is_suffix_spec dom host : is_suffix dom host = true <-> exists pre, host = pre ++ dom.
Proof.
  unfold is_suffix. rewrite has_prefix_spec. split.
  - intros [r Hr]. exists (rev r). apply (f_equal (@rev N)) in Hr.
    rewrite rev_involutive, rev_app_distr, rev_involutive in Hr. exact Hr.
  - intros [pre ->]. exists (rev pre). apply rev_app_distr.
Qed.

Lemma dnsDomainIs_is_suffix host dom : dnsDomainIs host dom = is_suffix dom host.
Proof.
  destruct (dnsDomainIs host dom) eqn:E1, (is_suffix dom host) eqn:E2; try reflexivity.
  - apply dnsDomainIs_suffix, is_suffix_spec in E1. congruence.
  - apply is_suffix_spec, dnsDomainIs_suffix in E2. congruence.
Qed.

(* ---- dnsDomainLevels counts the dots ---- *)
Lemma split_byte_nonempty c s : split_byte c s <> [].
Proof.
  induction s as [|d r IH]; simpl; [discriminate|].
  destruct (c =? d); [discriminate|]. destruct (split_byte c r); [contradiction|discriminate].
Qed.

Lemma split_length c s : length (split_byte c s) = S (length (filter (N.eqb c) s)).
Proof.
  induction s as [|d r IH]; [reflexivity|]. cbn [split_byte filter].
  destruct (c =? d) eqn:E.
  - cbn [length]. rewrite IH. reflexivity.
  - pose proof (split_byte_nonempty c r). destruct (split_byte c r) eqn:E2; [contradiction|].
    cbn [length] in *. exact IH.
Qed.

Lemma levels_count_dots host : dnsDomainLevels host = count_byte 46 host.
Proof. unfold dnsDomainLevels, count_byte. rewrite split_length. lia. Qed.

(* ---- isPlainHostName: no dot and no colon ---- *)
Lemma existsb_or {A} (f g : A -> bool) l : existsb (fun x => f x || g x) l = existsb f l || existsb g l.
Proof.
  induction l as [|x l IH]; [reflexivity|]. simpl. rewrite IH.
  destruct (f x), (g x), (existsb f l), (existsb g l); reflexivity.
Qed.

Lemma existsb_ext_local {A} (f g : A -> bool) l : (forall x, f x = g x) -> existsb f l = existsb g l.
Proof. intro H. induction l as [|x l IH]; [reflexivity|]. simpl. rewrite H, IH. reflexivity. Qed.

Lemma plain_no_dot_colon host : isPlainHostName host = negb (has_byte 46 host) && negb (has_byte 58 host).
Proof.
  unfold isPlainHostName, has_byte.
  rewrite (existsb_or (fun c => c =? 46) (fun c => c =? 58)), negb_orb.
  f_equal; f_equal; apply existsb_ext_local; intro x; apply N.eqb_sym.
Qed.

(* ---- localHostOrDomainIs: equal, or the unqualified name followed by a dot ---- *)
Lemma localHostOrDomainIs_spec host hostdom :
  localHostOrDomainIs host hostdom = true <-> host = hostdom \/ exists rest, hostdom = host ++ [46] ++ rest.
Proof.
  unfold localHostOrDomainIs. rewrite orb_true_iff, str_eqb_eq, has_prefix_spec. split.
  - intros [H|[r Hr]]; [left; exact H|right]. exists r. rewrite Hr, <- app_assoc. reflexivity.
  - intros [H|[r Hr]]; [left; exact H|right]. exists r. rewrite Hr, <- app_assoc. reflexivity.
Qed.

(* ---- the checks on what the script returned ---- *)
Lemma check_result_spec o :
  result_string_checked = true -> result_ascii_checked = true ->
  check_result o =
  match o with
  | OutsideModel => PacOutside
  | Throws => PacErr
  | Val (JStr s) => if is_ascii s then PacOk s else PacErr
  | Val _ => PacErr
  end.
Proof.
  intros Hs Ha. unfold check_result. rewrite Hs, Ha.
  destruct o as [v| |]; try reflexivity. destruct v; try reflexivity. destruct (is_ascii s); reflexivity.
Qed.

(* ---- exactly one entry point ---- *)
Lemma entry_point_exactly_one has_fn has_fnx :
  entry_both_is_error = true ->
  (entry_point has_fn has_fnx = EntryError <-> xorb has_fn has_fnx = false) /\
  (entry_point has_fn has_fnx = EntryFn <-> has_fn = true /\ has_fnx = false) /\
  (entry_point has_fn has_fnx = EntryFnEx <-> has_fn = false /\ has_fnx = true).
Proof.
  intro H. unfold entry_point. rewrite H. destruct has_fn, has_fnx; cbn; repeat split; intros; try discriminate;
    try reflexivity; try (destruct H0; discriminate).
Qed.
