(* C14 — lemmas, part 7: isInNetEx's test (Go's IPNet.Contains: masked comparison with the
   mask CIDRMask(n, bits)) is CIDR containment: the first n bits of address and network agree.
   The per-octet facts are a complete sweep over n in 0..8 and the octet in 0..255 (2 304 cases),
   lifted with forallb_forall; the rest is induction over the octets. *)
From G14 Require Import Model Spec.
Open Scope N_scope.

Definition bm (n : nat) : N := if (8 <=? n)%nat then 255 else N.land 255 (N.shiftl 255 (N.of_nat (8 - n))).

Lemma cidr_mask_cons n k : cidr_mask n (S k) = bm n :: cidr_mask (n - 8) k.
Proof. reflexivity. Qed.

Definition octets : list N := map N.of_nat (seq 0 256).
Lemma In_octets a : a < 256 -> In a octets.
Proof.
  intro H. unfold octets. rewrite <- (N2Nat.id a). apply in_map. apply in_seq. lia.
Qed.

Lemma byte_bits_len n c : length (byte_bits n c) = n.
Proof. induction n; simpl; congruence. Qed.

(* the value an octet has when only its first (most significant) bits are kept *)
Fixpoint pack (w : nat) (l : list bool) : N :=
  match l, w with
  | x :: r, S w' => (if x then N.shiftl 1 (N.of_nat w') else 0) + pack w' r
  | _, _ => 0
  end.

(* complete sweep over n in 0..8 and the octet in 0..255 (2 304 cases):
   masking is idempotent, keeps exactly the first n bits, and is determined by them *)
Definition octet_fact (n : nat) (a : N) : bool :=
  (N.land (N.land a (bm n)) (bm n) =? N.land a (bm n)) &&
  bools_eqb (firstn n (byte_bits 8 (N.land a (bm n)))) (firstn n (byte_bits 8 a)) &&
  (N.land a (bm n) =? pack 8 (firstn n (byte_bits 8 a))).
Definition sweep : bool := forallb (fun n => forallb (octet_fact n) octets) (seq 0 9).

Lemma sweep_ok : sweep = true.
Proof. vm_compute. reflexivity. Qed.

Lemma bools_eqb_eq x y : bools_eqb x y = true <-> x = y.
Proof.
  revert y. induction x as [|a x IH]; intros [|c y]; cbn [bools_eqb]; split; intro H; try discriminate; try reflexivity.
  - apply andb_true_iff in H as [H1 H2]. apply Bool.eqb_prop in H1. apply IH in H2. congruence.
  - inversion H; subst. rewrite Bool.eqb_reflx. apply IH. reflexivity.
Qed.

Lemma octet_fact_small n a : (n <= 8)%nat -> a < 256 ->
  N.land (N.land a (bm n)) (bm n) = N.land a (bm n) /\
  firstn n (byte_bits 8 (N.land a (bm n))) = firstn n (byte_bits 8 a) /\
  N.land a (bm n) = pack 8 (firstn n (byte_bits 8 a)).
Proof.
  intros Hn Ha. pose proof sweep_ok as S. unfold sweep in S.
  rewrite forallb_forall in S. specialize (S n ltac:(apply in_seq; lia)).
  rewrite forallb_forall in S. specialize (S a (In_octets a Ha)). unfold octet_fact in S.
  apply andb_true_iff in S as [S S3]. apply andb_true_iff in S as [S1 S2].
  apply N.eqb_eq in S1, S3. apply bools_eqb_eq in S2. auto.
Qed.

Lemma octet_eq_small n a c : (n <= 8)%nat -> a < 256 -> c < 256 ->
  (N.land (N.land c (bm n)) (bm n) =? N.land a (bm n)) =
  bools_eqb (firstn n (byte_bits 8 a)) (firstn n (byte_bits 8 c)).
Proof.
  intros Hn Ha Hc.
  destruct (octet_fact_small n a Hn Ha) as (_ & A2 & A3).
  destruct (octet_fact_small n c Hn Hc) as (C1 & C2 & C3).
  rewrite C1. apply eq_true_iff_eq. rewrite N.eqb_eq, bools_eqb_eq. split; intro H.
  - rewrite <- A2, <- C2, H. reflexivity.
  - rewrite A3, C3, H. reflexivity.
Qed.

Lemma octet_eq n a c : a < 256 -> c < 256 ->
  (N.land (N.land c (bm n)) (bm n) =? N.land a (bm n)) =
  bools_eqb (firstn n (byte_bits 8 a)) (firstn n (byte_bits 8 c)).
Proof.
  intros Ha Hc. destruct (Nat.le_gt_cases n 8) as [H|H]; [apply octet_eq_small; assumption|].
  pose proof (octet_eq_small 8 a c (le_n 8) Ha Hc) as E.
  assert (bm n = bm 8) as ->.
  { unfold bm. replace (8 <=? n)%nat with true by (symmetry; apply Nat.leb_le; lia). reflexivity. }
  rewrite !(firstn_all2 (n := n)) by (rewrite byte_bits_len; lia).
  rewrite !(firstn_all2 (n := 8%nat)) in E by (rewrite byte_bits_len; lia). exact E.
Qed.

Lemma bools_eqb_app x x' y y' : length x = length x' ->
  bools_eqb (x ++ y) (x' ++ y') = bools_eqb x x' && bools_eqb y y'.
Proof.
  revert x'. induction x as [|a x IH]; intros [|c x'] H; try discriminate; [reflexivity|].
  cbn [app bools_eqb]. rewrite IH by (simpl in H; congruence). apply andb_assoc.
Qed.

Definition all_octets (l : list N) : Prop := Forall (fun a => a < 256) l.

(* the masked comparison of IPNet.Contains on addresses of the same length *)
Lemma masked_is_prefix ip : forall nt n, length nt = length ip -> all_octets ip -> all_octets nt ->
  bytes_eqb (mask_bytes (mask_bytes nt (cidr_mask n (length ip))) (cidr_mask n (length ip)))
            (mask_bytes ip (cidr_mask n (length ip))) =
  bools_eqb (firstn n (bits ip)) (firstn n (bits nt)).
Proof.
  induction ip as [|a ip IH]; intros [|c nt] n Hl Hi Hn; try discriminate.
  - destruct n; reflexivity.
  - cbn [length] in *. rewrite cidr_mask_cons. cbn [mask_bytes bytes_eqb].
    inversion Hi; subst. inversion Hn; subst.
    rewrite (IH nt (n - 8)%nat) by (auto; congruence).
    unfold bits. cbn [flat_map]. rewrite !firstn_app, !byte_bits_len.
    rewrite bools_eqb_app by (rewrite !firstn_length, !byte_bits_len; reflexivity).
    rewrite octet_eq by assumption. reflexivity.
Qed.

Lemma mask_bytes_len x m : length m = length x -> length (mask_bytes x m) = length x.
Proof.
  revert m. induction x as [|a x IH]; intros [|c m] H; try discriminate; [reflexivity|].
  cbn [mask_bytes length]. rewrite IH by (simpl in H; congruence). reflexivity.
Qed.
Lemma cidr_mask_len n k : length (cidr_mask n k) = k.
Proof. revert n. induction k; intro n; simpl; congruence. Qed.

(* IPv4: the stored network is (address & mask, mask) with mask = CIDRMask(n, 32) *)
Lemma contains_v4 n ip nt : length ip = 4%nat -> length nt = 4%nat -> all_octets ip -> all_octets nt ->
  net_contains (mask_bytes nt (cidr_mask n 4), cidr_mask n 4) ip = in_prefix n ip nt.
Proof.
  intros Li Ln Hi Hn. unfold net_contains, in_prefix, to4.
  rewrite mask_bytes_len by (rewrite cidr_mask_len; congruence).
  rewrite Li, Ln, cidr_mask_len. cbn [Nat.eqb].
  rewrite ?mask_bytes_len by (rewrite cidr_mask_len; congruence). rewrite ?Li, ?Ln. cbn [Nat.eqb andb].
  pose proof (masked_is_prefix ip nt n ltac:(congruence) Hi Hn) as M. rewrite Li in M. exact M.
Qed.

(* IPv6 (neither side an IPv4-mapped address): mask = CIDRMask(n, 128) *)
Lemma contains_v6 n ip nt : length ip = 16%nat -> length nt = 16%nat -> all_octets ip -> all_octets nt ->
  to4 ip = None -> to4 (mask_bytes nt (cidr_mask n 16)) = None ->
  net_contains (mask_bytes nt (cidr_mask n 16), cidr_mask n 16) ip = in_prefix n ip nt.
Proof.
  intros Li Ln Hi Hn Ti Tn.
  assert (L : length (mask_bytes nt (cidr_mask n 16)) = 16%nat)
    by (rewrite mask_bytes_len; [exact Ln|rewrite cidr_mask_len; congruence]).
  unfold net_contains, in_prefix. rewrite Ti, Tn.
  do 4 (rewrite ?L, ?Li, ?Ln, ?cidr_mask_len; cbn [Nat.eqb andb]).
  pose proof (masked_is_prefix ip nt n ltac:(congruence) Hi Hn) as M. rewrite Li in M. exact M.
Qed.
