(* C14 — PAC evaluation, part 3: helper calls, generated decision-tree scripts,
   and pac/pac.go (entry-point rule, the checks FindProxyForURL applies to what
   the script returned).  No proofs here. *)
From G14 Require Export Net.
Open Scope N_scope.

Inductive helper :=
| HdnsDomainIs | HdnsDomainLevels | HisPlainHostName | HlocalHostOrDomainIs | HshExpMatch | HisInNet
| HisResolvable | HdnsResolve | HmyIpAddress
| HisResolvableEx | HisInNetEx | HdnsResolveEx | HmyIpAddressEx | HsortIpAddressList | HgetClientVersion.

Inductive arg := AUrl | AHost | ALit (v : jsval).

Inductive outcome := Val (v : jsval) | Throws | OutsideModel.

Definition of_tri (t : tri) : outcome :=
  match t with Yes => Val (JBool true) | No => Val (JBool false) | Outside => OutsideModel end.

(* The JavaScript helpers are modelled on string arguments only (anything else is
   OutsideModel); the Go helpers handle every argument. *)
Definition call_helper (e : env) (h : helper) (args : list jsval) : outcome :=
  match h, args with
  | HdnsDomainIs, [JStr a; JStr c] => Val (JBool (dnsDomainIs a c))
  | HdnsDomainLevels, [JStr a] => Val (JNum (dnsDomainLevels a))
  | HisPlainHostName, [JStr a] => Val (JBool (isPlainHostName a))
  | HlocalHostOrDomainIs, [JStr a; JStr c] => Val (JBool (localHostOrDomainIs a c))
  | HshExpMatch, [JStr a; JStr c] => of_tri (shExpMatch a c)
  | HisInNet, [JStr a; JStr c; JStr d] => Val (JBool (isInNet e a c d))
  | HisResolvable, [a] => Val (JBool (isResolvable e a))
  | HdnsResolve, [a] => Val (dnsResolve e a)
  | HdnsResolve, [] => Val JUndef
  | HmyIpAddress, [] => Val (myIpAddress e)
  | HisResolvableEx, [a] => Val (isResolvableEx e a)
  | HisInNetEx, [a; c] => Val (isInNetEx e a c)
  | HdnsResolveEx, [a] => Val (dnsResolveEx e a)
  | HmyIpAddressEx, [] => Val (myIpAddressEx e)
  | HsortIpAddressList, [a] => Val (sortIpAddressList e a)
  | HgetClientVersion, [] => Val (JStr client_version)
  | _, _ => OutsideModel
  end.

Inductive tree :=
| Leaf (v : jsval)                                        (* return v *)
| Show (h : helper) (args : list arg)                     (* var r = h(args); return typeof r + ":" + String(r) *)
| Node (h : helper) (args : list arg) (yes no : tree).    (* if (h(args)) yes else no *)

Definition arg_val (url host : str) (a : arg) : jsval :=
  match a with AUrl => JStr url | AHost => JStr host | ALit v => v end.

Definition z_digits (z : Z) : str :=
  match z with
  | Z0 => [48]
  | Zpos p => itoa (Npos p)
  | Zneg p => 45 :: itoa (Npos p)
  end.
Definition js_typeof (v : jsval) : str :=
  match v with
  | JUndef => b "undefined" | JNull => b "object" | JBool _ => b "boolean" | JNum _ => b "number" | JStr _ => b "string"
  end.
Definition js_string (v : jsval) : str :=
  match v with
  | JNull => b "null" | JUndef => b "undefined"
  | JBool true => b "true" | JBool false => b "false"
  | JStr s => s
  | JNum z => z_digits z
  end.

Section EvalTree.
  Variable call : helper -> list jsval -> outcome.     (* helper semantics: the model's or the specification's *)
  Fixpoint eval_tree (url host : str) (t : tree) : outcome :=
    match t with
    | Leaf v => Val v
    | Show h args =>
        match call h (map (arg_val url host) args) with
        | Val v => Val (JStr (js_typeof v ++ [58] ++ js_string v))
        | o => o
        end
    | Node h args yes no =>
        match call h (map (arg_val url host) args) with
        | Val v => if truthy v then eval_tree url host yes else eval_tree url host no
        | o => o
        end
    end.
End EvalTree.

(* ------------------------------------------------------------------ what the script itself declares *)
(* helpers implemented in ascii_pac_utils.js (the others are Go functions set on the global object) *)
Definition is_js_helper (h : helper) : bool :=
  match h with
  | HdnsDomainIs | HdnsDomainLevels | HisPlainHostName | HlocalHostOrDomainIs | HshExpMatch | HisInNet | HisResolvable => true
  | _ => false
  end.
Definition helper_code (h : helper) : N :=
  match h with
  | HdnsDomainIs => 0 | HdnsDomainLevels => 1 | HisPlainHostName => 2 | HlocalHostOrDomainIs => 3 | HshExpMatch => 4
  | HisInNet => 5 | HisResolvable => 6 | HdnsResolve => 7 | HmyIpAddress => 8 | HisResolvableEx => 9 | HisInNetEx => 10
  | HdnsResolveEx => 11 | HmyIpAddressEx => 12 | HsortIpAddressList => 13 | HgetClientVersion => 14
  end.
Definition helper_eqb (a c : helper) : bool := helper_code a =? helper_code c.

Record scope := {
  sc_shadow : list (helper * jsval);   (* function <helper>() { return <value>; } declared by the script *)
  sc_lexical : option helper;          (* const <helper> = 1; at the top level of the script *)
  sc_at_load : bool                    (* the body's helper call is made by a top-level statement (arguments are literals) *)
}.
Definition no_scope : scope := {| sc_shadow := []; sc_lexical := None; sc_at_load := false |}.

Fixpoint lookup_helper (h : helper) (l : list (helper * jsval)) : option jsval :=
  match l with
  | [] => None
  | (h', v) :: r => if helper_eqb h h' then Some v else lookup_helper h r
  end.

(* NewProxyResolver: Go helpers are set, then (Tables.library_before_script) the helper library is evaluated and then
   the script, or the other way round.  Whatever is evaluated later replaces a function of the same name. *)
Definition shadow_in_force (sc : scope) (h : helper) : option jsval :=
  match lookup_helper h (sc_shadow sc) with
  | Some v => if library_before_script || negb (is_js_helper h) then Some v else None
  | None => None
  end.
Definition scoped_call (sc : scope) (call : helper -> list jsval -> outcome) (h : helper) (args : list jsval) : outcome :=
  match shadow_in_force sc h with Some v => Val v | None => call h args end.

Inductive creation := Created | CreationError | CreationPanic.
Definition tree_helper (t : tree) : option helper :=
  match t with Show h _ | Node h _ _ _ => Some h | Leaf _ => None end.
Definition scope_creation (sc : scope) (t : tree) : creation :=
  match sc_lexical sc with
  | Some h =>
      if is_js_helper h
      then (if library_before_script then CreationError     (* the script redeclares a function of the library: its own error *)
            else CreationPanic)                             (* the library fails on the script's binding: panic(err) *)
      else Created
  | None =>
      if sc_at_load sc && negb library_before_script
      then match tree_helper t with
           | Some h => if is_js_helper h && negb (match lookup_helper h (sc_shadow sc) with Some _ => true | None => false end)
                       then CreationError                   (* ReferenceError: the library is not there yet *)
                       else Created
           | None => Created
           end
      else Created
  end.

(* ------------------------------------------------------------------ pac.go *)
Inductive fpresult := PacOk (s : str) | PacErr | PacOutside.

Definition is_ascii (s : str) : bool := forallb (fun c => c <? 128) s.

(* the checks FindProxyForURL applies to what the script returned *)
Definition check_result (o : outcome) : fpresult :=
  match o with
  | OutsideModel => PacOutside
  | Throws => PacErr
  | Val (JStr s) => if result_ascii_checked && negb (is_ascii s) then PacErr else PacOk s
  | Val _ => if result_string_checked then PacErr else PacOutside
  end.

(* NewProxyResolver: which of the two entry points the script defines as functions *)
Inductive entry := EntryFn | EntryFnEx | EntryError.
Definition entry_point (has_fn has_fnx : bool) : entry :=
  match has_fnx, has_fn with
  | false, false => EntryError
  | true, true => if entry_both_is_error then EntryError else EntryFnEx
  | true, false => EntryFnEx
  | false, true => EntryFn
  end.

(* FindProxyForURL(u, hostname): an empty hostname defaults to u.Hostname() *)
Definition effective_host (hostname url_hostname : str) : str :=
  if nil_str hostname then url_hostname else hostname.

(* None: NewProxyResolver fails *)
Definition find_proxy (call : helper -> list jsval -> outcome) (has_fn has_fnx : bool) (t : tree)
                      (url hostname url_hostname : str) : option fpresult :=
  match entry_point has_fn has_fnx with
  | EntryError => None
  | _ => Some (check_result (eval_tree call url (effective_host hostname url_hostname) t))
  end.
