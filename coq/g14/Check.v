(* C14 — executable checkers run on the implementation's observed behaviour.
   *_model_ok : the model computes what the implementation computed (correspondence)
   *_prop_ok  : the implementation's own output is what the reference demands (oracle) *)
From G14 Require Export Spec.
Open Scope N_scope.

Fixpoint bad_from {A} (f : A -> bool) (i : N) (l : list A) : list N :=
  match l with
  | [] => []
  | x :: r => if f x then bad_from f (i + 1) r else i :: bad_from f (i + 1) r
  end.
Definition bad {A} (f : A -> bool) (l : list A) : list N := bad_from f 0 l.

Definition opt_str_eqb (x y : option str) : bool :=
  match x, y with
  | Some a, Some c => str_eqb a c
  | None, None => true
  | _, _ => false
  end.

(* resolver tables shared by many cases, with the per-case oracle for IPv6 texts *)
Definition env_with (e : env) (ip6 : list (str * list N)) (cidr6 : list (str * (list N * list N))) : env :=
  {| e_dns4 := e_dns4 e; e_dns := e_dns e; e_myip := e_myip e; e_myipex := e_myipex e; e_ip6 := ip6; e_cidr6 := cidr6 |}.

(* ---- evaluation of a generated script through pac.ProxyResolver ---- *)
Record ecase := {
  ec_tree : tree;                  (* body of the entry point *)
  ec_has_fn : bool;                (* the script defines FindProxyForURL *)
  ec_has_fnx : bool;               (* the script defines FindProxyForURLEx *)
  ec_env : env;
  ec_url : str;                    (* u.String() *)
  ec_hostname : str;               (* the hostname argument *)
  ec_url_hostname : str;           (* u.Hostname() *)
  ec_scope : scope;                (* what else the script declares *)
  ec_panicked : bool;              (* NewProxyResolver panicked *)
  ec_new_ok : bool;                (* NewProxyResolver returned no error *)
  ec_res : option str              (* FindProxyForURL: Some s, None = error *)
}.

Definition bool_eqb (x y : bool) : bool := if x then y else negb y.

Definition observed_is (c : ecase) (panics : bool) (r : option fpresult) : bool :=
  bool_eqb (ec_panicked c) panics &&
  (panics ||
   match r with
   | None => negb (ec_new_ok c)
   | Some PacOutside => true
   | Some PacErr => ec_new_ok c && match ec_res c with None => true | Some _ => false end
   | Some (PacOk s) => ec_new_ok c && opt_str_eqb (ec_res c) (Some s)
   end).
Definition run_case (call : env -> helper -> list jsval -> outcome) (c : ecase) : option fpresult :=
  match scope_creation (ec_scope c) (ec_tree c) with
  | Created => find_proxy (scoped_call (ec_scope c) (call (ec_env c))) (ec_has_fn c) (ec_has_fnx c) (ec_tree c)
                          (ec_url c) (ec_hostname c) (ec_url_hostname c)
  | _ => None
  end.
Definition model_panics (c : ecase) : bool :=
  match scope_creation (ec_scope c) (ec_tree c) with CreationPanic => true | _ => false end.

Definition ecase_model_ok (c : ecase) : bool := observed_is c (model_panics c) (run_case call_helper c).
Definition run_spec (c : ecase) : option fpresult :=
  spec_find_proxy_scoped (ec_scope c) (ec_env c) (ec_has_fn c) (ec_has_fnx c) (ec_tree c) (ec_url c) (ec_hostname c) (ec_url_hostname c).
Definition ecase_prop_ok (c : ecase) : bool := observed_is c false (run_spec c).
Definition ecase_outside (c : ecase) : bool :=
  match run_case call_helper c, run_spec c with
  | Some PacOutside, _ | _, Some PacOutside => true
  | _, _ => false
  end.

(* one pass per case: bit 0 = correspondence fails, bit 1 = oracle fails, bit 2 = outside the reference's domain *)
Definition ecase_code (c : ecase) : N :=
  let m := run_case call_helper c in
  let s := run_spec c in
  (if observed_is c (model_panics c) m then 0 else 1) + (if observed_is c false s then 0 else 2) +
  (match m, s with Some PacOutside, _ | _, Some PacOutside => 4 | _, _ => 0 end).

(* ---- sortIpAddressList, modulo the order of entries that compare equal ---- *)
Record scase := {
  sc_env : env;
  sc_input : str;
  sc_output : option str           (* Some s = a string was returned, None = false *)
}.

Definition is_empty {A} (l : list A) : bool := match l with [] => true | _ => false end.
Fixpoint remove_one (x : str) (l : list str) : option (list str) :=
  match l with
  | [] => None
  | y :: r => if str_eqb x y then Some r else option_map (cons y) (remove_one x r)
  end.
Fixpoint same_multiset (x y : list str) : bool :=
  match x with
  | [] => match y with [] => true | _ => false end
  | a :: x' => match remove_one a y with Some y' => same_multiset x' y' | None => false end
  end.
Fixpoint list_bytes_eqb (x y : list (list N)) : bool :=
  match x, y with
  | [], [] => true
  | a :: x', c :: y' => bytes_eqb a c && list_bytes_eqb x' y'
  | _, _ => false
  end.

(* the texts that came out, parsed *)
Definition out_ips (e : env) (out : str) : option (list (list N)) :=
  all_some (map (parse_ip e) (split_byte 59 out)).

(* correspondence: same texts (as a multiset), same sequence of addresses *)
Definition scase_model_ok (c : scase) : bool :=
  match sort_parsed (sc_env c) (sc_input c), sc_output c with
  | None, None => true
  | Some l, Some out =>
      same_multiset (map snd l) (split_byte 59 out) &&
      match out_ips (sc_env c) out with
      | Some ips => list_bytes_eqb (map fst l) ips
      | None => false
      end
  | _, _ => false
  end.

(* the entries of the input: trimmed, empty ones dropped *)
Definition input_entries (s : str) : list str :=
  filter (fun v => negb (nil_str v)) (map trim_space (split_byte 59 s)).

(* oracle: a string comes out iff there is an entry and every entry is an address; it lists
   the same entries, IPv6 first, each family in ascending order *)
Definition scase_prop_ok (c : scase) : bool :=
  let ents := input_entries (sc_input c) in
  let all_parse := forallb (fun v => match parse_ip (sc_env c) v with Some _ => true | None => false end) ents in
  match sc_output c with
  | None => is_empty ents || negb all_parse
  | Some out =>
      negb (is_empty ents) && all_parse &&
      same_multiset ents (split_byte 59 out) &&
      match out_ips (sc_env c) out with
      | Some ips => sorted_by ip_le ips
      | None => false
      end
  end.

(* ---- result lists ---- *)
Definition triple := (str * str * str)%type.          (* Mode.String(), Host, Port *)
Definition triple_eqb (x y : triple) : bool :=
  let '(a, c, d) := x in let '(a', c', d') := y in str_eqb a a' && str_eqb c c' && str_eqb d d'.
Definition opt_eqb {A} (f : A -> A -> bool) (x y : option A) : bool :=
  match x, y with
  | Some a, Some c => f a c
  | None, None => true
  | _, _ => false
  end.
Fixpoint list_eqb {A} (f : A -> A -> bool) (x y : list A) : bool :=
  match x, y with
  | [], [] => true
  | a :: x', c :: y' => f a c && list_eqb f x' y'
  | _, _ => false
  end.
Definition pair_eqb (x y : str * str) : bool := str_eqb (fst x) (fst y) && str_eqb (snd x) (snd y).

Record pcase := {
  pc_text : str;                          (* the string FindProxyForURL returned *)
  pc_first : option triple;               (* Proxies.First(): None = error *)
  pc_first_url : option (str * str);      (* First().URL(): scheme and host, None = nil *)
  pc_all : option (list triple)           (* Proxies.All(): None = error *)
}.

Definition triple_of (p : proxy) : triple := (p_mode p, p_host p, p_port p).

Definition pcase_model_ok (c : pcase) : bool :=
  opt_eqb triple_eqb (option_map triple_of (proxies_first (pc_text c))) (pc_first c) &&
  opt_eqb pair_eqb (match proxies_first (pc_text c) with Some p => proxy_url p | None => None end) (pc_first_url c) &&
  opt_eqb (list_eqb triple_eqb) (option_map (map triple_of) (proxies_all (pc_text c))) (pc_all c).

(* what the reference demands of one entry *)
Definition entry_demands (s : str) (got : option triple) : bool :=
  match spec_entry s, got with
  | SDirect, Some t => triple_eqb t (b "DIRECT", [], [])
  | SProxy kw h p, Some t => triple_eqb t (kw, h, p)
  | SUnknown _ h p, Some t => triple_eqb t (b "DIRECT", h, p)
  | SMalformed, None => true
  | _, _ => false
  end.
Definition first_entry (s : str) : str := match split_byte 59 s with x :: _ => x | [] => [] end.

Definition spec_url (s : str) : option (str * str) :=
  match spec_entry s with
  | SProxy kw h p => match spec_scheme kw with Some sc => Some (sc, join_host_port h p) | None => None end
  | _ => None
  end.

Fixpoint all_demands (specs : list str) (got : list triple) : bool :=
  match specs, got with
  | [], [] => true
  | s :: specs', t :: got' => entry_demands s (Some t) && all_demands specs' got'
  | _, _ => false
  end.
Definition some_malformed (specs : list str) : bool :=
  existsb (fun s => match spec_entry s with SMalformed => true | _ => false end) specs.

Definition pcase_prop_ok (c : pcase) : bool :=
  let s := pc_text c in
  entry_demands (first_entry s) (pc_first c) &&
  opt_eqb pair_eqb (match pc_first c with Some _ => spec_url (first_entry s) | None => None end) (pc_first_url c) &&
  (if nil_str s then match pc_all c with Some [] => true | _ => false end
   else match pc_all c with
        | None => some_malformed (split_byte 59 s)
        | Some l => all_demands (split_byte 59 s) l
        end).

(* ---- the Gallina readers for dotted quads against net.ParseIP / net.ParseCIDR ---- *)
Record ipcase := {
  ip_text : str;
  ip_parse : option (list N);                 (* net.ParseIP(text).To16() *)
  ip_cidr : option (list N * list N)          (* net.ParseCIDR(text): IPNet.IP, IPNet.Mask *)
}.
Definition no_env : env :=
  {| e_dns4 := []; e_dns := []; e_myip := []; e_myipex := []; e_ip6 := []; e_cidr6 := [] |}.
Definition ipcase_model_ok (c : ipcase) : bool :=
  opt_eqb bytes_eqb (parse_ip no_env (ip_text c)) (ip_parse c) &&
  opt_eqb (fun x y => bytes_eqb (fst x) (fst y) && bytes_eqb (snd x) (snd y)) (parse_cidr no_env (ip_text c)) (ip_cidr c).

(* ---- end to end: the real binary started with --pac <script>; where a plain request is routed ---- *)
Record xcase := {
  xc_e : ecase;            (* the script, the request URL, and what pac.ProxyResolver.FindProxyForURL returned for it *)
  xc_a : str * str;        (* host and port of the scripted upstream proxy A *)
  xc_b : str * str;        (* ... B *)
  xc_route : N             (* observed: 0 = the origin was contacted directly, 1 = via A, 2 = via B, 3 = the proxy failed the request *)
}.
(* the route a result string asks for: its first entry *)
Definition route_of_first (c : xcase) (first : option proxy) : N :=
  match first with
  | None => 3
  | Some p =>
      if str_eqb (p_mode p) mode_direct then 0
      else match proxy_url p with
           | Some (sc, _) =>
               if negb (str_eqb sc (b "http")) then 3
               else if str_eqb (p_host p) (fst (xc_a c)) && str_eqb (p_port p) (snd (xc_a c)) then 1
               else if str_eqb (p_host p) (fst (xc_b c)) && str_eqb (p_port p) (snd (xc_b c)) then 2
               else 3
           | None => 0
           end
  end.
Definition route_of_result (c : xcase) (r : option fpresult) : option N :=
  match r with
  | Some (PacOk s) => Some (route_of_first c (proxies_first s))
  | Some PacErr => Some 3
  | Some PacOutside => None
  | None => Some 3
  end.
(* correspondence: the model's evaluation and parse predict the route the binary takes;
   also: the resolver API's own answer, parsed, predicts it (resolver API and proxy routing agree) *)
Definition xcase_model_ok (c : xcase) : bool :=
  ecase_model_ok (xc_e c) &&
  match route_of_result c (run_case call_helper (xc_e c)) with
  | Some r => r =? xc_route c
  | None => true
  end &&
  (let api := match ec_res (xc_e c) with
              | Some s => route_of_first c (proxies_first s)
              | None => 3
              end in api =? xc_route c).
(* oracle: the route is the one the reference semantics of the script asks for *)
Definition spec_route (c : xcase) (first : entry_spec) : N :=
  match first with
  | SDirect | SUnknown _ _ _ => 0
  | SMalformed => 3
  | SProxy kw h p =>
      if negb (str_eqb kw (b "PROXY") || str_eqb kw (b "HTTP")) then 3
      else if str_eqb h (fst (xc_a c)) && str_eqb p (snd (xc_a c)) then 1
      else if str_eqb h (fst (xc_b c)) && str_eqb p (snd (xc_b c)) then 2
      else 3
  end.
Definition xcase_prop_ok (c : xcase) : bool :=
  match run_spec (xc_e c) with
  | Some (PacOk s) => (if nil_str s then 0 else spec_route c (spec_entry (first_entry s))) =? xc_route c
  | Some PacErr | None => 3 =? xc_route c
  | Some PacOutside => true
  end.
