(* C14 — lemmas, part 5: isInNet is masked equality of the four octets.  The
   JavaScript arithmetic ((b0 & 0xff) << 24) | ... and (host & mask) == (pat & mask)
   on 32-bit patterns is related to the octets bit by bit. *)
From G14 Require Import Model Spec.
Open Scope Z_scope.

Definition byte (a : Z) : Prop := 0 <= a < 256.

Lemma byte_out a k : byte a -> k < 0 \/ 8 <= k -> Z.testbit a k = false.
Proof.
  intros [H0 H1] [Hk|Hk]; [apply Z.testbit_neg_r; exact Hk|].
  destruct (Z.eq_dec a 0) as [->|Hn]; [apply Z.testbit_0_l|].
  apply Z.bits_above_log2; [exact H0|].
  assert (Z.log2 a < 8) by (apply Z.log2_lt_pow2; lia). lia.
Qed.

Definition U4 (a b c d : Z) : Z :=
  Z.lor (Z.shiftl a 24) (Z.lor (Z.shiftl b 16) (Z.lor (Z.shiftl c 8) (Z.lor (Z.shiftl d 0) 0))).

Lemma U4_bit a b c d n : byte a -> byte b -> byte c -> byte d -> 0 <= n ->
  Z.testbit (U4 a b c d) n =
  if n <? 8 then Z.testbit d n
  else if n <? 16 then Z.testbit c (n - 8)
  else if n <? 24 then Z.testbit b (n - 16)
  else if n <? 32 then Z.testbit a (n - 24)
  else false.
Proof.
  intros Ha Hb Hc Hd Hn. unfold U4.
  rewrite !Z.lor_spec, !Z.shiftl_spec by exact Hn. rewrite Z.testbit_0_l, orb_false_r, Z.sub_0_r.
  destruct (n <? 8) eqn:E1.
  - apply Z.ltb_lt in E1.
    rewrite (byte_out a (n - 24)), (byte_out b (n - 16)), (byte_out c (n - 8)) by (auto; lia). reflexivity.
  - apply Z.ltb_ge in E1. destruct (n <? 16) eqn:E2.
    + apply Z.ltb_lt in E2.
      rewrite (byte_out a (n - 24)), (byte_out b (n - 16)), (byte_out d n) by (auto; lia).
      rewrite orb_false_r. reflexivity.
    + apply Z.ltb_ge in E2. destruct (n <? 24) eqn:E3.
      * apply Z.ltb_lt in E3.
        rewrite (byte_out a (n - 24)), (byte_out c (n - 8)), (byte_out d n) by (auto; lia).
        rewrite !orb_false_r. reflexivity.
      * apply Z.ltb_ge in E3. destruct (n <? 32) eqn:E4.
        -- apply Z.ltb_lt in E4.
           rewrite (byte_out b (n - 16)), (byte_out c (n - 8)), (byte_out d n) by (auto; lia).
           rewrite !orb_false_r. reflexivity.
        -- apply Z.ltb_ge in E4.
           rewrite (byte_out a (n - 24)), (byte_out b (n - 16)), (byte_out c (n - 8)), (byte_out d n) by (auto; lia).
           reflexivity.
Qed.

(* masked equality of one octet, from equal bits *)
Lemma land_byte_eq a p m :
  byte a -> byte p ->
  (forall k, 0 <= k < 8 -> Z.testbit a k && Z.testbit m k = Z.testbit p k && Z.testbit m k) ->
  Z.land a m = Z.land p m.
Proof.
  intros Ha Hp H. apply Z.bits_inj'. intros k Hk. rewrite !Z.land_spec.
  destruct (Z.lt_ge_cases k 8) as [Hlt|Hge]; [apply H; lia|].
  rewrite (byte_out a k), (byte_out p k) by (auto; lia). reflexivity.
Qed.

Lemma masked_eq_iff h0 h1 h2 h3 p0 p1 p2 p3 m0 m1 m2 m3 :
  byte h0 -> byte h1 -> byte h2 -> byte h3 -> byte p0 -> byte p1 -> byte p2 -> byte p3 ->
  byte m0 -> byte m1 -> byte m2 -> byte m3 ->
  (Z.land (U4 h0 h1 h2 h3) (U4 m0 m1 m2 m3) = Z.land (U4 p0 p1 p2 p3) (U4 m0 m1 m2 m3) <->
   Z.land h0 m0 = Z.land p0 m0 /\ Z.land h1 m1 = Z.land p1 m1 /\ Z.land h2 m2 = Z.land p2 m2 /\ Z.land h3 m3 = Z.land p3 m3).
Proof.
  intros Hh0 Hh1 Hh2 Hh3 Hp0 Hp1 Hp2 Hp3 Hm0 Hm1 Hm2 Hm3. split.
  - intro E.
    assert (B : forall n, 0 <= n ->
              Z.testbit (U4 h0 h1 h2 h3) n && Z.testbit (U4 m0 m1 m2 m3) n =
              Z.testbit (U4 p0 p1 p2 p3) n && Z.testbit (U4 m0 m1 m2 m3) n).
    { intros n Hn. rewrite <- !Z.land_spec, E. reflexivity. }
    repeat split; apply land_byte_eq; auto; intros k Hk.
    + specialize (B (k + 24) ltac:(lia)). rewrite !U4_bit in B by (auto; lia).
      replace (k + 24 <? 8) with false in B by (symmetry; apply Z.ltb_ge; lia).
      replace (k + 24 <? 16) with false in B by (symmetry; apply Z.ltb_ge; lia).
      replace (k + 24 <? 24) with false in B by (symmetry; apply Z.ltb_ge; lia).
      replace (k + 24 <? 32) with true in B by (symmetry; apply Z.ltb_lt; lia).
      replace (k + 24 - 24) with k in B by lia. exact B.
    + specialize (B (k + 16) ltac:(lia)). rewrite !U4_bit in B by (auto; lia).
      replace (k + 16 <? 8) with false in B by (symmetry; apply Z.ltb_ge; lia).
      replace (k + 16 <? 16) with false in B by (symmetry; apply Z.ltb_ge; lia).
      replace (k + 16 <? 24) with true in B by (symmetry; apply Z.ltb_lt; lia).
      replace (k + 16 - 16) with k in B by lia. exact B.
    + specialize (B (k + 8) ltac:(lia)). rewrite !U4_bit in B by (auto; lia).
      replace (k + 8 <? 8) with false in B by (symmetry; apply Z.ltb_ge; lia).
      replace (k + 8 <? 16) with true in B by (symmetry; apply Z.ltb_lt; lia).
      replace (k + 8 - 8) with k in B by lia. exact B.
    + specialize (B k ltac:(lia)). rewrite !U4_bit in B by (auto; lia).
      replace (k <? 8) with true in B by (symmetry; apply Z.ltb_lt; lia). exact B.
  - intros (E0 & E1 & E2 & E3). apply Z.bits_inj'. intros n Hn.
    rewrite !Z.land_spec, !U4_bit by auto.
    destruct (n <? 8); [rewrite <- !Z.land_spec, E3; reflexivity|].
    destruct (n <? 16); [rewrite <- !Z.land_spec, E2; reflexivity|].
    destruct (n <? 24); [rewrite <- !Z.land_spec, E1; reflexivity|].
    destruct (n <? 32); [rewrite <- !Z.land_spec, E0; reflexivity|reflexivity].
Qed.

(* ---- from the model's convert_addr to U4 ---- *)
Lemma byte_of_N g : (g <=? 255)%N = true -> byte (Z.of_N g).
Proof. intro H. apply N.leb_le in H. unfold byte. lia. Qed.

Lemma land_255 a : byte a -> Z.land a 255 = a.
Proof.
  intros [H0 H1]. change 255 with (Z.ones 8). rewrite Z.land_ones by lia. apply Z.mod_small. lia.
Qed.

Lemma u32_shift a k : byte a -> 0 <= k <= 24 -> u32 (Z.shiftl a k) = Z.shiftl a k.
Proof.
  intros [H0 H1] Hk. unfold u32. apply Z.mod_small. rewrite Z.shiftl_mul_pow2 by lia.
  split; [apply Z.mul_nonneg_nonneg; [lia|apply Z.pow_nonneg; lia]|].
  assert (2 ^ k <= 2 ^ 24) by (apply Z.pow_le_mono_r; lia).
  assert (0 < 2 ^ k) by (apply Z.pow_pos_nonneg; lia).
  change (2 ^ 32) with (256 * 2 ^ 24). nia.
Qed.

Lemma convert_parts_U4 g0 g1 g2 g3 :
  convert_byte_mask = 255%N -> convert_shifts = [24; 16; 8; 0]%N ->
  forallb (fun g => (g <=? 255)%N) [g0; g1; g2; g3] = true ->
  convert_parts [g0; g1; g2; g3] convert_shifts = U4 (Z.of_N g0) (Z.of_N g1) (Z.of_N g2) (Z.of_N g3).
Proof.
  intros Hm Hs Hb. rewrite Hs. cbn [forallb] in Hb.
  apply andb_true_iff in Hb as [B0 Hb]. apply andb_true_iff in Hb as [B1 Hb].
  apply andb_true_iff in Hb as [B2 Hb]. apply andb_true_iff in Hb as [B3 _].
  apply byte_of_N in B0, B1, B2, B3.
  cbn [convert_parts]. rewrite Hm. change (Z.of_N 255) with 255.
  change (Z.of_N 24) with 24. change (Z.of_N 16) with 16. change (Z.of_N 8) with 8. change (Z.of_N 0) with 0.
  rewrite !land_255 by assumption. rewrite !u32_shift by (assumption || lia). reflexivity.
Qed.

Lemma ip_groups_len s gs : ip_groups s = Some gs -> length gs = 4%nat.
Proof.
  unfold ip_groups. destruct ((length (split_byte 46 s) =? 4)%nat && forallb digits_1_3 (split_byte 46 s)) eqn:E; [|discriminate].
  intro H. inversion H; subst. rewrite map_length. apply andb_true_iff in E as [E _]. apply Nat.eqb_eq in E. exact E.
Qed.

Lemma quad_inv s gs : quad s = Some gs ->
  ip_groups s = Some gs /\ forallb (fun g => (g <=? 255)%N) gs = true /\
  exists g0 g1 g2 g3, gs = [g0; g1; g2; g3].
Proof.
  unfold quad. destruct (ip_groups s) as [l|] eqn:E; [|discriminate].
  destruct (forallb (fun g => (g <=? 255)%N) l) eqn:Eb; [|discriminate].
  intro H. inversion H; subst. repeat split; auto.
  apply ip_groups_len in E. destruct gs as [|g0 [|g1 [|g2 [|g3 [|]]]]]; try discriminate. eauto.
Qed.

Lemma valid_iff_quad s : ip_octet_max = 255%N -> isValidIpAddress s = match quad s with Some _ => true | None => false end.
Proof.
  intro Hm. unfold isValidIpAddress, quad. rewrite Hm. destruct (ip_groups s); [|reflexivity].
  destruct (forallb (fun g => (g <=? 255)%N) l); reflexivity.
Qed.

Lemma of_N_land x y : Z.land (Z.of_N x) (Z.of_N y) = Z.of_N (N.land x y).
Proof. destruct x, y; reflexivity. Qed.

Section IsInNet.
  Hypothesis Hmax : ip_octet_max = 255%N.
  Hypothesis Hmask : convert_byte_mask = 255%N.
  Hypothesis Hshifts : convert_shifts = [24; 16; 8; 0]%N.

  Lemma convert_quad s gs : quad s = Some gs ->
    exists g0 g1 g2 g3, gs = [g0; g1; g2; g3] /\
      byte (Z.of_N g0) /\ byte (Z.of_N g1) /\ byte (Z.of_N g2) /\ byte (Z.of_N g3) /\
      convert_addr s = U4 (Z.of_N g0) (Z.of_N g1) (Z.of_N g2) (Z.of_N g3).
  Proof.
    intro H. destruct (quad_inv s gs H) as (Eg & Hb & g0 & g1 & g2 & g3 & ->).
    exists g0, g1, g2, g3. split; [reflexivity|].
    pose proof Hb as Hb'. cbn [forallb] in Hb'.
    apply andb_true_iff in Hb' as [B0 Hb']. apply andb_true_iff in Hb' as [B1 Hb'].
    apply andb_true_iff in Hb' as [B2 Hb']. apply andb_true_iff in Hb' as [B3 _].
    repeat split; try (apply byte_of_N; assumption).
    unfold convert_addr. rewrite Eg. apply convert_parts_U4; assumption.
  Qed.

  Lemma masked_match h p m :
    quad h <> None -> quad p <> None -> quad m <> None ->
    Z.eqb (Z.land (convert_addr h) (convert_addr m)) (Z.land (convert_addr p) (convert_addr m)) =
    match quad h, quad p, quad m with
    | Some hs, Some ps, Some ms => octets_match hs ps ms
    | _, _, _ => false
    end.
  Proof.
    intros Hh Hp Hm.
    destruct (quad h) as [hs|] eqn:Eh; [|congruence].
    destruct (quad p) as [ps|] eqn:Ep; [|congruence].
    destruct (quad m) as [ms|] eqn:Em; [|congruence].
    destruct (convert_quad h hs Eh) as (h0 & h1 & h2 & h3 & -> & Bh0 & Bh1 & Bh2 & Bh3 & ->).
    destruct (convert_quad p ps Ep) as (p0 & p1 & p2 & p3 & -> & Bp0 & Bp1 & Bp2 & Bp3 & ->).
    destruct (convert_quad m ms Em) as (m0 & m1 & m2 & m3 & -> & Bm0 & Bm1 & Bm2 & Bm3 & ->).
    cbn [octets_match]. rewrite andb_true_r.
    pose proof (masked_eq_iff _ _ _ _ _ _ _ _ _ _ _ _ Bh0 Bh1 Bh2 Bh3 Bp0 Bp1 Bp2 Bp3 Bm0 Bm1 Bm2 Bm3) as I.
    assert (J : forall x y z : N, (N.land x z =? N.land y z)%N = true <->
                                  Z.land (Z.of_N x) (Z.of_N z) = Z.land (Z.of_N y) (Z.of_N z)).
    { intros x y z. rewrite N.eqb_eq, !of_N_land. split; [congruence|apply N2Z.inj]. }
    destruct (Z.eqb _ _) eqn:E.
    - apply Z.eqb_eq, I in E. destruct E as (E0 & E1 & E2 & E3).
      symmetry. rewrite !andb_true_iff, !J. auto.
    - symmetry. apply not_true_iff_false. intro T. apply Z.eqb_neq in E. apply E, I.
      rewrite !andb_true_iff, !J in T. tauto.
  Qed.

  (* every address an "ip4" lookup yields is a dotted quad (Go renders it with IP.String()) *)
  Definition env_quads (e : env) : Prop :=
    forall host ip rest, assoc host (e_dns4 e) = Some (ip :: rest) -> quad ip <> None.

  Lemma isInNet_is_mask e host pat mask :
    env_quads e -> isInNet e host pat mask = spec_isInNet e host pat mask.
  Proof.
    intro He. unfold isInNet, spec_isInNet. rewrite !(valid_iff_quad _ Hmax).
    destruct (quad pat) as [ps|] eqn:Ep; [|reflexivity].
    destruct (quad mask) as [ms|] eqn:Em; [|reflexivity]. cbn [negb orb].
    destruct (quad host) as [hs|] eqn:Eh.
    - pose proof (masked_match host pat mask) as M. rewrite Eh, Ep, Em in M. apply M; discriminate.
    - unfold dnsResolve, spec_resolve4.
      destruct (assoc host (e_dns4 e)) as [[|ip rest]|] eqn:Ea; try reflexivity.
      pose proof (He host ip rest Ea) as Hq.
      pose proof (masked_match ip pat mask) as M. rewrite Ep, Em in M.
      destruct (quad ip) as [is|] eqn:Ei; [|congruence]. apply M; discriminate.
  Qed.
End IsInNet.
