(* C14 — the whole model. *)
From G14 Require Export Js Net Eval Proxy Pool.
