(* C14 — witnesses for statements that are false of the current source (Tables.v of this run).
   When the source is repaired these stop compiling, which is reported; C14.v then has to state the
   positive theorem instead. *)
From G14 Require Import Model Spec.
Open Scope N_scope.

(* the converse is false on the current source: malformed entries that are accepted *)
Lemma parse_accepts_malformed :
  (spec_entry (b "FOO a:1") = SMalformed /\ parse_proxy (b "FOO a:1") <> None) /\
  (spec_entry (b "PROXY :1") = SMalformed /\ parse_proxy (b "PROXY :1") <> None) /\
  (spec_entry (b "PROXY  a:1") = SMalformed /\ parse_proxy (b "PROXY  a:1") <> None).
Proof. vm_compute. repeat split; discriminate. Qed.
