(* C14 — PAC evaluation, part 5: pac/pool.go as a transition system.  A caller
   takes a resolver (VM) out of the pool or, when none is free, a fresh one is
   made; it evaluates; it puts the resolver back.  sync.Pool may also drop free
   items at any time.  No proofs here. *)
From G14 Require Export Proxy.

Record pstate := {
  free : list nat;                 (* resolvers lying in the pool *)
  held : list (nat * nat);         (* (caller, resolver) pairs: resolvers out with a caller *)
  next : nat                       (* resolvers made so far *)
}.
Definition pinit : pstate := {| free := []; held := []; next := 0 |}.

Inductive plabel :=
| Get (caller : nat)               (* pool.get(): take a free resolver, or make a new one *)
| Put (caller : nat)               (* pool.pool.Put(pr) after the evaluation *)
| Drop.                            (* the runtime discards a free resolver (GC) *)

Fixpoint remove_caller (c : nat) (l : list (nat * nat)) : list (nat * nat) :=
  match l with
  | [] => []
  | (c', v) :: r => if Nat.eqb c c' then r else (c', v) :: remove_caller c r
  end.
Fixpoint lookup_caller (c : nat) (l : list (nat * nat)) : option nat :=
  match l with
  | [] => None
  | (c', v) :: r => if Nat.eqb c c' then Some v else lookup_caller c r
  end.

(* one step; None = the label is not enabled (a caller holds at most one resolver and
   puts back only what it holds: FindProxyForURL is get; evaluate; put) *)
Definition pstep (s : pstate) (l : plabel) : option pstate :=
  match l with
  | Get c =>
      match lookup_caller c (held s) with
      | Some _ => None
      | None =>
          match free s with
          | v :: r => Some {| free := r; held := (c, v) :: held s; next := next s |}
          | [] => Some {| free := []; held := (c, next s) :: held s; next := S (next s) |}
          end
      end
  | Put c =>
      match lookup_caller c (held s) with
      | None => None
      | Some v => Some {| free := v :: free s; held := remove_caller c (held s); next := next s |}
      end
  | Drop =>
      match free s with
      | _ :: r => Some {| free := r; held := held s; next := next s |}
      | [] => None
      end
  end.

Fixpoint psteps (s : pstate) (ls : list plabel) : option pstate :=
  match ls with
  | [] => Some s
  | l :: r => match pstep s l with Some s' => psteps s' r | None => None end
  end.
