(* C14 — PAC evaluation, part 5: pac/pool.go as a transition system.  A caller
   takes a resolver (VM) out of the pool or, when none is free, a fresh one is
   made; it evaluates; it puts the resolver back.  sync.Pool may also drop free
   items at any time.  No proofs here. *)
From G14 Require Export Proxy.

Record pstate := {
  free : list nat;                 (* resolvers lying in the pool *)
  held : list (nat * nat);         (* (caller, resolver) pairs: resolvers out with a caller *)
  next : nat                       (* resolvers made so far *)
}.
Definition pinit : pstate := {| free := []; held := []; next := 0 |}.

Inductive plabel :=
| Get (caller : nat)               (* pool.get(): take a free resolver, or make a new one *)
| Put (caller : nat)               (* pool.pool.Put(pr) after the evaluation *)
| Drop.                            (* the runtime discards a free resolver (GC) *)

Fixpoint remove_caller (c : nat) (l : list (nat * nat)) : list (nat * nat) :=
  match l with
  | [] => []
  | (c', v) :: r => if Nat.eqb c c' then r else (c', v) :: remove_caller c r
  end.
Fixpoint lookup_caller (c : nat) (l : list (nat * nat)) : option nat :=
  match l with
  | [] => None
  | (c', v) :: r => if Nat.eqb c c' then Some v else lookup_caller c r
  end.

(* one step; None = the label is not enabled (a caller holds at most one resolver and
   puts back only what it holds: FindProxyForURL is get; evaluate; put) *)
Definition pstep (s : pstate) (l : plabel) : option pstate :=
  match l with
  | Get c =>
      match lookup_caller c (held s) with
      | Some _ => None
      | None =>
          match free s with
          | v :: r => Some {| free := r; held := (c, v) :: held s; next := next s |}
          | [] => Some {| free := []; held := (c, next s) :: held s; next := S (next s) |}
          end
      end
  | Put c =>
      match lookup_caller c (held s) with
      | None => None
      | Some v => Some {| free := v :: free s; held := remove_caller c (held s); next := next s |}
      end
  | Drop =>
      match free s with
      | _ :: r => Some {| free := r; held := held s; next := next s |}
      | [] => None
      end
  end.

Fixpoint psteps (s : pstate) (ls : list plabel) : option pstate :=
  match ls with
  | [] => Some s
  | l :: r => match pstep s l with Some s' => psteps s' r | None => None end
  end.

(* ------------------------------------------------------------------ evaluations through the pool *)
Open Scope nat_scope.
(* ProxyResolverPool.FindProxyForURL is, per caller: get a resolver; evaluate; put it back.  A resolver (one JavaScript
   VM) is not safe for concurrent use: an evaluation first loads its arguments into the VM's working storage and then
   runs the script on whatever that storage holds.  Callers interleave arbitrarily between these steps.
   [put_late] is the order the source has (Tables.pool_put_after_eval): put after the evaluation (true) or before it. *)
Record xstate := {
  xp : pstate;
  xpc : list (nat * nat);          (* caller -> program counter: absent/0 idle, 1 has a resolver, 2 arguments loaded, 3 evaluated *)
  xhandle : list (nat * nat);      (* caller -> the resolver it works with *)
  xarg : list (nat * nat);         (* caller -> the argument of its current call *)
  xscratch : list (nat * nat);     (* resolver -> what its working storage holds *)
  xanswers : list (nat * nat * nat)  (* caller, argument, answer *)
}.
Definition xinit : xstate :=
  {| xp := pinit; xpc := []; xhandle := []; xarg := []; xscratch := []; xanswers := [] |}.

Inductive xlabel :=
| XGet (c : nat)
| XLoad (c arg : nat)
| XRun (c : nat)
| XPut (c : nat)
| XDrop.

Fixpoint assoc_nat (k : nat) (l : list (nat * nat)) : option nat :=
  match l with
  | [] => None
  | (k', v) :: r => if Nat.eqb k k' then Some v else assoc_nat k r
  end.
Definition set_nat (k v : nat) (l : list (nat * nat)) : list (nat * nat) := (k, v) :: l.
Definition pc_of (s : xstate) (c : nat) : nat := match assoc_nat c (xpc s) with Some n => n | None => 0 end.

Section XStep.
  Variable f : nat -> nat.          (* the script: its result is a function of the arguments *)
  Variable put_late : bool.

  Definition xstep (s : xstate) (l : xlabel) : option xstate :=
    match l with
    | XGet c =>
        if Nat.eqb (pc_of s c) 0 then
          match pstep (xp s) (Get c) with
          | Some p' => match lookup_caller c (held p') with
                       | Some v => Some {| xp := p'; xpc := set_nat c 1 (xpc s); xhandle := set_nat c v (xhandle s);
                                           xarg := xarg s; xscratch := xscratch s; xanswers := xanswers s |}
                       | None => None
                       end
          | None => None
          end
        else None
    | XLoad c a =>
        (* with the late put the caller still holds the resolver; with the early put it has given it back already *)
        if Nat.eqb (pc_of s c) (if put_late then 1 else 4) then
          match assoc_nat c (xhandle s) with
          | Some v => Some {| xp := xp s; xpc := set_nat c (if put_late then 2 else 5) (xpc s); xhandle := xhandle s;
                              xarg := set_nat c a (xarg s); xscratch := set_nat v a (xscratch s); xanswers := xanswers s |}
          | None => None
          end
        else None
    | XRun c =>
        if Nat.eqb (pc_of s c) (if put_late then 2 else 5) then
          match assoc_nat c (xhandle s), assoc_nat c (xarg s) with
          | Some v, Some a =>
              let held_value := match assoc_nat v (xscratch s) with Some x => x | None => 0 end in
              Some {| xp := xp s; xpc := set_nat c (if put_late then 3 else 0) (xpc s); xhandle := xhandle s;
                      xarg := xarg s; xscratch := xscratch s; xanswers := (c, a, f held_value) :: xanswers s |}
          | _, _ => None
          end
        else None
    | XPut c =>
        if Nat.eqb (pc_of s c) (if put_late then 3 else 1) then
          match pstep (xp s) (Put c) with
          | Some p' => Some {| xp := p'; xpc := set_nat c (if put_late then 0 else 4) (xpc s); xhandle := xhandle s;
                               xarg := xarg s; xscratch := xscratch s; xanswers := xanswers s |}
          | None => None
          end
        else None
    | XDrop =>
        match pstep (xp s) Drop with
        | Some p' => Some {| xp := p'; xpc := xpc s; xhandle := xhandle s; xarg := xarg s;
                             xscratch := xscratch s; xanswers := xanswers s |}
        | None => None
        end
    end.

  Fixpoint xsteps (s : xstate) (ls : list xlabel) : option xstate :=
    match ls with
    | [] => Some s
    | l :: r => match xstep s l with Some s' => xsteps s' r | None => None end
    end.
End XStep.
