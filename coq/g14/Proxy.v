(* C14 — PAC evaluation, part 4: pac/proxy.go — Proxies.First / All, parseProxy,
   parseMode, Proxy.URL (scheme mapping).  No proofs here. *)
From G14 Require Export Eval.
Open Scope N_scope.

Record proxy := { p_mode : str; p_host : str; p_port : str }.      (* the mode by its constant's name *)
Definition direct : proxy := {| p_mode := mode_direct; p_host := []; p_port := [] |}.

Fixpoint assoc_str (k : str) (l : list (str * str)) : option str :=
  match l with
  | [] => None
  | (k', v) :: r => if str_eqb k k' then Some v else assoc_str k r
  end.

(* parseMode: None = the keyword is rejected (only when the source has no default arm) *)
Definition parse_mode (s : str) : option str :=
  match assoc_str s parse_mode_arms with
  | Some m => Some m
  | None => if parse_mode_has_default then Some parse_mode_default else None
  end.

(* net.SplitHostPort *)
Fixpoint last_index (c : N) (s : str) (i : nat) (acc : option nat) : option nat :=
  match s with
  | [] => acc
  | d :: r => last_index c r (S i) (if d =? c then Some i else acc)
  end.
Definition has_byte (c : N) (s : str) : bool := existsb (N.eqb c) s.
Definition split_host_port (hp : str) : option (str * str) :=
  match last_index 58 hp 0 None with
  | None => None                                             (* missing port *)
  | Some i =>
      let port := skipn (S i) hp in
      match hp with
      | 91 :: rest =>                                        (* [host]:port *)
          match index_byte 93 hp with
          | None => None                                     (* missing ']' *)
          | Some e =>
              if negb (S e =? i)%nat then None               (* ']' must be directly before the last colon *)
              else let host := firstn (e - 1) rest in
                   if has_byte 91 rest || has_byte 93 (skipn (S e) hp) then None
                   else Some (host, port)
          end
      | _ =>
          let host := firstn i hp in
          if has_byte 58 host then None                      (* too many colons *)
          else if has_byte 91 hp || has_byte 93 hp then None
          else Some (host, port)
      end
  end.

(* strconv.ParseUint(port, 10, 16) succeeds *)
Definition valid_port16 (p : str) : bool :=
  negb (nil_str p) && forallb is_digit p && (dec_value p 0 <=? 65535).

(* isBlankOrControl: r <= ' ' || r == 0x7f *)
Definition blank_or_control (c : N) : bool := (c <=? 32) || (c =? 127).

(* parseProxy: None = error *)
Definition parse_proxy (s0 : str) : option proxy :=
  let s := if parse_proxy_trims then trim_space s0 else s0 in
  if nil_str s then Some direct
  else if parse_proxy_has_direct_literal && str_eqb s mode_direct then Some direct
  else match cut_byte 32 s with
       | None => None                                        (* missing host:port *)
       | Some (mode, hostport) =>
           match split_host_port hostport with
           | None => None
           | Some (h, p) =>
               if parse_proxy_validates_host && (nil_str h || existsb blank_or_control h) then None
               else if parse_proxy_validates_port && negb (valid_port16 p) then None
               else match parse_mode mode with
                    | None => None
                    | Some m => Some {| p_mode := m; p_host := h; p_port := p |}
                    end
           end
       end.

(* Proxies.First *)
Definition proxies_first (s : str) : option proxy :=
  if nil_str s then Some direct
  else match split_byte 59 s with
       | spec :: _ => parse_proxy spec
       | [] => Some direct
       end.

(* Proxies.All: None = error; the empty string gives no entries *)
Fixpoint parse_all (specs : list str) : option (list proxy) :=
  match specs with
  | [] => Some []
  | x :: r => match parse_proxy x with
              | None => None
              | Some p => option_map (cons p) (parse_all r)
              end
  end.
Definition proxies_all (s : str) : option (list proxy) :=
  if nil_str s then Some [] else parse_all (split_byte 59 s).

(* Proxy.URL: None = nil (DIRECT); scheme = lower-cased name of the mode, PROXY reads as HTTP *)
Definition proxy_scheme (mode : str) : option str :=
  if str_eqb mode mode_direct then None
  else Some (lower (match assoc_str mode url_mode_alias with Some m => m | None => mode end)).

Definition is_ipv6_host (h : str) : bool := has_byte 58 h.
(* net.JoinHostPort *)
Definition join_host_port (h p : str) : str :=
  if is_ipv6_host h then [91] ++ h ++ [93; 58] ++ p else h ++ [58] ++ p.
Definition proxy_url (p : proxy) : option (str * str) :=         (* scheme, host:port *)
  match proxy_scheme (p_mode p) with
  | None => None
  | Some sc => Some (sc, join_host_port (p_host p) (p_port p))
  end.
