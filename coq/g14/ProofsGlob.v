(* C14 — lemmas, part 4: shExpMatch is glob matching.  The three textual rewrites
   turn a pattern made of literals, '.', '*' and '?' into a regular expression
   whose anchored match (regexp semantics of G17.Regex) is exactly [glob]. *)
From G17 Require Import RegexProofs.
From G14 Require Import Model Spec.
Import R.
Open Scope N_scope.

(* ---- step A: the three replace calls, as one character-wise map ---- *)
Definition G (c : N) : str :=
  if c =? 46 then [92; 46] else if c =? 42 then [46; 42] else if c =? 63 then [46] else [c].

Lemma replace_char_flat c rep s : replace_char c rep s = flat_map (fun d => if d =? c then rep else [d]) s.
Proof. induction s as [|d r IH]; [reflexivity|]. cbn [replace_char flat_map]. rewrite IH. reflexivity. Qed.

Lemma flat_map_flat_map {A B C} (f : A -> list B) (g : B -> list C) l :
  flat_map g (flat_map f l) = flat_map (fun x => flat_map g (f x)) l.
Proof. induction l as [|x l IH]; [reflexivity|]. cbn [flat_map]. rewrite flat_map_app, IH. reflexivity. Qed.

Lemma rewrite_is_G p :
  shexp_rewrites = [(46, [92; 46]); (42, [46; 42]); (63, [46])] -> shexp_rewrite p = flat_map G p.
Proof.
  intro H. unfold shexp_rewrite. rewrite H. cbn [fold_left fst snd].
  rewrite !replace_char_flat, !flat_map_flat_map. apply flat_map_ext. intro d. unfold G.
  destruct (d =? 46) eqn:E1.
  - apply N.eqb_eq in E1. subst d. reflexivity.
  - cbn [flat_map app]. destruct (d =? 42) eqn:E2.
    + apply N.eqb_eq in E2. subst d. reflexivity.
    + cbn [flat_map app]. destruct (d =? 63) eqn:E3; reflexivity.
Qed.

(* ---- step B: the reader recovers one item per pattern character ---- *)
Definition tr (c : N) : item :=
  if c =? 46 then Lit 46 else if c =? 42 then Rep Star js_dot else if c =? 63 then js_dot else Lit c.

Lemma js_meta_false c : js_meta c = false -> (c =? 92) = false /\ (c =? 43) = false /\ (c =? 63) = false.
Proof.
  unfold js_meta. cbn [existsb]. rewrite !orb_false_iff. intros (_ & _ & _ & H43 & H63 & _ & H92 & _).
  repeat split; assumption.
Qed.

Lemma pat_ok_cases c : pat_char_ok c = true -> (c =? 63) = true \/ js_meta c = false.
Proof. unfold pat_char_ok. destruct (js_meta c), (c =? 63); cbn; auto; discriminate. Qed.

Lemma G_nonempty c : G c <> [].
Proof. unfold G. destruct (c =? 46), (c =? 42), (c =? 63); discriminate. Qed.

Lemma flat_G_nil p : flat_map G p = [] -> p = [].
Proof.
  destruct p as [|c p]; [reflexivity|]. cbn [flat_map]. pose proof (G_nonempty c).
  destruct (G c); [contradiction|discriminate].
Qed.

(* the first character of a rewritten pattern is never '*', '?' or '+' *)
Lemma head_rewritten p d r :
  forallb pat_char_ok p = true -> flat_map G p = d :: r -> (d =? 42) = false /\ (d =? 63) = false /\ (d =? 43) = false.
Proof.
  destruct p as [|c p]; [discriminate|]. cbn [forallb flat_map]. intros H E.
  apply andb_true_iff in H as [Hc _]. unfold G in E.
  destruct (c =? 46) eqn:E1; [inversion E; subst; repeat split; reflexivity|].
  destruct (c =? 42) eqn:E2; [inversion E; subst; repeat split; reflexivity|].
  destruct (c =? 63) eqn:E3; [inversion E; subst; repeat split; reflexivity|].
  inversion E; subst d. destruct (pat_ok_cases c Hc) as [H|H]; [congruence|].
  destruct (js_meta_false c H) as (_ & H43 & _). auto.
Qed.

Lemma js_items_rewritten p :
  forallb pat_char_ok p = true ->
  forall fuel, (length p < fuel)%nat -> js_items fuel (flat_map G p) = Some (map tr p).
Proof.
  induction p as [|c p IH]; intros Hp fuel Hf.
  - destruct fuel; [lia|]. reflexivity.
  - destruct fuel as [|n]; [cbn in Hf; lia|]. cbn [length] in Hf.
    cbn [forallb] in Hp. apply andb_true_iff in Hp as [Hc Hp].
    specialize (IH Hp n ltac:(lia)).
    cbn [flat_map map]. unfold G at 1, tr at 1.
    destruct (c =? 46) eqn:E46.
    + (* '.' became "\." *)
      cbn [app js_items]. change (92 =? 92) with true. cbn iota.
      change (is_alpha 46 || is_digit 46) with false. cbn iota.
      destruct (flat_map G p) as [|d r] eqn:Et.
      * apply flat_G_nil in Et. subst p. reflexivity.
      * destruct (head_rewritten p d r Hp Et) as (H42 & _). rewrite H42, IH. reflexivity.
    + destruct (c =? 42) eqn:E42.
      * (* '*' became ".*" *)
        cbn [app js_items]. change (46 =? 92) with false. change (46 =? 46) with true. cbn iota.
        change (42 =? 42) with true. cbn iota.
        destruct (flat_map G p) as [|d r] eqn:Et.
        -- apply flat_G_nil in Et. subst p. reflexivity.
        -- destruct (head_rewritten p d r Hp Et) as (H42 & H63 & H43). rewrite H42, H63, H43. cbn [orb].
           rewrite IH. reflexivity.
      * destruct (c =? 63) eqn:E63.
        -- (* '?' became "." *)
           cbn [app js_items]. change (46 =? 92) with false. change (46 =? 46) with true. cbn iota.
           destruct (flat_map G p) as [|d r] eqn:Et.
           ++ apply flat_G_nil in Et. subst p. reflexivity.
           ++ destruct (head_rewritten p d r Hp Et) as (H42 & _). rewrite H42, IH. reflexivity.
        -- (* a literal *)
           destruct (pat_ok_cases c Hc) as [H|Hm]; [congruence|].
           destruct (js_meta_false c Hm) as (H92 & _).
           cbn [app js_items]. rewrite H92, E46, E42, Hm. cbn [orb].
           destruct (flat_map G p) as [|d r] eqn:Et.
           ++ apply flat_G_nil in Et. subst p. reflexivity.
           ++ destruct (head_rewritten p d r Hp Et) as (H42 & _). rewrite H42, IH. reflexivity.
Qed.

(* ---- step C: what the expression compiles to ---- *)
Definition nl : list (N * N) := [(10, 10); (13, 13)].
Definition semc (c : N) : rre :=
  if c =? 46 then RLit false 46 else if c =? 42 then RStar (RClass false true nl)
  else if c =? 63 then RClass false true nl else RLit false c.
Fixpoint seqr (p : str) : rre :=
  match p with
  | [] => RSeq (REol false) REps
  | c :: p' => RSeq (semc c) (seqr p')
  end.

Lemma elab_pattern p k : elab_list elab_item f0 (map tr p ++ [Eol]) k = Ok [seqr p].
Proof.
  induction p as [|c p IH]; [reflexivity|].
  cbn [map app]. unfold tr at 1.
  destruct (c =? 46) eqn:E46; [|destruct (c =? 42) eqn:E42; [|destruct (c =? 63) eqn:E63]];
    cbn [elab_list elab_item js_dot rep fi fs f0]; rewrite IH; cbn [seqr]; unfold semc; rewrite ?E46, ?E42, ?E63; reflexivity.
Qed.

Lemma compile_pattern p :
  compile_top ([Bol] ++ map tr p ++ [Eol]) = Ok (RSeq (RBol false) (seqr p)).
Proof.
  unfold compile_top, elab. cbn [app elab_list elab_item fm f0]. rewrite elab_pattern. reflexivity.
Qed.

(* ---- step D: an expression that begins with ^ can only match from the start ---- *)
Lemma no_match_later K s : forall d, existsb (accepts_at (RSeq (RBol false) K)) (positions (Some d) s) = false.
Proof.
  induction s as [|e r IH]; intro d; cbn [positions existsb]; unfold accepts_at at 1; cbn [run fst andb flat_map nonempty];
    [reflexivity|]. apply IH.
Qed.

Lemma matches_anchored K s : matches (RSeq (RBol false) K) s = nonempty (run K (None, s)).
Proof.
  rewrite matches_eq. unfold matches_spec. destruct s as [|d r]; cbn [positions existsb]; unfold accepts_at at 1; cbn [run fst flat_map];
    rewrite app_nil_r; [rewrite orb_false_r; reflexivity|].
  rewrite no_match_later, orb_false_r. reflexivity.
Qed.

(* ---- step E: the anchored match is glob ---- *)
Lemma nonempty_app {A} (x y : list A) : nonempty (x ++ y) = nonempty x || nonempty y.
Proof. destruct x; reflexivity. Qed.

Lemma dot_ok d : xorb true (class_has false nl d) = text_char_ok d.
Proof.
  unfold class_has, nl, in_ranges, text_char_ok. cbn [existsb fst snd andb orb].
  rewrite !orb_false_r.
  assert (H10 : (10 <=? d) && (d <=? 10) = (d =? 10)).
  { destruct (d =? 10) eqn:E; [apply N.eqb_eq in E; subst; reflexivity|].
    apply N.eqb_neq in E. destruct (10 <=? d) eqn:E1, (d <=? 10) eqn:E2; try reflexivity.
    apply N.leb_le in E1, E2. lia. }
  assert (H13 : (13 <=? d) && (d <=? 13) = (d =? 13)).
  { destruct (d =? 13) eqn:E; [apply N.eqb_eq in E; subst; reflexivity|].
    apply N.eqb_neq in E. destruct (13 <=? d) eqn:E1, (d <=? 13) eqn:E2; try reflexivity.
    apply N.leb_le in E1, E2. lia. }
  rewrite H10, H13. destruct (d =? 10), (d =? 13); reflexivity.
Qed.

Definition dotre : rre := RClass false true nl.

Lemma run_dot prev d s : text_char_ok d = true -> run dotre (prev, d :: s) = [(Some d, s)].
Proof. intro H. unfold dotre. cbn [run eat snd]. rewrite dot_ok, H. reflexivity. Qed.

Lemma star_dot K (g : str -> bool) :
  (forall prev s, forallb text_char_ok s = true -> nonempty (run K (prev, s)) = g s) ->
  forall s prev, forallb text_char_ok s = true ->
  nonempty (flat_map (run K) (star_run (length s) (run dotre) (prev, s))) =
  (fix star (s : str) : bool := g s || match s with [] => false | _ :: s' => star s' end) s.
Proof.
  intros HK. induction s as [|d s IH]; intros prev Hs.
  - cbn [length star_run flat_map]. rewrite app_nil_r, (HK prev [] Hs), orb_false_r. reflexivity.
  - cbn [forallb] in Hs. apply andb_true_iff in Hs as [Hd Hs'].
    cbn [length star_run]. rewrite (run_dot prev d s Hd).
    cbn [filter]. unfold shorter at 1. cbn [snd length].
    replace (length s <? S (length s))%nat with true by (symmetry; apply Nat.ltb_lt; lia).
    cbn [flat_map]. rewrite !app_nil_r. rewrite nonempty_app.
    rewrite (HK prev (d :: s)) by (cbn [forallb]; rewrite Hd, Hs'; reflexivity).
    rewrite (IH (Some d) Hs'). reflexivity.
Qed.

Lemma run_seqr_glob p : forall prev s, forallb text_char_ok s = true -> nonempty (run (seqr p) (prev, s)) = glob p s.
Proof.
  induction p as [|c p IH]; intros prev s Hs.
  - cbn [seqr run snd glob]. destruct s; reflexivity.
  - cbn [seqr glob]. unfold semc. destruct (c =? 46) eqn:E46.
    + (* literal '.' *)
      apply N.eqb_eq in E46. subst c. change (46 =? 42) with false. change (46 =? 63) with false. cbn [orb].
      cbn [run]. unfold eat, lit_ok. cbn [snd]. destruct s as [|d s]; [reflexivity|].
      rewrite (N.eqb_sym 46 d). destruct (d =? 46); [|reflexivity].
      cbn [flat_map andb]. rewrite app_nil_r. cbn [forallb] in Hs. apply andb_true_iff in Hs as [_ Hs]. apply IH; exact Hs.
    + destruct (c =? 42) eqn:E42.
      * (* '*' *)
        cbn [run snd]. fold dotre. apply (star_dot (seqr p) (glob p)); [exact IH | exact Hs].
      * destruct (c =? 63) eqn:E63.
        -- (* '?' *)
           cbn [orb]. destruct s as [|d s]; [reflexivity|].
           cbn [forallb] in Hs. apply andb_true_iff in Hs as [Hd Hs].
           change (run (RSeq (RClass false true nl) (seqr p)) (prev, d :: s))
             with (flat_map (run (seqr p)) (run dotre (prev, d :: s))).
           rewrite (run_dot prev d s Hd). cbn [flat_map andb]. rewrite app_nil_r. apply IH; exact Hs.
        -- (* literal *)
           cbn [orb]. cbn [run]. unfold eat, lit_ok. cbn [snd]. destruct s as [|d s]; [reflexivity|].
           rewrite (N.eqb_sym c d). destruct (d =? c); [|reflexivity].
           cbn [flat_map andb]. rewrite app_nil_r. cbn [forallb] in Hs. apply andb_true_iff in Hs as [_ Hs]. apply IH; exact Hs.
Qed.

(* ---- the theorem ---- *)
Lemma len_rewritten p : (length p <= length (flat_map G p))%nat.
Proof.
  induction p as [|c p IH]; [reflexivity|]. cbn [flat_map length]. rewrite app_length.
  pose proof (G_nonempty c). destruct (G c); [contradiction|]. cbn [length]. lia.
Qed.

Lemma shexp_is_glob url pattern :
  shexp_rewrites = [(46, [92; 46]); (42, [46; 42]); (63, [46])] -> shexp_anchored = true ->
  glob_domain url pattern = true ->
  shExpMatch url pattern = if glob pattern url then Yes else No.
Proof.
  intros Hrw Han Hdom. unfold glob_domain in Hdom. apply andb_true_iff in Hdom as [Hp Hu].
  unfold shExpMatch. rewrite (rewrite_is_G pattern Hrw), Han.
  rewrite (js_items_rewritten pattern Hp) by (pose proof (len_rewritten pattern); lia).
  rewrite compile_pattern, matches_anchored. rewrite <- (run_seqr_glob pattern None url Hu). reflexivity.
Qed.

Lemma existsb_ext_in' {A} (f g : A -> bool) l : (forall x, In x l -> f x = g x) -> existsb f l = existsb g l.
Proof.
  induction l as [|x l IH]; intro H; [reflexivity|]. cbn [existsb].
  rewrite (H x (or_introl eq_refl)), IH; [reflexivity|]. intros y Hy. apply H. right. exact Hy.
Qed.

(* ---- the oracle's evaluator of glob is glob ---- *)
Lemma existsb_same {A} (f : A -> bool) l l' : (forall x, In x l <-> In x l') -> existsb f l = existsb f l'.
Proof.
  intro H. apply eq_true_iff_eq. rewrite !existsb_exists. split; intros [x [Hx Hf]]; exists x; (split; [apply H; exact Hx|exact Hf]).
Qed.

Lemma In_dedup_str x l : In x (dedup_str l) <-> In x l.
Proof.
  induction l as [|y r IH]; [reflexivity|]. cbn [dedup_str]. destruct (existsb (str_eqb y) r) eqn:E.
  - rewrite IH. split; [right; assumption|]. intros [<-|H]; [|exact H].
    apply existsb_exists in E as [z [Hz Ez]]. apply str_eqb_eq in Ez. subst. exact Hz.
  - cbn [In]. rewrite IH. reflexivity.
Qed.

Lemma existsb_flat_map {A B} (f : B -> bool) (g : A -> list B) l :
  existsb f (flat_map g l) = existsb (fun x => existsb f (g x)) l.
Proof. induction l as [|x l IH]; [reflexivity|]. cbn [flat_map existsb]. rewrite existsb_app, IH. reflexivity. Qed.

Lemma glob_star p s : glob (42 :: p) s = existsb (glob p) (suffixes s).
Proof.
  cbn [glob]. change (42 =? 42) with true. cbn iota.
  induction s as [|d s IH]; cbn [suffixes existsb]; [rewrite orb_false_r; reflexivity|]. rewrite IH. reflexivity.
Qed.

Lemma glob_other c p s : (c =? 42) = false -> glob (c :: p) s = existsb (glob p) (glob_step c s).
Proof.
  intro H. cbn [glob]. rewrite H. destruct s as [|d s]; [reflexivity|]. cbn [glob_step].
  destruct ((c =? 63) || (c =? d)); cbn [existsb andb]; [rewrite orb_false_r|]; reflexivity.
Qed.

Lemma gsets_glob p : forall ss, existsb nil_str (gsets p ss) = existsb (glob p) ss.
Proof.
  induction p as [|c p IH]; intro ss; [reflexivity|]. cbn [gsets]. rewrite IH.
  destruct (c =? 42) eqn:E.
  - apply N.eqb_eq in E. subst c.
    rewrite (existsb_same _ _ (flat_map suffixes ss) (fun x => In_dedup_str x _)), existsb_flat_map.
    apply existsb_ext_in'. intros s _. symmetry. apply glob_star.
  - rewrite existsb_flat_map. apply existsb_ext_in'. intros s _. symmetry. apply glob_other. exact E.
Qed.

Lemma glob_run_eq p s : glob_run p s = glob p s.
Proof. unfold glob_run. rewrite gsets_glob. cbn [existsb]. apply orb_false_r. Qed.
