(* C14 — lemmas, part 2: the pool hands every resolver to at most one caller;
   sortIpAddressList's order. *)
From Coq Require Import Permutation.
From G14 Require Import Model Spec.
Open Scope N_scope.

(* ------------------------------------------------------------------ pool *)
(* every resolver that exists is in exactly one place: free, or with exactly one caller;
   a caller holds at most one *)
Definition pool_inv (s : pstate) : Prop :=
  NoDup (free s ++ map snd (held s)) /\
  NoDup (map fst (held s)) /\
  (forall v, In v (free s ++ map snd (held s)) -> (v < next s)%nat).

Lemma pool_inv_init : pool_inv pinit.
Proof. repeat split; simpl; try constructor. intros v []. Qed.

Lemma lookup_caller_none c l : lookup_caller c l = None -> ~ In c (map fst l).
Proof.
  induction l as [|[c' v] r IH]; simpl; [auto|].
  destruct (Nat.eqb c c') eqn:E; [discriminate|]. intros H [H1|H1].
  - subst. rewrite Nat.eqb_refl in E. discriminate.
  - exact (IH H H1).
Qed.

Lemma lookup_caller_some c l v : lookup_caller c l = Some v ->
  exists l1 l2, l = l1 ++ (c, v) :: l2 /\ remove_caller c l = l1 ++ l2.
Proof.
  induction l as [|[c' v'] r IH]; simpl; [discriminate|].
  destruct (Nat.eqb c c') eqn:E.
  - intro H. inversion H; subst. apply Nat.eqb_eq in E. subst. exists [], r. split; reflexivity.
  - intro H. destruct (IH H) as [l1 [l2 [E1 E2]]]. exists ((c', v') :: l1), l2. simpl. split; [rewrite E1|rewrite E2]; reflexivity.
Qed.

Lemma pstep_inv s l s' : pool_inv s -> pstep s l = Some s' -> pool_inv s'.
Proof.
  intros [Hnd [Hc Hlt]] Hs. destruct l as [c|c|]; simpl in Hs.
  - (* Get *)
    destruct (lookup_caller c (held s)) eqn:El; [discriminate|].
    apply lookup_caller_none in El.
    destruct (free s) as [|v r] eqn:Ef; inversion Hs; subst; clear Hs; unfold pool_inv; simpl.
    + repeat split.
      * constructor; [|exact Hnd]. intro Hin. apply Hlt in Hin. lia.
      * constructor; assumption.
      * intros v [Hv|Hv]; [lia|]. apply Hlt in Hv. lia.
    + simpl in Hnd. repeat split.
      * apply NoDup_cons_iff in Hnd as [Hn1 Hn2].
        apply (Permutation_NoDup (l := v :: r ++ map snd (held s))).
        -- apply Permutation_middle.
        -- constructor; assumption.
      * constructor; assumption.
      * intros w Hw. apply Hlt. simpl.
        apply in_app_or in Hw as [Hw|[Hw|Hw]]; [right; apply in_or_app; left; exact Hw | left; exact Hw |
                                                  right; apply in_or_app; right; exact Hw].
  - (* Put *)
    destruct (lookup_caller c (held s)) as [v|] eqn:El; [|discriminate].
    inversion Hs; subst; clear Hs. destruct (lookup_caller_some _ _ _ El) as [l1 [l2 [E1 E2]]].
    unfold pool_inv; simpl. rewrite E2. rewrite E1 in Hnd, Hc, Hlt.
    rewrite !map_app in *. simpl in *. repeat split.
    + rewrite app_assoc in Hnd. rewrite app_assoc.
      apply (Permutation_NoDup (l := (free s ++ map snd l1) ++ v :: map snd l2)); [|exact Hnd].
      symmetry. apply Permutation_middle.
    + apply NoDup_remove_1 in Hc. exact Hc.
    + intros w Hw. apply Hlt. destruct Hw as [Hw|Hw].
      * subst. apply in_or_app. right. apply in_or_app. right. left. reflexivity.
      * apply in_app_or in Hw as [Hw|Hw]; [apply in_or_app; left; exact Hw|].
        apply in_or_app. right. apply in_app_or in Hw as [Hw|Hw]; apply in_or_app; [left|right; right]; exact Hw.
  - (* Drop *)
    destruct (free s) as [|v r] eqn:Ef; [discriminate|]. inversion Hs; subst; clear Hs.
    unfold pool_inv; simpl. simpl in Hnd. apply NoDup_cons_iff in Hnd as [_ Hnd]. repeat split; try assumption.
    intros w Hw. apply Hlt. right. exact Hw.
Qed.

Lemma psteps_inv ls : forall s s', pool_inv s -> psteps s ls = Some s' -> pool_inv s'.
Proof.
  induction ls as [|l r IH]; intros s s' Hi Hs; simpl in Hs.
  - inversion Hs; subst. exact Hi.
  - destruct (pstep s l) as [s1|] eqn:E; [|discriminate]. exact (IH s1 s' (pstep_inv _ _ _ Hi E) Hs).
Qed.

Lemma nodup_app_r {A} (l1 l2 : list A) : NoDup (l1 ++ l2) -> NoDup l2.
Proof. induction l1 as [|x l1 IH]; simpl; [auto|]. intro H. apply NoDup_cons_iff in H as [_ H]. auto. Qed.

(* in every reachable state no resolver is held by two callers, and none that is held lies in the pool *)
Lemma pool_exclusive ls s :
  psteps pinit ls = Some s ->
  (forall c1 c2 v, In (c1, v) (held s) -> In (c2, v) (held s) -> c1 = c2) /\
  (forall c v, In (c, v) (held s) -> ~ In v (free s)).
Proof.
  intro H. destruct (psteps_inv ls _ _ pool_inv_init H) as [Hnd [Hc _]].
  pose proof (nodup_app_r _ _ Hnd) as Hh. split.
  - intros c1 c2 v H1 H2.
    assert (forall l : list (nat * nat), NoDup (map snd l) -> In (c1, v) l -> In (c2, v) l -> c1 = c2) as G.
    { induction l as [|[c w] r IH]; simpl; [intros _ []|]. intros Hn [E1|I1] [E2|I2].
      - congruence.
      - inversion E1; subst. apply NoDup_cons_iff in Hn as [Hn _]. exfalso. apply Hn.
        change v with (snd (c2, v)). apply in_map. exact I2.
      - inversion E2; subst. apply NoDup_cons_iff in Hn as [Hn _]. exfalso. apply Hn.
        change v with (snd (c1, v)). apply in_map. exact I1.
      - apply NoDup_cons_iff in Hn as [_ Hn]. exact (IH Hn I1 I2). }
    exact (G _ Hh H1 H2).
  - intros c v Hin Hf.
    assert (In v (map snd (held s))) as Hv by (change v with (snd (c, v)); apply in_map; exact Hin).
    clear -Hnd Hf Hv. induction (free s) as [|w r IH]; [contradiction|].
    simpl in Hnd. apply NoDup_cons_iff in Hnd as [Hn1 Hn2]. destruct Hf as [->|Hf].
    + apply Hn1. apply in_or_app. right. exact Hv.
    + exact (IH Hn2 Hf).
Qed.

(* ------------------------------------------------------------------ sort *)
Lemma bytes_ltb_asym x : forall y, bytes_ltb x y = true -> bytes_ltb y x = false.
Proof.
  induction x as [|a x IH]; intros [|c y]; simpl; try discriminate; try reflexivity.
  destruct (a <? c) eqn:E1.
  - intros _. destruct (c <? a) eqn:E2; [apply N.ltb_lt in E1, E2; lia|reflexivity].
  - destruct (c <? a) eqn:E2; [discriminate|]. apply IH.
Qed.

Lemma ip_less_asym x y : ip_less x y = true -> ip_less y x = false.
Proof.
  unfold ip_less. destruct (is_v4 x) eqn:Ex, (is_v4 y) eqn:Ey; cbn [Bool.eqb negb].
  - apply bytes_ltb_asym.
  - destruct sort_ipv6_first; cbn; congruence.
  - destruct sort_ipv6_first; cbn; congruence.
  - apply bytes_ltb_asym.
Qed.

(* the comparator's own "not greater" relation; it is the reference order when IPv6 sorts first *)
Definition cmp_le (x y : list N) : bool := negb (ip_less y x).
Lemma cmp_le_is_ip_le x y : sort_ipv6_first = true -> cmp_le x y = ip_le x y.
Proof.
  intro H. unfold cmp_le, ip_le, ip_less. rewrite H.
  destruct (is_v4 x), (is_v4 y); reflexivity.
Qed.
Definition key_sorted (l : list (list N * str)) : bool := sorted_by cmp_le (map fst l).

Lemma insert_perm x l : Permutation (x :: l) (insert_ip x l).
Proof.
  induction l as [|y r IH]; simpl; [reflexivity|].
  destruct (ip_less (fst x) (fst y)); [reflexivity|].
  rewrite perm_swap. apply perm_skip. exact IH.
Qed.

Lemma sort_perm l : Permutation l (sort_ips l).
Proof.
  induction l as [|x r IH]; simpl; [constructor|].
  rewrite <- insert_perm. apply perm_skip. exact IH.
Qed.

Lemma insert_sorted x l : key_sorted l = true -> key_sorted (insert_ip x l) = true.
Proof.
  unfold key_sorted. induction l as [|y r IH]; intro H; [reflexivity|].
  cbn [insert_ip]. destruct (ip_less (fst x) (fst y)) eqn:E.
  - cbn [map sorted_by]. cbn [map sorted_by] in H. rewrite H.
    unfold cmp_le at 1. rewrite (ip_less_asym _ _ E). reflexivity.
  - cbn [map sorted_by] in *.
    assert (Hr : sorted_by cmp_le (map fst r) = true).
    { destruct (map fst r); [reflexivity|]. apply andb_true_iff in H as [_ H]. exact H. }
    specialize (IH Hr).
    destruct r as [|z r'].
    + cbn [insert_ip map sorted_by]. unfold cmp_le. rewrite E. reflexivity.
    + cbn [insert_ip] in *. destruct (ip_less (fst x) (fst z)) eqn:E2.
      * cbn [map sorted_by] in *. unfold cmp_le at 1. rewrite E. cbn [negb andb]. exact IH.
      * cbn [map sorted_by] in *. apply andb_true_iff in H as [H1 _]. rewrite H1. exact IH.
Qed.

Lemma sort_sorted l : key_sorted (sort_ips l) = true.
Proof. induction l as [|x r IH]; [reflexivity|]. simpl. apply insert_sorted. exact IH. Qed.

Lemma sorted_by_ext (f g : list N -> list N -> bool) l : (forall x y, f x y = g x y) -> sorted_by f l = sorted_by g l.
Proof.
  intro H. induction l as [|x r IH]; [reflexivity|]. cbn [sorted_by]. destruct r; [reflexivity|]. rewrite H, IH. reflexivity.
Qed.

Lemma sort_sorted_reference l : sort_ipv6_first = true -> sorted_by ip_le (map fst (sort_ips l)) = true.
Proof.
  intro H. rewrite <- (sorted_by_ext cmp_le ip_le _ (fun x y => cmp_le_is_ip_le x y H)). apply sort_sorted.
Qed.
