(* Model of Go's net/http.Header (map[string][]string) and its methods.
   A header map is an association list read as a finite map: the first binding
   of a key is the binding; all operations below keep keys unique. *)
From FwdLib Require Export Bytes.

Definition hmap := list (str * list str).

Fixpoint raw_get (k : str) (h : hmap) : option (list str) :=
  match h with
  | [] => None
  | (k', vs) :: r => if str_eqb k k' then Some vs else raw_get k r
  end.

Definition raw_del (k : str) (h : hmap) : hmap :=
  filter (fun kv => negb (str_eqb k (fst kv))) h.

Definition raw_set (k : str) (vs : list str) (h : hmap) : hmap :=
  (k, vs) :: raw_del k h.

Definition keys (h : hmap) : list str := map fst h.

(* http.Header methods *)
Definition h_values (k : str) (h : hmap) : list str :=
  match raw_get (canon k) h with Some vs => vs | None => [] end.
Definition h_get (k : str) (h : hmap) : str :=
  match h_values k h with v :: _ => v | [] => [] end.
Definition h_set (k v : str) (h : hmap) : hmap := raw_set (canon k) [v] h.
Definition h_add (k v : str) (h : hmap) : hmap :=
  raw_set (canon k) (h_values k h ++ [v]) h.
Definition h_del (k : str) (h : hmap) : hmap := raw_del (canon k) h.

(* finite-map equivalence and its boolean twin *)
Definition hequiv (h1 h2 : hmap) : Prop := forall k, raw_get k h1 = raw_get k h2.

Fixpoint list_str_eqb (x y : list str) : bool :=
  match x, y with
  | [], [] => true
  | a :: x', c :: y' => str_eqb a c && list_str_eqb x' y'
  | _, _ => false
  end.

Definition opt_vals_eqb (x y : option (list str)) : bool :=
  match x, y with
  | None, None => true
  | Some a, Some c => list_str_eqb a c
  | _, _ => false
  end.

Definition hmap_eqb (h1 h2 : hmap) : bool :=
  forallb (fun k => opt_vals_eqb (raw_get k h1) (raw_get k h2)) (keys h1 ++ keys h2).

Definition wf (h : hmap) : Prop := NoDup (keys h).

(* ---- lemmas ---- *)
Lemma list_str_eqb_eq x y : list_str_eqb x y = true <-> x = y.
Proof.
  revert y; induction x as [|a x IH]; intros [|c y]; simpl; split; intro H;
    try reflexivity; try discriminate.
  - apply andb_true_iff in H as [H1 H2]. apply str_eqb_eq in H1. apply IH in H2. congruence.
  - inversion H; subst. rewrite str_eqb_refl. apply IH. reflexivity.
Qed.

Lemma opt_vals_eqb_eq x y : opt_vals_eqb x y = true <-> x = y.
Proof.
  destruct x, y; simpl; try (split; congruence).
  rewrite list_str_eqb_eq. split; congruence.
Qed.

Lemma raw_get_none_notin k h : raw_get k h = None <-> ~ In k (keys h).
Proof.
  induction h as [|[k' vs] r IH]; simpl; [tauto|].
  destruct (str_eqb k k') eqn:E.
  - apply str_eqb_eq in E. subst. split; [discriminate | intros H; exfalso; apply H; left; reflexivity].
  - apply str_eqb_neq in E. rewrite IH. split; intros H.
    + intros [H1|H1]; [congruence | contradiction].
    + intro H1. apply H. right. exact H1.
Qed.

Lemma hmap_eqb_equiv h1 h2 : hmap_eqb h1 h2 = true <-> hequiv h1 h2.
Proof.
  unfold hmap_eqb, hequiv. rewrite forallb_forall. split.
  - intros H k.
    destruct (in_dec (list_eq_dec N.eq_dec) k (keys h1 ++ keys h2)) as [Hin|Hnin].
    + apply opt_vals_eqb_eq. apply H. exact Hin.
    + assert (~ In k (keys h1) /\ ~ In k (keys h2)) as [A C].
      { split; intro; apply Hnin; apply in_or_app; tauto. }
      apply raw_get_none_notin in A, C. congruence.
  - intros H k _. apply opt_vals_eqb_eq. apply H.
Qed.

Lemma raw_get_del_same k h : raw_get k (raw_del k h) = None.
Proof.
  induction h as [|[k' vs] r IH]; simpl; [reflexivity|].
  destruct (str_eqb k k') eqn:E; simpl; [exact IH|]. rewrite E. exact IH.
Qed.

Lemma raw_get_del_other k k' h : k <> k' -> raw_get k (raw_del k' h) = raw_get k h.
Proof.
  intro Hne. induction h as [|[k2 vs] r IH]; simpl; [reflexivity|].
  destruct (str_eqb k' k2) eqn:E; simpl.
  - apply str_eqb_eq in E. subst k2.
    destruct (str_eqb k k') eqn:E2; [apply str_eqb_eq in E2; contradiction | exact IH].
  - destruct (str_eqb k k2); [reflexivity | exact IH].
Qed.

Lemma raw_get_set_same k vs h : raw_get k (raw_set k vs h) = Some vs.
Proof. unfold raw_set; simpl. rewrite str_eqb_refl. reflexivity. Qed.

Lemma raw_get_set_other k k' vs h : k <> k' -> raw_get k (raw_set k' vs h) = raw_get k h.
Proof.
  intro Hne. unfold raw_set; simpl.
  destruct (str_eqb k k') eqn:E; [apply str_eqb_eq in E; contradiction|].
  apply raw_get_del_other. exact Hne.
Qed.

Lemma keys_raw_del_subset k h x : In x (keys (raw_del k h)) -> In x (keys h) /\ x <> k.
Proof.
  unfold keys, raw_del. rewrite in_map_iff. intros [[k' vs] [<- Hin]].
  apply filter_In in Hin as [Hin Hb]. simpl in *. split.
  - apply in_map_iff. exists (k', vs). split; [reflexivity | exact Hin].
  - apply negb_true_iff in Hb. apply str_eqb_neq in Hb. congruence.
Qed.

Lemma wf_raw_del k h : wf h -> wf (raw_del k h).
Proof.
  unfold wf, keys, raw_del. induction h as [|[k' vs] r IH]; simpl; intro H; [constructor|].
  inversion H as [|? ? Hnin Hnd]; subst.
  destruct (negb (str_eqb k k')); simpl; [|apply IH; exact Hnd].
  constructor; [|apply IH; exact Hnd].
  intro Hin. apply Hnin. apply (keys_raw_del_subset k r k'). exact Hin.
Qed.

Lemma wf_raw_set k vs h : wf h -> wf (raw_set k vs h).
Proof.
  intro H. unfold raw_set, wf; simpl. constructor.
  - intro Hin. apply keys_raw_del_subset in Hin as [_ Hne]. congruence.
  - apply wf_raw_del. exact H.
Qed.

Lemma hequiv_refl h : hequiv h h.
Proof. intro k. reflexivity. Qed.
Lemma hequiv_sym h1 h2 : hequiv h1 h2 -> hequiv h2 h1.
Proof. intros H k. symmetry. apply H. Qed.
Lemma hequiv_trans h1 h2 h3 : hequiv h1 h2 -> hequiv h2 h3 -> hequiv h1 h3.
Proof. intros H1 H2 k. rewrite H1. apply H2. Qed.

Lemma raw_del_equiv k h1 h2 : hequiv h1 h2 -> hequiv (raw_del k h1) (raw_del k h2).
Proof.
  intros H x. destruct (list_eq_dec N.eq_dec x k) as [->|Hne].
  - rewrite !raw_get_del_same. reflexivity.
  - rewrite !raw_get_del_other by exact Hne. apply H.
Qed.

Lemma raw_set_equiv k vs h1 h2 : hequiv h1 h2 -> hequiv (raw_set k vs h1) (raw_set k vs h2).
Proof.
  intros H x. destruct (list_eq_dec N.eq_dec x k) as [->|Hne].
  - rewrite !raw_get_set_same. reflexivity.
  - rewrite !raw_get_set_other by exact Hne. apply H.
Qed.

(* boolean well-formedness *)
Fixpoint nodupb (l : list str) : bool :=
  match l with
  | [] => true
  | x :: r => negb (existsb (str_eqb x) r) && nodupb r
  end.
Definition wfb (h : hmap) : bool := nodupb (keys h).

Lemma nodupb_NoDup l : nodupb l = true -> NoDup l.
Proof.
  induction l as [|x r IH]; simpl; intro H; [constructor|].
  apply andb_true_iff in H as [H1 H2]. constructor; [|apply IH; exact H2].
  intro Hin. apply negb_true_iff in H1.
  assert (existsb (str_eqb x) r = true); [|congruence].
  apply existsb_exists. exists x. split; [exact Hin | apply str_eqb_refl].
Qed.

Lemma wfb_wf h : wfb h = true -> wf h.
Proof. apply nodupb_NoDup. Qed.
