(* Shared byte-string library.  A byte is an N, text is a list of bytes.
   Executable definitions + the small lemmas every group needs. *)
From Coq Require Export String Ascii.
From Coq Require Export List NArith ZArith Bool Lia.
Export ListNotations.
Open Scope N_scope.

Definition str := list N.

(* Convert a Coq string literal once; used only for writing constants. *)
Fixpoint b (s : string) : str :=
  match s with
  | EmptyString => []
  | String c r => N_of_ascii c :: b r
  end.

Fixpoint str_eqb (x y : str) : bool :=
  match x, y with
  | [], [] => true
  | a :: x', c :: y' => N.eqb a c && str_eqb x' y'
  | _, _ => false
  end.

Lemma str_eqb_eq x y : str_eqb x y = true <-> x = y.
Proof.
  revert y; induction x as [|a x IH]; intros [|c y]; simpl; split; intro H;
    try reflexivity; try discriminate.
  - apply andb_true_iff in H as [H1 H2]. apply N.eqb_eq in H1. apply IH in H2. congruence.
  - inversion H; subst. rewrite N.eqb_refl. simpl. apply IH. reflexivity.
Qed.

Lemma str_eqb_refl x : str_eqb x x = true.
Proof. apply str_eqb_eq. reflexivity. Qed.

Lemma str_eqb_neq x y : str_eqb x y = false <-> x <> y.
Proof.
  split; intro H.
  - intro E. apply str_eqb_eq in E. congruence.
  - destruct (str_eqb x y) eqn:E; [apply str_eqb_eq in E; contradiction | reflexivity].
Qed.

Lemma str_eqb_sym x y : str_eqb x y = str_eqb y x.
Proof.
  destruct (str_eqb x y) eqn:E1, (str_eqb y x) eqn:E2; try reflexivity.
  - apply str_eqb_eq in E1. subst. rewrite str_eqb_refl in E2. discriminate.
  - apply str_eqb_eq in E2. subst. rewrite str_eqb_refl in E1. discriminate.
Qed.

(* ---- ASCII classes ---- *)
Definition is_upper (c : N) : bool := (65 <=? c) && (c <=? 90).
Definition is_lower (c : N) : bool := (97 <=? c) && (c <=? 122).
Definition is_digit (c : N) : bool := (48 <=? c) && (c <=? 57).
Definition is_alpha (c : N) : bool := is_upper c || is_lower c.
Definition lowerc (c : N) : N := if is_upper c then c + 32 else c.
Definition upperc (c : N) : N := if is_lower c then c - 32 else c.
Definition lower (s : str) : str := map lowerc s.
Definition upper (s : str) : str := map upperc s.

(* strings.EqualFold restricted to ASCII input (the generators only emit bytes
   < 128 where folding matters; for bytes >= 128 EqualFold works on runes and is
   outside the modelled domain). *)
Definition eq_fold (x y : str) : bool := str_eqb (lower x) (lower y).

(* Go: golang.org/x/net/http/httpguts.IsTokenRune / net/textproto validHeaderFieldByte *)
Definition is_token_char (c : N) : bool :=
  is_alpha c || is_digit c ||
  existsb (N.eqb c) [33;35;36;37;38;39;42;43;45;46;94;95;96;124;126].
(*          !  #  $  %  &  '  *  +  -  .  ^  _  `  |   ~ *)

Definition is_token (s : str) : bool :=
  match s with [] => false | _ => forallb is_token_char s end.

(* net/textproto.CanonicalMIMEHeaderKey: if any byte is not a valid header field
   byte the string is returned unchanged; else upper-case first letter and any
   letter following '-', lower-case the rest. *)
Fixpoint canon_go (up : bool) (s : str) : str :=
  match s with
  | [] => []
  | c :: r => (if up then upperc c else lowerc c) :: canon_go (N.eqb c 45) r
  end.
Definition canon (s : str) : str :=
  if forallb is_token_char s then canon_go true s else s.

(* ---- prefix / suffix / search ---- *)
Fixpoint has_prefix (s p : str) {struct p} : bool :=
  match p, s with
  | [], _ => true
  | c :: p', d :: s' => N.eqb c d && has_prefix s' p'
  | _ :: _, [] => false
  end.

Definition has_suffix (s p : str) : bool := has_prefix (rev s) (rev p).

Fixpoint contains (s p : str) : bool :=
  has_prefix s p || match s with [] => false | _ :: s' => contains s' p end.

(* index of first occurrence of byte c *)
Fixpoint index_byte (c : N) (s : str) : option nat :=
  match s with
  | [] => None
  | d :: r => if N.eqb c d then Some O else option_map S (index_byte c r)
  end.

(* strings.Cut on a single byte separator *)
Fixpoint cut_byte (c : N) (s : str) : option (str * str) :=
  match s with
  | [] => None
  | d :: r => if N.eqb c d then Some ([], r)
              else match cut_byte c r with
                   | Some (x, y) => Some (d :: x, y)
                   | None => None
                   end
  end.

(* strings.Split on a single byte *)
Fixpoint split_byte (c : N) (s : str) : list str :=
  match s with
  | [] => [[]]
  | d :: r => if N.eqb c d then [] :: split_byte c r
              else match split_byte c r with
                   | x :: xs => (d :: x) :: xs
                   | [] => [[d]]
                   end
  end.

Fixpoint join (sep : str) (l : list str) : str :=
  match l with
  | [] => []
  | [x] => x
  | x :: r => x ++ sep ++ join sep r
  end.

(* ASCII white space as used by strings.TrimSpace on ASCII input *)
Definition is_space (c : N) : bool := existsb (N.eqb c) [9;10;11;12;13;32].
Fixpoint trim_left (s : str) : str :=
  match s with
  | c :: r => if is_space c then trim_left r else s
  | [] => []
  end.
Definition trim_space (s : str) : str := rev (trim_left (rev (trim_left s))).

(* decimal rendering of naturals (strconv.Itoa on non-negative values) *)
Fixpoint digits_fuel (fuel : nat) (n : N) (acc : str) : str :=
  match fuel with
  | O => acc
  | S f => let acc' := (48 + n mod 10) :: acc in
           if n / 10 =? 0 then acc' else digits_fuel f (n / 10) acc'
  end.
Definition itoa (n : N) : str := digits_fuel 40 n [].

(* ---- basic lemmas ---- *)
Lemma has_prefix_app s p : has_prefix (p ++ s) p = true.
Proof. induction p as [|c p IH]; simpl; [reflexivity|]. rewrite N.eqb_refl. exact IH. Qed.

Lemma has_prefix_spec s p : has_prefix s p = true <-> exists r, s = p ++ r.
Proof.
  revert s; induction p as [|c p IH]; intros s; simpl.
  - split; [intros _; exists s; reflexivity | reflexivity].
  - destruct s as [|d s]; [split; [discriminate | intros [r Hr]; discriminate]|].
    rewrite andb_true_iff, N.eqb_eq, IH. split.
    + intros [-> [r ->]]. exists r. reflexivity.
    + intros [r Hr]. inversion Hr; subst. split; [reflexivity | exists r; reflexivity].
Qed.

Lemma lower_length s : length (lower s) = length s.
Proof. apply map_length. Qed.

Lemma lowerc_idem c : lowerc (lowerc c) = lowerc c.
Proof.
  unfold lowerc, is_upper.
  destruct ((65 <=? c) && (c <=? 90)) eqn:E; [|rewrite E; reflexivity].
  apply andb_true_iff in E as [E1 E2]. apply N.leb_le in E1, E2.
  destruct ((65 <=? c + 32) && (c + 32 <=? 90)) eqn:E'; [|reflexivity].
  apply andb_true_iff in E' as [_ E4]. apply N.leb_le in E4. lia.
Qed.

Lemma lower_idem s : lower (lower s) = lower s.
Proof. unfold lower. rewrite map_map. apply map_ext. apply lowerc_idem. Qed.

Lemma eq_fold_refl s : eq_fold s s = true.
Proof. apply str_eqb_refl. Qed.

Lemma eq_fold_sym x y : eq_fold x y = eq_fold y x.
Proof. apply str_eqb_sym. Qed.

Lemma eq_fold_trans x y z : eq_fold x y = true -> eq_fold y z = true -> eq_fold x z = true.
Proof. unfold eq_fold. rewrite !str_eqb_eq. congruence. Qed.
