(* C02 — the reference client: a strict HTTP/1 response parser that delimits a
   message exactly as RFC 7230 section 3.3.3 prescribes.  It is part of the
   SPECIFICATION (independent of the proxy's code and of Tables.v): the codec
   law says that what the proxy writes is consumed by this parser message by
   message.  No proofs here.

   client_parse v11 meth s:
     v11   the client speaks HTTP/1.1 (an HTTP/1.0 client does not know
           Transfer-Encoding and ignores it)
     meth  method of the request this response answers
     s     all bytes that arrive on the connection from here on (until it is closed)
   returns the message and the bytes that belong to later messages. *)
From G02 Require Export RespFraming.
Open Scope N_scope.

Record obs := mkObs {
  o_major : N; o_minor : N; o_code : N; o_reason : str;
  o_fields : list (str * str);        (* header fields in order of arrival, values OWS-trimmed *)
  o_body : str;
  o_trailers : list (str * str) }.

(* a line is terminated by CRLF and contains neither CR nor LF *)
Fixpoint take_line (s : str) : option (str * str) :=
  match s with
  | [] => None
  | c :: r =>
      if c =? 13 then
        match r with
        | d :: r' => if d =? 10 then Some ([], r') else None
        | [] => None
        end
      else if c =? 10 then None
      else match take_line r with
           | Some (l, rest) => Some (c :: l, rest)
           | None => None
           end
  end.

(* status-line = "HTTP/" DIGIT "." DIGIT SP 3DIGIT SP reason-phrase *)
Definition parse_status_line (l : str) : option (N * N * N * str) :=
  if has_prefix l (b "HTTP/") then
    match skipn 5 l with
    | M :: dot :: m :: sp :: a :: c :: d :: rest =>
        if is_digit M && (dot =? 46) && is_digit m && (sp =? 32) && is_digit a && is_digit c && is_digit d
        then let code := (a - 48) * 100 + (c - 48) * 10 + (d - 48) in
             match rest with
             | [] => Some (M - 48, m - 48, code, [])
             | sp2 :: reason => if sp2 =? 32 then Some (M - 48, m - 48, code, reason) else None
             end
        else None
    | _ => None
    end
  else None.

(* header-field = field-name ":" OWS field-value OWS *)
Definition parse_field (l : str) : option (str * str) :=
  match cut_byte 58 l with
  | Some (name, v) => if is_token name then Some (name, trim_ows v) else None
  | None => None
  end.

(* fields up to and including the empty line *)
Fixpoint parse_fields (fuel : nat) (s : str) : option (list (str * str) * str) :=
  match fuel with
  | O => None
  | S f =>
      match take_line s with
      | None => None
      | Some (l, rest) =>
          match l with
          | [] => Some ([], rest)
          | _ => match parse_field l with
                 | None => None
                 | Some fld => match parse_fields f rest with
                               | Some (fs, rest') => Some (fld :: fs, rest')
                               | None => None
                               end
                 end
          end
      end
  end.

Definition field_values (name : str) (fields : list (str * str)) : list str :=
  map snd (filter (fun f => eq_fold (fst f) name) fields).

(* numerals: value of a digit string, None unless every byte is a digit *)
Fixpoint val_rev (base : N) (dv : N -> option N) (s : str) : option N :=
  match s with
  | [] => Some 0
  | c :: r => match dv c, val_rev base dv r with
              | Some d, Some v => Some (d + base * v)
              | _, _ => None
              end
  end.
Definition parse_num (base : N) (dv : N -> option N) (s : str) : option N :=
  match s with [] => None | _ => val_rev base dv (rev s) end.
Definition dec_digit (c : N) : option N := if is_digit c then Some (c - 48) else None.
Definition hex_digit (c : N) : option N :=
  if is_digit c then Some (c - 48)
  else if (97 <=? c) && (c <=? 102) then Some (c - 87)
  else if (65 <=? c) && (c <=? 70) then Some (c - 55)
  else None.

(* Transfer-Encoding: is "chunked" the final coding? *)
Definition final_chunked (tes : list str) : bool :=
  match rev tes with
  | [] => false
  | v :: _ => match rev (split_byte 44 v) with
              | [] => false
              | t :: _ => str_eqb (lower (trim_ows t)) (b "chunked")
              end
  end.

(* chunked-body = *chunk last-chunk trailer-part CRLF ; chunk extensions are skipped *)
Fixpoint dechunk (fuel : nat) (s : str) (acc : str) : option (str * list (str * str) * str) :=
  match fuel with
  | O => None
  | S f =>
      match take_line s with
      | None => None
      | Some (l, rest) =>
          match parse_num 16 hex_digit (before_semi l) with
          | None => None
          | Some n =>
              if n =? 0 then
                match parse_fields (S (length rest)) rest with
                | Some (tr, rest') => Some (acc, tr, rest')
                | None => None
                end
              else
                let k := N.to_nat n in
                if (length rest <? k + 2)%nat then None
                else if has_prefix (skipn k rest) crlf
                     then dechunk f (skipn (k + 2) rest) (acc ++ firstn k rest)
                     else None
          end
      end
  end.

(* RFC 7230 3.3.3: responses that never have a body *)
Definition rfc_no_body (meth : str) (code : N) : bool :=
  str_eqb meth (b "HEAD") || (code / 100 =? 1) || (code =? 204) || (code =? 304).

(* message body length, RFC 7230 3.3.3; mk builds the message from body and trailers *)
Definition client_body (v11 : bool) (meth : str) (code : N) (fields : list (str * str))
           (mk : str -> list (str * str) -> obs) (rest1 : str) : option (obs * str) :=
  if rfc_no_body meth code then Some (mk [] [], rest1)                       (* rule 1 *)
  else if str_eqb meth (b "CONNECT") && (code / 100 =? 2) then Some (mk [] [], rest1)  (* rule 2 *)
  else
    match (if v11 then field_values (b "transfer-encoding") fields else []) with
    | (_ :: _) as tes =>                                                       (* rule 3 *)
        if final_chunked tes then
          match dechunk (S (length rest1)) rest1 [] with
          | Some (body, tr, rest2) => Some (mk body tr, rest2)
          | None => None
          end
        else Some (mk rest1 [], [])
    | [] =>
        match field_values (b "content-length") fields with
        | [] => Some (mk rest1 [], [])                                         (* rule 7: until close *)
        | v :: vs =>                                                           (* rules 4, 5 *)
            match parse_num 10 dec_digit v with
            | None => None
            | Some n =>
                if forallb (str_eqb v) vs then
                  let k := N.to_nat n in
                  if (length rest1 <? k)%nat then None
                  else Some (mk (firstn k rest1) [], skipn k rest1)
                else None
            end
        end
    end.

Definition client_parse (v11 : bool) (meth : str) (s : str) : option (obs * str) :=
  match take_line s with
  | None => None
  | Some (sl, rest0) =>
  match parse_status_line sl with
  | None => None
  | Some (M, m, code, reason) =>
  match parse_fields (S (length rest0)) rest0 with
  | None => None
  | Some (fields, rest1) => client_body v11 meth code fields (mkObs M m code reason fields) rest1
  end end end.

(* interim responses (RFC 7231 6.2): any number of 1xx responses other than 101 may precede the
   final response to a request; a client skips them *)
Definition interim (code : N) : bool := (code / 100 =? 1) && negb (code =? 101).
Fixpoint client_parse_skip (fuel : nat) (v11 : bool) (meth : str) (s : str) : option (obs * str) :=
  match fuel with
  | O => None
  | S f => match client_parse v11 meth s with
           | Some (o, rest) => if interim (o_code o) then client_parse_skip f v11 meth rest else Some (o, rest)
           | None => None
           end
  end.
(* the final response to the next request *)
Definition client_next (v11 : bool) (meth : str) (s : str) : option (obs * str) :=
  client_parse_skip (S (length s)) v11 meth s.

(* a persistent connection: the k-th (final) response answers the k-th request *)
Fixpoint client_parse_seq (v11 : bool) (meths : list str) (s : str) : option (list obs * str) :=
  match meths with
  | [] => Some ([], s)
  | m :: ms => match client_next v11 m s with
               | None => None
               | Some (o, rest) => match client_parse_seq v11 ms rest with
                                   | Some (os, rest') => Some (o :: os, rest')
                                   | None => None
                                   end
               end
  end.
