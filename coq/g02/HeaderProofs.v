(* C02 — header fields: only hop-by-hop fields are removed, every other field of the
   origin's header reaches the client with its values, in order, and nothing else is added
   but framing fields. *)
From G02 Require Import RespFraming Client CodecProofs WriterProofs.
Open Scope N_scope.

(* ------------------------------------------------------------------ removeHopByHopHeaders *)
Lemma raw_get_del k d h : raw_get k (raw_del d h) = if str_eqb k d then None else raw_get k h.
Proof.
  destruct (str_eqb k d) eqn:E.
  - apply str_eqb_eq in E. subst. apply raw_get_del_same.
  - apply str_eqb_neq in E. apply raw_get_del_other. exact E.
Qed.

Lemma fold_del ds : forall h k,
  raw_get k (fold_left (fun acc d => h_del d acc) ds h) =
  if existsb (str_eqb k) (map canon ds) then None else raw_get k h.
Proof.
  induction ds as [|d ds IH]; intros h k; [reflexivity|].
  cbn [fold_left map existsb]. rewrite IH. unfold h_del. rewrite raw_get_del.
  destruct (str_eqb k (canon d)); cbn [orb]; [destruct (existsb (str_eqb k) (map canon ds)); reflexivity | reflexivity].
Qed.

(* exactly the listed fields disappear; every other key keeps its values *)
Theorem hop_by_hop_removed h k :
  raw_get k (remove_hop_by_hop h) =
  if existsb (str_eqb k) (map canon (conn_listed h ++ hop_by_hop)) then None else raw_get k h.
Proof. unfold remove_hop_by_hop. apply fold_del. Qed.

(* ------------------------------------------------------------------ Header.Write emits the map, nothing else *)
Lemma in_insert (x kv : str * list str) l : In x (insert_kv kv l) <-> x = kv \/ In x l.
Proof.
  induction l as [|y l IH]; cbn [insert_kv In].
  - split; [intros [H | []]; left; congruence | intros [H | []]; left; congruence].
  - destruct (str_ltb (fst kv) (fst y)); cbn [In].
    + split; [intros [H | H]; [left; congruence | right; exact H] | intros [H | H]; [left; congruence | right; exact H]].
    + rewrite IH. split; [intros [H | [H | H]]; auto | intros [H | [H | H]]; auto].
Qed.

Lemma in_sort x h : In x (sort_hmap h) <-> In x h.
Proof.
  induction h as [|kv h IH]; [reflexivity|]. cbn [sort_hmap fold_right]. fold (sort_hmap h).
  rewrite in_insert, IH. cbn [In]. split; [intros [H | H]; [left; congruence | right; exact H] | intros [H | H]; [left; congruence | right; exact H]].
Qed.

Lemma in_header_fields excl h k v' :
  In (k, v') (header_fields excl h) <->
  written_key excl k = true /\ exists vs v, In (k, vs) h /\ In v vs /\ v' = sanitize v.
Proof.
  unfold header_fields. rewrite in_flat_map. split.
  - intros ([k0 vs] & Hin & Hf). cbn [fst snd] in Hf. destruct (written_key excl k0) eqn:E; [|destruct Hf].
    apply in_map_iff in Hf as (v & Heq & Hv). inversion Heq; subst.
    split; [exact E|]. exists vs, v. rewrite in_sort in Hin. auto.
  - intros (Hw & vs & v & Hin & Hv & ->). exists (k, vs). split; [apply in_sort; exact Hin|].
    cbn [fst snd]. rewrite Hw. apply in_map_iff. exists v. auto.
Qed.

Definition framing_names : list str := [b "Connection"; b "Content-Length"; b "Transfer-Encoding"; b "Trailer"].

(* what the client sees of a response written by Response.Write *)
Theorem go_fields_sound meth r f :
  In f (o_fields (go_obs meth r)) ->
  In (fst f) framing_names \/
  exists k vs v, In (k, vs) (r_hdr r) /\ In v vs /\ f = (k, trim_ows (sanitize v)).
Proof.
  unfold go_obs. cbn [o_fields]. intro H. apply in_map_iff in H as ([k v'] & <- & Hin).
  unfold go_fields in Hin. rewrite !in_app_iff in Hin.
  destruct Hin as [H | [H | [H | [H | H]]]].
  - left. unfold go_conn_field in H. destruct (_ && _); [|destruct H]. destruct H as [H | []]. inversion H. cbn. auto.
  - left. unfold go_len_field in H. cbv zeta in H. destruct (g_send_cl _); [|destruct (g_te _); [|destruct H]];
      destruct H as [H | []]; inversion H; cbn; auto.
  - left. unfold go_trailer_field in H. destruct (g_te _); [|destruct H]. destruct (go_trailer_keys _); [destruct H|].
    destruct H as [H | []]. inversion H. cbn. auto.
  - right. apply in_header_fields in H as (_ & vs & v & H1 & H2 & ->). exists k, vs, v. auto.
  - left. unfold go_cl0_field in H. destruct (go_cl0 _ _); [|destruct H]. destruct H as [H | []]. inversion H. cbn. auto.
Qed.

Theorem go_fields_complete meth r k vs v :
  In (k, vs) (r_hdr r) -> In v vs -> written_key resp_exclude k = true ->
  In (k, trim_ows (sanitize v)) (o_fields (go_obs meth r)).
Proof.
  intros H1 H2 Hw. unfold go_obs. cbn [o_fields]. apply in_map_iff. exists (k, sanitize v). split; [reflexivity|].
  unfold go_fields. rewrite !in_app_iff. right. right. right. left.
  apply in_header_fields. split; [exact Hw|]. exists vs, v. auto.
Qed.

(* ... and by the manual header-only writer *)
Theorem ho_fields_sound r order f :
  In f (o_fields (ho_obs r order)) ->
  In (fst f) framing_names \/
  exists k vs v, In (k, vs) (r_hdr r) /\ In v vs /\ f = (k, trim_ows (sanitize v)).
Proof.
  unfold ho_obs. cbn [o_fields]. intro H. apply in_map_iff in H as ([k v'] & <- & Hin).
  unfold ho_fields in Hin. rewrite in_app_iff in Hin. destruct Hin as [H | H].
  - right. apply in_header_fields in H as (_ & vs & v & H1 & H2 & ->). exists k, vs, v. auto.
  - left. unfold ho_trailer_field in H. destruct order; [destruct H|]. destruct H as [H | []]. inversion H. cbn. auto.
Qed.

Theorem ho_fields_complete r order k vs v :
  In (k, vs) (r_hdr r) -> In v vs -> is_token k = true ->
  In (k, trim_ows (sanitize v)) (o_fields (ho_obs r order)).
Proof.
  intros H1 H2 Hw. unfold ho_obs. cbn [o_fields]. apply in_map_iff. exists (k, sanitize v). split; [reflexivity|].
  unfold ho_fields. rewrite in_app_iff. left. apply in_header_fields.
  split; [unfold written_key; rewrite Hw; reflexivity|]. exists vs, v. auto.
Qed.

(* the value the client sees is the sanitised value itself: trimming it again changes nothing *)
Lemma trim_left_idem s : trim_ows_left (trim_ows_left s) = trim_ows_left s.
Proof.
  induction s as [|c s IH]; [reflexivity|]. cbn [trim_ows_left]. destruct (is_ows c) eqn:E; [exact IH|].
  cbn [trim_ows_left]. rewrite E. reflexivity.
Qed.

Lemma trim_left_head s : match trim_ows_left s with [] => True | c :: _ => is_ows c = false end.
Proof.
  induction s as [|c s IH]; [exact I|]. cbn [trim_ows_left]. destruct (is_ows c) eqn:E; [exact IH | exact E].
Qed.

Lemma trim_left_fixed s : match s with [] => True | c :: _ => is_ows c = false end -> trim_ows_left s = s.
Proof. destruct s as [|c s]; [reflexivity|]. intro H. cbn [trim_ows_left]. rewrite H. reflexivity. Qed.

Lemma trim_left_last s x : is_ows x = false -> trim_ows_left (s ++ [x]) = trim_ows_left s ++ [x] \/ trim_ows_left s = [].
Proof.
  intro Hx. induction s as [|c s IH]; [right; reflexivity|]. cbn [app trim_ows_left].
  destruct (is_ows c); [exact IH | left; reflexivity].
Qed.

Lemma trim_left_suffix_head s : forall t, trim_ows_left s = t -> t <> [] ->
  exists p, s = p ++ t /\ forallb is_ows p = true.
Proof.
  induction s as [|c s IH]; intros t Ht Hne; [cbn in Ht; congruence|].
  cbn [trim_ows_left] in Ht. destruct (is_ows c) eqn:E.
  - destruct (IH t Ht Hne) as (p & -> & Hp). exists (c :: p). cbn [app forallb]. rewrite E, Hp. auto.
  - exists []. subst t. auto.
Qed.

Theorem trim_idem s : trim_ows (trim_ows s) = trim_ows s.
Proof.
  rewrite !trim_ows_rev. set (t := trim_ows_left s). set (u := trim_ows_left (rev t)).
  (* u starts with a non-space byte; so does rev u (its head is the head of t) *)
  assert (Hu : trim_ows_left u = u) by (apply trim_left_fixed; unfold u; apply trim_left_head).
  assert (Ht : trim_ows_left (rev u) = rev u).
  { destruct u as [|x u'] eqn:Eu; [reflexivity|].
    apply trim_left_fixed.
    destruct (trim_left_suffix_head (rev t) (x :: u') Eu ltac:(discriminate)) as (p & Hp & Hsp).
    assert (Et : t = rev (x :: u') ++ rev p) by (rewrite <- rev_app_distr, <- Hp, rev_involutive; reflexivity).
    pose proof (trim_left_head s) as Hh. fold t in Hh. rewrite Et in Hh.
    destruct (rev (x :: u')) as [|y w] eqn:Er.
    - exfalso. apply (f_equal (@length N)) in Er. rewrite rev_length in Er. simpl in Er. lia.
    - exact Hh. }
  rewrite Ht, rev_involutive, Hu. reflexivity.
Qed.

Corollary sanitize_trimmed v : trim_ows (sanitize v) = sanitize v.
Proof. unfold sanitize. apply trim_idem. Qed.

Theorem headers_preserved :
  (forall h k, raw_get k (remove_hop_by_hop h) =
               if existsb (str_eqb k) (map canon (conn_listed h ++ hop_by_hop)) then None else raw_get k h) /\
  (forall meth r k vs v, In (k, vs) (r_hdr r) -> In v vs -> written_key resp_exclude k = true ->
     In (k, sanitize v) (o_fields (go_obs meth r))) /\
  (forall r order k vs v, In (k, vs) (r_hdr r) -> In v vs -> is_token k = true ->
     In (k, sanitize v) (o_fields (ho_obs r order))) /\
  (forall meth r f, In f (o_fields (go_obs meth r)) ->
     In (fst f) framing_names \/ exists k vs v, In (k, vs) (r_hdr r) /\ In v vs /\ f = (k, sanitize v)) /\
  (forall r order f, In f (o_fields (ho_obs r order)) ->
     In (fst f) framing_names \/ exists k vs v, In (k, vs) (r_hdr r) /\ In v vs /\ f = (k, sanitize v)).
Proof.
  split; [exact hop_by_hop_removed|]. split.
  { intros meth r k vs v H1 H2 H3. rewrite <- (sanitize_trimmed v). exact (go_fields_complete meth r k vs v H1 H2 H3). }
  split.
  { intros r order k vs v H1 H2 H3. rewrite <- (sanitize_trimmed v). exact (ho_fields_complete r order k vs v H1 H2 H3). }
  split.
  - intros meth r f H. destruct (go_fields_sound meth r f H) as [Hf | (k & vs & v & H1 & H2 & H3)]; [left; exact Hf|].
    right. exists k, vs, v. rewrite sanitize_trimmed in H3. auto.
  - intros r order f H. destruct (ho_fields_sound r order f H) as [Hf | (k & vs & v & H1 & H2 & H3)]; [left; exact Hf|].
    right. exists k, vs, v. rewrite sanitize_trimmed in H3. auto.
Qed.

(* ------------------------------------------------------------------ every field nominated by Connection is removed *)
Lemma upperc_dash c : (upperc c =? 45) = (c =? 45).
Proof.
  unfold upperc, is_lower. destruct ((97 <=? c) && (c <=? 122)) eqn:E; [|reflexivity].
  apply andb_true_iff in E as [E1 E2]. apply N.leb_le in E1, E2.
  transitivity false; [apply N.eqb_neq; lia | symmetry; apply N.eqb_neq; lia].
Qed.
Lemma lowerc_dash c : (lowerc c =? 45) = (c =? 45).
Proof.
  unfold lowerc, is_upper. destruct ((65 <=? c) && (c <=? 90)) eqn:E; [|reflexivity].
  apply andb_true_iff in E as [E1 E2]. apply N.leb_le in E1, E2.
  transitivity false; [apply N.eqb_neq; lia | symmetry; apply N.eqb_neq; lia].
Qed.
Lemma upperc_idem c : upperc (upperc c) = upperc c.
Proof.
  unfold upperc, is_lower. destruct ((97 <=? c) && (c <=? 122)) eqn:E; [|rewrite E; reflexivity].
  apply andb_true_iff in E as [E1 E2]. apply N.leb_le in E1, E2.
  destruct ((97 <=? c - 32) && (c - 32 <=? 122)) eqn:E'; [|reflexivity].
  apply andb_true_iff in E' as [E3 _]. apply N.leb_le in E3. lia.
Qed.
Lemma upperc_token c : is_token_char c = true -> is_token_char (upperc c) = true.
Proof.
  intro H. unfold upperc, is_lower. destruct ((97 <=? c) && (c <=? 122)) eqn:E; [|exact H].
  apply andb_true_iff in E as [E1 E2]. apply N.leb_le in E1, E2.
  unfold is_token_char, is_alpha, is_upper.
  replace ((65 <=? c - 32) && (c - 32 <=? 90)) with true; [reflexivity|].
  symmetry. apply andb_true_iff. split; apply N.leb_le; lia.
Qed.
Lemma lowerc_token c : is_token_char c = true -> is_token_char (lowerc c) = true.
Proof.
  intro H. unfold lowerc, is_upper. destruct ((65 <=? c) && (c <=? 90)) eqn:E; [|exact H].
  apply andb_true_iff in E as [E1 E2]. apply N.leb_le in E1, E2.
  unfold is_token_char, is_alpha, is_lower.
  replace ((97 <=? c + 32) && (c + 32 <=? 122)) with true; [rewrite orb_true_r; reflexivity|].
  symmetry. apply andb_true_iff. split; apply N.leb_le; lia.
Qed.

Lemma canon_go_idem s : forall up, canon_go up (canon_go up s) = canon_go up s.
Proof.
  induction s as [|c s IH]; intro up; [reflexivity|]. cbn [canon_go].
  destruct up.
  - rewrite upperc_idem, upperc_dash, IH. reflexivity.
  - rewrite lowerc_idem, lowerc_dash, IH. reflexivity.
Qed.

Lemma canon_go_token s : forall up, forallb is_token_char s = true -> forallb is_token_char (canon_go up s) = true.
Proof.
  induction s as [|c s IH]; intros up H; [reflexivity|]. cbn [forallb] in H. apply andb_true_iff in H as [Hc Hs].
  cbn [canon_go forallb]. rewrite (IH _ Hs), andb_true_r. destruct up; [apply upperc_token | apply lowerc_token]; exact Hc.
Qed.

Lemma canon_idem s : canon (canon s) = canon s.
Proof.
  unfold canon. destruct (forallb is_token_char s) eqn:E; [|rewrite E; reflexivity].
  rewrite (canon_go_token s true E). apply canon_go_idem.
Qed.

(* T02_connection_nominated_removed: whatever the origin's Connection field nominates — each
   value split at commas, white space around an element ignored, any letter case — is absent
   from the header the response is written from *)
Theorem connection_nominated_removed :
  hbh_trims_connection_token = true ->
  forall h v t, In v (h_values (b "Connection") h) -> In t (split_byte 44 v) ->
    raw_get (canon (trim_space t)) (remove_hop_by_hop h) = None.
Proof.
  intros Hf h v t Hv Ht. rewrite hop_by_hop_removed.
  assert (E : existsb (str_eqb (canon (trim_space t))) (map canon (conn_listed h ++ hop_by_hop)) = true).
  { apply existsb_exists. exists (canon (conn_token t)). split.
    - apply in_map, in_or_app. left. unfold conn_listed. apply in_flat_map. exists v. split; [exact Hv|].
      apply in_map. exact Ht.
    - unfold conn_token. rewrite Hf, canon_idem. apply str_eqb_refl. }
  rewrite E. reflexivity.
Qed.

(* ------------------------------------------------------------------ trailers *)
(* every declared trailer field, with every value, reaches the client after the last chunk;
   trailer fields the origin did not declare are passed on iff at least one was declared
   (the transport merges them into the same map), otherwise dropped *)
Theorem trailers_preserved meth r :
  g_te (go_state meth r) = true ->
  (forall k vs v, In (k, vs) (r_trailer r) -> In v vs -> is_token k = true ->
     In (k, sanitize v) (o_trailers (go_obs meth r))) /\
  (forall k vs v, r_trailer r <> [] -> In (k, vs) (r_late r) -> In v vs -> is_token k = true ->
     In (k, sanitize v) (o_trailers (go_obs meth r))) /\
  (r_trailer r = [] -> o_trailers (go_obs meth r) = []).
Proof.
  intro Ht. unfold go_obs, go_trailer_fields. cbn [o_trailers]. rewrite Ht.
  assert (W : forall k, is_token k = true -> written_key [] k = true)
    by (intros k Hk; unfold written_key; rewrite Hk; reflexivity).
  assert (G : forall k vs v, In (k, vs) (final_trailer r) -> In v vs -> is_token k = true ->
            In (k, sanitize v) (map trimf (header_fields [] (final_trailer r)))).
  { intros k vs v H1 H2 H3. apply in_map_iff. exists (k, sanitize v). split.
    - unfold trimf. cbn [fst snd]. rewrite sanitize_trimmed. reflexivity.
    - apply in_header_fields. split; [apply W, H3|]. exists vs, v. auto. }
  split; [|split].
  - intros k vs v H1 H2 H3. apply (G k vs v); [|exact H2|exact H3].
    unfold final_trailer. destruct (r_trailer r); [destruct H1|]. apply in_or_app. left. exact H1.
  - intros k vs v Hne H1 H2 H3. apply (G k vs v); [|exact H2|exact H3].
    unfold final_trailer. destruct (r_trailer r); [congruence|]. apply in_or_app. right. exact H1.
  - intro He. unfold final_trailer. rewrite He. reflexivity.
Qed.
