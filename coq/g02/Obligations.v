(* C02 — table obligations: facts about the source as extracted into Tables.v on
   this run, each discharged by closed computation.  When the source changes
   shape exactly the lemma naming that shape stops checking. *)
From G02 Require Import RespFraming Client Check CodecProofs WriterProofs ResponseProofs.
Open Scope N_scope.

(* flush.go: patternFlushWriter.Write looks for the pattern inside the write and across the write boundary *)
Lemma ob_flush_checks_straddle : flush_straddle_check = true.
Proof. vm_compute. reflexivity. Qed.
(* patternFlushWriter.Write writes to the buffer first and flushes afterwards *)
Lemma ob_flush_after_write : flush_after_write = true.
Proof. reflexivity. Qed.
Lemma ob_flush_checks_contains : flush_contains_check = true.
Proof. vm_compute. reflexivity. Qed.

(* flush.go: the event stream writer flushes after LF LF, CR CR and CRLF; no pattern starts with NUL *)
Lemma ob_sse_has_lflf : In (10, 10) sse_flush_patterns.
Proof. vm_compute. tauto. Qed.
Lemma ob_sse_has_crcr : In (13, 13) sse_flush_patterns.
Proof. vm_compute. tauto. Qed.
Lemma ob_sse_has_lfcr : In (10, 13) sse_flush_patterns.
Proof. vm_compute. tauto. Qed.
Lemma ob_sse_has_crlf : In (13, 10) sse_flush_patterns.
Proof. vm_compute. tauto. Qed.
Lemma ob_chunk_has_crlf : In (13, 10) chunk_flush_patterns.
Proof. vm_compute. tauto. Qed.
Lemma ob_sse_patterns_nonzero : Forall (fun p => fst p <> 0) sse_flush_patterns.
Proof. repeat constructor; discriminate. Qed.
Lemma ob_chunk_patterns_nonzero : Forall (fun p => fst p <> 0) chunk_flush_patterns.
Proof. repeat constructor; discriminate. Qed.

(* flush.go: isHeaderOnlySpec is exactly RFC 7230 3.3.3 rule 1 *)
Lemma ob_header_only_sets :
  ho_methods = [b "HEAD"] /\ ho_status_classes = [1] /\ ho_status_codes = [204; 304].
Proof. vm_compute. repeat split; reflexivity. Qed.
Lemma ob_header_only_is_rfc : forall meth code, is_header_only meth code = rfc_no_body meth code.
Proof.
  intros meth code. unfold is_header_only, rfc_no_body.
  destruct ob_header_only_sets as (-> & -> & ->). cbn [existsb]. rewrite !orb_false_r.
  rewrite (N.eqb_sym code 204), (N.eqb_sym code 304), orb_assoc. reflexivity.
Qed.

(* flush.go: shouldChunk = HTTP/1.1, unknown length, may have a body *)
Lemma ob_should_chunk :
  sc_proto_major = 1 /\ sc_proto_minor = 1 /\ sc_unknown_length = (-1)%Z /\ sc_negates_header_only = true.
Proof. vm_compute. repeat split; reflexivity. Qed.

(* proxy_conn.go: writeHeaderOnlyResponse = status line, Header.Write, "Trailer: " k1 ", " k2 ... CRLF, CRLF *)
Lemma ob_header_only_writer_shape : ho_shape_ok.
Proof. unfold ho_shape_ok. vm_compute. repeat split; reflexivity. Qed.

(* proxy_connect.go *)
Lemma ob_connect_literal : connect_ok_literal = b "HTTP/1.1 200 OK" ++ crlf ++ crlf.
Proof. vm_compute. reflexivity. Qed.

(* proxy_conn.go writeResponse: close decision, Connection: close, framing repair, order of the writers *)
Lemma ob_close_when_closing : wr_close_when_closing = true.
Proof. vm_compute. reflexivity. Qed.
Lemma ob_close_when_req_close : wr_close_when_req_close = true.
Proof. vm_compute. reflexivity. Qed.
Lemma ob_connect_keeps_open : wr_connect_keeps_open = true.
Proof. vm_compute. reflexivity. Qed.
Lemma ob_adds_connection_close : wr_adds_connection_close = true.
Proof. vm_compute. reflexivity. Qed.
Lemma ob_frames_unknown_length : wr_frames_unknown_length = true.
Proof. vm_compute. reflexivity. Qed.
Lemma ob_writer_order :
  wr_outer_cases = [b "connect-ok"; b "header-only"; b "default"] /\ wr_inner_cases = [b "sse"; b "chunk"; b "plain"].
Proof. vm_compute. split; reflexivity. Qed.

(* proxy.go roundTrip: an unexpected body on a header-only upstream response is dropped *)
Lemma ob_discards_header_only_body : rt_discards_header_only_body = true.
Proof. vm_compute. reflexivity. Qed.

(* hopbyhop_modifier.go: the RFC 7230 hop-by-hop fields are in the list *)
Lemma ob_hop_by_hop :
  forallb (fun k => existsb (str_eqb k) hop_by_hop)
          [b "Connection"; b "Keep-Alive"; b "Proxy-Authenticate"; b "Proxy-Authorization"; b "Te"; b "Trailer";
           b "Transfer-Encoding"; b "Upgrade"] = true.
Proof. vm_compute. reflexivity. Qed.

(* proxy_handler.go writeResponse: bodies of unknown length are flushed after every write *)
Lemma ob_handler_flushes_every_write : hw_unknown_length_flushes_every_write = true.
Proof. vm_compute. reflexivity. Qed.

(* the run-time check of the theorem's hypotheses on observed responses is the theorem's own predicate *)
Lemma ob_wf_twin : forall q r order, wf_snapshot q r order = wf_resp q r order.
Proof. intros q r order. unfold wf_snapshot, wf_resp, wf_go, nocrlf_status. rewrite <- !andb_assoc. reflexivity. Qed.

(* hopbyhop_modifier.go: the elements of a Connection value are trimmed before they are deleted *)
Lemma ob_connection_tokens_trimmed : hbh_trims_connection_token = true.
Proof. vm_compute. reflexivity. Qed.

(* proxy_conn.go writeResponse, tail: whatever error writing the response returned, the client connection ends (errClose) *)
Lemma ob_write_error_closes : wr_write_error_closes = true.
Proof. vm_compute. reflexivity. Qed.

(* proxy_handler.go: the Trailer announcement is joined with ", ", late trailers go under net/http.TrailerPrefix *)
Lemma ob_handler_trailer_strings : hw_trailer_sep = b ", " /\ hw_trailer_prefix = b "Trailer:".
Proof. vm_compute. split; reflexivity. Qed.

(* proxy_handler.go writeResponse: whatever error ends the body copy, the handler aborts *)
Lemma ob_handler_copy_error_aborts : hw_copy_error_aborts = true.
Proof. vm_compute. reflexivity. Qed.

(* proxy_conn.go handle(): the request body is closed (drained) on every path out of handle() *)
Lemma ob_handle_closes_request_body : hd_closes_request_body = true.
Proof. vm_compute. reflexivity. Qed.
(* proxy.go modifyErrorResponse keeps the proxy's own Proxy-Authenticate challenge *)
Lemma ob_error_response_keeps_challenge : er_keeps_challenge = true.
Proof. vm_compute. reflexivity. Qed.
