(* C02 — the http.Handler variant (proxy_handler.go writeResponse): what it hands to
   net/http's ResponseWriter is the origin's status, header fields, body and trailers.
   What net/http's server then writes is NOT modelled here: it is assumed as a contract
   (Section ServerContract) that the end-to-end oracle runs (xcases) test. *)
From G02 Require Import RespFraming Client CodecProofs WriterProofs.
Open Scope N_scope.

Definition vals (k : str) (h : hmap) : list str := match raw_get k h with Some vs => vs | None => [] end.
Definition add_vals (k : str) (vs : list str) (d : hmap) : hmap := fold_left (fun d' v => h_add k v d') vs d.

Lemma copy_header_eq dst src :
  copy_header dst src = fold_left (fun d kv => add_vals (fst kv) (snd kv) d) src dst.
Proof. reflexivity. Qed.

Lemma h_add_canon k v d : canon k = k -> h_add k v d = raw_set k (vals k d ++ [v]) d.
Proof. intro H. unfold h_add, h_values, vals. rewrite H. reflexivity. Qed.

Lemma add_vals_same k vs : canon k = k -> forall d,
  raw_get k (add_vals k vs d) = match vs with [] => raw_get k d | _ => Some (vals k d ++ vs) end.
Proof.
  intro Hk. induction vs as [|v vs IH]; intro d; [reflexivity|].
  unfold add_vals. cbn [fold_left]. fold (add_vals k vs (h_add k v d)). rewrite IH.
  rewrite (h_add_canon k v d Hk).
  destruct vs as [|v' vs'].
  - apply raw_get_set_same.
  - unfold vals at 1. rewrite raw_get_set_same, <- app_assoc. reflexivity.
Qed.

Lemma add_vals_other k k' vs : canon k = k -> k' <> k -> forall d, raw_get k' (add_vals k vs d) = raw_get k' d.
Proof.
  intros Hk Hne. induction vs as [|v vs IH]; intro d; [reflexivity|].
  unfold add_vals. cbn [fold_left]. fold (add_vals k vs (h_add k v d)). rewrite IH.
  rewrite (h_add_canon k v d Hk). apply raw_get_set_other. exact Hne.
Qed.

Definition canonical (h : hmap) : Prop := forall kv, In kv h -> canon (fst kv) = fst kv.

(* copying a header map with distinct canonical keys by Header.Add *)
Lemma copy_header_get src : wf src -> canonical src -> forall dst k,
  raw_get k (copy_header dst src) =
  match raw_get k src with
  | Some (v :: vs) => Some (vals k dst ++ v :: vs)
  | _ => raw_get k dst
  end.
Proof.
  induction src as [|[k0 vs0] rest IH]; intros Hwf Hcan dst k; [reflexivity|].
  rewrite copy_header_eq. cbn [fold_left fst snd]. rewrite <- copy_header_eq.
  inversion Hwf as [|? ? Hnin Hnd]; subst.
  assert (Hk0 : canon k0 = k0) by (apply (Hcan (k0, vs0)); left; reflexivity).
  assert (Hcr : canonical rest) by (intros kv Hin; apply Hcan; right; exact Hin).
  rewrite (IH Hnd Hcr). cbn [raw_get].
  destruct (str_eqb k k0) eqn:E.
  - apply str_eqb_eq in E. subst k0.
    assert (Hn : raw_get k rest = None) by (apply raw_get_none_notin; exact Hnin).
    rewrite Hn, (add_vals_same k vs0 Hk0). destruct vs0; reflexivity.
  - apply str_eqb_neq in E.
    unfold vals. rewrite (add_vals_other k0 k vs0 Hk0 E). reflexivity.
Qed.

(* ------------------------------------------------------------------ what the server is handed *)
Section Handler.
  Hypothesis Hsep : hw_trailer_sep = b ", ".

  (* every header field of the response, with its values in order, is in the header map when WriteHeader is called *)
  Theorem handler_header_complete r order k v vs :
    wf (r_hdr r) -> canonical (r_hdr r) -> raw_get k (r_hdr r) = Some (v :: vs) -> k <> b "Trailer" ->
    raw_get k (handler_header r order) = Some (v :: vs).
  Proof.
    intros Hwf Hcan Hk Hnt. unfold handler_header. cbv zeta.
    assert (E : raw_get k (copy_header [] (r_hdr r)) = Some (v :: vs))
      by (rewrite (copy_header_get (r_hdr r) Hwf Hcan [] k), Hk; reflexivity).
    destruct order; [exact E|]. unfold h_add. change (canon (b "Trailer")) with (b "Trailer").
    rewrite raw_get_set_other by exact Hnt. exact E.
  Qed.

  (* nothing else is: a key that is neither in the response header nor "Trailer" is absent *)
  Theorem handler_header_sound r order k :
    wf (r_hdr r) -> canonical (r_hdr r) -> raw_get k (r_hdr r) = None -> k <> b "Trailer" ->
    raw_get k (handler_header r order) = None.
  Proof.
    intros Hwf Hcan Hk Hnt. unfold handler_header. cbv zeta.
    assert (E : raw_get k (copy_header [] (r_hdr r)) = None)
      by (rewrite (copy_header_get (r_hdr r) Hwf Hcan [] k), Hk; reflexivity).
    destruct order; [exact E|]. unfold h_add. change (canon (b "Trailer")) with (b "Trailer").
    rewrite raw_get_set_other by exact Hnt. exact E.
  Qed.

  (* the body is written byte for byte, one Write per non-empty read *)
  Theorem handler_body r : concat (reads_of r) = body_bytes r.
  Proof. apply concat_filter_nonempty. Qed.

  (* declared trailers, when exactly the declared ones arrived: set under their own names after the body *)
  Theorem handler_trailers_declared r order k v vs :
    r_late r = [] -> wf (r_trailer r) -> canonical (r_trailer r) ->
    raw_get k (r_trailer r) = Some (v :: vs) ->
    raw_get k (handler_final r order) = Some (vals k (handler_header r order) ++ v :: vs).
  Proof.
    intros Hl Hwf Hcan Hk. unfold handler_final, handler_trailer_map. cbv zeta. rewrite Hl.
    destruct (r_trailer r) as [|t ts] eqn:Et; [discriminate|]. rewrite app_nil_r, Nat.eqb_refl.
    rewrite (copy_header_get (t :: ts) Hwf Hcan), Hk. reflexivity.
  Qed.
End Handler.

(* ------------------------------------------------------------------ modulo net/http's server *)
(* The server's part is assumed, not modelled: given the header map at WriteHeader, the status,
   the writes and the final header map it emits bytes from which the reference client recovers
   the status, every handed-over header field that the server does not manage itself, and the
   written bytes as the body.  (It adds Date, may add Content-Type by sniffing and Connection,
   chooses Content-Length or chunked coding, replaces the reason phrase, drops Content-Type /
   Content-Length from 304 replies — all outside this contract; the xcases runs test it.) *)
Section ServerContract.
  Variable server_wire : hmap -> N -> list str -> hmap -> str.
  Variable managed : str -> bool.   (* field names the server sets or drops on its own *)
  Hypothesis server_ok : forall v11 meth hdr code writes final rest,
    exists o, client_parse v11 meth (server_wire hdr code writes final ++ rest) = Some (o, rest) /\
              o_code o = code /\
              (rfc_no_body meth code = false -> o_body o = concat writes) /\
              (forall k vs, raw_get k hdr = Some vs -> managed k = false -> field_values k (o_fields o) = vs).

  Theorem handler_codec_rel_server v11 meth r order rest :
    wf (r_hdr r) -> canonical (r_hdr r) ->
    exists o, client_parse v11 meth
                (server_wire (handler_header r order) (r_code r) (reads_of r) (handler_final r order) ++ rest) = Some (o, rest) /\
              o_code o = r_code r /\
              (rfc_no_body meth (r_code r) = false -> o_body o = body_bytes r) /\
              (forall k v vs, raw_get k (r_hdr r) = Some (v :: vs) -> k <> b "Trailer" -> managed k = false ->
                 field_values k (o_fields o) = v :: vs).
  Proof.
    intros Hwf Hcan.
    destruct (server_ok v11 meth (handler_header r order) (r_code r) (reads_of r) (handler_final r order) rest)
      as (o & Hp & Hc & Hb & Hf).
    exists o. split; [exact Hp|]. split; [exact Hc|]. split.
    - intro Hn. rewrite (Hb Hn). apply concat_filter_nonempty.
    - intros k v vs Hk Hnt Hm. apply Hf; [|exact Hm].
      unfold handler_header. cbv zeta.
      assert (E : raw_get k (copy_header [] (r_hdr r)) = Some (v :: vs))
        by (rewrite (copy_header_get (r_hdr r) Hwf Hcan [] k), Hk; reflexivity).
      destruct order; [exact E|]. unfold h_add. change (canon (b "Trailer")) with (b "Trailer").
      rewrite raw_get_set_other by exact Hnt. exact E.
  Qed.
End ServerContract.

(* ------------------------------------------------------------------ roundTrip's discard of an unexpected body *)
(* A RoundTripper other than http.Transport may hand over a body with a reply that must not
   have one.  roundTrip replaces it by http.NoBody, so the http.Handler variant issues no Write
   for it (net/http's server would answer a Write on a 204/304 reply with ErrBodyNotAllowed and
   the handler would abort the connection), and the header-only writer of the connection
   handler never looks at the body at all. *)
Theorem discard_no_write :
  rt_discards_header_only_body = true ->
  forall q r, is_header_only (q_method q) (r_code r) = true -> r_code r <> 101 ->
    reads_of (discard_body q r) = [] /\
    (forall order, header_only_writes (discard_body q r) order = header_only_writes r order).
Proof.
  intros Hf q r Hh Hc. unfold discard_body. rewrite Hf, Hh.
  assert (E : (r_code r =? 101) = false) by (apply N.eqb_neq; exact Hc). rewrite E. cbn [negb andb].
  split; reflexivity.
Qed.
