(* C02 — the codec law, part 3: martian's writeResponse (close decision, framing
   repair, choice of writer) on top of the writers.  Facts about the source are
   hypotheses (Section variables), discharged in Obligations.v / C02.v. *)
From G02 Require Import RespFraming Client CodecProofs WriterProofs.
Open Scope N_scope.

Definition client11 (q : req) : bool := proto_at_least_11 (q_major q) (q_minor q).

(* what the client must see of the response the proxy writes *)
Definition observable (closing : bool) (q : req) (r : resp) (order : list str) : obs :=
  let r' := prepare closing q r in
  match writer_kind q r' with
  | WConnectOK => connect_obs
  | WHeaderOnly => ho_obs r' order
  | WGo _ => go_obs (q_method q) r'
  end.

(* hypotheses on the response record: what http.Transport delivers for a well-formed origin response *)
Definition wf_resp (q : req) (r : resp) (order : list str) : bool :=
  wf_go r && forallb is_token order &&
  (* for responses that may have a body: chunked => length unknown and HTTP/1.1; declared empty => empty *)
  (rfc_no_body (q_method q) (r_code r) ||
   ((negb (r_chunked r) || ((r_cl r =? -1)%Z && proto_at_least_11 (r_major r) (r_minor r))) &&
    (negb (r_cl r =? 0)%Z || negb (nonempty (concat (reads_of r)))))).

(* ------------------------------------------------------------------ prepare keeps everything but Close, chunked, Connection *)
Lemma reframe_inv q r :
  let r' := reframe q r in
  r_major r' = r_major r /\ r_minor r' = r_minor r /\ r_code r' = r_code r /\ r_status r' = r_status r /\
  r_hdr r' = r_hdr r /\ r_cl r' = r_cl r /\ r_trailer r' = r_trailer r /\ r_body r' = r_body r /\
  r_uncompressed r' = r_uncompressed r.
Proof.
  unfold reframe.
  destruct (wr_frames_unknown_length && (r_cl r =? -1)%Z && negb (is_header_only (q_method q) (r_code r)) && negb (is_connect_ok q r));
    [|cbv zeta; repeat split].
  destruct (negb (proto_at_least_11 (q_major q) (q_minor q))); [cbv zeta; repeat split|].
  destruct (negb (r_chunked r) && (wr_reframes_close_delimited || negb (r_close r))); [|cbv zeta; repeat split].
  destruct (proto_at_least_11 (r_major r) (r_minor r)); cbv zeta; repeat split.
Qed.

Lemma prepare_inv closing q r :
  let r' := prepare closing q r in
  r_major r' = r_major r /\ r_minor r' = r_minor r /\ r_code r' = r_code r /\ r_status r' = r_status r /\
  r_cl r' = r_cl r /\ r_trailer r' = r_trailer r /\ r_body r' = r_body r /\
  r_uncompressed r' = r_uncompressed r /\
  (r_hdr r' = r_hdr r \/ r_hdr r' = h_add (b "Connection") (b "close") (r_hdr r)) /\
  r_close r' = r_close (reframe q (set_close r (final_close closing q r))) /\
  r_chunked r' = r_chunked (reframe q (set_close r (final_close closing q r))).
Proof.
  unfold prepare. cbv zeta.
  set (r0 := set_close r (final_close closing q r)).
  destruct (reframe_inv q r0) as (H1 & H2 & H3 & H4 & H5 & H6 & H7 & H8 & H9).
  destruct (r_close (reframe q r0) && wr_adds_connection_close); cbn [set_hdr r_major r_minor r_code r_status r_hdr r_cl r_trailer r_body r_uncompressed r_close r_chunked];
    rewrite ?H1, ?H2, ?H3, ?H4, ?H5, ?H6, ?H7, ?H8, ?H9; repeat split; auto.
Qed.

Lemma forallb_filter {A} (f g : A -> bool) l : forallb f l = true -> forallb f (filter g l) = true.
Proof.
  induction l as [|x l IH]; [reflexivity|]. cbn [forallb filter]. intro H. apply andb_true_iff in H as [Hx Hl].
  destruct (g x); [cbn [forallb]; rewrite Hx, (IH Hl); reflexivity | exact (IH Hl)].
Qed.

Lemma framing_free_add_close h :
  hdr_framing_free resp_exclude h = true ->
  hdr_framing_free resp_exclude (h_add (b "Connection") (b "close") h) = true.
Proof.
  intro H. unfold h_add, raw_set, hdr_framing_free. cbn [forallb fst].
  apply andb_true_iff. split; [reflexivity|]. unfold raw_del. apply forallb_filter. exact H.
Qed.

Lemma nocrlf_status_ext r r' :
  r_major r' = r_major r -> r_minor r' = r_minor r -> r_code r' = r_code r -> r_status r' = r_status r ->
  nocrlf_status r' = nocrlf_status r.
Proof. intros H1 H2 H3 H4. unfold nocrlf_status, reason_text. rewrite H1, H2, H3, H4. reflexivity. Qed.

Lemma wf_go_prepare closing q r : wf_go r = true -> wf_go (prepare closing q r) = true.
Proof.
  intro H. destruct (prepare_inv closing q r) as (H1 & H2 & H3 & H4 & H5 & H6 & _ & _ & Hh & _).
  unfold wf_go in *. apply andb_true_iff in H as [H Hc]. apply andb_true_iff in H as [H Ht].
  apply andb_true_iff in H as [Hs Hf].
  rewrite (nocrlf_status_ext r _ H1 H2 H3 H4), Hs, H5, H6, Ht, Hc.
  destruct Hh as [-> | ->]; [rewrite Hf | rewrite (framing_free_add_close _ Hf)]; reflexivity.
Qed.

Lemma go_state_ext meth r r' :
  r_major r' = r_major r -> r_minor r' = r_minor r -> r_cl r' = r_cl r -> r_body r' = r_body r ->
  r_uncompressed r' = r_uncompressed r -> r_close r' = r_close r -> r_chunked r' = r_chunked r ->
  go_state meth r' = go_state meth r.
Proof.
  intros H1 H2 H3 H4 H5 H6 H7. unfold go_state, reads_of. rewrite H1, H2, H3, H4, H5, H6, H7. reflexivity.
Qed.

Lemma div100_class code : (code / 100 =? 1) = (100 <=? code) && (code <=? 199).
Proof.
  destruct (code / 100 =? 1) eqn:E.
  - apply N.eqb_eq in E. symmetry. apply andb_true_iff.
    assert (code / 100 * 100 <= code) by (rewrite N.mul_comm; apply N.mul_div_le; lia).
    assert (code < 100 * N.succ (code / 100)) by (apply N.mul_succ_div_gt; lia).
    split; apply N.leb_le; lia.
  - apply N.eqb_neq in E. symmetry. apply andb_false_iff.
    destruct (100 <=? code) eqn:E1; [|left; reflexivity]. right. apply N.leb_gt. apply N.leb_le in E1.
    destruct (N.le_gt_cases code 199) as [Hle|Hgt]; [|lia]. exfalso. apply E.
    symmetry. apply (N.div_unique code 100 1 (code - 100)); lia.
Qed.

Lemma rfc_body_allowed meth code : rfc_no_body meth code = false -> body_allowed_for_status code = true.
Proof.
  unfold rfc_no_body, body_allowed_for_status. rewrite <- div100_class. intro H.
  apply orb_false_iff in H as [H H304]. apply orb_false_iff in H as [H H204]. apply orb_false_iff in H as [_ H1].
  rewrite H1, H204, H304. reflexivity.
Qed.

(* the three framings of a response that may have a body, by the flags writeResponse leaves *)
Lemma delimited_chunked meth x :
  str_eqb meth (b "HEAD") = false -> proto_at_least_11 (r_major x) (r_minor x) = true -> r_chunked x = true ->
  go_delimited true meth x = true.
Proof.
  intros Hh Ha Hc. unfold go_delimited, go_state. cbv zeta. cbn [g_head g_te g_send_cl g_cl g_cl1].
  rewrite Hh, Ha, Hc. reflexivity.
Qed.

Lemma delimited_length v meth x :
  str_eqb meth (b "HEAD") = false -> r_chunked x = false -> (0 <= r_cl x)%Z ->
  (negb (r_cl x =? 0)%Z || negb (nonempty (concat (reads_of x)))) = true ->
  body_allowed_for_status (r_code x) = true ->
  go_delimited v meth x = true.
Proof.
  intros Hh Hc Hge Hz Ha. unfold go_delimited, go_cl0, go_state. cbv zeta. cbn [g_head g_te g_send_cl g_cl g_cl1].
  rewrite Hh, Hc, Ha, andb_false_r. cbn [negb andb orb].
  destruct (r_cl x =? 0)%Z eqn:E0.
  - cbn [negb orb] in Hz. apply negb_true_iff in Hz. rewrite Hz.
    set (e := existsb (str_eqb meth) [b "POST"; b "PUT"; b "PATCH"]).
    change (0 <? 0)%Z with false. change (0 =? 0)%Z with true. cbv iota. destruct e; reflexivity.
  - apply Z.eqb_neq in E0. assert (E1 : (0 <? r_cl x)%Z = true) by (apply Z.ltb_lt; lia). rewrite E1. reflexivity.
Qed.

Lemma until_close_unknown meth x :
  str_eqb meth (b "HEAD") = false -> r_chunked x = false -> r_cl x = (-1)%Z ->
  go_until_close meth x = true.
Proof.
  intros Hh Hc Hl. unfold go_until_close, go_cl0, go_state. cbv zeta. cbn [g_head g_te g_send_cl g_cl g_cl1].
  rewrite Hh, Hc, Hl, andb_false_r. reflexivity.
Qed.

Section Response.
  (* facts about the source *)
  Hypothesis Hho : forall meth code, is_header_only meth code = rfc_no_body meth code.
  Hypothesis Hshape : ho_shape_ok.
  Hypothesis Hconn : connect_ok_literal = b "HTTP/1.1 200 OK" ++ crlf ++ crlf.
  Hypothesis Hreframe : wr_frames_unknown_length = true.
  Hypothesis Hwerr : wr_write_error_closes = true.

  (* the framing a surviving / a closing connection gets *)
  Lemma go_framing closing q r order :
    wf_resp q r order = true ->
    is_connect_ok q r = false -> rfc_no_body (q_method q) (r_code r) = false ->
    let r' := prepare closing q r in
    (r_close r' = false -> go_delimited (client11 q) (q_method q) r' = true) /\
    (go_delimited (client11 q) (q_method q) r' = true \/ go_until_close (q_method q) r' = true).
  Proof.
    intros Hwf Hco Hnb. cbv zeta.
    destruct (prepare_inv closing q r) as (H1 & H2 & H3 & _ & H5 & _ & H7 & _ & _ & H10 & H11).
    unfold wf_resp in Hwf. apply andb_true_iff in Hwf as [Hwf Hb]. rewrite Hnb in Hb. cbn [orb] in Hb.
    apply andb_true_iff in Hb as [Hch Hz].
    apply andb_true_iff in Hwf as [Hwf _]. unfold wf_go in Hwf. apply andb_true_iff in Hwf as [_ Hge].
    apply Z.leb_le in Hge.
    assert (Hhead : str_eqb (q_method q) (b "HEAD") = false).
    { unfold rfc_no_body in Hnb. destruct (str_eqb (q_method q) (b "HEAD")); [discriminate | reflexivity]. }
    pose proof (rfc_body_allowed _ _ Hnb) as Hallow.
    set (r' := prepare closing q r) in *.
    assert (Hz' : (negb (r_cl r' =? 0)%Z || negb (nonempty (concat (reads_of r')))) = true)
      by (unfold reads_of; rewrite H5, H7; exact Hz).
    assert (Hallow' : body_allowed_for_status (r_code r') = true) by (rewrite H3; exact Hallow).
    (* what reframe did to Close and chunked *)
    unfold reframe in H10, H11. rewrite Hreframe in H10, H11.
    cbn [set_close r_cl r_code r_chunked r_close r_major r_minor] in H10, H11.
    rewrite (Hho (q_method q) (r_code r)), Hnb in H10, H11.
    change (is_connect_ok q (set_close r (final_close closing q r))) with (is_connect_ok q r) in H10, H11.
    rewrite Hco in H10, H11. cbn [negb andb] in H10, H11. fold (client11 q) in H10, H11.
    destruct (r_cl r =? -1)%Z eqn:Ecl.
    - (* unknown length *)
      apply Z.eqb_eq in Ecl.
      assert (Hcl' : r_cl r' = (-1)%Z) by (rewrite H5; exact Ecl).
      destruct (client11 q) eqn:Ev; cbn [negb] in H10, H11.
      + destruct (r_chunked r) eqn:Ec; cbn [negb andb] in H10, H11.
        * (* chunked by the origin *)
          cbn [negb orb] in Hch. apply andb_true_iff in Hch as [_ Ha].
          assert (Hd : go_delimited true (q_method q) r' = true)
            by (apply delimited_chunked; [exact Hhead | rewrite H1, H2; exact Ha | rewrite H11; cbn [set_close r_chunked]; exact Ec]).
          split; [intros _; exact Hd | left; exact Hd].
        * destruct (wr_reframes_close_delimited || negb (final_close closing q r)) eqn:Ef.
          -- destruct (proto_at_least_11 (r_major r) (r_minor r)) eqn:Ea;
               cbn [set_close set_chunked r_close r_chunked] in H10, H11.
             ++ assert (Hd : go_delimited true (q_method q) r' = true)
                  by (apply delimited_chunked; [exact Hhead | rewrite H1, H2; exact Ea | exact H11]).
                split; [intros _; exact Hd | left; exact Hd].
             ++ split; [intro Hc; rewrite H10 in Hc; discriminate |].
                right. apply until_close_unknown; [exact Hhead | rewrite H11; exact Ec | exact Hcl'].
          -- apply orb_false_iff in Ef as [_ Ef]. apply negb_false_iff in Ef.
             cbn [set_close r_close r_chunked] in H10, H11.
             split; [intro Hc; rewrite H10, Ef in Hc; discriminate |].
             right. apply until_close_unknown; [exact Hhead | rewrite H11; exact Ec | exact Hcl'].
      + cbn [set_close set_chunked r_close r_chunked] in H10, H11.
        split; [intro Hc; rewrite H10 in Hc; discriminate |].
        right. apply until_close_unknown; [exact Hhead | exact H11 | exact Hcl'].
    - (* known length: never chunked *)
      cbn [andb] in H10, H11. cbn [set_close r_close r_chunked] in H10, H11.
      assert (Ec : r_chunked r = false).
      { destruct (r_chunked r); [|reflexivity]. cbn [negb orb] in Hch. discriminate. }
      apply Z.eqb_neq in Ecl.
      assert (Hd : go_delimited (client11 q) (q_method q) r' = true).
      { apply delimited_length; [exact Hhead | rewrite H11; exact Ec | rewrite H5; lia | exact Hz' | exact Hallow']. }
      split; [intros _; exact Hd | left; exact Hd].
  Qed.

  Lemma kind_connect q r' : is_connect_ok q r' = true -> writer_kind q r' = WConnectOK.
  Proof. intro H. unfold writer_kind. rewrite H. reflexivity. Qed.

  Lemma connect_ok_prepare closing q r : is_connect_ok q (prepare closing q r) = is_connect_ok q r.
  Proof.
    destruct (prepare_inv closing q r) as (_ & _ & H3 & _). unfold is_connect_ok. rewrite H3. reflexivity.
  Qed.

  Lemma connect_ok_method q r : is_connect_ok q r = true -> q_method q = b "CONNECT".
  Proof. unfold is_connect_ok. intro H. apply andb_true_iff in H as [H _]. apply str_eqb_eq in H. exact H. Qed.

  Lemma not_connect_2xx q r : is_connect_ok q r = false ->
    str_eqb (q_method q) (b "CONNECT") && (r_code r / 100 =? 2) = false.
  Proof. intro H. exact H. Qed.

  (* the response is consumed exactly, whatever follows it on the connection, whenever the
     connection is kept (and for the CONNECT reply, after which the tunnel's bytes follow) *)
  Theorem roundtrip closing q r order rest :
    wf_resp q r order = true ->
    conn_survives closing q r = true \/ is_connect_ok q r = true ->
    client_parse (client11 q) (q_method q) (resp_wire closing q r order ++ rest) =
    Some (observable closing q r order, rest).
  Proof.
    intros Hwf Hs. unfold resp_wire, resp_writes, observable. cbv zeta.
    pose proof (connect_ok_prepare closing q r) as Hcp.
    destruct (is_connect_ok q r) eqn:Hco.
    - rewrite (kind_connect q _ (eq_trans Hcp eq_refl)). cbn [concat]. rewrite app_nil_r.
      rewrite (connect_ok_method q r Hco). apply connect_roundtrip, Hconn.
    - destruct Hs as [Hs | Hs]; [|discriminate].
      unfold conn_survives in Hs. rewrite Hwerr in Hs. apply andb_true_iff in Hs as [Hs _]. apply andb_true_iff in Hs as [Hok Hcl].
      apply negb_true_iff in Hcl. unfold write_ok in Hok. cbv zeta in Hok.
      destruct (prepare_inv closing q r) as (H1 & H2 & H3 & H4 & _).
      unfold writer_kind in *. rewrite Hcp in *.
      rewrite (Hho (q_method q) (r_code (prepare closing q r))), H3 in *.
      pose proof Hwf as Hwf0. unfold wf_resp in Hwf. apply andb_true_iff in Hwf as [Hwf _].
      apply andb_true_iff in Hwf as [Hgo Hord].
      pose proof (wf_go_prepare closing q r Hgo) as Hgo'.
      destruct (rfc_no_body (q_method q) (r_code r)) eqn:Hnb.
      + apply ho_roundtrip; [exact Hshape | | exact Hord | rewrite H3; exact Hnb].
        unfold wf_go in Hgo'. apply andb_true_iff in Hgo' as [Hgo' _]. apply andb_true_iff in Hgo' as [Hgo' _].
        apply andb_true_iff in Hgo' as [Hst _]. exact Hst.
      + destruct (go_framing closing q r order Hwf0 Hco Hnb) as [Hd _].
        assert (Hgoal : client_parse (client11 q) (q_method q)
                          (concat (go_writes (q_method q) (prepare closing q r)) ++ rest) =
                        Some (go_obs (q_method q) (prepare closing q r), rest)).
        { apply go_roundtrip; [exact Hgo' | | exact (Hd Hcl) | rewrite H3; exact Hnb | rewrite H3; exact Hco].
          destruct (is_sse (r_hdr (prepare closing q r))); [exact Hok|].
          destruct (should_chunk (q_method q) (prepare closing q r)); exact Hok. }
        destruct (is_sse (r_hdr (prepare closing q r))); [exact Hgoal|].
        destruct (should_chunk (q_method q) (prepare closing q r)); exact Hgoal.
  Qed.

  (* when the proxy closes the connection after the response, the client, reading up to the
     end of the connection, gets exactly that response *)
  Theorem roundtrip_close closing q r order :
    wf_resp q r order = true -> write_ok closing q r = true ->
    conn_survives closing q r = false -> is_connect_ok q r = false ->
    client_parse (client11 q) (q_method q) (resp_wire closing q r order) =
    Some (observable closing q r order, []).
  Proof.
    intros Hwf Hok _ Hco. unfold resp_wire, resp_writes, observable. cbv zeta.
    pose proof (connect_ok_prepare closing q r) as Hcp.
    unfold write_ok in Hok. cbv zeta in Hok.
    destruct (prepare_inv closing q r) as (H1 & H2 & H3 & H4 & _).
    unfold writer_kind in *. rewrite Hcp, Hco in *.
    rewrite (Hho (q_method q) (r_code (prepare closing q r))), H3 in *.
    pose proof Hwf as Hwf0. unfold wf_resp in Hwf. apply andb_true_iff in Hwf as [Hwf _].
    apply andb_true_iff in Hwf as [Hgo Hord].
    pose proof (wf_go_prepare closing q r Hgo) as Hgo'.
    destruct (rfc_no_body (q_method q) (r_code r)) eqn:Hnb.
    - rewrite <- (app_nil_r (concat (header_only_writes (prepare closing q r) order))).
      apply ho_roundtrip; [exact Hshape | | exact Hord | rewrite H3; exact Hnb].
      unfold wf_go in Hgo'. apply andb_true_iff in Hgo' as [Hgo' _]. apply andb_true_iff in Hgo' as [Hgo' _].
      apply andb_true_iff in Hgo' as [Hst _]. exact Hst.
    - destruct (go_framing closing q r order Hwf0 Hco Hnb) as [_ Hd].
      assert (Hgoal : client_parse (client11 q) (q_method q)
                        (concat (go_writes (q_method q) (prepare closing q r))) =
                      Some (go_obs (q_method q) (prepare closing q r), [])).
      { destruct Hd as [Hd | Hu].
        - rewrite <- (app_nil_r (concat (go_writes (q_method q) (prepare closing q r)))).
          apply go_roundtrip; [exact Hgo' | | exact Hd | rewrite H3; exact Hnb | rewrite H3; exact Hco].
          destruct (is_sse (r_hdr (prepare closing q r))); [exact Hok|].
          destruct (should_chunk (q_method q) (prepare closing q r)); exact Hok.
        - apply go_roundtrip_close; [exact Hgo' | exact Hu | rewrite H3; exact Hnb | rewrite H3; exact Hco]. }
      destruct (is_sse (r_hdr (prepare closing q r))); [exact Hgoal|].
      destruct (should_chunk (q_method q) (prepare closing q r)); exact Hgoal.
  Qed.
End Response.

(* ------------------------------------------------------------------ interim responses *)
Lemma client_next_final v11 meth s o rest :
  client_parse v11 meth s = Some (o, rest) -> interim (o_code o) = false -> client_next v11 meth s = Some (o, rest).
Proof. intros H Hi. unfold client_next. cbn [client_parse_skip]. rewrite H, Hi. reflexivity. Qed.

Lemma observable_not_interim closing q r order :
  interim (r_code r) = false -> interim (o_code (observable closing q r order)) = false.
Proof.
  intro H. unfold observable. cbv zeta. destruct (prepare_inv closing q r) as (_ & _ & H3 & _).
  destruct (writer_kind q (prepare closing q r)); [reflexivity | |]; cbn [ho_obs go_obs o_code]; rewrite H3; exact H.
Qed.

(* ------------------------------------------------------------------ a persistent connection *)
Record exchange := mkX { x_closing : bool; x_req : req; x_resp : resp; x_order : list str }.
Definition x_survives (x : exchange) : bool := conn_survives (x_closing x) (x_req x) (x_resp x).
Definition x_wire (x : exchange) : str := resp_wire (x_closing x) (x_req x) (x_resp x) (x_order x).
Definition x_obs (x : exchange) : obs := observable (x_closing x) (x_req x) (x_resp x) (x_order x).

(* the exchanges that are served: up to and including the first after which the proxy closes *)
Fixpoint served (xs : list exchange) : list exchange :=
  match xs with
  | [] => []
  | x :: rest => x :: (if x_survives x then served rest else [])
  end.
(* every byte the proxy writes on the connection *)
Definition conn_wire (xs : list exchange) : str := concat (map x_wire (served xs)).

Definition x_ok (v11 : bool) (x : exchange) : Prop :=
  wf_resp (x_req x) (x_resp x) (x_order x) = true /\ client11 (x_req x) = v11 /\
  interim (r_code (x_resp x)) = false /\   (* what the transport returns is a final response *)
  is_connect_ok (x_req x) (x_resp x) = false /\
  write_ok (x_closing x) (x_req x) (x_resp x) = true.

Section Connection.
  Hypothesis Hho : forall meth code, is_header_only meth code = rfc_no_body meth code.
  Hypothesis Hshape : ho_shape_ok.
  Hypothesis Hconn : connect_ok_literal = b "HTTP/1.1 200 OK" ++ crlf ++ crlf.
  Hypothesis Hreframe : wr_frames_unknown_length = true.
  Hypothesis Hwerr : wr_write_error_closes = true.

  Theorem kth_answers_kth v11 xs :
    Forall (x_ok v11) xs ->
    client_parse_seq v11 (map (fun x => q_method (x_req x)) (served xs)) (conn_wire xs) =
    Some (map x_obs (served xs), []).
  Proof.
    induction xs as [|x rest IH]; intro H; [reflexivity|].
    inversion H as [|? ? (Hwf & Hv & Hint & Hco & Hok) Hrest]; subst.
    unfold conn_wire. cbn [served map concat client_parse_seq].
    pose proof (observable_not_interim (x_closing x) (x_req x) (x_resp x) (x_order x) Hint) as Hni.
    destruct (x_survives x) eqn:Es.
    - fold (conn_wire rest). unfold x_wire at 1.
      rewrite (client_next_final _ _ _ _ _ (roundtrip Hho Hshape Hconn Hreframe Hwerr _ _ _ _ (conn_wire rest) Hwf (or_introl Es)) Hni).
      rewrite (IH Hrest). reflexivity.
    - cbn [map concat]. rewrite app_nil_r. unfold x_wire.
      rewrite (client_next_final _ _ _ _ _ (roundtrip_close Hho Hshape Hreframe _ _ _ _ Hwf Hok Es Hco) Hni). reflexivity.
  Qed.
End Connection.

(* ------------------------------------------------------------------ body and close decision *)
Lemma reads_prepare closing q r : reads_of (prepare closing q r) = reads_of r.
Proof. destruct (prepare_inv closing q r) as (_ & _ & _ & _ & _ & _ & H7 & _). unfold reads_of. rewrite H7. reflexivity. Qed.

(* the status the client sees is the origin's: code, version, reason text *)
Theorem status_intact closing q r order :
  is_connect_ok q r = false ->
  let o := observable closing q r order in
  o_code o = r_code r /\ o_major o = r_major r /\ o_minor o = r_minor r /\ o_reason o = reason_text r.
Proof.
  intro Hc. cbv zeta. unfold observable.
  destruct (prepare_inv closing q r) as (H1 & H2 & H3 & H4 & _).
  assert (Hr : reason_text (prepare closing q r) = reason_text r) by (unfold reason_text; rewrite H3, H4; reflexivity).
  assert (Hk : is_connect_ok q (prepare closing q r) = false) by (unfold is_connect_ok in *; rewrite H3; exact Hc).
  unfold writer_kind. rewrite Hk.
  destruct (is_header_only (q_method q) (r_code (prepare closing q r))); [cbn; auto|].
  destruct (is_sse _); [cbn; auto|]. destruct (should_chunk _ _); cbn; auto.
Qed.

(* the body the client gets from Response.Write is the body the origin sent, byte for byte *)
Theorem body_intact closing q r : o_body (go_obs (q_method q) (prepare closing q r)) = body_bytes r.
Proof. unfold go_obs. cbn [o_body]. rewrite reads_prepare. apply concat_filter_nonempty. Qed.

Theorem close_decision :
  wr_close_when_closing = true -> wr_close_when_req_close = true -> wr_connect_keeps_open = true ->
  forall closing q r,
    r_code r <> 101 ->
    final_close closing q r =
    if is_connect_ok q r then closing else closing || q_close q || r_close r.
Proof.
  intros H1 H2 H3 closing q r Hc. unfold final_close. rewrite H1, H2, H3, !andb_true_r.
  assert (E : (r_code r =? 101) = false) by (apply N.eqb_neq; exact Hc). rewrite E. cbn [andb].
  destruct closing, (is_connect_ok q r), (q_close q), (r_close r); reflexivity.
Qed.

(* the connection is kept iff nothing asked to close it, the write succeeded, and the body
   did not have to be delimited by the end of the connection *)
Theorem survives_iff closing q r :
  wr_write_error_closes = true ->
  (conn_survives closing q r = true <->
   write_ok closing q r = true /\ r_close (prepare closing q r) = false /\ is_connect_ok q r = false).
Proof.
  intro H. unfold conn_survives. rewrite H, !andb_true_iff, !negb_true_iff. tauto.
Qed.

Theorem failed_write_closes :
  wr_write_error_closes = true ->
  forall closing q r, write_ok closing q r = false -> conn_survives closing q r = false.
Proof. intros H closing q r Hw. unfold conn_survives. rewrite H, Hw. reflexivity. Qed.

(* ------------------------------------------------------------------ a concrete connection (non-vacuity) *)
Definition example_xs : list exchange :=
  let q := mkReq (b "GET") 1 1 false in
  let qh := mkReq (b "HEAD") 1 1 false in
  let r1 := mkResp 1 1 200 (b "200 OK") [(b "X-A", [b "1"])] (-1)%Z true [(b "X-T", [])] [] false false [] in
  let r2 := mkResp 1 1 200 (b "200 OK") [(b "X-A", [b "1"; b "2"])] (-1)%Z true [(b "X-T", [b "v"])] [b "hello"; b "wor"] false false [(b "X-Late", [b "l"])] in
  let r3 := mkResp 1 1 200 (b "200 OK") [] (-1)%Z false [] [b "plain"] false true [] in
  [mkX false qh r1 [b "X-T"]; mkX false q r2 []; mkX false q r3 []].

Lemma example_ok :
  Forall (x_ok true) example_xs /\ length (served example_xs) = 3%nat /\
  map (fun x => o_body (x_obs x)) example_xs = [[]; b "hellowor"; b "plain"] /\
  map (fun x => o_trailers (x_obs x)) example_xs = [[]; [(b "X-Late", b "l"); (b "X-T", b "v")]; []].
Proof.
  split; [|repeat split; vm_compute; reflexivity].
  repeat (apply Forall_cons || apply Forall_nil); (repeat split; vm_compute; reflexivity).
Qed.
