(* C02 — the codec law: what the response writers emit is consumed by the
   reference client (Client.v) message by message.  Part 1: lines, numerals,
   header fields, chunked coding. *)
From G02 Require Import RespFraming Client.
Open Scope N_scope.

(* ------------------------------------------------------------------ lines *)
Definition nocrlf_c (c : N) : bool := negb (c =? 13) && negb (c =? 10).
Definition nocrlf (s : str) : bool := forallb nocrlf_c s.

Lemma take_line_app l rest : nocrlf l = true -> take_line (l ++ crlf ++ rest) = Some (l, rest).
Proof.
  induction l as [|c l IH]; intro H.
  - reflexivity.
  - simpl in H. apply andb_true_iff in H as [Hc Hl]. unfold nocrlf_c in Hc.
    apply andb_true_iff in Hc as [H13 H10]. apply negb_true_iff in H13, H10.
    change ((c :: l) ++ crlf ++ rest) with (c :: (l ++ crlf ++ rest)).
    cbn [take_line]. rewrite H13, H10, (IH Hl). reflexivity.
Qed.

Lemma nocrlf_app x y : nocrlf (x ++ y) = nocrlf x && nocrlf y.
Proof. apply forallb_app. Qed.

Lemma token_char_nocrlf c : is_token_char c = true -> nocrlf_c c = true.
Proof.
  intro H. unfold nocrlf_c.
  destruct (c =? 13) eqn:E1; [apply N.eqb_eq in E1; subst; discriminate|].
  destruct (c =? 10) eqn:E2; [apply N.eqb_eq in E2; subst; discriminate|]. reflexivity.
Qed.

Lemma token_nocrlf k : forallb is_token_char k = true -> nocrlf k = true.
Proof.
  unfold nocrlf. rewrite !forallb_forall. intros H c Hin. apply token_char_nocrlf, H, Hin.
Qed.

Lemma token_char_not_colon c : is_token_char c = true -> (58 =? c) = false.
Proof.
  intro H. destruct (58 =? c) eqn:E; [apply N.eqb_eq in E; subst; discriminate | reflexivity].
Qed.

Lemma cut_colon k v : forallb is_token_char k = true -> cut_byte 58 (k ++ 58 :: v) = Some (k, v).
Proof.
  induction k as [|c k IH]; intro H.
  - cbn [app cut_byte]. rewrite N.eqb_refl. reflexivity.
  - cbn [forallb] in H. apply andb_true_iff in H as [Hc Hk].
    cbn [app cut_byte]. rewrite (token_char_not_colon c Hc), (IH Hk). reflexivity.
Qed.

(* ------------------------------------------------------------------ numerals *)
Section Numerals.
  Variable base : N.
  Variable dig : N -> N.
  Variable dv : N -> option N.
  Hypothesis Hbase : 2 <= base.
  Hypothesis Hdv : forall d, d < base -> dv (dig d) = Some d.

  Lemma val_digits fuel n :
    n < 2 ^ N.of_nat fuel -> val_rev base dv (digits_rev base dig (S fuel) n) = Some n.
  Proof.
    revert n. induction fuel as [|f IH]; intros n Hn.
    - simpl in Hn. assert (n = 0) by lia. subst n.
      cbn [digits_rev]. rewrite N.div_0_l by lia. rewrite N.eqb_refl. cbn [val_rev].
      rewrite N.mod_0_l by lia. rewrite (Hdv 0) by lia. f_equal. lia.
    - cbn [digits_rev]. destruct (n / base =? 0) eqn:E.
      + apply N.eqb_eq in E. cbn [val_rev]. rewrite (Hdv (n mod base)) by (apply N.mod_lt; lia).
        f_equal. rewrite (N.div_mod n base) at 2 by lia. rewrite E. lia.
      + assert (Hq : n / base < 2 ^ N.of_nat f).
        { apply N.div_lt_upper_bound; [lia|].
          rewrite Nat2N.inj_succ, N.pow_succ_r' in Hn. nia. }
        change (val_rev base dv (dig (n mod base) :: digits_rev base dig (S f) (n / base)) = Some n).
        cbn [val_rev]. rewrite (IH _ Hq), (Hdv (n mod base)) by (apply N.mod_lt; lia).
        f_equal. rewrite (N.div_mod n base) at 3 by lia. lia.
  Qed.

  Lemma digits_nonempty fuel n : digits_rev base dig (S fuel) n <> [].
  Proof. cbn [digits_rev]. discriminate. Qed.

  Lemma digits_all (P : N -> Prop) fuel n :
    (forall d, d < base -> P (dig d)) -> Forall P (digits_rev base dig fuel n).
  Proof.
    intro H. revert n. induction fuel as [|f IH]; intro n; cbn [digits_rev]; [constructor|].
    constructor; [apply H, N.mod_lt; lia|]. destruct (n / base =? 0); [constructor | apply IH].
  Qed.
End Numerals.

Lemma size_bound n : n < 2 ^ N.of_nat (N.to_nat (N.size n)).
Proof. rewrite N2Nat.id. apply N.size_gt. Qed.

Lemma hexc_digit d : d < 16 -> hex_digit (hexc d) = Some d.
Proof.
  intro H. unfold hexc, hex_digit, is_digit.
  destruct (d <? 10) eqn:E.
  - apply N.ltb_lt in E.
    replace ((48 <=? 48 + d) && (48 + d <=? 57)) with true
      by (symmetry; apply andb_true_iff; split; apply N.leb_le; lia).
    f_equal. lia.
  - apply N.ltb_ge in E.
    replace ((48 <=? 87 + d) && (87 + d <=? 57)) with false
      by (symmetry; apply andb_false_iff; right; apply N.leb_gt; lia).
    replace ((97 <=? 87 + d) && (87 + d <=? 102)) with true
      by (symmetry; apply andb_true_iff; split; apply N.leb_le; lia).
    f_equal. lia.
Qed.

Lemma decc_digit d : d < 10 -> dec_digit (48 + d) = Some d.
Proof.
  intro H. unfold dec_digit, is_digit.
  replace ((48 <=? 48 + d) && (48 + d <=? 57)) with true
    by (symmetry; apply andb_true_iff; split; apply N.leb_le; lia).
  f_equal. lia.
Qed.

Lemma parse_num_rev base dv (l : str) v :
  l <> [] -> val_rev base dv l = Some v -> parse_num base dv (rev l) = Some v.
Proof.
  intros Hne Hv. unfold parse_num. destruct (rev l) eqn:E.
  - exfalso. destruct l as [|x l]; [congruence|]. cbn [rev] in E.
    apply app_eq_nil in E as [_ E]. discriminate.
  - rewrite <- E, rev_involutive. exact Hv.
Qed.

Lemma parse_hex n : parse_num 16 hex_digit (hex n) = Some n.
Proof.
  unfold hex. apply parse_num_rev; [apply digits_nonempty|].
  apply val_digits; [lia | apply hexc_digit | apply size_bound].
Qed.

Lemma parse_dec n : parse_num 10 dec_digit (dec n) = Some n.
Proof.
  unfold dec. apply parse_num_rev; [apply digits_nonempty|].
  apply val_digits; [lia | apply decc_digit | apply size_bound].
Qed.

(* bytes of a numeral are digits: no CR, LF, ';', space or tab among them *)
Definition plain_c (c : N) : bool :=
  negb (c =? 13) && negb (c =? 10) && negb (c =? 59) && negb (c =? 32) && negb (c =? 9).

Lemma hexc_plain d : d < 16 -> plain_c (hexc d) = true.
Proof.
  intro H. unfold hexc, plain_c. destruct (d <? 10) eqn:E.
  - apply N.ltb_lt in E. repeat (apply andb_true_iff; split); apply negb_true_iff, N.eqb_neq; lia.
  - apply N.ltb_ge in E. repeat (apply andb_true_iff; split); apply negb_true_iff, N.eqb_neq; lia.
Qed.

Lemma decc_plain d : d < 10 -> plain_c (48 + d) = true.
Proof.
  intro H. unfold plain_c. repeat (apply andb_true_iff; split); apply negb_true_iff, N.eqb_neq; lia.
Qed.

Lemma hex_plain n : forallb plain_c (hex n) = true.
Proof.
  apply forallb_forall. intros c Hin. unfold hex in Hin. apply in_rev in Hin.
  pose proof (digits_all 16 hexc ltac:(lia) (fun c => plain_c c = true) (S (N.to_nat (N.size n))) n hexc_plain) as HF.
  rewrite Forall_forall in HF. apply HF, Hin.
Qed.

Lemma dec_plain n : forallb plain_c (dec n) = true.
Proof.
  apply forallb_forall. intros c Hin. unfold dec in Hin. apply in_rev in Hin.
  pose proof (digits_all 10 (fun d => 48 + d) ltac:(lia) (fun c => plain_c c = true) (S (N.to_nat (N.size n))) n decc_plain) as HF.
  rewrite Forall_forall in HF. apply HF, Hin.
Qed.

Lemma plain_nocrlf s : forallb plain_c s = true -> nocrlf s = true.
Proof.
  unfold nocrlf. rewrite !forallb_forall. intros H c Hin. specialize (H c Hin).
  unfold plain_c in H. unfold nocrlf_c.
  repeat (apply andb_true_iff in H as [H ?]). apply andb_true_iff. split; assumption.
Qed.

Lemma plain_nocrlf_c c : plain_c c = true -> nocrlf_c c = true.
Proof.
  unfold plain_c, nocrlf_c. intro H. repeat (apply andb_true_iff in H as [H ?]).
  apply andb_true_iff. split; assumption.
Qed.

Lemma plain_not_semi c : plain_c c = true -> (59 =? c) = false.
Proof.
  intro H. destruct (59 =? c) eqn:E; [apply N.eqb_eq in E; subst; discriminate | reflexivity].
Qed.

Lemma plain_no_semi s : forallb plain_c s = true -> before_semi s = s.
Proof.
  unfold before_semi. intro H.
  assert (E : cut_byte 59 s = None).
  { induction s as [|c s IH]; [reflexivity|]. cbn [forallb] in H. apply andb_true_iff in H as [Hc Hs].
    cbn [cut_byte]. rewrite (plain_not_semi c Hc), (IH Hs). reflexivity. }
  rewrite E. reflexivity.
Qed.

(* single digits and %03d, for the status line *)
Lemma dec_small n : n < 10 -> dec n = [48 + n].
Proof.
  intro H. unfold dec. cbn [digits_rev].
  rewrite (N.mod_small n 10 H), (N.div_small n 10 H). reflexivity.
Qed.

Definition below (k : nat) : list N := map N.of_nat (seq 0 k).
Lemma in_below k n : n < N.of_nat k -> In n (below k).
Proof.
  intro H. unfold below. apply in_map_iff. exists (N.to_nat n). split; [apply N2Nat.id|].
  apply in_seq. lia.
Qed.

Lemma pad3_digits code : code < 1000 ->
  pad3 code = [48 + code / 100; 48 + (code / 10) mod 10; 48 + code mod 10].
Proof.
  intro H.
  assert (A : forallb (fun c => str_eqb (pad3 c) [48 + c / 100; 48 + (c / 10) mod 10; 48 + c mod 10]) (below 1000) = true)
    by (vm_compute; reflexivity).
  rewrite forallb_forall in A. apply str_eqb_eq, A, in_below. exact H.
Qed.

(* ------------------------------------------------------------------ header fields *)
(* what the client sees of a written field: the value with optional white space trimmed *)
Definition trimf (f : str * str) : str * str := (fst f, trim_ows (snd f)).
Definition clean (f : str * str) : bool := is_token (fst f) && nocrlf (snd f).

Lemma is_token_chars k : is_token k = true -> forallb is_token_char k = true /\ k <> [].
Proof. destruct k; [discriminate|]. intro H. split; [exact H | discriminate]. Qed.

Lemma trim_ows_sp v : trim_ows (32 :: v) = trim_ows v.
Proof. reflexivity. Qed.

Lemma parse_field_line f : clean f = true -> parse_field (fst f ++ [58; 32] ++ snd f) = Some (trimf f).
Proof.
  destruct f as [k v]. unfold clean. cbn [fst snd]. intro H. apply andb_true_iff in H as [Hk _].
  destruct (is_token_chars k Hk) as [Hc _]. unfold parse_field.
  change (k ++ [58; 32] ++ v) with (k ++ 58 :: (32 :: v)).
  rewrite (cut_colon k (32 :: v) Hc), Hk, trim_ows_sp. reflexivity.
Qed.

Lemma field_line_nocrlf f : clean f = true -> nocrlf (fst f ++ [58; 32] ++ snd f) = true.
Proof.
  destruct f as [k v]. unfold clean. cbn [fst snd]. intro H. apply andb_true_iff in H as [Hk Hv].
  destruct (is_token_chars k Hk) as [Hc _].
  rewrite !nocrlf_app, (token_nocrlf k Hc), Hv. reflexivity.
Qed.

Lemma field_bytes_eq f : field_bytes f = (fst f ++ [58; 32] ++ snd f) ++ crlf.
Proof. unfold field_bytes. rewrite <- !app_assoc. reflexivity. Qed.

Lemma parse_fields_ser fs : forall fuel rest,
  forallb clean fs = true -> (length fs < fuel)%nat ->
  parse_fields fuel (concat (map field_bytes fs) ++ crlf ++ rest) = Some (map trimf fs, rest).
Proof.
  induction fs as [|f fs IH]; intros fuel rest Hc Hf.
  - destruct fuel as [|fuel]; [simpl in Hf; lia|]. reflexivity.
  - destruct fuel as [|fuel]; [simpl in Hf; lia|].
    cbn [forallb] in Hc. apply andb_true_iff in Hc as [Hcf Hcs].
    cbn [map concat]. rewrite field_bytes_eq.
    assert (Hne : fst f ++ [58; 32] ++ snd f <> []).
    { unfold clean in Hcf. apply andb_true_iff in Hcf as [Hk _].
      destruct (fst f); [discriminate | discriminate]. }
    pose proof (field_line_nocrlf f Hcf) as Hnl. pose proof (parse_field_line f Hcf) as Hpf.
    set (L := fst f ++ [58; 32] ++ snd f) in *.
    replace (((L ++ crlf) ++ concat (map field_bytes fs)) ++ crlf ++ rest)
      with (L ++ crlf ++ (concat (map field_bytes fs) ++ crlf ++ rest))
      by (rewrite <- !app_assoc; reflexivity).
    cbn [parse_fields]. rewrite (take_line_app L _ Hnl).
    destruct L eqn:E; [congruence|]. rewrite Hpf, (IH fuel rest Hcs) by (simpl in Hf; lia). reflexivity.
Qed.

Lemma fields_len fs : (length fs <= length (concat (map field_bytes fs)))%nat.
Proof.
  induction fs as [|f fs IH]; [simpl; lia|]. cbn [map concat length]. rewrite app_length.
  unfold field_bytes at 1. rewrite !app_length. simpl. lia.
Qed.

Lemma forallb_map_clean_trim fs : map fst (map trimf fs) = map fst fs.
Proof. rewrite map_map. reflexivity. Qed.

(* ------------------------------------------------------------------ status line *)
Lemma is_digit_48 d : d < 10 -> is_digit (48 + d) = true.
Proof. intro H. unfold is_digit. apply andb_true_iff. split; apply N.leb_le; lia. Qed.

Lemma parse_status_ser M m code text :
  M < 10 -> m < 10 -> code < 1000 ->
  parse_status_line (b "HTTP/" ++ dec M ++ [46] ++ dec m ++ [32] ++ pad3 code ++ [32] ++ text) =
  Some (M, m, code, text).
Proof.
  intros HM Hm Hc. rewrite (dec_small M HM), (dec_small m Hm), (pad3_digits code Hc).
  set (a := code / 100). set (c := (code / 10) mod 10). set (d := code mod 10).
  assert (Ha : a < 10) by (apply N.div_lt_upper_bound; lia).
  assert (Hcc : c < 10) by (apply N.mod_lt; lia).
  assert (Hd : d < 10) by (apply N.mod_lt; lia).
  assert (Hcode : a * 100 + c * 10 + d = code).
  { pose proof (N.div_mod code 10 ltac:(lia)) as E1.
    pose proof (N.div_mod (code / 10) 10 ltac:(lia)) as E2.
    assert (E3 : code / 10 / 10 = code / 100) by (rewrite N.div_div by lia; reflexivity).
    subst a c d. lia. }
  unfold parse_status_line.
  change (b "HTTP/" ++ [48 + M] ++ [46] ++ [48 + m] ++ [32] ++ [48 + a; 48 + c; 48 + d] ++ [32] ++ text)
    with (b "HTTP/" ++ ((48 + M) :: 46 :: (48 + m) :: 32 :: (48 + a) :: (48 + c) :: (48 + d) :: 32 :: text)).
  rewrite has_prefix_app.
  change (skipn 5 (b "HTTP/" ++ ((48 + M) :: 46 :: (48 + m) :: 32 :: (48 + a) :: (48 + c) :: (48 + d) :: 32 :: text)))
    with ((48 + M) :: 46 :: (48 + m) :: 32 :: (48 + a) :: (48 + c) :: (48 + d) :: 32 :: text).
  cbv iota beta.
  rewrite !is_digit_48 by assumption. rewrite !N.eqb_refl. cbn [andb].
  replace (48 + M - 48) with M by lia. replace (48 + m - 48) with m by lia.
  replace ((48 + a - 48) * 100 + (48 + c - 48) * 10 + (48 + d - 48)) with code by lia.
  reflexivity.
Qed.

(* ------------------------------------------------------------------ head of a message *)
Definition nocrlf_status (r : resp) : bool :=
  (r_major r <? 10) && (r_minor r <? 10) && (r_code r <? 1000) && nocrlf (reason_text r).

Lemma status_line_eq r :
  status_line r = (b "HTTP/" ++ dec (r_major r) ++ [46] ++ dec (r_minor r) ++ [32] ++ pad3 (r_code r) ++ [32] ++ reason_text r) ++ crlf.
Proof. unfold status_line. rewrite <- !app_assoc. reflexivity. Qed.

Lemma status_content_nocrlf r : nocrlf_status r = true ->
  nocrlf (b "HTTP/" ++ dec (r_major r) ++ [46] ++ dec (r_minor r) ++ [32] ++ pad3 (r_code r) ++ [32] ++ reason_text r) = true.
Proof.
  unfold nocrlf_status. intro H. repeat (apply andb_true_iff in H as [H ?]).
  apply N.ltb_lt in H, H2, H1.
  assert (D : forall d, d < 10 -> nocrlf [48 + d] = true).
  { intros d Hd. cbn [nocrlf forallb]. rewrite andb_true_r. apply plain_nocrlf_c, decc_plain, Hd. }
  rewrite (dec_small _ H), (dec_small _ H2), (pad3_digits _ H1). rewrite !nocrlf_app.
  rewrite (D _ H), (D _ H2), H0.
  change [48 + r_code r / 100; 48 + (r_code r / 10) mod 10; 48 + r_code r mod 10]
    with ([48 + r_code r / 100] ++ [48 + (r_code r / 10) mod 10] ++ [48 + r_code r mod 10]).
  rewrite !nocrlf_app.
  rewrite (D (r_code r / 100)) by (apply N.div_lt_upper_bound; lia).
  rewrite (D ((r_code r / 10) mod 10)) by (apply N.mod_lt; lia).
  rewrite (D (r_code r mod 10)) by (apply N.mod_lt; lia).
  reflexivity.
Qed.

Theorem client_head v11 meth r fs tail :
  nocrlf_status r = true -> forallb clean fs = true ->
  client_parse v11 meth (status_line r ++ concat (map field_bytes fs) ++ crlf ++ tail) =
  client_body v11 meth (r_code r) (map trimf fs)
              (mkObs (r_major r) (r_minor r) (r_code r) (reason_text r) (map trimf fs)) tail.
Proof.
  intros Hs Hc. unfold client_parse. rewrite status_line_eq, <- app_assoc.
  rewrite (take_line_app _ _ (status_content_nocrlf r Hs)).
  unfold nocrlf_status in Hs. repeat (apply andb_true_iff in Hs as [Hs ?]).
  apply N.ltb_lt in Hs, H1, H0.
  rewrite (parse_status_ser _ _ _ _ Hs H1 H0).
  rewrite (parse_fields_ser fs _ tail Hc); [reflexivity|].
  rewrite !app_length. pose proof (fields_len fs). lia.
Qed.

(* ------------------------------------------------------------------ chunked coding *)
Definition chunk_bytes (d : str) : str := hex (N.of_nat (length d)) ++ crlf ++ d ++ crlf.

Lemma chunk_writes_bytes d : concat (chunk_writes d) = chunk_bytes d.
Proof. unfold chunk_writes, chunk_bytes. cbn [concat]. rewrite app_nil_r, <- !app_assoc. reflexivity. Qed.

Lemma chunks_concat reads : concat (flat_map chunk_writes reads) = concat (map chunk_bytes reads).
Proof.
  induction reads as [|d reads IH]; [reflexivity|]. cbn [flat_map map concat].
  rewrite concat_app, chunk_writes_bytes, IH. reflexivity.
Qed.

Lemma chunks_len reads : (length reads <= length (concat (map chunk_bytes reads)))%nat.
Proof.
  induction reads as [|d reads IH]; [simpl; lia|]. cbn [map concat length]. rewrite app_length.
  unfold chunk_bytes at 1. rewrite !app_length. simpl. lia.
Qed.

Lemma dechunk_ser reads : forall fuel acc tfs rest,
  forallb nonempty reads = true -> (length reads < fuel)%nat -> forallb clean tfs = true ->
  dechunk fuel (concat (map chunk_bytes reads) ++ (b "0" ++ crlf) ++ concat (map field_bytes tfs) ++ crlf ++ rest) acc =
  Some (acc ++ concat reads, map trimf tfs, rest).
Proof.
  induction reads as [|d reads IH]; intros fuel acc tfs rest Hne Hf Hc.
  - destruct fuel as [|fuel]; [simpl in Hf; lia|]. cbn [map concat app].
    cbn [dechunk]. rewrite <- app_assoc.
    rewrite (take_line_app (b "0") _ eq_refl).
    change (parse_num 16 hex_digit (before_semi (b "0"))) with (Some 0). cbv iota beta.
    rewrite N.eqb_refl, app_nil_r.
    rewrite (parse_fields_ser tfs _ rest Hc); [reflexivity|].
    rewrite !app_length. pose proof (fields_len tfs). lia.
  - destruct fuel as [|fuel]; [simpl in Hf; lia|].
    cbn [forallb] in Hne. apply andb_true_iff in Hne as [Hd Hne].
    cbn [map concat]. unfold chunk_bytes at 1.
    set (TAIL := concat (map chunk_bytes reads) ++ (b "0" ++ crlf) ++ concat (map field_bytes tfs) ++ crlf ++ rest).
    replace (((hex (N.of_nat (length d)) ++ crlf ++ d ++ crlf) ++ concat (map chunk_bytes reads)) ++
             (b "0" ++ crlf) ++ concat (map field_bytes tfs) ++ crlf ++ rest)
      with (hex (N.of_nat (length d)) ++ crlf ++ (d ++ crlf ++ TAIL))
      by (unfold TAIL; rewrite <- !app_assoc; reflexivity).
    cbn [dechunk].
    rewrite (take_line_app _ _ (plain_nocrlf _ (hex_plain _))).
    rewrite (plain_no_semi _ (hex_plain _)), parse_hex.
    assert (Hlen : N.of_nat (length d) =? 0 = false).
    { apply N.eqb_neq. destruct d; [discriminate | simpl; lia]. }
    rewrite Hlen, Nat2N.id.
    assert (Hlt : (length (d ++ crlf ++ TAIL) <? length d + 2)%nat = false).
    { apply Nat.ltb_ge. rewrite !app_length. simpl. lia. }
    rewrite Hlt.
    assert (Hs1 : skipn (length d) (d ++ crlf ++ TAIL) = crlf ++ TAIL).
    { rewrite skipn_app, skipn_all, Nat.sub_diag. reflexivity. }
    rewrite Hs1. rewrite has_prefix_app.
    assert (Hs2 : skipn (length d + 2) (d ++ crlf ++ TAIL) = TAIL).
    { rewrite skipn_app, skipn_all2 by lia. replace (length d + 2 - length d)%nat with 2%nat by lia. reflexivity. }
    rewrite Hs2.
    assert (Hf1 : firstn (length d) (d ++ crlf ++ TAIL) = d).
    { rewrite firstn_app, firstn_all, Nat.sub_diag. cbn [firstn]. apply app_nil_r. }
    rewrite Hf1. unfold TAIL.
    rewrite (IH fuel (acc ++ d) tfs rest Hne ltac:(simpl in Hf; lia) Hc).
    cbn [concat]. rewrite <- app_assoc. reflexivity.
Qed.

(* ------------------------------------------------------------------ Content-Length framed bodies *)
Lemma limit_reads_firstn reads : forall n, concat (limit_reads n reads) = firstn n (concat reads).
Proof.
  induction reads as [|d reads IH]; intro n.
  - destruct n; reflexivity.
  - destruct n as [|n']; [reflexivity|]. cbn [limit_reads concat].
    destruct (length d <=? S n')%nat eqn:E.
    + apply Nat.leb_le in E. cbn [concat]. rewrite IH, firstn_app. rewrite (firstn_all2 d E). reflexivity.
    + apply Nat.leb_gt in E. cbn [concat]. rewrite app_nil_r, firstn_app.
      replace (S n' - length d)%nat with 0%nat by lia. cbn [firstn]. rewrite app_nil_r. reflexivity.
Qed.

Lemma concat_filter_nonempty (l : list str) : concat (filter nonempty l) = concat l.
Proof.
  induction l as [|x l IH]; [reflexivity|]. cbn [filter]. destruct x; cbn [nonempty concat app]; [exact IH|].
  rewrite IH. reflexivity.
Qed.

Lemma filter_nonempty_all (l : list str) : forallb nonempty (filter nonempty l) = true.
Proof.
  induction l as [|x l IH]; [reflexivity|]. cbn [filter]. destruct (nonempty x) eqn:E; [|exact IH].
  cbn [forallb]. rewrite E, IH. reflexivity.
Qed.
