From G02 Require Import Check.
