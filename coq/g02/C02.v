(* C02 — property theorems (under construction). *)
From G02 Require Import Check.
Example T02_example : is_header_only (b "HEAD") 200 = true.
Proof. exact eq_refl. Qed.
