(* C02 — property theorems.  Nothing but statements, `exact`, Print Assumptions.
   Go's Response.Write / Header.Write / chunked writer are MODELLED (RespFraming.v);
   the reference client (Client.v, RFC 7230 3.3.3) is part of the specification. *)
From G02 Require Import RespFraming Client Relay Check FlushProofs RelayProofs CodecProofs WriterProofs ResponseProofs HeaderProofs HandlerProofs Obligations.
Open Scope N_scope.

(* The codec law: whatever follows on the connection, the reference client consumes exactly
   the response the proxy wrote and sees `observable` — for every status, reason, header map,
   framing (Content-Length, chunked with or without declared trailers, HEAD/1xx/204/304 heads
   incl. heads that declare trailers), body segmentation, client version and Connection option,
   whenever the proxy keeps the connection (and for the CONNECT reply). *)
Theorem T02_roundtrip : forall closing q r order rest,
  wf_resp q r order = true ->
  conn_survives closing q r = true \/ is_connect_ok q r = true ->
  client_parse (client11 q) (q_method q) (resp_wire closing q r order ++ rest) =
  Some (observable closing q r order, rest).
Proof. exact (roundtrip ob_header_only_is_rfc ob_header_only_writer_shape ob_connect_literal ob_frames_unknown_length ob_write_error_closes). Qed.
Print Assumptions T02_roundtrip.

(* ... and when the proxy closes the connection after the response (close-delimited body,
   Connection: close, HTTP/1.0 client) the client reading to the end gets exactly that response. *)
Theorem T02_roundtrip_close : forall closing q r order,
  wf_resp q r order = true -> write_ok closing q r = true ->
  conn_survives closing q r = false -> is_connect_ok q r = false ->
  client_parse (client11 q) (q_method q) (resp_wire closing q r order) = Some (observable closing q r order, []).
Proof. exact (roundtrip_close ob_header_only_is_rfc ob_header_only_writer_shape ob_frames_unknown_length). Qed.
Print Assumptions T02_roundtrip_close.

(* On a persistent connection the k-th response answers the k-th request and no byte of one
   message leaks into the next: induction over any list of exchanges. *)
Theorem T02_kth_answers_kth : forall v11 xs,
  Forall (x_ok v11) xs ->
  client_parse_seq v11 (map (fun x => q_method (x_req x)) (served xs)) (conn_wire xs) =
  Some (map x_obs (served xs), []).
Proof. exact (kth_answers_kth ob_header_only_is_rfc ob_header_only_writer_shape ob_connect_literal ob_frames_unknown_length ob_write_error_closes). Qed.
Print Assumptions T02_kth_answers_kth.

(* The status the client gets is the origin's: code, version and reason text (the observable
   of T02_roundtrip), for every response, request and connection state. *)
Theorem T02_status_intact : forall closing q r order,
  is_connect_ok q r = false ->
  let o := observable closing q r order in
  o_code o = r_code r /\ o_major o = r_major r /\ o_minor o = r_minor r /\ o_reason o = reason_text r.
Proof. exact status_intact. Qed.
Print Assumptions T02_status_intact.

(* The body the client gets is the origin's body, byte for byte. *)
Theorem T02_body_intact : forall closing q r, o_body (go_obs (q_method q) (prepare closing q r)) = body_bytes r.
Proof. exact body_intact. Qed.
Print Assumptions T02_body_intact.

(* Header fields.  (1) The hop-by-hop modifier removes exactly the fields named in its list or
   in Connection; every other key keeps its values.  (2) Of the header map the writers emit
   every valid field with every value (sanitised: CR/LF -> SP, trimmed — a fixed point of the
   client's trimming), in order per key, and (3) add nothing but framing fields. *)
Theorem T02_headers_preserved :
  (forall h k, raw_get k (remove_hop_by_hop h) =
               if existsb (str_eqb k) (map canon (conn_listed h ++ hop_by_hop)) then None else raw_get k h) /\
  (forall meth r k vs v, In (k, vs) (r_hdr r) -> In v vs -> written_key resp_exclude k = true ->
     In (k, sanitize v) (o_fields (go_obs meth r))) /\
  (forall r order k vs v, In (k, vs) (r_hdr r) -> In v vs -> is_token k = true ->
     In (k, sanitize v) (o_fields (ho_obs r order))) /\
  (forall meth r f, In f (o_fields (go_obs meth r)) ->
     In (fst f) framing_names \/ exists k vs v, In (k, vs) (r_hdr r) /\ In v vs /\ f = (k, sanitize v)) /\
  (forall r order f, In f (o_fields (ho_obs r order)) ->
     In (fst f) framing_names \/ exists k vs v, In (k, vs) (r_hdr r) /\ In v vs /\ f = (k, sanitize v)).
Proof. exact headers_preserved. Qed.
Print Assumptions T02_headers_preserved.

(* Trailers of a chunked response: every declared trailer field reaches the client with every
   value; undeclared ones are passed on iff some trailer was declared, else dropped. *)
Theorem T02_trailers_preserved : forall meth r,
  g_te (go_state meth r) = true ->
  (forall k vs v, In (k, vs) (r_trailer r) -> In v vs -> is_token k = true ->
     In (k, sanitize v) (o_trailers (go_obs meth r))) /\
  (forall k vs v, r_trailer r <> [] -> In (k, vs) (r_late r) -> In v vs -> is_token k = true ->
     In (k, sanitize v) (o_trailers (go_obs meth r))) /\
  (r_trailer r = [] -> o_trailers (go_obs meth r) = []).
Proof. exact trailers_preserved. Qed.
Print Assumptions T02_trailers_preserved.

(* Every field the origin's Connection field nominates (values split at commas, white space
   around an element ignored, any letter case) is absent from the relayed header. *)
Theorem T02_connection_nominated_removed : forall h v t,
  In v (h_values (b "Connection") h) -> In t (split_byte 44 v) ->
  raw_get (canon (trim_space t)) (remove_hop_by_hop h) = None.
Proof. exact (connection_nominated_removed ob_connection_tokens_trimmed). Qed.
Print Assumptions T02_connection_nominated_removed.

(* The pattern flush writer flushes at write k iff an occurrence of a pattern ends inside
   write k — also when the occurrence straddles two writes. *)
Theorem T02_flush_iff_boundary : forall pats ws1 w ws2,
  Forall (fun p => fst p <> 0) pats -> Forall (fun x => x <> []) ws1 ->
  (nth_error (flush_flags pats (ws1 ++ w :: ws2)) (length ws1) = Some true <->
   occurs_ending_in pats (concat ws1) w).
Proof. exact (flush_iff_boundary ob_flush_checks_straddle ob_flush_checks_contains). Qed.
Print Assumptions T02_flush_iff_boundary.

(* Every completed event of an event stream (terminated by LF LF, CR CR or CRLF CRLF) is
   flushed by the write that completes it. *)
Theorem T02_event_delivered : forall ws1 w ws2 t a c,
  In t event_terminators -> Forall (fun x => x <> []) ws1 ->
  concat ws1 ++ w = a ++ t ++ c -> (length c < length w)%nat ->
  nth_error (flush_flags sse_flush_patterns (ws1 ++ w :: ws2)) (length ws1) = Some true.
Proof. exact (event_delivered ob_flush_checks_straddle ob_flush_checks_contains sse_flush_patterns
               ob_sse_has_lflf ob_sse_has_crcr ob_sse_has_crlf ob_sse_patterns_nonzero). Qed.
Print Assumptions T02_event_delivered.

(* The general form: line ends may be mixed within one stream.  Whatever two ends of line
   (each LF, CR or CRLF) form the empty line after an event, the write that contains its last
   byte flushes — after any earlier writes, as soon as one non-empty write precedes. *)
Theorem T02_blank_line_delivered : forall ws0 x ws1 w ws2 e1 e2 a c,
  In e1 eols -> In e2 eols -> x <> [] -> Forall (fun y => y <> []) ws1 ->
  concat (x :: ws1) ++ w = a ++ (e1 ++ e2) ++ c -> (length c < length w)%nat ->
  nth_error (flush_flags sse_flush_patterns (ws0 ++ (x :: ws1) ++ w :: ws2)) (length ws0 + length (x :: ws1)) = Some true.
Proof. exact (blank_line_delivered ob_flush_checks_straddle ob_flush_checks_contains sse_flush_patterns
               ob_sse_has_lflf ob_sse_has_crcr ob_sse_has_lfcr ob_sse_has_crlf ob_sse_patterns_nonzero). Qed.
Print Assumptions T02_blank_line_delivered.

(* ... tied to the write sequence of (modelled) Response.Write: after the head — whatever its
   writes, empty ones included — and the earlier reads of an unchunked event stream body, the
   write of the read that completes an event flushes. *)
Theorem T02_sse_body_event_delivered : forall head rs1 d rs2 t a c,
  In t event_terminators -> Forall (fun y => y <> []) rs1 ->
  concat rs1 ++ d = a ++ t ++ c -> (length c < length d)%nat ->
  nth_error (flush_flags sse_flush_patterns ((head ++ [crlf]) ++ rs1 ++ d :: rs2))
            (length (head ++ [crlf]) + length rs1) = Some true.
Proof. exact (sse_body_event_delivered ob_flush_checks_straddle ob_flush_checks_contains sse_flush_patterns
               ob_sse_has_lflf ob_sse_has_crcr ob_sse_has_crlf ob_sse_patterns_nonzero). Qed.
Print Assumptions T02_sse_body_event_delivered.
Theorem T02_sse_write_shape : forall meth r,
  g_head (go_state meth r) = false -> g_te (go_state meth r) = false -> (g_cl (go_state meth r) =? -1)%Z = true ->
  exists h, go_writes meth r = (h ++ [crlf]) ++ reads_of r /\ Forall (fun y => y <> []) (reads_of r).
Proof. exact go_writes_unchunked_shape. Qed.
Print Assumptions T02_sse_write_shape.

(* Every chunk the (modelled) chunked writer emits is flushed by its last write, by the chunk
   writer and by the event stream writer. *)
Theorem T02_chunk_delivered : forall ws1 d ws2,
  nth_error (flush_flags chunk_flush_patterns (ws1 ++ chunk_writes d ++ ws2)) (length ws1 + 2) = Some true /\
  nth_error (flush_flags sse_flush_patterns (ws1 ++ chunk_writes d ++ ws2)) (length ws1 + 2) = Some true.
Proof. exact (fun ws1 d ws2 => conj (chunk_delivered ob_flush_checks_contains chunk_flush_patterns ob_chunk_has_crlf ws1 d ws2)
                                     (chunk_delivered ob_flush_checks_contains sse_flush_patterns ob_sse_has_crlf ws1 d ws2)). Qed.
Print Assumptions T02_chunk_delivered.

(* ---- Incremental delivery as a transition system (Relay.v): origin bytes arrive, the copy
   loop reads any non-empty prefix of what is unread, each read is one write (or the three
   writes of a chunk) on the pattern writer, which writes to the connection's bufio.Writer
   (MODELLED, any capacity) and flushes it on a pattern.  All statements hold for EVERY
   schedule of arrivals and reads, every buffer capacity and every head. *)

(* Nothing is lost, invented, duplicated or reordered: connection ++ buffer = head ++ encoded
   reads, and reads ++ unread = what arrived. *)
Theorem T02_relay_conservative : forall cap pats chunked head evs,
  let s := relay_run cap pats chunked (relay_init cap pats head) evs in
  delivered s ++ bw_buf (rs_bw s) = concat head ++ encoded chunked (rs_reads s) /\
  concat (rs_reads s) ++ rs_avail s = arrived_of evs /\
  Forall (fun d => d <> []) (rs_reads s).
Proof. exact relay_conservative. Qed.
Print Assumptions T02_relay_conservative.

(* Event stream without chunked coding to the client: whatever two ends of line form the empty
   line after an event, once its last byte has been read the whole event is ON THE CLIENT
   CONNECTION (not merely "a flush was requested") ... *)
Theorem T02_event_reaches_connection : forall cap h x evs, x <> [] ->
  let s := relay_run cap sse_flush_patterns false (relay_init cap sse_flush_patterns (h ++ [x])) evs in
  forall e1 e2 a c, In e1 eols -> In e2 eols -> concat (rs_reads s) = a ++ (e1 ++ e2) ++ c ->
    exists rest, delivered s = concat (h ++ [x]) ++ a ++ (e1 ++ e2) ++ rest.
Proof. exact (event_reaches_connection ob_flush_checks_straddle ob_flush_checks_contains ob_flush_after_write sse_flush_patterns
               ob_sse_has_lflf ob_sse_has_crcr ob_sse_has_lfcr ob_sse_has_crlf ob_sse_patterns_nonzero). Qed.
Print Assumptions T02_event_reaches_connection.

(* ... hence, in terms of what the origin has SENT: whenever the proxy is waiting for more data
   (nothing unread), every complete event that has arrived is on the client connection — it
   never waits for later body bytes. *)
Theorem T02_sent_event_delivered : forall cap h x evs, x <> [] ->
  let s := relay_run cap sse_flush_patterns false (relay_init cap sse_flush_patterns (h ++ [x])) evs in
  rs_avail s = [] ->
  forall e1 e2 a c, In e1 eols -> In e2 eols -> arrived_of evs = a ++ (e1 ++ e2) ++ c ->
    exists rest, delivered s = concat (h ++ [x]) ++ a ++ (e1 ++ e2) ++ rest.
Proof. exact (sent_event_delivered ob_flush_checks_straddle ob_flush_checks_contains ob_flush_after_write sse_flush_patterns
               ob_sse_has_lflf ob_sse_has_crcr ob_sse_has_lfcr ob_sse_has_crlf ob_sse_patterns_nonzero). Qed.
Print Assumptions T02_sent_event_delivered.

(* Chunked coding to the client (chunk writer and event-stream writer): after every read the
   buffer is empty — everything read so far is on the client connection as complete chunks. *)
Theorem T02_chunk_reaches_connection : forall cap head evs,
  (let s := relay_run cap chunk_flush_patterns true (relay_init cap chunk_flush_patterns head) evs in
   rs_reads s <> [] ->
   bw_buf (rs_bw s) = [] /\ delivered s = concat head ++ concat (flat_map chunk_writes (rs_reads s))) /\
  (let s := relay_run cap sse_flush_patterns true (relay_init cap sse_flush_patterns head) evs in
   rs_reads s <> [] ->
   bw_buf (rs_bw s) = [] /\ delivered s = concat head ++ concat (flat_map chunk_writes (rs_reads s))).
Proof. exact (fun cap head evs =>
  conj (chunk_reaches_connection ob_flush_checks_contains ob_flush_after_write cap chunk_flush_patterns head evs ob_chunk_has_crlf)
       (chunk_reaches_connection ob_flush_checks_contains ob_flush_after_write cap sse_flush_patterns head evs ob_sse_has_crlf)). Qed.
Print Assumptions T02_chunk_reaches_connection.

(* After the writes that follow the body and the final Flush of writeResponse everything is on
   the connection and the buffer is empty. *)
Theorem T02_relay_complete : forall cap pats chunked head evs tail,
  let s := relay_finish cap pats (relay_run cap pats chunked (relay_init cap pats head) evs) tail in
  bw_buf (rs_bw s) = [] /\
  delivered s = concat head ++ encoded chunked (rs_reads s) ++ concat tail.
Proof. exact relay_complete. Qed.
Print Assumptions T02_relay_complete.

(* The transition system and the write list of (modelled) Response.Write — the list the gcases /
   ecases streams compare with the implementation byte for byte — agree: under the schedule in
   which every read arrives and is read at once, the LTS leaves the pattern writer and the
   connection in exactly the state the write list does (same Write calls on the connection). *)
Theorem T02_relay_refines_response_write : forall cap pats meth r,
  g_head (go_state meth r) = false ->
  g_te (go_state meth r) = true \/ (g_cl (go_state meth r) =? -1)%Z = true ->
  let s := relay_finish cap pats
             (relay_run cap pats (g_te (go_state meth r)) (relay_init cap pats (go_head_writes meth r))
                        (seq_schedule (reads_of r)))
             (go_tail meth r) in
  let W := wsteps cap pats (0, bw_empty) (go_writes meth r) in
  rs_last s = fst W /\ rs_bw s = bw_flush (snd W) /\ rs_reads s = reads_of r /\ rs_avail s = [].
Proof. exact relay_refines_response_write. Qed.
Print Assumptions T02_relay_refines_response_write.

(* Non-vacuity: a 4-byte buffer, an event arriving in three pieces and read in other pieces,
   then the start of a second event: the first is on the connection, the second still buffered. *)
Example T02_relay_example :
  let s := relay_run 4 sse_flush_patterns false (relay_init 4 sse_flush_patterns [b "HTTP/1.1 200 OK" ++ crlf; crlf]) example_evs in
  rs_avail s = [] /\ rs_reads s = [b "d"; b "ata: 1" ++ [10]; [10]; b "da"] /\
  delivered s = b "HTTP/1.1 200 OK" ++ crlf ++ crlf ++ b "data: 1" ++ [10; 10] /\
  bw_buf (rs_bw s) = b "da".
Proof. exact relay_example. Qed.
Print Assumptions T02_relay_example.

(* http.Handler variant of the proxy: every non-empty read of a body of unknown length is
   followed by a flush. *)
Theorem T02_handler_read_delivered : forall meth r rs1 d rs2,
  should_chunk meth r = true -> d <> [] ->
  nth_error (handler_flushes meth r (rs1 ++ d :: rs2)) (length rs1) = Some true.
Proof. exact (handler_read_delivered ob_handler_flushes_every_write). Qed.
Print Assumptions T02_handler_read_delivered.

(* http.Handler variant: what writeResponse hands to net/http's ResponseWriter is the origin's
   data — every header field with its values (and nothing else but "Trailer"), the body byte
   for byte, the declared trailers under their own names. *)
Theorem T02_handler_hands_over : forall r order,
  wf (r_hdr r) -> canonical (r_hdr r) ->
  (forall k v vs, raw_get k (r_hdr r) = Some (v :: vs) -> k <> b "Trailer" ->
     raw_get k (handler_header r order) = Some (v :: vs)) /\
  (forall k, raw_get k (r_hdr r) = None -> k <> b "Trailer" -> raw_get k (handler_header r order) = None) /\
  concat (reads_of r) = body_bytes r /\
  (forall k v vs, r_late r = [] -> wf (r_trailer r) -> canonical (r_trailer r) ->
     raw_get k (r_trailer r) = Some (v :: vs) ->
     raw_get k (handler_final r order) = Some (vals k (handler_header r order) ++ v :: vs)).
Proof. exact (fun r order Hwf Hcan =>
  conj (fun k v vs H1 H2 => handler_header_complete r order k v vs Hwf Hcan H1 H2)
  (conj (fun k H1 H2 => handler_header_sound r order k Hwf Hcan H1 H2)
  (conj (handler_body r)
        (fun k v vs Hl Hw Hc Hk => handler_trailers_declared r order k v vs Hl Hw Hc Hk)))). Qed.
Print Assumptions T02_handler_hands_over.

(* ... and therefore, relative to a contract for net/http's server (assumed here, tested by the
   end-to-end runs; see HandlerProofs.ServerContract for what the server adds on its own), the
   client gets the origin's status, body and header fields through the http.Handler variant. *)
Theorem T02_handler_codec_rel_server :
  forall (server_wire : hmap -> N -> list str -> hmap -> str) (managed : str -> bool),
  (forall v11 meth hdr code writes final rest,
    exists o, client_parse v11 meth (server_wire hdr code writes final ++ rest) = Some (o, rest) /\
              o_code o = code /\
              (rfc_no_body meth code = false -> o_body o = concat writes) /\
              (forall k vs, raw_get k hdr = Some vs -> managed k = false -> field_values k (o_fields o) = vs)) ->
  forall v11 meth r order rest,
    wf (r_hdr r) -> canonical (r_hdr r) ->
    exists o, client_parse v11 meth
                (server_wire (handler_header r order) (r_code r) (reads_of r) (handler_final r order) ++ rest) = Some (o, rest) /\
              o_code o = r_code r /\
              (rfc_no_body meth (r_code r) = false -> o_body o = body_bytes r) /\
              (forall k v vs, raw_get k (r_hdr r) = Some (v :: vs) -> k <> b "Trailer" -> managed k = false ->
                 field_values k (o_fields o) = v :: vs).
Proof. exact handler_codec_rel_server. Qed.
Print Assumptions T02_handler_codec_rel_server.

(* http.Handler variant: a response whose body copy failed is never finished like a complete message. *)
Theorem T02_handler_truncated_not_finished : handler_finishes_message true = false.
Proof. exact (f_equal negb ob_handler_copy_error_aborts). Qed.
Print Assumptions T02_handler_truncated_not_finished.

(* Whatever a refused (or any) request left unread of its body, the next request head is read
   right after it: the body of request k never becomes request k+1. *)
Theorem T02_request_body_consumed : forall unread rest, after_exchange unread rest = rest.
Proof. exact (fun unread rest => f_equal (fun c : bool => if c then rest else unread ++ rest) ob_handle_closes_request_body). Qed.
Print Assumptions T02_request_body_consumed.

(* roundTrip's discard: a header-only reply that arrives with a body (possible with a
   RoundTripper other than http.Transport) leads to no Write in the http.Handler variant, and
   the connection handler's header-only writer emits the same bytes with or without it. *)
Theorem T02_discard_no_write : forall q r,
  is_header_only (q_method q) (r_code r) = true -> r_code r <> 101 ->
  reads_of (discard_body q r) = [] /\
  (forall order, header_only_writes (discard_body q r) order = header_only_writes r order).
Proof. exact (discard_no_write ob_discards_header_only_body). Qed.
Print Assumptions T02_discard_no_write.

(* res.Close when the response is written, and when the connection is kept. *)
Theorem T02_close_decision : forall closing q r,
  r_code r <> 101 ->
  final_close closing q r = (if is_connect_ok q r then closing else closing || q_close q || r_close r) /\
  (conn_survives closing q r = true <->
   write_ok closing q r = true /\ r_close (prepare closing q r) = false /\ is_connect_ok q r = false).
Proof. exact (fun closing q r H => conj (close_decision ob_close_when_closing ob_close_when_req_close ob_connect_keeps_open closing q r H)
                                        (survives_iff closing q r ob_write_error_closes)). Qed.
Print Assumptions T02_close_decision.

(* A response whose writing failed (the origin's body broke after the head had been sent, a
   declared length was not met) is never followed by another response on the connection. *)
Theorem T02_failed_write_closes : forall closing q r,
  write_ok closing q r = false -> conn_survives closing q r = false.
Proof. exact (failed_write_closes ob_write_error_closes). Qed.
Print Assumptions T02_failed_write_closes.

(* Non-vacuity: a HEAD reply that declares trailers, followed by a chunked reply with trailers
   to an HTTP/1.1 client, followed by a gzip-undone body of unknown length; all hypotheses hold
   and the connection is kept throughout. *)
Example T02_example :
  Forall (x_ok true) example_xs /\ length (served example_xs) = 3%nat /\
  map (fun x => o_body (x_obs x)) example_xs = [[]; b "hellowor"; b "plain"] /\
  map (fun x => o_trailers (x_obs x)) example_xs = [[]; [(b "X-Late", b "l"); (b "X-T", b "v")]; []].
Proof. exact example_ok. Qed.
