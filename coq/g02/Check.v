(* C02 — executable checkers run on what the implementation did.
   *_model_ok : the model computes what the implementation computed (correspondence)
   *_prop_ok  : the implementation's own output satisfies the property (oracle) *)
From G02 Require Export Client Relay.
(* configured response-header rules: C16's model of header/header.go, imported read-only
   (its meaning is T16_apply_is_spec); qualified names only, G16.Model is not imported *)
Require G16.Model.
Open Scope N_scope.

Fixpoint bad_from {A} (f : A -> bool) (i : N) (l : list A) : list N :=
  match l with
  | [] => []
  | x :: r => if f x then bad_from f (i + 1) r else i :: bad_from f (i + 1) r
  end.
Definition bad {A} (f : A -> bool) (l : list A) : list N := bad_from f 0 l.

(* long runs of one byte in cases files are written rep c n *)
Definition rep (c n : N) : str := repeat c (N.to_nat n).

Fixpoint list_bool_eqb (x y : list bool) : bool :=
  match x, y with
  | [], [] => true
  | a :: x', c :: y' => Bool.eqb a c && list_bool_eqb x' y'
  | _, _ => false
  end.

Definition fields_eqb (x y : list (str * str)) : bool :=
  list_str_eqb (map fst x) (map fst y) && list_str_eqb (map snd x) (map snd y).

Definition obs_eqb (x y : obs) : bool :=
  (o_major x =? o_major y) && (o_minor x =? o_minor y) && (o_code x =? o_code y) &&
  str_eqb (o_reason x) (o_reason y) && fields_eqb (o_fields x) (o_fields y) &&
  str_eqb (o_body x) (o_body y) && fields_eqb (o_trailers x) (o_trailers y).

(* is l a permutation of m (as multisets of strings)? *)
Fixpoint remove_one (x : str) (l : list str) : option (list str) :=
  match l with
  | [] => None
  | y :: r => if str_eqb x y then Some r
              else match remove_one x r with Some r' => Some (y :: r') | None => None end
  end.
Fixpoint is_perm (l m : list str) : bool :=
  match l with
  | [] => match m with [] => true | _ => false end
  | x :: r => match remove_one x m with Some m' => is_perm r m' | None => false end
  end.

(* ---------------------------------------------------------------- (s) classification *)
Record scase := { s_meth : str; s_resp : resp; s_header_only : bool; s_should_chunk : bool; s_sse : bool }.
Definition scase_model_ok (c : scase) : bool :=
  Bool.eqb (is_header_only (s_meth c) (r_code (s_resp c))) (s_header_only c) &&
  Bool.eqb (should_chunk (s_meth c) (s_resp c)) (s_should_chunk c) &&
  Bool.eqb (is_sse (r_hdr (s_resp c))) (s_sse c).
(* oracle: the implementation classifies as RFC 7230 3.3.3 does, and chunks exactly the
   HTTP/1.1 responses of unknown length that may have a body *)
Definition scase_prop_ok (c : scase) : bool :=
  let r := s_resp c in
  Bool.eqb (s_header_only c) (rfc_no_body (s_meth c) (r_code r)) &&
  Bool.eqb (s_should_chunk c)
           ((r_major r =? 1) && (r_minor r =? 1) && (r_cl r =? -1)%Z && negb (rfc_no_body (s_meth c) (r_code r))).

(* ---------------------------------------------------------------- (h) writeHeaderOnlyResponse *)
(* the implementation's writes, and the order in which it listed the trailer keys *)
Record hcase := { h_meth : str; h_resp : resp; h_order : list str; h_writes : list str }.
Definition probe : str := b "HTTP/1.1 299 Probe" ++ crlf ++ b "Content-Length: 0" ++ crlf ++ crlf.
Definition hcase_model_ok (c : hcase) : bool :=
  is_perm (h_order c) (keys (r_trailer (h_resp c))) &&
  list_str_eqb (header_only_writes (h_resp c) (h_order c)) (h_writes c).
(* oracle: a client reading what was written, followed by the next response on the
   same connection, consumes exactly the head and sees the status that was sent *)
Definition hcase_prop_ok (c : hcase) : bool :=
  match client_parse true (h_meth c) (concat (h_writes c) ++ probe) with
  | Some (o, rest) => str_eqb rest probe && (o_code o =? r_code (h_resp c)) && negb (nonempty (o_body o))
  | None => false
  end.

(* ---------------------------------------------------------------- (f) patternFlushWriter *)
(* f_events: the writes are the body of an event stream written through the SSE flush writer *)
Record fcase := { f_pats : list pat; f_writes : list str; f_flags : list bool; f_events : bool }.
Definition fcase_model_ok (c : fcase) : bool := list_bool_eqb (flush_flags (f_pats c) (f_writes c)) (f_flags c).

(* independent stream-level oracle: positions (index of the last byte) at which an
   occurrence of a pattern ends in the concatenated stream *)
Fixpoint pat_ends_from (pats : list pat) (i : nat) (prev : N) (s : str) : list nat :=
  match s with
  | [] => []
  | c :: r => (if existsb (fun p => (prev =? fst p) && (c =? snd p)) pats then [i] else []) ++
              pat_ends_from pats (S i) c r
  end.
Definition pat_ends (pats : list pat) (s : str) : list nat :=
  match s with [] => [] | c :: r => pat_ends_from pats 1 c r end.
Fixpoint spec_flags_from (ends : list nat) (off : nat) (ws : list str) : list bool :=
  match ws with
  | [] => []
  | w :: r => existsb (fun j => (off <=? j)%nat && (j <? off + length w)%nat) ends ::
              spec_flags_from ends (off + length w) r
  end.
Definition spec_flags (pats : list pat) (ws : list str) : list bool :=
  spec_flags_from (pat_ends pats (concat ws)) 0 ws.

(* where an event of an event stream is complete: an empty line, i.e. two consecutive ends of
   line, each of which is LF, CR or CRLF in any mixture (HTML Living Standard 9.2.5).  Position
   = index of the byte at which a parser can know it: an LF after an LF; a CR after an LF or a
   CR (a parser that takes CR as an end of line at once); the LF of a CRLF that follows an end
   of line (a parser that waits to see whether LF follows CR) *)
Fixpoint event_ends_from (i : nat) (p2 p1 : N) (s : str) : list nat :=
  match s with
  | [] => []
  | c :: r => (if ((p1 =? 10) && (c =? 10)) ||
                  ((c =? 13) && ((p1 =? 10) || (p1 =? 13))) ||
                  ((p1 =? 13) && (c =? 10) && ((p2 =? 10) || (p2 =? 13))) then [i] else []) ++
              event_ends_from (S i) p1 c r
  end.
Definition event_ends (s : str) : list nat := event_ends_from 0 0 0 s.
Fixpoint implb_list (x y : list bool) : bool :=
  match x, y with
  | a :: x', c :: y' => implb a c && implb_list x' y'
  | [], [] => true
  | _, _ => false
  end.
(* oracle: on non-empty writes a flush happens exactly at the writes in which an occurrence
   of a pattern ends; in an event stream every write that completes an event is flushed *)
Definition fcase_prop_ok (c : fcase) : bool :=
  negb (forallb nonempty (f_writes c)) ||
  (list_bool_eqb (spec_flags (f_pats c) (f_writes c)) (f_flags c) &&
   (negb (f_events c) ||
    implb_list (spec_flags_from (event_ends (concat (f_writes c))) 0 (f_writes c)) (f_flags c))).

(* ---------------------------------------------------------------- (g) MODELLED Response.Write behind the pattern writer *)
Record gcase := { g_meth : str; g_resp : resp; g_pats : list pat; g_writes : list str; g_flags : list bool; g_err : bool }.
Definition gcase_model_ok (c : gcase) : bool :=
  list_str_eqb (go_writes (g_meth c) (g_resp c)) (g_writes c) &&
  list_bool_eqb (flush_flags (g_pats c) (g_writes c)) (g_flags c) &&
  Bool.eqb (negb (go_write_ok (g_meth c) (g_resp c))) (g_err c).

(* ---------------------------------------------------------------- (e) end to end through the real proxy *)
(* what the client must observe, derived from the origin's script alone *)
Record xexp := { x_local : bool; x_code : N; x_reason : option str; x_fields : list (str * list str); x_absent : list str; x_body : str; x_trailers : list (str * list str);
                 x_origin : hmap; x_skip : list str }.
(* x_origin / x_skip (used when response-header rules are configured): every header field of the origin's reply under its canonical name, and
   the names the rule oracle does not judge (hop-by-hop and framing fields) *)
(* x_local: the proxy answers this request itself (407 challenge, 403 denial): only the status is expected.
   x_reason: the origin's reason phrase (None: not compared — net/http's server writes its own in the http.Handler variant) *)
(* x_absent: hop-by-hop field names (RFC 7230 6.1 and those nominated by the origin's Connection field) that must not reach the client *)
Record exch := {
  e_local : bool;           (* the response was generated by the proxy itself (modifyErrorResponse path) *)
  e_closing : bool;         (* the proxy was shutting down when the response was written (p.closing()) *)
  e_req : req;
  e_snap : resp;            (* the *http.Response as the innermost response modifier saw it (header before the
                               hop-by-hop modifier ran); r_body = the chunks the client saw, or the whole body;
                               r_trailer = declared keys with the values the origin sent *)
  e_order : list str;       (* order of the keys in a Trailer line written by the header-only writer *)
  e_exp : xexp }.
Record ecase := {
  e_rules : list G16.Model.rule; (* the proxy's configured response-header rules (--response-header), in order *)
  e_v11 : bool;             (* the client speaks HTTP/1.1 *)
  e_want : N;               (* number of exchanges the client wanted to perform on the connection *)
  e_exchs : list exch;      (* the exchanges whose response arrived completely *)
  e_stream : str;           (* every byte the client received on the connection *)
  e_closed : bool;          (* the proxy closed the connection *)
  e_broken : bool;
  e_must_complete : bool;
  e_stray : N }.            (* requests that reached the origin for this connection although the client never sent them *) (* scenario whose every exchange must be answered on this one connection: nothing in it
                               (client version, Connection options, framing of the origin) permits the proxy to close *)        (* the origin's reply to the next exchange (not in e_exchs) broke after its head had been
                               sent (malformed chunk-size line, corrupt gzip the proxy had solicited): e_stream ends
                               with what the proxy had relayed of it *)

(* the response modifiers run in this order: the configured rules (inner group), then the hop-by-hop modifier;
   a CONNECT reply is not touched by the rules *)
Definition mkrule (a : N) (n v : str) : G16.Model.rule :=
  G16.Model.Build_rule (if a =? 0 then G16.Model.Remove else if a =? 1 then G16.Model.RemoveByPrefix else if a =? 2 then G16.Model.Empty
                        else if a =? 3 then G16.Model.Add else G16.Model.RenameCase) n v.
Definition ruled (rules : list G16.Model.rule) (q : req) (h : hmap) : hmap :=
  if str_eqb (q_method q) (b "CONNECT") then h else G16.Model.apply_rules rules h.
(* an error response of the proxy's own goes through the same modifiers; afterwards its Proxy-Authenticate
   challenge (hop-by-hop, hence removed) is put back (proxy.go modifyErrorResponse) *)
Definition keep_challenge (before after : hmap) : hmap :=
  if er_keeps_challenge then
    match raw_get (b "Proxy-Authenticate") before with
    | Some (v :: vs) => raw_set (b "Proxy-Authenticate") (v :: vs) after
    | _ => after
    end
  else after.
Definition exch_resp (rules : list G16.Model.rule) (e : exch) : resp :=
  let h := r_hdr (e_snap e) in
  let h' := remove_hop_by_hop (ruled rules (e_req e) h) in
  set_hdr (e_snap e) (if e_local e then keep_challenge h h' else h').
Definition exch_wire (rules : list G16.Model.rule) (e : exch) : str :=
  resp_wire (e_closing e) (e_req e) (exch_resp rules e) (e_order e).
Fixpoint survive_ok (rules : list G16.Model.rule) (closed : bool) (want : N) (i : N) (es : list exch) : bool :=
  match es with
  | [] => true
  | [e] => (* last completed exchange: the connection is closed iff the model says so, unless it was the last wanted *)
      if conn_survives (e_closing e) (e_req e) (exch_resp rules e) then (i + 1 =? want) || negb closed else closed
  | e :: r => conn_survives (e_closing e) (e_req e) (exch_resp rules e) && survive_ok rules closed want (i + 1) r
  end.
(* the hypotheses of T02_roundtrip (ResponseProofs.wf_resp, restated here because Check.v comes
   before the proofs; Obligations.ob_wf_twin proves the two equal) hold of what the transport delivered *)
Definition is_token_b (k : str) : bool := is_token k.
Definition nocrlfb (s : str) : bool := forallb (fun c => negb (c =? 13) && negb (c =? 10)) s.
Definition wf_snapshot (q : req) (r : resp) (order : list str) : bool :=
  (r_major r <? 10) && (r_minor r <? 10) && (r_code r <? 1000) && nocrlfb (reason_text r) &&
  forallb (fun kv => negb (written_key resp_exclude (fst kv)) ||
                     (negb (eq_fold (fst kv) (b "transfer-encoding")) && negb (eq_fold (fst kv) (b "content-length"))))
          (r_hdr r) &&
  forallb (fun kv => is_token (fst kv) && str_eqb (canon (fst kv)) (fst kv)) (r_trailer r) &&
  (-1 <=? r_cl r)%Z && forallb is_token order &&
  (rfc_no_body (q_method q) (r_code r) ||
   ((negb (r_chunked r) || ((r_cl r =? -1)%Z && proto_at_least_11 (r_major r) (r_minor r))) &&
    (negb (r_cl r =? 0)%Z || negb (nonempty (concat (reads_of r)))))).
Definition ecase_model_ok (c : ecase) : bool :=
  (if e_broken c
   then (* the complete responses, then the aborted one; the connection ends iff a failed write returns errClose *)
        has_prefix (e_stream c) (concat (map (exch_wire (e_rules c)) (e_exchs c))) &&
        forallb (fun e => conn_survives (e_closing e) (e_req e) (exch_resp (e_rules c) e)) (e_exchs c) &&
        Bool.eqb (e_closed c) wr_write_error_closes
   else str_eqb (concat (map (exch_wire (e_rules c)) (e_exchs c))) (e_stream c) &&
        survive_ok (e_rules c) (e_closed c) (e_want c) 0 (e_exchs c)) &&
  forallb (fun e => wf_snapshot (e_req e) (exch_resp (e_rules c) e) (e_order e)) (e_exchs c).

Definition values_match (got : list (str * str)) (want : str * list str) : bool :=
  list_str_eqb (field_values (fst want) got) (snd want).
Definition obs_matches (o : obs) (x : xexp) : bool :=
  if x_local x then o_code o =? x_code x else
  (o_code o =? x_code x) &&
  match x_reason x with Some t => str_eqb (o_reason o) t | None => true end &&
  forallb (values_match (o_fields o)) (x_fields x) &&
  forallb (fun n => match field_values n (o_fields o) with [] => true | _ => false end) (x_absent x) &&
  str_eqb (o_body o) (x_body x) &&
  forallb (values_match (o_trailers o)) (x_trailers x).
(* configured response-header rules applied: the header set the documented meaning of the rules (C16: apply_rules = spec,
   T16_apply_is_spec) gives for the origin's header is, name by name (any letter case), what the client sees — except for the
   hop-by-hop and framing names, which the other parts of the oracle judge *)
Definition fold_vals (n : str) (h : hmap) : list str := flat_map (fun kv => if eq_fold (fst kv) n then snd kv else []) h.
Definition rules_fields_ok (rules : list G16.Model.rule) (q : req) (o : obs) (x : xexp) : bool :=
  match rules with
  | [] => true
  | _ => let E := ruled rules q (x_origin x) in
         forallb (fun n => existsb (eq_fold n) (x_skip x) ||
                           is_perm (field_values n (o_fields o)) (map sanitize (fold_vals n E)))
                 (keys E ++ keys (x_origin x) ++ map G16.Model.r_name rules)
  end.
Fixpoint all_match (rules : list G16.Model.rule) (os : list obs) (es : list exch) : bool :=
  match os, es with
  | [], [] => true
  | o :: os', e :: es' => obs_matches o (e_exp e) && rules_fields_ok rules (e_req e) o (e_exp e) && all_match rules os' es'
  | _, _ => false
  end.
(* when the proxy ends the connection although the client still had requests to send, the last response must
   have told the client so: Connection: close, or a body delimited by the end of the connection, or the client
   itself asked for / implied the close; a conforming client is not left sending into a closing connection *)
Definition announces_close (q : req) (o : obs) : bool :=
  existsb (fun v => has_token v (b "close")) (field_values (b "connection") (o_fields o)) ||
  q_close q ||
  (negb (rfc_no_body (q_method q) (o_code o)) &&
   match field_values (b "content-length") (o_fields o), field_values (b "transfer-encoding") (o_fields o) with
   | [], [] => true
   | _, _ => false
   end).
Fixpoint last_announces (os : list obs) (es : list exch) : bool :=
  match os, es with
  | [o], [e] => announces_close (e_req e) o
  | _ :: os', _ :: es' => last_announces os' es'
  | _, _ => true
  end.

(* oracle: the reference client, reading the connection, consumes exactly one response per
   request, each is what the origin sent, nothing is left over, and every wanted exchange
   was answered unless the proxy closed the connection *)
Definition ecase_prop_ok (c : ecase) : bool :=
  match client_parse_seq (e_v11 c) (map (fun e => q_method (e_req e)) (e_exchs c)) (e_stream c) with
  | Some (os, rest) =>
      all_match (e_rules c) os (e_exchs c) && (e_stray c =? 0) &&
      (if e_broken c
       then (* a response that cannot be completed must be the last thing on the connection *)
            e_closed c
       else negb (nonempty rest) &&
            ((N.of_nat (length (e_exchs c)) =? e_want c) ||
             (e_closed c && negb (e_must_complete c) && last_announces os (e_exchs c))))
  | None => false
  end.

(* ---------------------------------------------------------------- (t) delivery times, end to end (tested, not proved) *)
(* per required delivery: (time the completed event/chunk was visible at the client,
   time the origin wrote its next piece), microseconds; every required delivery was measured *)
Record tcase := { t_checks : list (Z * Z); t_expected : N }.
Definition tcase_prop_ok (c : tcase) : bool :=
  (N.of_nat (length (t_checks c)) =? t_expected c) &&
  forallb (fun p => (fst p <? snd p)%Z) (t_checks c).

(* the part of the oracle that says "no hop-by-hop field reaches the client", on its own (used to name the finding) *)
Definition ecase_absent_ok (c : ecase) : bool :=
  match client_parse_seq (e_v11 c) (map (fun e => q_method (e_req e)) (e_exchs c)) (e_stream c) with
  | Some (os, _) =>
      (fix go (os : list obs) (es : list exch) : bool :=
         match os, es with
         | o :: os', e :: es' =>
             forallb (fun n => match field_values n (o_fields o) with [] => true | _ => false end) (x_absent (e_exp e)) && go os' es'
         | _, _ => true
         end) os (e_exchs c)
  | None => true
  end.

(* which part of the oracle fails first (names the finding):
   0 none, 1 the stream is not a sequence of complete responses / bytes are left over / a wanted
   exchange was not answered although the connection stayed open, 2 status code or reason phrase,
   3 an end-to-end field is missing or changed, 4 a hop-by-hop field reaches the client, 5 body, 6 trailers,
   7 the connection was kept after a response that could not be completed,
   8 the proxy closed a connection on which every exchange had to be answered,
   9 a configured response-header rule was not applied as documented,
   10 a request the client never sent reached an origin,
   11 the proxy closed the connection after a response that did not announce it *)
Definition obs_why (o : obs) (x : xexp) : N :=
  if negb ((o_code o =? x_code x) && match x_reason x with Some t => str_eqb (o_reason o) t | None => true end) then 2
  else if negb (forallb (values_match (o_fields o)) (x_fields x)) then 3
  else if negb (forallb (fun n => match field_values n (o_fields o) with [] => true | _ => false end) (x_absent x)) then 4
  else if negb (str_eqb (o_body o) (x_body x)) then 5
  else if negb (forallb (values_match (o_trailers o)) (x_trailers x)) then 6
  else 0.
Fixpoint all_why (rules : list G16.Model.rule) (os : list obs) (es : list exch) : N :=
  match os, es with
  | o :: os', e :: es' => let w := obs_why o (e_exp e) in
                          if negb (w =? 0) then w
                          else if negb (rules_fields_ok rules (e_req e) o (e_exp e)) then 9
                          else all_why rules os' es'
  | [], [] => 0
  | _, _ => 1
  end.
Definition ecase_why (c : ecase) : N :=
  match client_parse_seq (e_v11 c) (map (fun e => q_method (e_req e)) (e_exchs c)) (e_stream c) with
  | Some (os, rest) =>
      if negb (e_stray c =? 0) then 10 else
      if e_broken c then (let w := all_why (e_rules c) os (e_exchs c) in if negb (w =? 0) then w else if e_closed c then 0 else 7)
      else if nonempty rest then 1
      else let w := all_why (e_rules c) os (e_exchs c) in
           if negb (w =? 0) then w
           else if (N.of_nat (length (e_exchs c)) =? e_want c) then 0
           else if e_closed c then (if e_must_complete c then 8 else if last_announces os (e_exchs c) then 0 else 11) else 1
  | None => 1
  end.

(* ---------------------------------------------------------------- (w) http.Handler variant: calls on the ResponseWriter *)
Record wcase := {
  w_meth : str; w_resp : resp; w_order : list str;
  w_hdr : hmap;            (* rw.Header() when WriteHeader was called *)
  w_code : N;              (* WriteHeader(code) *)
  w_flush0 : bool;         (* Flush right after WriteHeader *)
  w_writes : list str;     (* Write calls *)
  w_flags : list bool;     (* was the ResponseWriter flushed after that Write *)
  w_final : hmap }.        (* rw.Header() when writeResponse returned *)
Definition wcase_model_ok (c : wcase) : bool :=
  let r := w_resp c in
  is_perm (w_order c) (keys (r_trailer r)) &&
  hmap_eqb (handler_header r (w_order c)) (w_hdr c) && (r_code r =? w_code c) && w_flush0 c &&
  list_str_eqb (reads_of r) (w_writes c) &&
  list_bool_eqb (handler_flushes (w_meth c) r (reads_of r)) (w_flags c) &&
  hmap_eqb (handler_final r (w_order c)) (w_final c).
(* oracle (independent of Tables.v): what is handed to the server is the origin's status, every
   header field with its values, the body byte for byte, every declared trailer with its
   values; a body of unknown length is flushed after every non-empty write *)
Definition vals_of (k : str) (h : hmap) : list str := match raw_get k h with Some vs => vs | None => [] end.
Definition wcase_prop_ok (c : wcase) : bool :=
  let r := w_resp c in
  (r_code r =? w_code c) && w_flush0 c &&
  str_eqb (concat (w_writes c)) (body_bytes r) &&
  forallb (fun kv => match snd kv with [] => true | _ => list_str_eqb (vals_of (canon (fst kv)) (w_hdr c)) (snd kv) end) (r_hdr r) &&
  forallb (fun kv => match snd kv with
                     | [] => true
                     | vs => list_str_eqb (vals_of (canon (fst kv)) (w_final c)) vs ||
                             list_str_eqb (vals_of (b "Trailer:" ++ fst kv) (w_final c)) vs
                     end) (r_trailer r) &&
  (negb ((r_major r =? 1) && (r_minor r =? 1) && (r_cl r =? -1)%Z && negb (rfc_no_body (w_meth c) (r_code r))) ||
   list_bool_eqb (map nonempty (w_writes c)) (w_flags c)).

(* ---------------------------------------------------------------- (d) what is on the connection at every read *)
(* Response.Write behind the REAL pattern writer over a REAL bufio.Writer of capacity d_cap over a
   recording connection.  Observed: the Write calls on the connection (d_conn, after the final
   Flush) and, each time the copy loop asks the body for more data, how many of them had been
   made (d_snaps) — i.e. what the client has while the proxy waits for the origin. *)
Record dcase := { d_cap : N; d_meth : str; d_resp : resp; d_pats : list pat; d_snaps : list N; d_conn : list str }.

(* the relay LTS under the schedule "each read arrives and is read at once": its states at the reads *)
Fixpoint relay_states (cap : nat) (pats : list pat) (chunked : bool) (s : rstate) (reads : list str) : list rstate :=
  s :: match reads with
       | [] => []
       | d :: r => relay_states cap pats chunked
                     (relay_run cap pats chunked s [Arrive d; Read (length d - 1)]) r
       end.
Fixpoint list_nat_eqb (x y : list nat) : bool :=
  match x, y with
  | [], [] => true
  | a :: x', c :: y' => (a =? c)%nat && list_nat_eqb x' y'
  | _, _ => false
  end.
Definition dcase_model_ok (c : dcase) : bool :=
  let meth := d_meth c in let r := d_resp c in let g := go_state meth r in
  let cap := N.to_nat (d_cap c) in let te := g_te g in
  let sts := relay_states cap (d_pats c) te (relay_init cap (d_pats c) (go_head_writes meth r)) (reads_of r) in
  let fin := relay_finish cap (d_pats c) (last sts (relay_init cap (d_pats c) [])) (go_tail meth r) in
  negb (g_head g) && (te || (g_cl g =? -1)%Z) &&
  (* the LTS's writes are the writes of the (gcases-checked) model of Response.Write *)
  list_str_eqb (go_writes meth r) (go_head_writes meth r ++ flat_map (read_writes te) (reads_of r) ++ go_tail meth r) &&
  list_str_eqb (rs_reads (last sts (relay_init cap (d_pats c) []))) (reads_of r) &&
  list_nat_eqb (map (fun s => length (bw_conn (rs_bw s))) sts) (map N.to_nat (d_snaps c)) &&
  list_str_eqb (bw_conn (rs_bw fin)) (d_conn c).

(* oracle, on the observation alone (the chunked coding is RFC 7230 4.1): at every read the
   connection holds a prefix of the final bytes; with chunked coding, the head and every earlier
   read as a complete chunk; in an event stream, at least everything up to the last complete
   event among the earlier reads; at the end nothing is held back. *)
Fixpoint head_len (n : nat) (s : str) : nat :=
  match s with
  | 13 :: ((10 :: 13 :: 10 :: _) as _r) => n + 4
  | _ :: r => head_len (S n) r
  | [] => n
  end.
Fixpoint is_prefix (x y : str) : bool :=
  match x, y with
  | [], _ => true
  | a :: x', c :: y' => (a =? c) && is_prefix x' y'
  | _, [] => false
  end.
Fixpoint has_sub (x s : str) : bool :=
  is_prefix x s || match s with [] => false | _ :: r => has_sub x r end.
Definition dcase_prop_ok (c : dcase) : bool :=
  let meth := d_meth c in let r := d_resp c in
  let wire := concat (d_conn c) in
  let hl := head_len 0 wire in
  let te := has_sub (crlf ++ b "Transfer-Encoding: chunked" ++ crlf) (firstn hl wire) in
  let sse := is_sse (r_hdr r) in
  (fix go (k : nat) (snaps : list N) {struct snaps} : bool :=
     match snaps with
     | [] => true
     | n :: rest =>
         let dl := concat (firstn (N.to_nat n) (d_conn c)) in
         let body := concat (firstn k (reads_of r)) in
         (if te then (k =? 0)%nat || str_eqb dl (firstn hl wire ++ concat (flat_map chunk_writes (firstn k (reads_of r))))
          else if sse then
            match rev (event_ends body) with
            | e :: _ => (hl + S e <=? length dl)%nat
            | [] => true
            end
          else true) && go (S k) rest
     end) 0%nat (d_snaps c).

(* ---------------------------------------------------------------- (l) logging must not alter messages *)
(* The proxy logs bodies (--log-http body); a client reads a large response slowly while other
   exchanges with bodies of their own pass through the proxy.  Bodies of several MiB are compared in
   run-length form (byte, count): what the origin sent, and what the client received under that
   response's head (delimited by its Content-Length). *)
Record lcase := { l_want : list (N * N); l_got : list (N * N) }.
Fixpoint rle_norm (l : list (N * N)) : list (N * N) :=
  match l with
  | [] => []
  | (c, n) :: r => if n =? 0 then rle_norm r
                   else match rle_norm r with
                        | (c', n') :: r' => if c =? c' then (c, n + n') :: r' else (c, n) :: (c', n') :: r'
                        | [] => [(c, n)]
                        end
  end.
Fixpoint rle_eqb (x y : list (N * N)) : bool :=
  match x, y with
  | [], [] => true
  | (a, n) :: x', (c, k) :: y' => (a =? c) && (n =? k) && rle_eqb x' y'
  | _, _ => false
  end.
Definition lcase_prop_ok (c : lcase) : bool := rle_eqb (rle_norm (l_want c)) (rle_norm (l_got c)).
