(* C16 — header rewrite rules: executable model of header/header.go
   (ParseHeader, Header.Apply, removeHeadersByPrefix, Header.String) and of the
   dispatch in command/run/run.go configureHeadersModifiers.  No proofs here. *)
From FwdLib Require Export Hdr.
From G16 Require Export Tables.

Inductive action := Remove | RemoveByPrefix | Empty | Add | RenameCase.

Record rule := { r_act : action; r_name : str; r_val : str }.
(* r_val is meaningful for Add only; every other constructor of a rule uses [] *)

Definition action_eqb (a c : action) : bool :=
  match a, c with
  | Remove, Remove | RemoveByPrefix, RemoveByPrefix | Empty, Empty
  | Add, Add | RenameCase, RenameCase => true
  | _, _ => false
  end.
Definition rule_eqb (x y : rule) : bool :=
  action_eqb (r_act x) (r_act y) && str_eqb (r_name x) (r_name y) && str_eqb (r_val x) (r_val y).

(* ---------- parser ---------- *)
(* name class of both regexes: [A-Za-z0-9-] *)
Definition is_name_char (c : N) : bool := is_alpha c || is_digit c || N.eqb c 45.
(* headerNameRegex ^[A-Za-z0-9-]+$ *)
Definition valid_name (s : str) : bool :=
  match s with [] => false | _ => forallb is_name_char s end.

(* RE2 \s = [\t\n\f\r ] *)
Definition is_re_space (c : N) : bool := existsb (N.eqb c) [9;10;12;13;32].

Fixpoint span (p : N -> bool) (s : str) : str * str :=
  match s with
  | c :: r => if p c then let (x, y) := span p r in (c :: x, y) else ([], s)
  | [] => ([], [])
  end.

Definition drop_last_if (c : N) (s : str) : str :=
  match rev s with
  | d :: r => if N.eqb c d then rev r else s
  | [] => s
  end.

(* headerLineRegex  NAME ':' SPACES VALUES optional-CR optional-LF, resolved as Go's
   leftmost-first engine does: name = maximal run of name chars, which must be
   non-empty and be followed by ':'; \s* is maximal; one optional final LF is
   dropped; VALUE class comes from the source (Tables.value_excludes_cr):
   dot (any byte but LF) keeps a trailing/embedded CR in the value, the class
   excluding CR and LF rejects an embedded CR and drops one optional CR before
   the optional LF. *)
Definition match_line (s : str) : option (str * str) :=
  let (name, rest) := span is_name_char s in
  match name, rest with
  | _ :: _, d :: rest1 =>
      if negb (N.eqb d 58) then None else
      let (_, rest2) := span is_re_space rest1 in
      let body := drop_last_if 10 rest2 in
      if existsb (N.eqb 10) body then None
      else if value_excludes_cr then
             let body' := drop_last_if 13 body in
             if existsb (N.eqb 13) body' then None else Some (name, body')
           else Some (name, body)
  | _, _ => None
  end.

Definition but_last (s : str) : str := removelast s.
Definition last_is (c : N) (s : str) : bool :=
  match rev s with d :: _ => N.eqb c d | [] => false end.

Definition first_is (c : N) (s : str) : bool :=
  match s with d :: _ => N.eqb c d | [] => false end.

Definition parse_shape (val : str) : option rule :=
  if first_is 45 val then                 (* HasPrefix "-" *)
    if last_is 42 val                     (* HasSuffix "*" (on the whole string) *)
    then Some {| r_act := RemoveByPrefix; r_name := but_last (tl val); r_val := [] |}
    else Some {| r_act := Remove; r_name := tl val; r_val := [] |}
  else if first_is 37 val then            (* HasPrefix "%" *)
    Some {| r_act := RenameCase; r_name := tl val; r_val := [] |}
  else if last_is 59 val && (negb empty_checks_name || valid_name (but_last val))
  then Some {| r_act := Empty; r_name := but_last val; r_val := [] |}
  else match match_line val with
       | Some (n, v) => Some {| r_act := Add; r_name := n; r_val := v |}
       | None => None
       end.

Definition parse_rule (val : str) : option rule :=
  match parse_shape val with
  | Some r => if valid_name (r_name r) then Some r else None
  | None => None
  end.

(* ---------- printer (Header.String) ---------- *)
Definition print_rule (r : rule) : str :=
  match r_act r with
  | Remove => 45 :: r_name r
  | RemoveByPrefix => 45 :: r_name r ++ [42]
  | Empty => r_name r ++ [59]
  | Add => r_name r ++ [58] ++ r_val r
  | RenameCase => 37 :: r_name r
  end.

(* ---------- applier ---------- *)
Definition fold_prefix (k p : str) : bool :=
  (length p <=? length k)%nat && eq_fold (firstn (length p) k) p.

(* removeHeadersByPrefix: "for k := range h { if EqualFold(k[:len(p)], p) { DELETE } }".
   Tables.prefix_delete_canon says how DELETE is written in the source:
   true  = h.Del(k)     (canonicalises k: a non-canonical key survives)
   false = delete(h, k) (removes exactly k).
   The loop is modelled over an explicit visiting order (Go's map order is
   arbitrary): Proofs.v shows the result does not depend on it. *)
Definition prefix_step (p : str) (h : hmap) (k : str) : hmap :=
  if fold_prefix k p
  then (if prefix_delete_canon then raw_del (canon k) h else raw_del k h)
  else h.
Definition remove_by_prefix_order (p : str) (order : list str) (h : hmap) : hmap :=
  fold_left (prefix_step p) order h.
Definition remove_by_prefix (p : str) (h : hmap) : hmap :=
  remove_by_prefix_order p (keys h) h.

(* RenameCase branch.  Tables.rename_guard_same / rename_merges describe the
   source: guard "name != canonical" present?  values appended to an existing
   hh[name] rather than overwriting it? *)
Definition rename_case (n : str) (h : hmap) : hmap :=
  let c := canon n in
  match raw_get c h with
  | None => h
  | Some vs =>
      if rename_guard_same && str_eqb n c then h
      else
        let old := if rename_merges
                   then match raw_get n h with Some o => o | None => [] end
                   else [] in
        (* hh[name] = ... ; delete(hh, canonical) — in that order *)
        raw_del c (raw_set n (old ++ vs) h)
  end.

Definition apply_rule (r : rule) (h : hmap) : hmap :=
  match r_act r with
  | Remove => h_del (r_name r) h
  | RemoveByPrefix => remove_by_prefix (r_name r) h
  | Empty => h_set (r_name r) [] h
  | Add => h_add (r_name r) (r_val r) h
  | RenameCase => rename_case (r_name r) h
  end.

Definition apply_rules (rs : list rule) (h : hmap) : hmap :=
  fold_left (fun h r => apply_rule r h) rs h.

(* ---------- dispatch (configureHeadersModifiers) ---------- *)
Inductive msg_kind := ReqPlain | ReqConnect | RespPlain | RespConnect.
Record rule_cfg := { request_rules : list rule; connect_rules : list rule; response_rules : list rule }.
Definition dispatch (cfg : rule_cfg) (k : msg_kind) (h : hmap) : hmap :=
  match k with
  | ReqPlain => apply_rules (request_rules cfg) h
  | ReqConnect => apply_rules (connect_rules cfg) h
  | RespPlain => apply_rules (response_rules cfg) h
  | RespConnect => h
  end.

(* What an upstream proxy sees on a CONNECT (internal/martian/proxy_connect.go
   connect + dialvia/http.go DialContextR + command/run/run.go
   configureTransportProxy): the client's CONNECT header after the connect rules
   (request modifier), over which the result of applying the connect rules to an
   EMPTY header (GetProxyConnectHeader) is copied key by key (maps.Copy). *)
Definition overlay (base over : hmap) : hmap :=
  fold_left (fun h kv => raw_set (fst kv) (snd kv) h) over base.
Definition connect_upstream_view (cfg : rule_cfg) (h : hmap) : hmap :=
  overlay (apply_rules (connect_rules cfg) h) (apply_rules (connect_rules cfg) []).

(* ---------- documented meaning, stated pointwise on lookups ---------- *)
(* spec_get r h k = what key k must map to after rule r. *)
Definition spec_get (r : rule) (h : hmap) (k : str) : option (list str) :=
  let c := canon (r_name r) in
  match r_act r with
  | Add => if str_eqb k c
           then Some ((match raw_get c h with Some vs => vs | None => [] end) ++ [r_val r])
           else raw_get k h
  | Empty => if str_eqb k c then Some [[]] else raw_get k h
  | Remove => if str_eqb k c then None else raw_get k h
  | RemoveByPrefix => if fold_prefix k (r_name r) then None else raw_get k h
  | RenameCase =>
      match raw_get c h with
      | None => raw_get k h
      | Some vs =>
          if str_eqb (r_name r) c then raw_get k h
          else if str_eqb k (r_name r)
               then Some ((match raw_get (r_name r) h with Some o => o | None => [] end) ++ vs)
               else if str_eqb k c then None else raw_get k h
      end
  end.

(* a rule is legal: token name; an Add value carries no CR / LF *)
Definition legal_rule (r : rule) : bool :=
  is_token (r_name r) &&
  negb (existsb (fun c => N.eqb c 13 || N.eqb c 10) (r_val r)).

(* multiset of all values and case-folded key set, for the %name clause *)
Definition all_values (h : hmap) : list str := concat (map snd h).
Definition fold_keys (h : hmap) : list str := map lower (keys h).
