(* C02 — the codec law, part 2: the writers (modelled Response.Write, the manual
   header-only writer, the CONNECT literal) against the reference client. *)
From G02 Require Import RespFraming Client CodecProofs.
Open Scope N_scope.

(* ------------------------------------------------------------------ small facts *)
Lemma forallb_rev {A} (f : A -> bool) l : forallb f (rev l) = forallb f l.
Proof.
  induction l as [|x l IH]; [reflexivity|]. cbn [rev forallb]. rewrite forallb_app, IH. cbn [forallb].
  rewrite andb_true_r. apply andb_comm.
Qed.

Lemma trim_ows_rev s : trim_ows s = rev (trim_ows_left (rev (trim_ows_left s))).
Proof. unfold trim_ows, frev. rewrite <- !rev_alt. reflexivity. Qed.

Lemma forallb_trim_left f s : forallb f s = true -> forallb f (trim_ows_left s) = true.
Proof.
  induction s as [|c s IH]; intro H; [reflexivity|]. cbn [trim_ows_left].
  destruct (is_ows c); [|exact H]. cbn [forallb] in H. apply andb_true_iff in H as [_ H]. exact (IH H).
Qed.

Lemma forallb_trim f s : forallb f s = true -> forallb f (trim_ows s) = true.
Proof.
  intro H. rewrite trim_ows_rev. rewrite forallb_rev. apply forallb_trim_left. rewrite forallb_rev.
  apply forallb_trim_left, H.
Qed.

Lemma sanitize_nocrlf v : nocrlf (sanitize v) = true.
Proof.
  unfold sanitize, nocrlf. apply forallb_trim. rewrite forallb_forall. intros c Hin.
  apply in_map_iff in Hin as (x & <- & _). unfold nl_to_space, nocrlf_c.
  destruct (x =? 10) eqn:E10; [reflexivity|]. destruct (x =? 13) eqn:E13; [reflexivity|].
  cbn [orb]. rewrite E13, E10. reflexivity.
Qed.

Lemma trim_left_plain s : forallb plain_c s = true -> trim_ows_left s = s.
Proof.
  destruct s as [|c s]; [reflexivity|]. cbn [forallb]. intro H. apply andb_true_iff in H as [Hc _].
  cbn [trim_ows_left]. unfold plain_c in Hc. repeat (apply andb_true_iff in Hc as [Hc ?]).
  unfold is_ows.
  repeat match goal with X : negb _ = true |- _ => apply negb_true_iff in X end.
  match goal with X : (c =? 32) = false, Y : (c =? 9) = false |- _ => rewrite X, Y end. reflexivity.
Qed.

Lemma trim_plain s : forallb plain_c s = true -> trim_ows s = s.
Proof.
  intro H. rewrite trim_ows_rev. rewrite (trim_left_plain s H).
  rewrite (trim_left_plain (rev s)) by (rewrite forallb_rev; exact H). apply rev_involutive.
Qed.

Lemma decz_plain z : (0 <= z)%Z -> forallb plain_c (decz z) = true.
Proof.
  intro H. unfold decz. destruct (z <? 0)%Z eqn:E; [apply Z.ltb_lt in E; lia|]. apply dec_plain.
Qed.

Lemma flat_field_writes fs : concat (flat_map field_writes fs) = concat (map field_bytes fs).
Proof.
  induction fs as [|f fs IH]; [reflexivity|]. cbn [flat_map map concat]. rewrite concat_app, IH.
  unfold field_writes, field_bytes. cbn [concat]. rewrite app_nil_r. reflexivity.
Qed.

(* sorting a header map keeps every binding *)
Lemma forallb_insert {P : str * list str -> bool} kv l : forallb P (insert_kv kv l) = P kv && forallb P l.
Proof.
  induction l as [|x l IH]; [reflexivity|]. cbn [insert_kv]. destruct (str_ltb (fst kv) (fst x)); [reflexivity|].
  cbn [forallb]. rewrite IH. rewrite !andb_assoc. f_equal. apply andb_comm.
Qed.

Lemma forallb_sort (P : str * list str -> bool) h : forallb P (sort_hmap h) = forallb P h.
Proof.
  induction h as [|kv h IH]; [reflexivity|]. cbn [sort_hmap fold_right]. fold (sort_hmap h).
  rewrite forallb_insert, IH. reflexivity.
Qed.

(* every field Header.Write emits is well formed *)
Lemma header_fields_clean excl h : forallb clean (header_fields excl h) = true.
Proof.
  unfold header_fields. induction (sort_hmap h) as [|kv l IH]; [reflexivity|].
  cbn [flat_map]. rewrite forallb_app, IH, andb_true_r.
  destruct (written_key excl (fst kv)) eqn:E; [|reflexivity].
  unfold written_key in E. apply andb_true_iff in E as [Ht _].
  induction (snd kv) as [|v vs IHv]; [reflexivity|]. cbn [map forallb]. rewrite IHv, andb_true_r.
  unfold clean. cbn [fst snd]. rewrite Ht, sanitize_nocrlf. reflexivity.
Qed.

(* values of a field name among the fields the client saw *)
Definition fv (name : str) (fs : list (str * str)) : list str := field_values name (map trimf fs).

Lemma fv_app name x y : fv name (x ++ y) = fv name x ++ fv name y.
Proof. unfold fv, field_values. rewrite map_app, filter_app, map_app. reflexivity. Qed.

Lemma fv_nil name : fv name [] = [].
Proof. reflexivity. Qed.

(* no field of the relayed header is called like a framing field (their canonical
   spellings are excluded by Response.Write; other spellings must not occur) *)
Definition framing_free_key (excl : list str) (k : str) : bool :=
  negb (written_key excl k) ||
  (negb (eq_fold k (b "transfer-encoding")) && negb (eq_fold k (b "content-length"))).
Definition hdr_framing_free (excl : list str) (h : hmap) : bool :=
  forallb (fun kv => framing_free_key excl (fst kv)) h.

Lemma fv_header_fields name excl h :
  hdr_framing_free excl h = true ->
  name = b "transfer-encoding" \/ name = b "content-length" ->
  fv name (header_fields excl h) = [].
Proof.
  intros Hf Hn. unfold hdr_framing_free in Hf. rewrite <- forallb_sort in Hf.
  unfold header_fields. induction (sort_hmap h) as [|kv l IH]; [reflexivity|].
  cbn [forallb] in Hf. apply andb_true_iff in Hf as [Hk Hl].
  cbn [flat_map]. rewrite fv_app, (IH Hl), app_nil_r.
  unfold framing_free_key in Hk. destruct (written_key excl (fst kv)); [|reflexivity].
  cbn [negb orb] in Hk. apply andb_true_iff in Hk as [H1 H2]. apply negb_true_iff in H1, H2.
  unfold fv, field_values. induction (snd kv) as [|v vs IHv]; [reflexivity|].
  cbn [map]. unfold trimf at 1. cbn [filter fst snd]. destruct Hn as [-> | ->]; [rewrite H1 | rewrite H2]; exact IHv.
Qed.

(* ------------------------------------------------------------------ MODELLED Response.Write: head *)
Definition go_conn_field (meth : str) (r : resp) : list (str * str) :=
  if g_close (go_state meth r) && negb (has_token (h_get (b "Connection") (r_hdr r)) (b "close"))
  then [(b "Connection", b "close")] else [].
Definition go_len_field (meth : str) (r : resp) : list (str * str) :=
  let g := go_state meth r in
  if g_send_cl g then [(b "Content-Length", decz (g_cl g))]
  else if g_te g then [(b "Transfer-Encoding", b "chunked")] else [].
Definition go_trailer_field (meth : str) (r : resp) : list (str * str) :=
  if g_te (go_state meth r) then
    match go_trailer_keys (r_trailer r) with [] => [] | ks => [(b "Trailer", join [44] ks)] end
  else [].
Definition go_cl0 (meth : str) (r : resp) : bool :=
  let g := go_state meth r in
  (g_cl1 g =? 0)%Z && negb (r_chunked r) && negb (g_send_cl g) && body_allowed_for_status (r_code r).
Definition go_cl0_field (meth : str) (r : resp) : list (str * str) :=
  if go_cl0 meth r then [(b "Content-Length", b "0")] else [].

(* the header fields Response.Write emits, in order, as written *)
Definition go_fields (meth : str) (r : resp) : list (str * str) :=
  go_conn_field meth r ++ go_len_field meth r ++ go_trailer_field meth r ++
  header_fields resp_exclude (r_hdr r) ++ go_cl0_field meth r.

Lemma piece_conn (c : bool) :
  concat (if c then [b "Connection: close" ++ crlf] else []) =
  concat (map field_bytes (if c then [(b "Connection", b "close")] else [])).
Proof. destruct c; reflexivity. Qed.
Lemma piece_len (s t : bool) z :
  concat (if s then [b "Content-Length: "; decz z ++ crlf]
          else if t then [b "Transfer-Encoding: chunked" ++ crlf] else []) =
  concat (map field_bytes (if s then [(b "Content-Length", decz z)]
                           else if t then [(b "Transfer-Encoding", b "chunked")] else [])).
Proof.
  destruct s; [|destruct t; reflexivity].
  cbn [map concat]. unfold field_bytes. cbn [fst snd]. rewrite !app_nil_r. reflexivity.
Qed.
Lemma piece_tr (t : bool) (ks : list str) :
  concat (if t then match ks with [] => [] | s :: l => [b "Trailer: " ++ join [44] (s :: l) ++ crlf] end else []) =
  concat (map field_bytes (if t then match ks with [] => [] | s :: l => [(b "Trailer", join [44] (s :: l))] end else [])).
Proof.
  destruct t; [|reflexivity]. destruct ks; [reflexivity|].
  cbn [map concat]. unfold field_bytes. cbn [fst snd]. rewrite !app_nil_r. reflexivity.
Qed.
Lemma piece_cl0 (c : bool) :
  concat (if c then [b "Content-Length: 0" ++ crlf] else []) =
  concat (map field_bytes (if c then [(b "Content-Length", b "0")] else [])).
Proof. destruct c; reflexivity. Qed.

Lemma go_head_concat meth r :
  concat (go_head_writes meth r) = status_line r ++ concat (map field_bytes (go_fields meth r)) ++ crlf.
Proof.
  unfold go_head_writes, go_fields, go_conn_field, go_len_field, go_trailer_field, go_cl0_field, go_cl0.
  cbv zeta. rewrite !concat_app, !map_app, !concat_app.
  rewrite piece_conn, piece_len, piece_tr, piece_cl0.
  unfold header_writes. rewrite flat_field_writes.
  cbn [concat]. rewrite !app_nil_r, <- !app_assoc. reflexivity.
Qed.

(* declared trailer keys as the transport leaves them: canonical tokens *)
Definition trailer_ok (t : hmap) : bool :=
  forallb (fun kv => is_token (fst kv) && str_eqb (canon (fst kv)) (fst kv)) t.

Lemma nocrlf_join sep ks : nocrlf sep = true -> forallb nocrlf ks = true -> nocrlf (join sep ks) = true.
Proof.
  intros Hs. induction ks as [|k ks IH]; intro H; [reflexivity|].
  cbn [forallb] in H. apply andb_true_iff in H as [Hk Hks]. cbn [join].
  destruct ks as [|k' ks']; [exact Hk|]. rewrite !nocrlf_app, Hk, Hs, (IH Hks). reflexivity.
Qed.

Lemma go_trailer_keys_nocrlf t : trailer_ok t = true -> forallb nocrlf (go_trailer_keys t) = true.
Proof.
  intro H. unfold trailer_ok in H. rewrite <- forallb_sort in H. unfold go_trailer_keys.
  induction (sort_hmap t) as [|kv l IH]; [reflexivity|]. cbn [forallb] in H. apply andb_true_iff in H as [Hk Hl].
  cbn [map forallb]. rewrite (IH Hl), andb_true_r. apply andb_true_iff in Hk as [Ht Hc].
  apply str_eqb_eq in Hc. rewrite Hc. destruct (is_token_chars _ Ht) as [Hch _]. apply token_nocrlf, Hch.
Qed.

Definition wf_go (r : resp) : bool :=
  nocrlf_status r && hdr_framing_free resp_exclude (r_hdr r) && trailer_ok (r_trailer r) && (-1 <=? r_cl r)%Z.

Lemma go_state_cl_ge meth r : (-1 <=? r_cl r)%Z = true -> (-1 <= g_cl (go_state meth r))%Z.
Proof.
  intro H. apply Z.leb_le in H. unfold go_state. cbn [g_cl].
  destruct (if str_eqb meth (b "HEAD") then r_chunked r else proto_at_least_11 (r_major r) (r_minor r) && r_chunked r); [lia|].
  destruct (r_cl r =? 0)%Z; [destruct (nonempty (concat (reads_of r))); lia | lia].
Qed.

Lemma go_fields_clean meth r : wf_go r = true -> forallb clean (go_fields meth r) = true.
Proof.
  intro H. unfold wf_go in H. apply andb_true_iff in H as [H H0]. apply andb_true_iff in H as [H H1].
  apply andb_true_iff in H as [H H2].
  unfold go_fields. rewrite !forallb_app. repeat (apply andb_true_iff; split).
  - unfold go_conn_field. destruct (_ && _); reflexivity.
  - unfold go_len_field. destruct (g_send_cl (go_state meth r)) eqn:E.
    + cbn [forallb]. rewrite andb_true_r. unfold clean. cbn [fst snd].
      apply andb_true_iff. split; [reflexivity|].
      pose proof (go_state_cl_ge meth r H0) as Hge.
      unfold decz. destruct (g_cl (go_state meth r) <? 0)%Z.
      * cbn [nocrlf forallb]. apply andb_true_iff. split; [reflexivity | apply plain_nocrlf, dec_plain].
      * apply plain_nocrlf, dec_plain.
    + destruct (g_te (go_state meth r)); reflexivity.
  - unfold go_trailer_field. destruct (g_te (go_state meth r)); [|reflexivity].
    destruct (go_trailer_keys (r_trailer r)) eqn:E; [reflexivity|].
    cbn [forallb]. rewrite andb_true_r. unfold clean. cbn [fst snd]. apply andb_true_iff. split; [reflexivity|].
    rewrite <- E. apply nocrlf_join; [reflexivity | apply go_trailer_keys_nocrlf; assumption].
  - apply header_fields_clean.
  - unfold go_cl0_field. destruct (go_cl0 meth r); reflexivity.
Qed.

(* framing fields among what the client saw *)
Lemma fv_te_go meth r :
  hdr_framing_free resp_exclude (r_hdr r) = true ->
  fv (b "transfer-encoding") (go_fields meth r) =
  if negb (g_send_cl (go_state meth r)) && g_te (go_state meth r) then [b "chunked"] else [].
Proof.
  intro H. unfold go_fields. rewrite !fv_app, (fv_header_fields _ _ _ H) by (left; reflexivity).
  unfold go_conn_field, go_len_field, go_trailer_field, go_cl0_field.
  destruct (g_close (go_state meth r) && negb (has_token (h_get (b "Connection") (r_hdr r)) (b "close")));
  destruct (g_send_cl (go_state meth r)); destruct (g_te (go_state meth r));
  destruct (go_trailer_keys (r_trailer r)); destruct (go_cl0 meth r); reflexivity.
Qed.

Lemma fv_cl_go meth r :
  hdr_framing_free resp_exclude (r_hdr r) = true ->
  fv (b "content-length") (go_fields meth r) =
  (if g_send_cl (go_state meth r) then [trim_ows (decz (g_cl (go_state meth r)))] else []) ++
  (if go_cl0 meth r then [b "0"] else []).
Proof.
  intro H. unfold go_fields. rewrite !fv_app, (fv_header_fields _ _ _ H) by (right; reflexivity).
  unfold go_conn_field, go_len_field, go_trailer_field, go_cl0_field.
  destruct (g_close (go_state meth r) && negb (has_token (h_get (b "Connection") (r_hdr r)) (b "close")));
  destruct (g_send_cl (go_state meth r)); destruct (g_te (go_state meth r));
  destruct (go_trailer_keys (r_trailer r)); destruct (go_cl0 meth r); reflexivity.
Qed.

(* ------------------------------------------------------------------ MODELLED Response.Write: the codec law *)
Definition go_trailer_fields (meth : str) (r : resp) : list (str * str) :=
  if g_te (go_state meth r) then header_fields [] (final_trailer r) else [].

(* what the client must see of a response written by Response.Write *)
Definition go_obs (meth : str) (r : resp) : obs :=
  mkObs (r_major r) (r_minor r) (r_code r) (reason_text r) (map trimf (go_fields meth r))
        (concat (reads_of r)) (map trimf (go_trailer_fields meth r)).

(* the message carries its own end (chunked coding the client knows, or a length) *)
Definition go_delimited (v11 : bool) (meth : str) (r : resp) : bool :=
  let g := go_state meth r in
  negb (g_head g) && ((g_te g && v11) || (negb (g_te g) && (g_send_cl g || go_cl0 meth r))).
(* the message ends where the connection ends *)
Definition go_until_close (meth : str) (r : resp) : bool :=
  let g := go_state meth r in
  negb (g_head g) && negb (g_te g) && negb (g_send_cl g) && negb (go_cl0 meth r) && (g_cl g =? -1)%Z.

Lemma send_cl_not_te meth r : g_send_cl (go_state meth r) = true -> g_te (go_state meth r) = false.
Proof.
  unfold go_state. cbn [g_send_cl g_te].
  destruct (if str_eqb meth (b "HEAD") then r_chunked r else proto_at_least_11 (r_major r) (r_minor r) && r_chunked r);
    [discriminate | reflexivity].
Qed.

Lemma send_cl_nonneg meth r : g_send_cl (go_state meth r) = true -> (0 <= g_cl (go_state meth r))%Z.
Proof.
  unfold go_state. cbn [g_send_cl g_cl].
  destruct (if str_eqb meth (b "HEAD") then r_chunked r else proto_at_least_11 (r_major r) (r_minor r) && r_chunked r);
    [discriminate|].
  set (c := if (r_cl r =? 0)%Z then if nonempty (concat (reads_of r)) then (-1)%Z else 0%Z else r_cl r).
  destruct (0 <? c)%Z eqn:E1; [apply Z.ltb_lt in E1; lia|].
  destruct (c <? 0)%Z eqn:E2; [discriminate|]. apply Z.ltb_ge in E2. lia.
Qed.

Lemma cl0_cl meth r : go_cl0 meth r = true -> g_te (go_state meth r) = false /\ g_cl (go_state meth r) = 0%Z.
Proof.
  unfold go_cl0, go_state. cbn [g_cl1 g_send_cl g_te g_cl]. intro H.
  repeat (apply andb_true_iff in H as [H ?]). apply Z.eqb_eq in H. apply negb_true_iff in H2.
  rewrite H2, andb_false_r. destruct (str_eqb meth (b "HEAD")); split; try reflexivity; exact H.
Qed.

Lemma go_body_concat_te meth r :
  g_head (go_state meth r) = false -> g_te (go_state meth r) = true ->
  concat (go_body_writes meth r) =
  concat (map chunk_bytes (reads_of r)) ++ (b "0" ++ crlf) ++
  concat (map field_bytes (header_fields [] (final_trailer r))) ++ crlf.
Proof.
  intros Hh Ht. unfold go_body_writes. cbv zeta. rewrite Hh, Ht.
  rewrite !concat_app, chunks_concat. unfold header_writes. rewrite flat_field_writes.
  cbn [concat]. rewrite !app_nil_r, <- !app_assoc. reflexivity.
Qed.

Lemma go_body_concat_len meth r :
  g_head (go_state meth r) = false -> g_te (go_state meth r) = false ->
  (g_cl (go_state meth r) =? -1)%Z = false ->
  concat (go_body_writes meth r) = firstn (Z.to_nat (g_cl (go_state meth r))) (concat (reads_of r)).
Proof.
  intros Hh Ht Hc. unfold go_body_writes. cbv zeta. rewrite Hh, Ht, Hc, app_nil_r. apply limit_reads_firstn.
Qed.

Lemma go_body_concat_close meth r :
  g_head (go_state meth r) = false -> g_te (go_state meth r) = false ->
  (g_cl (go_state meth r) =? -1)%Z = true ->
  concat (go_body_writes meth r) = concat (reads_of r).
Proof.
  intros Hh Ht Hc. unfold go_body_writes. cbv zeta. rewrite Hh, Ht, Hc, app_nil_r. reflexivity.
Qed.

Lemma go_wire_eq meth r :
  concat (go_writes meth r) =
  status_line r ++ concat (map field_bytes (go_fields meth r)) ++ crlf ++ concat (go_body_writes meth r).
Proof. unfold go_writes. rewrite concat_app, go_head_concat, <- !app_assoc. reflexivity. Qed.

Theorem go_roundtrip v11 meth r rest :
  wf_go r = true -> go_write_ok meth r = true -> go_delimited v11 meth r = true ->
  rfc_no_body meth (r_code r) = false ->
  str_eqb meth (b "CONNECT") && (r_code r / 100 =? 2) = false ->
  client_parse v11 meth (concat (go_writes meth r) ++ rest) = Some (go_obs meth r, rest).
Proof.
  intros Hwf Hok Hd Hnb Hnc. pose proof (go_fields_clean meth r Hwf) as Hclean.
  unfold wf_go in Hwf. apply andb_true_iff in Hwf as [Hwf Hge]. apply andb_true_iff in Hwf as [Hwf Htr].
  apply andb_true_iff in Hwf as [Hst Hfree].
  rewrite go_wire_eq, <- !app_assoc.
  rewrite (client_head v11 meth r (go_fields meth r) _ Hst Hclean).
  unfold client_body. rewrite Hnb, Hnc.
  fold (fv (b "transfer-encoding") (go_fields meth r)). fold (fv (b "content-length") (go_fields meth r)).
  rewrite (fv_te_go meth r Hfree), (fv_cl_go meth r Hfree).
  unfold go_delimited in Hd. cbv zeta in Hd. apply andb_true_iff in Hd as [Hh Hd].
  apply negb_true_iff in Hh. apply orb_true_iff in Hd as [Hd | Hd].
  - (* chunked, and the client knows chunked *)
    apply andb_true_iff in Hd as [Ht ->].
    assert (Hs : g_send_cl (go_state meth r) = false).
    { destruct (g_send_cl (go_state meth r)) eqn:E; [|reflexivity]. rewrite (send_cl_not_te _ _ E) in Ht. discriminate. }
    rewrite Hs, Ht. cbn [negb andb].
    change (final_chunked [b "chunked"]) with true. cbv iota.
    rewrite (go_body_concat_te meth r Hh Ht), <- !app_assoc.
    rewrite (dechunk_ser (reads_of r) _ [] (header_fields [] (final_trailer r)) rest (filter_nonempty_all _));
      [| rewrite !app_length; pose proof (chunks_len (reads_of r)); lia | apply header_fields_clean].
    unfold go_obs, go_trailer_fields. rewrite Ht. reflexivity.
  - apply andb_true_iff in Hd as [Ht Hd]. apply negb_true_iff in Ht. rewrite Ht, andb_false_r.
    assert (Htes : (if v11 then @nil str else []) = []) by (destruct v11; reflexivity). rewrite Htes.
    unfold go_write_ok in Hok. cbv zeta in Hok. rewrite Hh in Hok. cbn [orb] in Hok.
    destruct (g_send_cl (go_state meth r)) eqn:Hs.
    + (* Content-Length: n *)
      assert (Hz : go_cl0 meth r = false).
      { unfold go_cl0. cbv zeta. rewrite Hs. cbn [negb]. rewrite andb_false_r. reflexivity. }
      rewrite Hz. cbn [app].
      pose proof (send_cl_nonneg meth r Hs) as Hnn.
      rewrite (trim_plain _ (decz_plain _ Hnn)).
      unfold decz. destruct (g_cl (go_state meth r) <? 0)%Z eqn:E; [apply Z.ltb_lt in E; lia|].
      rewrite parse_dec. cbn [forallb]. rewrite Z_N_nat.
      assert (Hne : (g_cl (go_state meth r) =? -1)%Z = false) by (apply Z.eqb_neq; lia).
      rewrite Hne in Hok. cbn [orb] in Hok. apply Z.eqb_eq in Hok.
      rewrite (go_body_concat_len meth r Hh Ht Hne).
      assert (Hlen : Z.to_nat (g_cl (go_state meth r)) = length (concat (reads_of r))) by lia.
      rewrite Hlen, firstn_all.
      assert (Hlt : (length (concat (reads_of r) ++ rest) <? length (concat (reads_of r)))%nat = false)
        by (apply Nat.ltb_ge; rewrite app_length; lia).
      rewrite Hlt, firstn_app, firstn_all, Nat.sub_diag, skipn_app, skipn_all, Nat.sub_diag.
      cbn [firstn skipn app]. rewrite app_nil_r.
      unfold go_obs, go_trailer_fields. rewrite Ht. reflexivity.
    + (* Content-Length: 0 *)
      cbn [orb] in Hd. rewrite Hd. cbn [app].
      destruct (cl0_cl meth r Hd) as [_ Hc0].
      change (parse_num 10 dec_digit (b "0")) with (Some 0). cbn [forallb N.to_nat].
      assert (Hne : (g_cl (go_state meth r) =? -1)%Z = false) by (rewrite Hc0; reflexivity).
      rewrite Hne in Hok. cbn [orb] in Hok. apply Z.eqb_eq in Hok. rewrite Hc0 in Hok.
      rewrite (go_body_concat_len meth r Hh Ht Hne), Hc0.
      assert (Hnil : concat (reads_of r) = []) by (destruct (concat (reads_of r)); [reflexivity | simpl in Hok; lia]).
      rewrite Hnil. cbn [Z.to_nat firstn skipn app length Nat.ltb Nat.leb].
      unfold go_obs, go_trailer_fields. rewrite Ht, Hnil. reflexivity.
Qed.

Theorem go_roundtrip_close v11 meth r :
  wf_go r = true -> go_until_close meth r = true ->
  rfc_no_body meth (r_code r) = false ->
  str_eqb meth (b "CONNECT") && (r_code r / 100 =? 2) = false ->
  client_parse v11 meth (concat (go_writes meth r)) = Some (go_obs meth r, []).
Proof.
  intros Hwf Hu Hnb Hnc. pose proof (go_fields_clean meth r Hwf) as Hclean.
  unfold wf_go in Hwf. apply andb_true_iff in Hwf as [Hwf Hge]. apply andb_true_iff in Hwf as [Hwf Htr].
  apply andb_true_iff in Hwf as [Hst Hfree].
  rewrite go_wire_eq.
  rewrite (client_head v11 meth r (go_fields meth r) _ Hst Hclean).
  unfold client_body. rewrite Hnb, Hnc.
  fold (fv (b "transfer-encoding") (go_fields meth r)). fold (fv (b "content-length") (go_fields meth r)).
  rewrite (fv_te_go meth r Hfree), (fv_cl_go meth r Hfree).
  unfold go_until_close in Hu. cbv zeta in Hu.
  apply andb_true_iff in Hu as [Hu Hc]. apply andb_true_iff in Hu as [Hu Hz]. apply andb_true_iff in Hu as [Hu Hs].
  apply andb_true_iff in Hu as [Hh Ht]. apply negb_true_iff in Hh, Ht, Hs, Hz.
  rewrite Ht, Hs, Hz, andb_false_r. cbn [app].
  assert (Htes : (if v11 then @nil str else []) = []) by (destruct v11; reflexivity). rewrite Htes.
  rewrite (go_body_concat_close meth r Hh Ht Hc).
  unfold go_obs, go_trailer_fields. rewrite Ht. reflexivity.
Qed.

(* ------------------------------------------------------------------ writeHeaderOnlyResponse *)
(* facts about the source, discharged in Obligations.v *)
Definition ho_shape_ok : Prop :=
  status_format_known = true /\ ho_uses_header_write = true /\
  ho_trailer_prefix = b "Trailer: " /\ ho_trailer_sep = b ", " /\
  ho_trailer_suffix = [crlf] /\ ho_tail = [crlf].

Definition ho_trailer_field (order : list str) : list (str * str) :=
  match order with [] => [] | _ => [(b "Trailer", join (b ", ") order)] end.
Definition ho_fields (r : resp) (order : list str) : list (str * str) :=
  header_fields [] (r_hdr r) ++ ho_trailer_field order.
Definition ho_obs (r : resp) (order : list str) : obs :=
  mkObs (r_major r) (r_minor r) (r_code r) (reason_text r) (map trimf (ho_fields r order)) [] [].

Lemma sep_keys_concat first order :
  concat (sep_keys first order) =
  match order with [] => [] | _ => (if first then [] else ho_trailer_sep) ++ join ho_trailer_sep order end.
Proof.
  revert first. induction order as [|k ks IH]; intro first; [reflexivity|].
  cbn [sep_keys]. rewrite concat_app, IH. destruct first; cbn [concat app]; rewrite ?app_nil_r.
  - destruct ks; [rewrite app_nil_r; reflexivity | reflexivity].
  - destruct ks; [rewrite !app_nil_r; reflexivity|]. cbn [join app]. rewrite <- !app_assoc. reflexivity.
Qed.

Lemma ho_wire_eq r order : ho_shape_ok ->
  concat (header_only_writes r order) =
  status_line r ++ concat (map field_bytes (ho_fields r order)) ++ crlf ++ [].
Proof.
  intros (Hf & Hw & Hp & Hs & Hx & Ht). unfold header_only_writes, ho_fields. rewrite Hf, Hw, Ht.
  rewrite !concat_app, map_app, concat_app. unfold header_writes. rewrite flat_field_writes.
  cbn [concat]. rewrite !app_nil_r, <- !app_assoc. do 2 f_equal.
  unfold ho_trailer_writes, ho_trailer_field. destruct order as [|k ks]; [reflexivity|].
  cbn [concat]. rewrite concat_app, sep_keys_concat, Hp, Hs, Hx.
  cbn [map concat]. unfold field_bytes. cbn [fst snd]. rewrite ?app_nil_r.
  change (b "Trailer: ") with (b "Trailer" ++ [58; 32]). rewrite <- !app_assoc. reflexivity.
Qed.

Lemma ho_fields_clean r order :
  forallb is_token order = true -> forallb clean (ho_fields r order) = true.
Proof.
  intro Ho. unfold ho_fields. rewrite forallb_app, header_fields_clean. cbn [andb].
  unfold ho_trailer_field. destruct order as [|k ks] eqn:E; [reflexivity|]. rewrite <- E in *.
  cbn [forallb]. rewrite andb_true_r. unfold clean. cbn [fst snd]. apply andb_true_iff. split; [reflexivity|].
  apply nocrlf_join; [reflexivity|].
  rewrite forallb_forall in Ho |- *. intros x Hx. destruct (is_token_chars x (Ho x Hx)) as [Hc _].
  apply token_nocrlf, Hc.
Qed.

Theorem ho_roundtrip v11 meth r order rest :
  ho_shape_ok -> nocrlf_status r = true -> forallb is_token order = true ->
  rfc_no_body meth (r_code r) = true ->
  client_parse v11 meth (concat (header_only_writes r order) ++ rest) = Some (ho_obs r order, rest).
Proof.
  intros Hsh Hst Ho Hnb. rewrite (ho_wire_eq r order Hsh), app_nil_r, <- !app_assoc.
  rewrite (client_head v11 meth r (ho_fields r order) rest Hst (ho_fields_clean r order Ho)).
  unfold client_body. rewrite Hnb. reflexivity.
Qed.

(* ------------------------------------------------------------------ the CONNECT literal *)
Definition connect_obs : obs := mkObs 1 1 200 (b "OK") [] [] [].
Theorem connect_roundtrip v11 rest :
  connect_ok_literal = b "HTTP/1.1 200 OK" ++ crlf ++ crlf ->
  client_parse v11 (b "CONNECT") (connect_ok_literal ++ rest) = Some (connect_obs, rest).
Proof.
  intros ->.
  change ((b "HTTP/1.1 200 OK" ++ crlf ++ crlf) ++ rest) with (b "HTTP/1.1 200 OK" ++ crlf ++ (crlf ++ rest)).
  unfold client_parse. rewrite (take_line_app (b "HTTP/1.1 200 OK") _ eq_refl).
  change (parse_status_line (b "HTTP/1.1 200 OK")) with (Some (1, 1, 200, b "OK")). cbv iota beta.
  cbn [parse_fields]. change (take_line (crlf ++ rest)) with (Some (@nil N, rest)). cbv iota beta.
  reflexivity.
Qed.

(* the write sequence of an unchunked body of unknown length: a head that ends with the
   CRLF write, then one write per non-empty read *)
Lemma go_writes_unchunked_shape meth r :
  g_head (go_state meth r) = false -> g_te (go_state meth r) = false -> (g_cl (go_state meth r) =? -1)%Z = true ->
  exists h, go_writes meth r = (h ++ [crlf]) ++ reads_of r /\ Forall (fun y => y <> []) (reads_of r).
Proof.
  intros Hh Ht Hc. unfold go_writes, go_head_writes, go_body_writes. cbv zeta. rewrite Hh, Ht, Hc, app_nil_r.
  eexists. split; [rewrite !app_assoc; reflexivity|].
  unfold reads_of. apply Forall_forall. intros y Hy. apply filter_In in Hy as [_ Hy]. destruct y; [discriminate | discriminate].
Qed.
