(* C02 — the pattern flush writer as an automaton over a list of writes.
   Facts about the source (which checks the Write method performs, which
   patterns are configured) are hypotheses here; Obligations.v discharges them
   against the regenerated Tables.v. *)
From G02 Require Import RespFraming.
Open Scope N_scope.

(* an occurrence of one of the patterns in the stream  pre ++ w  whose last byte lies in w *)
Definition occurs_ending_in (pats : list pat) (pre w : str) : Prop :=
  exists p a c, In p pats /\ pre ++ w = a ++ [fst p; snd p] ++ c /\ (length c < length w)%nat.

Lemma has_pat_spec p w : has_pat p w = true <-> exists a c, w = a ++ [fst p; snd p] ++ c.
Proof.
  induction w as [|x w IH]; simpl.
  - split; [discriminate|]. intros (a & c & H). destruct a; discriminate.
  - rewrite orb_true_iff, IH. split.
    + intros [H | (a & c & ->)].
      * destruct w as [|y w']; [discriminate|].
        apply andb_true_iff in H as [H1 H2]. apply N.eqb_eq in H1, H2. subst.
        exists [], w'. reflexivity.
      * exists (x :: a), c. reflexivity.
    + intros (a & c & H). destruct a as [|x' a].
      * simpl in H. inversion H; subst. left. rewrite !N.eqb_refl. reflexivity.
      * simpl in H. inversion H; subst. right. exists a, c. reflexivity.
Qed.

Lemma last_byte_app_nonempty pre w : w <> [] -> last_byte (pre ++ w) = last_byte w.
Proof.
  intro H. destruct (exists_last H) as (w' & x & ->). unfold last_byte.
  rewrite app_assoc, !last_last. reflexivity.
Qed.

Lemma last_byte_snoc pre x : last_byte (pre ++ [x]) = x.
Proof. unfold last_byte. apply last_last. Qed.

(* the state (w.last) matches the bytes written so far *)
Definition state_of (pre : str) (lastb : N) : Prop :=
  (pre = [] /\ lastb = 0) \/ (pre <> [] /\ lastb = last_byte pre).

Section Flush.
  Hypothesis Hstraddle : flush_straddle_check = true.
  Hypothesis Hcontains : flush_contains_check = true.

  Lemma flush_hit_iff pre lastb w p :
    state_of pre lastb -> fst p <> 0 ->
    flush_hit lastb w p = true <->
    exists a c, pre ++ w = a ++ [fst p; snd p] ++ c /\ (length c < length w)%nat.
  Proof.
    intros Hst Hnz. unfold flush_hit. rewrite Hstraddle, Hcontains. simpl.
    rewrite orb_true_iff, andb_true_iff, N.eqb_eq, has_pat_spec. split.
    - intros [[Hl Hf] | (a & c & ->)].
      + destruct w as [|y w']; [discriminate|]. simpl in Hf. apply N.eqb_eq in Hf. subst y.
        destruct Hst as [[-> ->] | [Hne ->]]; [congruence|].
        destruct (exists_last Hne) as (pre' & x & ->). rewrite last_byte_snoc in Hl. subst x.
        exists pre', w'. split; [rewrite <- (app_assoc pre' [fst p]); reflexivity | simpl; lia].
      + exists (pre ++ a), c. split; [rewrite <- (app_assoc pre a); reflexivity|].
        rewrite !app_length. simpl. lia.
    - intros (a & c & Heq & Hlen).
      apply app_eq_app in Heq as (l & [[-> Hc] | [-> Hw]]).
      + (* pre = a ++ l : the occurrence starts inside pre *)
        destruct l as [|x l].
        * right. exists [], c. simpl in Hc. symmetry. exact Hc.
        * simpl in Hc. inversion Hc as [[Hx Hc']]. subst x.
          destruct l as [|y l].
          -- left. simpl in Hc'. destruct w as [|y w']; [simpl in Hlen; lia|].
             inversion Hc'; subst. split; [|simpl; apply N.eqb_refl].
             destruct Hst as [[He _] | [_ ->]]; [destruct a; discriminate|].
             rewrite last_byte_snoc. reflexivity.
          -- exfalso. simpl in Hc'. inversion Hc' as [[Hy Hc'']]. subst.
             rewrite app_length in Hlen. lia.
      + right. exists l, c. exact Hw.
  Qed.

  Lemma flush_step_iff pats pre lastb w :
    state_of pre lastb -> Forall (fun p => fst p <> 0) pats ->
    fst (flush_step pats lastb w) = true <-> occurs_ending_in pats pre w.
  Proof.
    intros Hst Hnz. unfold flush_step, occurs_ending_in. simpl. rewrite existsb_exists. split.
    - intros (p & Hin & Hh). rewrite Forall_forall in Hnz.
      apply (flush_hit_iff pre lastb w p Hst (Hnz p Hin)) in Hh as (a & c & H1 & H2).
      exists p, a, c. auto.
    - intros (p & a & c & Hin & H1 & H2). exists p. split; [exact Hin|]. rewrite Forall_forall in Hnz.
      apply (flush_hit_iff pre lastb w p Hst (Hnz p Hin)). exists a, c. auto.
  Qed.
End Flush.

Lemma state_step pats pre lastb w :
  state_of pre lastb -> w <> [] -> state_of (pre ++ w) (snd (flush_step pats lastb w)).
Proof.
  intros _ Hne. right. split.
  - destruct pre; [exact Hne | discriminate].
  - unfold flush_step. simpl. destruct w as [|x w']; [congruence|].
    symmetry. apply last_byte_app_nonempty. discriminate.
Qed.

Lemma state_step_any pats lastb w : w <> [] -> state_of w (snd (flush_step pats lastb w)).
Proof.
  intro Hne. right. split; [exact Hne|]. unfold flush_step. cbn [snd]. destruct w; [congruence | reflexivity].
Qed.

(* the flag of write w after the writes ws1 *)
Lemma flush_run_nth pats lastb ws1 w ws2 :
  nth_error (flush_run pats lastb (ws1 ++ w :: ws2)) (length ws1) =
  Some (fst (flush_step pats (fold_left (fun l x => snd (flush_step pats l x)) ws1 lastb) w)).
Proof.
  revert lastb. induction ws1 as [|x ws1 IH]; intro lastb; simpl.
  - destruct (flush_step pats lastb w). reflexivity.
  - destruct (flush_step pats lastb x) eqn:E. simpl.
    replace n with (snd (flush_step pats lastb x)) by (rewrite E; reflexivity). apply IH.
Qed.

Lemma state_after pats pre lastb ws1 :
  state_of pre lastb -> Forall (fun x => x <> []) ws1 ->
  state_of (pre ++ concat ws1) (fold_left (fun l x => snd (flush_step pats l x)) ws1 lastb).
Proof.
  revert pre lastb. induction ws1 as [|x ws1 IH]; intros pre lastb Hst Hne; simpl.
  - rewrite app_nil_r. exact Hst.
  - inversion Hne; subst. rewrite app_assoc. apply IH; [|assumption].
    apply (state_step pats pre lastb x); assumption.
Qed.

(* T02_flush_iff_boundary *)
Theorem flush_iff_boundary :
  flush_straddle_check = true -> flush_contains_check = true ->
  forall pats ws1 w ws2,
    Forall (fun p => fst p <> 0) pats -> Forall (fun x => x <> []) ws1 ->
    (nth_error (flush_flags pats (ws1 ++ w :: ws2)) (length ws1) = Some true <->
     occurs_ending_in pats (concat ws1) w).
Proof.
  intros Hs Hc pats ws1 w ws2 Hnz Hne. unfold flush_flags. rewrite flush_run_nth.
  assert (Hst : state_of ([] ++ concat ws1) (fold_left (fun l x => snd (flush_step pats l x)) ws1 0)).
  { apply state_after; [left; auto | exact Hne]. }
  change ([] ++ concat ws1) with (concat ws1) in Hst. rewrite <- (flush_step_iff Hs Hc pats _ _ w Hst Hnz).
  split; [intro H; inversion H; reflexivity | intros ->; reflexivity].
Qed.

(* an event of an event stream is complete when the empty line after it is:
   LF LF, CR CR or CRLF CRLF *)
Definition event_terminators : list str := [[10; 10]; [13; 13]; [13; 10; 13; 10]].

(* T02_event_delivered *)
Theorem event_delivered :
  flush_straddle_check = true -> flush_contains_check = true ->
  forall pats, In (10, 10) pats -> In (13, 13) pats -> In (13, 10) pats ->
  Forall (fun p => fst p <> 0) pats ->
  forall ws1 w ws2 t a c,
    In t event_terminators -> Forall (fun x => x <> []) ws1 ->
    concat ws1 ++ w = a ++ t ++ c -> (length c < length w)%nat ->
    nth_error (flush_flags pats (ws1 ++ w :: ws2)) (length ws1) = Some true.
Proof.
  intros Hs Hc pats H1 H2 H3 Hnz ws1 w ws2 t a c Ht Hne Heq Hlen.
  apply (flush_iff_boundary Hs Hc); [exact Hnz | exact Hne |].
  simpl in Ht. destruct Ht as [<- | [<- | [<- | []]]].
  - exists (10, 10), a, c. auto.
  - exists (13, 13), a, c. auto.
  - exists (13, 10), (a ++ [13; 10]), c. split; [exact H3|]. split; [|exact Hlen].
    rewrite Heq, <- app_assoc. reflexivity.
Qed.

(* T02_chunk_delivered: the chunked writer issues three writes per chunk (size line,
   data, CRLF); whatever was written before, the third one flushes *)
Theorem chunk_delivered :
  flush_contains_check = true ->
  forall pats, In (13, 10) pats ->
  forall ws1 d ws2,
    nth_error (flush_flags pats (ws1 ++ chunk_writes d ++ ws2)) (length ws1 + 2) = Some true.
Proof.
  intros Hc pats Hin ws1 d ws2. unfold flush_flags, chunk_writes.
  set (a := hex (N.of_nat (length d)) ++ crlf).
  assert (E1 : @app str ws1 (@app str (@cons str a (@cons str d (@cons str crlf (@nil str)))) ws2) =
               @app str (@app str ws1 (@cons str a (@cons str d (@nil str)))) (@cons str crlf ws2))
    by (rewrite <- app_assoc; reflexivity).
  assert (E2 : (length ws1 + 2)%nat = length (@app str ws1 (@cons str a (@cons str d (@nil str)))))
    by (rewrite app_length; reflexivity).
  change (list N) with str in *.
  rewrite E1, E2, flush_run_nth. f_equal. unfold flush_step. simpl.
  apply existsb_exists. exists (13, 10). split; [exact Hin|].
  unfold flush_hit. rewrite Hc. simpl. apply orb_true_r.
Qed.

(* the quirk that makes the non-emptiness hypothesis necessary: an empty write
   resets w.last, so a pattern that straddles it is missed *)
Example empty_write_hides_boundary :
  flush_run [(13, 10)] 0 [[13]; []; [10]] = [false; false; false] \/ flush_resets_last_on_empty = false.
Proof.
  destruct flush_resets_last_on_empty eqn:E; [left | right; reflexivity].
  unfold flush_run, flush_step, flush_hit. rewrite E. simpl.
  destruct flush_straddle_check, flush_contains_check; reflexivity.
Qed.

(* http.Handler variant: a body of unknown length is flushed after every read the upstream
   body returned, so every chunk (and every event) the origin has sent is passed on *)
Theorem handler_read_delivered :
  hw_unknown_length_flushes_every_write = true ->
  forall meth r rs1 d rs2, should_chunk meth r = true -> d <> [] ->
    nth_error (handler_flushes meth r (rs1 ++ d :: rs2)) (length rs1) = Some true.
Proof.
  intros Hf meth r rs1 d rs2 Hc Hd. unfold handler_flushes. rewrite Hc, Hf.
  rewrite map_app, nth_error_app2 by (rewrite map_length; lia).
  rewrite map_length, Nat.sub_diag. destruct d; [congruence | reflexivity].
Qed.

(* ------------------------------------------------------------------ after arbitrary earlier writes *)
(* The automaton forgets everything but the last byte: after ANY earlier writes ws0 (empty ones
   included, e.g. the empty value of a header field), once at least one non-empty write has
   followed, flushing is again exactly "a pattern ends inside this write". *)
Lemma state_after_any pats lastb x ws1 :
  x <> [] -> Forall (fun y => y <> []) ws1 ->
  state_of (concat (x :: ws1)) (fold_left (fun l y => snd (flush_step pats l y)) (x :: ws1) lastb).
Proof.
  intros Hx Hne. cbn [fold_left concat].
  apply (state_after pats x (snd (flush_step pats lastb x)) ws1); [|exact Hne].
  exact (state_step_any pats lastb x Hx).
Qed.

Theorem flush_iff_boundary_after :
  flush_straddle_check = true -> flush_contains_check = true ->
  forall pats ws0 x ws1 w ws2,
    Forall (fun p => fst p <> 0) pats -> x <> [] -> Forall (fun y => y <> []) ws1 ->
    (nth_error (flush_flags pats (ws0 ++ (x :: ws1) ++ w :: ws2)) (length ws0 + length (x :: ws1)) = Some true <->
     occurs_ending_in pats (concat (x :: ws1)) w).
Proof.
  intros Hs Hc pats ws0 x ws1 w ws2 Hnz Hx Hne. unfold flush_flags.
  pose proof (flush_run_nth pats 0 (ws0 ++ x :: ws1) w ws2) as Hn.
  rewrite app_length, fold_left_app, <- app_assoc in Hn.
  pose proof (state_after_any pats (fold_left (fun l y => snd (flush_step pats l y)) ws0 0) x ws1 Hx Hne) as Hst.
  pose proof (flush_step_iff Hs Hc pats _ _ w Hst Hnz) as Hiff.
  split.
  - intro H. pose proof (eq_trans (eq_sym Hn) H) as E. inversion E as [E']. apply Hiff. exact E'.
  - intro H. apply Hiff in H. exact (eq_trans Hn (f_equal Some H)).
Qed.

(* An event stream body written by (modelled) Response.Write without chunked coding: the
   writes are the head followed by one write per non-empty read of the body.  Every event
   completed by a read is flushed at that read's write. *)
Theorem sse_body_event_delivered :
  flush_straddle_check = true -> flush_contains_check = true ->
  forall pats, In (10, 10) pats -> In (13, 13) pats -> In (13, 10) pats -> Forall (fun p => fst p <> 0) pats ->
  forall head rs1 d rs2 t a c,
    In t event_terminators -> Forall (fun y => y <> []) rs1 ->
    concat rs1 ++ d = a ++ t ++ c -> (length c < length d)%nat ->
    nth_error (flush_flags pats ((head ++ [crlf]) ++ rs1 ++ d :: rs2)) (length (head ++ [crlf]) + length rs1) = Some true.
Proof.
  intros Hs Hc pats H1 H2 H3 Hnz head rs1 d rs2 t a c Ht Hne Heq Hlen.
  assert (E : (head ++ [crlf]) ++ rs1 ++ d :: rs2 = head ++ (crlf :: rs1) ++ d :: rs2)
    by (rewrite <- !app_assoc; reflexivity).
  assert (E2 : (length (head ++ [crlf]) + length rs1 = length head + length (crlf :: rs1))%nat)
    by (rewrite app_length; cbn [length]; rewrite <- Nat.add_assoc; reflexivity).
  rewrite E, E2.
  apply (flush_iff_boundary_after Hs Hc pats head crlf rs1 d rs2 Hnz ltac:(discriminate) Hne).
  assert (Hq : concat (crlf :: rs1) ++ d = crlf ++ (concat rs1 ++ d))
    by (cbn [concat]; rewrite <- app_assoc; reflexivity).
  simpl in Ht. destruct Ht as [<- | [<- | [<- | []]]].
  - exists (10, 10), (crlf ++ a), c. split; [exact H1|]. split; [|exact Hlen].
    transitivity (crlf ++ (concat rs1 ++ d)); [exact Hq|].
    transitivity (crlf ++ (a ++ [10; 10] ++ c)); [exact (f_equal (app crlf) Heq) | apply app_assoc].
  - exists (13, 13), (crlf ++ a), c. split; [exact H2|]. split; [|exact Hlen].
    transitivity (crlf ++ (concat rs1 ++ d)); [exact Hq|].
    transitivity (crlf ++ (a ++ [13; 13] ++ c)); [exact (f_equal (app crlf) Heq) | apply app_assoc].
  - exists (13, 10), (crlf ++ a ++ [13; 10]), c. split; [exact H3|]. split; [|exact Hlen].
    transitivity (crlf ++ (concat rs1 ++ d)); [exact Hq|].
    transitivity (crlf ++ (a ++ [13; 10; 13; 10] ++ c)); [exact (f_equal (app crlf) Heq)|].
    change [13; 10; 13; 10] with ([13; 10] ++ [13; 10]). rewrite <- !app_assoc. reflexivity.
Qed.

(* ------------------------------------------------------------------ mixed line ends *)
(* an end of line of an event stream *)
Definition eols : list str := [[10]; [13]; [13; 10]].

(* whatever two ends of line make up the empty line, their last two bytes are LF LF, CR CR,
   LF CR or CR LF *)
Lemma blank_line_tail e1 e2 :
  In e1 eols -> In e2 eols ->
  exists p x, In p [(10, 10); (13, 13); (10, 13); (13, 10)] /\ e1 ++ e2 = x ++ [fst p; snd p].
Proof.
  intros H1 H2. simpl in H1, H2.
  destruct H1 as [<- | [<- | [<- | []]]]; destruct H2 as [<- | [<- | [<- | []]]].
  - exists (10, 10), []. simpl. auto.
  - exists (10, 13), []. simpl. auto.
  - exists (13, 10), [10]. simpl. auto 6.
  - exists (13, 10), []. simpl. auto 6.
  - exists (13, 13), []. simpl. auto.
  - exists (13, 10), [13]. simpl. auto 6.
  - exists (10, 10), [13]. simpl. auto.
  - exists (10, 13), [13]. simpl. auto.
  - exists (13, 10), [13; 10]. simpl. auto 6.
Qed.

(* T02_blank_line_delivered: the write in which an empty line (any mixture of LF, CR, CRLF)
   is completed flushes; completed = its last byte is in the write, which for a final CR is
   the CR itself (a parser that takes CR as an end of line at once needs no later byte) *)
Theorem blank_line_delivered :
  flush_straddle_check = true -> flush_contains_check = true ->
  forall pats, In (10, 10) pats -> In (13, 13) pats -> In (10, 13) pats -> In (13, 10) pats ->
  Forall (fun p => fst p <> 0) pats ->
  forall ws0 x ws1 w ws2 e1 e2 a c,
    In e1 eols -> In e2 eols -> x <> [] -> Forall (fun y => y <> []) ws1 ->
    concat (x :: ws1) ++ w = a ++ (e1 ++ e2) ++ c -> (length c < length w)%nat ->
    nth_error (flush_flags pats (ws0 ++ (x :: ws1) ++ w :: ws2)) (length ws0 + length (x :: ws1)) = Some true.
Proof.
  intros Hs Hc pats P1 P2 P3 P4 Hnz ws0 x ws1 w ws2 e1 e2 a c H1 H2 Hx Hne Heq Hlen.
  apply (flush_iff_boundary_after Hs Hc pats ws0 x ws1 w ws2 Hnz Hx Hne).
  destruct (blank_line_tail e1 e2 H1 H2) as (p & y & Hp & Ht).
  exists p, (a ++ y), c. split.
  - simpl in Hp. destruct Hp as [<- | [<- | [<- | [<- | []]]]]; assumption.
  - split; [|exact Hlen]. transitivity (a ++ (e1 ++ e2) ++ c); [exact Heq|]. rewrite Ht, <- !app_assoc. reflexivity.
Qed.
