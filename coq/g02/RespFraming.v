(* C02 — RespFraming: executable model of how a response is framed and flushed
   on its way to the client.  No proofs here.

   Transcribed from /repo (martian):
     flush.go        shouldChunk, isHeaderOnlySpec, isTextEventStream, patternFlushWriter.Write
     proxy_conn.go   writeResponse (close decision, choice of writer), writeHeaderOnlyResponse
     proxy_connect.go  connectOKResponse literal
     proxy.go        roundTrip: body of a header-only response is discarded
     header/hopbyhop_modifier.go  removeHopByHopHeaders
   MODELLED from the Go standard library (not part of /repo, trusted transcription,
   validated by the differential run): net/http Response.Write with its
   transferWriter (framing headers, chunked writer write sequence, trailers),
   Header.Write (sorted keys, value sanitising, invalid names skipped),
   http.StatusText, httpguts hasToken, mime.ParseMediaType on the base type.

   A response is given as the record the proxy holds after the transport has
   read the head (resp) plus the successive non-empty reads of the body. *)
From FwdLib Require Export Hdr.
From G02 Require Export Tables.
Open Scope N_scope.

Definition crlf : str := [13; 10].
Definition pat := (N * N)%type.

(* ------------------------------------------------------------------ data *)
Record req := mkReq {
  q_method : str;          (* req.Method *)
  q_major : N; q_minor : N;(* protocol version of the client's request *)
  q_close : bool }.        (* req.Close as computed by http.ReadRequest *)

Record resp := mkResp {
  r_major : N; r_minor : N;    (* res.ProtoMajor / ProtoMinor *)
  r_code : N;                  (* res.StatusCode *)
  r_status : str;              (* res.Status, e.g. "200 OK" *)
  r_hdr : hmap;                (* res.Header when writeResponse is entered *)
  r_cl : Z;                    (* res.ContentLength, -1 = unknown *)
  r_chunked : bool;            (* chunked(res.TransferEncoding) *)
  r_trailer : hmap;            (* res.Trailer: declared keys, values as known after the body *)
  r_body : list str;           (* successive reads of res.Body *)
  r_close : bool;              (* res.Close as set by the transport *)
  r_uncompressed : bool;       (* res.Uncompressed: transport undid a gzip it had solicited *)
  r_late : hmap }.             (* trailer fields the origin sent without declaring them in Trailer *)

Definition set_hdr (r : resp) (h : hmap) : resp :=
  mkResp (r_major r) (r_minor r) (r_code r) (r_status r) h (r_cl r) (r_chunked r)
         (r_trailer r) (r_body r) (r_close r) (r_uncompressed r) (r_late r).
Definition set_close (r : resp) (c : bool) : resp :=
  mkResp (r_major r) (r_minor r) (r_code r) (r_status r) (r_hdr r) (r_cl r) (r_chunked r)
         (r_trailer r) (r_body r) c (r_uncompressed r) (r_late r).
Definition set_chunked (r : resp) (c : bool) : resp :=
  mkResp (r_major r) (r_minor r) (r_code r) (r_status r) (r_hdr r) (r_cl r) c
         (r_trailer r) (r_body r) (r_close r) (r_uncompressed r) (r_late r).
Definition set_body (r : resp) (bd : list str) : resp :=
  mkResp (r_major r) (r_minor r) (r_code r) (r_status r) (r_hdr r) (r_cl r) (r_chunked r)
         (r_trailer r) bd (r_close r) (r_uncompressed r) (r_late r).

Definition nonempty (s : str) : bool := match s with [] => false | _ => true end.
Definition reads_of (r : resp) : list str := filter nonempty (r_body r).
Definition body_bytes (r : resp) : str := concat (r_body r).

(* ------------------------------------------------------------------ numbers *)
(* decimal / hexadecimal numerals, least significant digit first, then reversed *)
Definition hexc (d : N) : N := if d <? 10 then 48 + d else 87 + d.   (* lower case, fmt %x *)
Fixpoint digits_rev (base : N) (dig : N -> N) (fuel : nat) (n : N) : str :=
  match fuel with
  | O => []
  | S f => dig (n mod base) :: (if n / base =? 0 then [] else digits_rev base dig f (n / base))
  end.
Definition dec (n : N) : str := rev (digits_rev 10 (fun d => 48 + d) (S (N.to_nat (N.size n))) n).
Definition hex (n : N) : str := rev (digits_rev 16 hexc (S (N.to_nat (N.size n))) n).
(* fmt %03d on a non-negative number *)
Definition pad3 (n : N) : str :=
  if n <? 10 then 48 :: 48 :: dec n else if n <? 100 then 48 :: dec n else dec n.
(* strconv.FormatInt base 10 *)
Definition decz (z : Z) : str := if (z <? 0)%Z then 45 :: dec (Z.to_N (- z)) else dec (Z.to_N z).

(* ------------------------------------------------------------------ header-only classification (flush.go) *)
Definition is_header_only (meth : str) (code : N) : bool :=
  existsb (str_eqb meth) ho_methods ||
  existsb (N.eqb (code / 100)) ho_status_classes ||
  existsb (N.eqb code) ho_status_codes.

Definition should_chunk (meth : str) (r : resp) : bool :=
  (r_major r =? sc_proto_major) && (r_minor r =? sc_proto_minor) &&
  (r_cl r =? sc_unknown_length)%Z &&
  (if sc_negates_header_only then negb (is_header_only meth (r_code r)) else true).

(* isTextEventStream: base media type of the first Content-Type value
   (mime.ParseMediaType: text before the first ';', lower-cased, space-trimmed). *)
Definition before_semi (s : str) : str :=
  match cut_byte 59 s with Some (x, _) => x | None => s end.
Definition is_sse (h : hmap) : bool :=
  str_eqb (trim_space (lower (before_semi (h_get (b "Content-Type") h)))) (b "text/event-stream").

(* ------------------------------------------------------------------ patternFlushWriter (flush.go) *)
Fixpoint has_pat (p : pat) (s : str) : bool :=
  match s with
  | a :: r => (match r with c :: _ => (a =? fst p) && (c =? snd p) | [] => false end) || has_pat p r
  | [] => false
  end.
Definition first_is (c : N) (s : str) : bool := match s with d :: _ => d =? c | [] => false end.
Definition last_byte (s : str) : N := last s 0.

(* one Write(p): does it flush, and the new value of w.last *)
Definition flush_hit (last : N) (w : str) (p : pat) : bool :=
  (flush_straddle_check && (last =? fst p) && first_is (snd p) w) ||
  (flush_contains_check && has_pat p w).
Definition flush_step (pats : list pat) (last : N) (w : str) : bool * N :=
  (existsb (flush_hit last w) pats,
   match w with [] => (if flush_resets_last_on_empty then 0 else last) | _ => last_byte w end).
Fixpoint flush_run (pats : list pat) (last : N) (ws : list str) : list bool :=
  match ws with
  | [] => []
  | w :: r => let (f, l) := flush_step pats last w in f :: flush_run pats l r
  end.
Definition flush_flags (pats : list pat) (ws : list str) : list bool := flush_run pats 0 ws.

(* ------------------------------------------------------------------ status line *)
(* http.StatusText (Go 1.23) *)
Definition status_text_table : list (N * string) :=
  [(100, "Continue"); (101, "Switching Protocols"); (102, "Processing"); (103, "Early Hints");
   (200, "OK"); (201, "Created"); (202, "Accepted"); (203, "Non-Authoritative Information");
   (204, "No Content"); (205, "Reset Content"); (206, "Partial Content"); (207, "Multi-Status");
   (208, "Already Reported"); (226, "IM Used");
   (300, "Multiple Choices"); (301, "Moved Permanently"); (302, "Found"); (303, "See Other");
   (304, "Not Modified"); (305, "Use Proxy"); (307, "Temporary Redirect"); (308, "Permanent Redirect");
   (400, "Bad Request"); (401, "Unauthorized"); (402, "Payment Required"); (403, "Forbidden");
   (404, "Not Found"); (405, "Method Not Allowed"); (406, "Not Acceptable");
   (407, "Proxy Authentication Required"); (408, "Request Timeout"); (409, "Conflict"); (410, "Gone");
   (411, "Length Required"); (412, "Precondition Failed"); (413, "Request Entity Too Large");
   (414, "Request URI Too Long"); (415, "Unsupported Media Type");
   (416, "Requested Range Not Satisfiable"); (417, "Expectation Failed"); (418, "I'm a teapot");
   (421, "Misdirected Request"); (422, "Unprocessable Entity"); (423, "Locked");
   (424, "Failed Dependency"); (425, "Too Early"); (426, "Upgrade Required");
   (428, "Precondition Required"); (429, "Too Many Requests");
   (431, "Request Header Fields Too Large"); (451, "Unavailable For Legal Reasons");
   (500, "Internal Server Error"); (501, "Not Implemented"); (502, "Bad Gateway");
   (503, "Service Unavailable"); (504, "Gateway Timeout"); (505, "HTTP Version Not Supported");
   (506, "Variant Also Negotiates"); (507, "Insufficient Storage"); (508, "Loop Detected");
   (510, "Not Extended"); (511, "Network Authentication Required")]%string.
Fixpoint status_text_in (t : list (N * string)) (code : N) : str :=
  match t with
  | [] => []
  | (c, s) :: r => if c =? code then b s else status_text_in r code
  end.
Definition status_text := status_text_in status_text_table.

Definition trim_prefix (p s : str) : str := if has_prefix s p then skipn (length p) s else s.

(* the "text" both writeHeaderOnlyResponse and Response.Write compute *)
Definition reason_text (r : resp) : str :=
  match r_status r with
  | [] => match status_text (r_code r) with
          | [] => b "status code " ++ dec (r_code r)
          | t => t
          end
  | st => trim_prefix (dec (r_code r) ++ [32]) st
  end.

Definition status_format_known : bool := str_eqb ho_status_format (b "HTTP/%d.%d %03d %s" ++ crlf).
(* fmt.Fprintf(w, "HTTP/%d.%d %03d %s\r\n", major, minor, code, text): one write *)
Definition status_line (r : resp) : str :=
  b "HTTP/" ++ dec (r_major r) ++ [46] ++ dec (r_minor r) ++ [32] ++ pad3 (r_code r) ++ [32] ++
  reason_text r ++ crlf.

(* ------------------------------------------------------------------ http.Header.Write *)
Definition nl_to_space (c : N) : N := if (c =? 10) || (c =? 13) then 32 else c.
Definition is_ows (c : N) : bool := (c =? 32) || (c =? 9).
Fixpoint trim_ows_left (s : str) : str :=
  match s with
  | c :: r => if is_ows c then trim_ows_left r else s
  | [] => []
  end.
(* reversal by accumulation: List.rev is quadratic, and header values may be tens of kilobytes long *)
Definition frev (s : str) : str := rev_append s [].
Definition trim_ows (s : str) : str := frev (trim_ows_left (frev (trim_ows_left s))).
(* headerNewlineToSpace.Replace + textproto.TrimString *)
Definition sanitize (v : str) : str := trim_ows (map nl_to_space v).

Fixpoint str_ltb (x y : str) : bool :=
  match x, y with
  | _, [] => false
  | [], _ :: _ => true
  | a :: x', c :: y' => (a <? c) || ((a =? c) && str_ltb x' y')
  end.
Fixpoint insert_kv (kv : str * list str) (l : hmap) : hmap :=
  match l with
  | [] => [kv]
  | kv' :: r => if str_ltb (fst kv) (fst kv') then kv :: l else kv' :: insert_kv kv r
  end.
Definition sort_hmap (h : hmap) : hmap := fold_right insert_kv [] h.

(* the (name, value) lines Header.WriteSubset emits: keys sorted, invalid field
   names and excluded keys skipped, each value on its own line, sanitised *)
Definition written_key (excl : list str) (k : str) : bool :=
  is_token k && negb (existsb (str_eqb k) excl).
Definition header_fields (excl : list str) (h : hmap) : list (str * str) :=
  flat_map (fun kv => if written_key excl (fst kv)
                      then map (fun v => (fst kv, sanitize v)) (snd kv) else [])
           (sort_hmap h).
(* one field is four writes: name, ": ", value, CRLF *)
Definition field_writes (f : str * str) : list str := [fst f; [58; 32]; snd f; crlf].
Definition field_bytes (f : str * str) : str := fst f ++ [58; 32] ++ snd f ++ crlf.
Definition header_writes (excl : list str) (h : hmap) : list str :=
  flat_map field_writes (header_fields excl h).

(* ------------------------------------------------------------------ writeHeaderOnlyResponse (proxy_conn.go) *)
(* order = the order in which maps.Keys(res.Trailer) yields the declared keys (Go map order) *)
Fixpoint sep_keys (first : bool) (keys : list str) : list str :=
  match keys with
  | [] => []
  | k :: r => (if first then [k] else [ho_trailer_sep; k]) ++ sep_keys false r
  end.
Definition ho_trailer_writes (order : list str) : list str :=
  match order with
  | [] => []
  | _ => ho_trailer_prefix :: sep_keys true order ++ ho_trailer_suffix
  end.
Definition header_only_writes (r : resp) (order : list str) : list str :=
  (if status_format_known then [status_line r] else []) ++
  (if ho_uses_header_write then header_writes [] (r_hdr r) else []) ++
  ho_trailer_writes order ++ ho_tail.

(* ------------------------------------------------------------------ MODELLED: net/http Response.Write *)
Definition proto_at_least_11 (major minor : N) : bool := (1 <? major) || ((major =? 1) && (1 <=? minor)).

Definition is_tok_boundary (c : N) : bool := (c =? 32) || (c =? 44) || (c =? 9).
Fixpoint has_token_from (prev_ok : bool) (v tok : str) : bool :=
  match v with
  | [] => false
  | c :: r =>
      (prev_ok && (length tok <=? length v)%nat && eq_fold (firstn (length tok) v) tok &&
       match skipn (length tok) v with [] => true | d :: _ => is_tok_boundary d end)
      || has_token_from (is_tok_boundary c) r tok
  end.
Definition has_token (v tok : str) : bool := has_token_from true v tok.

Definition resp_exclude : list str := [b "Content-Length"; b "Transfer-Encoding"; b "Trailer"].
Definition body_allowed_for_status (code : N) : bool :=
  negb (((100 <=? code) && (code <=? 199)) || (code =? 204) || (code =? 304)).

Record gostate := mkGo {
  g_head : bool;        (* ResponseToHEAD *)
  g_te : bool;          (* chunked(t.TransferEncoding) after sanitising *)
  g_cl : Z;             (* t.ContentLength after sanitising *)
  g_close : bool;       (* r1.Close *)
  g_cl1 : Z;            (* r1.ContentLength *)
  g_send_cl : bool }.   (* shouldSendContentLength *)

Definition go_state (meth : str) (r : resp) : gostate :=
  let cl1 := if (r_cl r =? 0)%Z then (if nonempty (concat (reads_of r)) then (-1)%Z else 0%Z) else r_cl r in
  let at11 := proto_at_least_11 (r_major r) (r_minor r) in
  let close1 := r_close r || ((cl1 =? -1)%Z && at11 && negb (r_chunked r) && negb (r_uncompressed r)) in
  let hd := str_eqb meth (b "HEAD") in
  let te := if hd then r_chunked r else at11 && r_chunked r in
  let tcl := if te then (-1)%Z else cl1 in
  let send := if te then false
              else if (0 <? tcl)%Z then true
              else if (tcl <? 0)%Z then false
              else existsb (str_eqb meth) [b "POST"; b "PUT"; b "PATCH"] in
  mkGo hd te tcl close1 cl1 send.

Fixpoint limit_reads (n : nat) (reads : list str) {struct reads} : list str :=
  match n with
  | O => []
  | _ => match reads with
         | [] => []
         | d :: rest => if (length d <=? n)%nat then d :: limit_reads (n - length d) rest
                        else [firstn n d]
         end
  end.

(* chunkedWriter.Write: three writes per non-empty read *)
Definition chunk_writes (d : str) : list str := [hex (N.of_nat (length d)) ++ crlf; d; crlf].

(* res.Trailer when the body has been read: the transport merges undeclared trailer fields into
   the map iff the map exists (some trailer was declared); Response.Write announced only the
   declared keys in the Trailer field but writes the whole map after the last chunk.  With no
   declared trailer the undeclared ones are dropped. *)
Definition final_trailer (r : resp) : hmap :=
  match r_trailer r with [] => [] | t => t ++ r_late r end.

Definition go_trailer_keys (t : hmap) : list str := map (fun kv => canon (fst kv)) (sort_hmap t).

Definition go_head_writes (meth : str) (r : resp) : list str :=
  let g := go_state meth r in
  [status_line r] ++
  (if g_close g && negb (has_token (h_get (b "Connection") (r_hdr r)) (b "close"))
   then [b "Connection: close" ++ crlf] else []) ++
  (if g_send_cl g then [b "Content-Length: "; decz (g_cl g) ++ crlf]
   else if g_te g then [b "Transfer-Encoding: chunked" ++ crlf] else []) ++
  (if g_te g then match go_trailer_keys (r_trailer r) with
                  | [] => []
                  | ks => [b "Trailer: " ++ join [44] ks ++ crlf]
                  end else []) ++
  header_writes resp_exclude (r_hdr r) ++
  (if (g_cl1 g =? 0)%Z && negb (r_chunked r) && negb (g_send_cl g) && body_allowed_for_status (r_code r)
   then [b "Content-Length: 0" ++ crlf] else []) ++
  [crlf].

Definition go_body_writes (meth : str) (r : resp) : list str :=
  let g := go_state meth r in
  (if g_head g then []
   else if g_te g then flat_map chunk_writes (reads_of r) ++ [b "0" ++ crlf]
   else if (g_cl g =? -1)%Z then reads_of r
   else limit_reads (Z.to_nat (g_cl g)) (reads_of r)) ++
  (* the undeclared trailer fields join the map when the body is read to its end, which a reply to HEAD never is *)
  (if g_te g then header_writes [] (if g_head g then r_trailer r else final_trailer r) ++ [crlf] else []).

Definition go_writes (meth : str) (r : resp) : list str := go_head_writes meth r ++ go_body_writes meth r.

(* Response.Write returns an error (after having written) when a declared length is not met *)
Definition go_write_ok (meth : str) (r : resp) : bool :=
  let g := go_state meth r in
  g_head g || (g_cl g =? -1)%Z || (Z.of_nat (length (concat (reads_of r))) =? g_cl g)%Z.

(* ------------------------------------------------------------------ removeHopByHopHeaders *)
(* the fields nominated by Connection: each value split at ',', each element trimmed
   (iff the source does) and canonicalised *)
Definition conn_token (t : str) : str := canon (if hbh_trims_connection_token then trim_space t else t).
Definition conn_listed (h : hmap) : list str :=
  flat_map (fun v => map conn_token (split_byte 44 v)) (h_values (b "Connection") h).
Definition remove_hop_by_hop (h : hmap) : hmap :=
  fold_left (fun acc k => h_del k acc) (conn_listed h ++ hop_by_hop) h.

(* ------------------------------------------------------------------ writeResponse (proxy_conn.go) *)
Definition is_connect_ok (q : req) (r : resp) : bool :=
  str_eqb (q_method q) (b "CONNECT") && (r_code r / 100 =? 2).

(* the value res.Close has when the response is written *)
Definition final_close (closing : bool) (q : req) (r : resp) : bool :=
  if closing && wr_close_when_closing then true
  else if is_connect_ok q r && wr_connect_keeps_open then false
  else if (r_code r =? 101) && wr_upgrade_keeps_open then false
  else r_close r || (wr_close_when_req_close && q_close q).

Inductive wkind := WConnectOK | WHeaderOnly | WGo (pats : list pat).

(* roundTrip: the body of a header-only response is replaced by http.NoBody *)
Definition discard_body (q : req) (r : resp) : resp :=
  if rt_discards_header_only_body && is_header_only (q_method q) (r_code r) && negb (r_code r =? 101)
  then set_body r [] else r.

(* repair of responses whose length is unknown and that carry no framing the
   client understands (present in the source iff wr_frames_unknown_length); iff
   wr_reframes_close_delimited a body the upstream delimits by closing is sent chunked too
   (the connection is closed all the same), so that a body cut short stays recognisable *)
Definition reframe (q : req) (r : resp) : resp :=
  if wr_frames_unknown_length && (r_cl r =? -1)%Z && negb (is_header_only (q_method q) (r_code r)) &&
     negb (is_connect_ok q r)
  then
    if negb (proto_at_least_11 (q_major q) (q_minor q)) then set_close (set_chunked r false) true
    else if negb (r_chunked r) && (wr_reframes_close_delimited || negb (r_close r)) then
      (if proto_at_least_11 (r_major r) (r_minor r) then set_chunked r true else set_close r true)
    else r
  else r.

Definition prepare (closing : bool) (q : req) (r : resp) : resp :=
  let r0 := set_close r (final_close closing q r) in
  let r1 := reframe q r0 in
  if r_close r1 && wr_adds_connection_close
  then set_hdr r1 (h_add (b "Connection") (b "close") (r_hdr r1)) else r1.

Definition writer_kind (q : req) (r : resp) : wkind :=
  if is_connect_ok q r then WConnectOK
  else if is_header_only (q_method q) (r_code r) then WHeaderOnly
  else if is_sse (r_hdr r) then WGo sse_flush_patterns
  else if should_chunk (q_method q) r then WGo chunk_flush_patterns
  else WGo [].

(* the writes that reach the connection's bufio.Writer, in order *)
Definition resp_writes (closing : bool) (q : req) (r : resp) (order : list str) : list str :=
  let r' := prepare closing q r in
  match writer_kind q r' with
  | WConnectOK => [connect_ok_literal]
  | WHeaderOnly => header_only_writes r' order
  | WGo _ => go_writes (q_method q) r'
  end.
Definition resp_wire closing q r order : str := concat (resp_writes closing q r order).

(* after which writes the bufio.Writer is flushed by the pattern writer (the
   unconditional Flush at the end of writeResponse comes on top) *)
Definition resp_flushes (closing : bool) (q : req) (r : resp) (order : list str) : list bool :=
  let r' := prepare closing q r in
  match writer_kind q r' with
  | WGo pats => flush_flags pats (go_writes (q_method q) r')
  | _ => map (fun _ => false) (resp_writes closing q r order)
  end.

Definition write_ok (closing : bool) (q : req) (r : resp) : bool :=
  let r' := prepare closing q r in
  match writer_kind q r' with
  | WGo _ => go_write_ok (q_method q) r'
  | _ => true
  end.

(* handle() returns nil (the loop reads the next request) iff: *)
Definition conn_survives (closing : bool) (q : req) (r : resp) : bool :=
  (* a response whose writing failed cannot be completed any more: errClose (iff the source returns it) *)
  (if wr_write_error_closes then write_ok closing q r else true) && negb (r_close (prepare closing q r)) &&
  negb (is_connect_ok q r) (* a successful CONNECT turns the connection into a tunnel *).

(* ------------------------------------------------------------------ http.Handler variant (proxy_handler.go writeResponse) *)
(* there the body is copied DECODED to the server's ResponseWriter, one write per read from
   the upstream body; which writes are followed by a flush of the ResponseWriter: *)
Definition handler_flushes (meth : str) (r : resp) (reads : list str) : list bool :=
  if should_chunk meth r then
    (if hw_unknown_length_flushes_every_write then map nonempty reads else flush_flags chunk_flush_patterns reads)
  else if is_sse (r_hdr r) then flush_flags sse_flush_patterns reads
  else map (fun _ => false) reads.

(* what the http.Handler variant's writeResponse does to the ResponseWriter, call by call:
   copyHeader(rw.Header(), res.Header); addTrailerHeader; WriteHeader(code); Flush;
   one Write per non-empty read (flushes: handler_flushes); after the body the trailers are
   put into the header map — under their own names when exactly the announced ones arrived,
   otherwise all of them under the "Trailer:" prefix *)
Definition copy_header (dst src : hmap) : hmap :=
  fold_left (fun d kv => fold_left (fun d' v => h_add (fst kv) v d') (snd kv) d) src dst.
Definition handler_header (r : resp) (order : list str) : hmap :=
  let h := copy_header [] (r_hdr r) in
  match order with [] => h | _ => h_add (b "Trailer") (join hw_trailer_sep order) h end.
(* res.Trailer after the body has been read: undeclared fields are merged in, or, when nothing was declared, become the map *)
Definition handler_trailer_map (r : resp) : hmap :=
  match r_trailer r with [] => r_late r | t => t ++ r_late r end.
Definition handler_final (r : resp) (order : list str) : hmap :=
  let tm := handler_trailer_map r in
  if (length tm =? length (r_trailer r))%nat then copy_header (handler_header r order) tm
  else copy_header (handler_header r order) (map (fun kv => (hw_trailer_prefix ++ fst kv, snd kv)) tm).

(* when copying the body fails (the origin died mid-body) the handler must panic with
   http.ErrAbortHandler, so that net/http drops the connection instead of finishing the message:
   does the response the client received end like a complete one? *)
Definition handler_finishes_message (copy_failed : bool) : bool :=
  if copy_failed then negb hw_copy_error_aborts else true.

(* the client side of a persistent connection: handle() defers req.Body.Close(), which consumes what is
   left of the request body whether or not a round trip happened (a request the proxy refuses itself —
   407, 403 — is answered without one); the next request head is read from what remains *)
Definition after_exchange (unread_body rest : str) : str :=
  if hd_closes_request_body then rest else unread_body ++ rest.
