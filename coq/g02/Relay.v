(* C02 — incremental delivery as a labelled transition system (executable model, no proofs).

   What lies between "the origin has sent these bytes" and "the bytes are on the client
   connection" while a response body of unknown length is being relayed:

     origin ──arrive──▶ unread data ──Read (any non-empty prefix)──▶ Response.Write's copy loop
        ──one Write per read (or the three writes of a chunk)──▶ patternFlushWriter
        ──Write, then Flush on a pattern──▶ bufio.Writer (p.brw.Writer, some capacity)
        ──conn.Write──▶ client connection

   The schedule (when bytes arrive, how much each Read returns) is not under the proxy's
   control: the LTS takes it as a list of events and the theorems (RelayProofs.v) quantify
   over all of them.  bufio.Writer is MODELLED (Go's bufio.Writer.Write / Flush, no errors);
   `dcases` compare the model with the real bufio.Writer call by call. *)
From G02 Require Import RespFraming.
Open Scope N_scope.

(* ------------------------------------------------------------------ bufio.Writer (modelled) *)
(* bw_conn: the Write calls made on the connection so far, oldest first *)
Record bw := mkBw { bw_buf : str; bw_conn : list str }.
Definition bw_empty : bw := mkBw [] [].

(* func (b *Writer) Flush(): nothing is written when nothing is buffered *)
Definition bw_flush (w : bw) : bw :=
  match bw_buf w with
  | [] => w
  | buf => mkBw [] (bw_conn w ++ [buf])
  end.

(* func (b *Writer) Write(p):
     for len(p) > b.Available() {
       if b.Buffered() == 0 { b.wr.Write(p)  -- large write, empty buffer: directly
       } else { n = copy(b.buf[b.n:], p); b.Flush() }
       p = p[n:] }
     copy(b.buf[b.n:], p)
   After one round of the second branch the buffer is empty, so the loop body runs at most twice. *)
Definition bw_write (cap : nat) (w : bw) (p : str) : bw :=
  let avail := (cap - length (bw_buf w))%nat in
  if (length p <=? avail)%nat then mkBw (bw_buf w ++ p) (bw_conn w)
  else match bw_buf w with
       | [] => mkBw [] (bw_conn w ++ [p])
       | buf =>
           let conn1 := bw_conn w ++ [buf ++ firstn avail p] in
           let p' := skipn avail p in
           if (length p' <=? cap)%nat then mkBw p' conn1 else mkBw [] (conn1 ++ [p'])
       end.

(* ------------------------------------------------------------------ one Write on the pattern writer *)
(* patternFlushWriter.Write: w.w.Write(p) first, then w.f.Flush() if a pattern was seen;
   (flush_after_write, extracted); both w.w and w.f are the connection's bufio.Writer (pinned
   arms of the switch in writeResponse) *)
Definition wstep (cap : nat) (pats : list pat) (s : N * bw) (w : str) : N * bw :=
  let (f, l) := flush_step pats (fst s) w in
  if flush_after_write
  then (l, let b1 := bw_write cap (snd s) w in if f then bw_flush b1 else b1)
  else (l, bw_write cap (if f then bw_flush (snd s) else snd s) w).
Definition wsteps (cap : nat) (pats : list pat) (s : N * bw) (ws : list str) : N * bw :=
  fold_left (wstep cap pats) ws s.

(* ------------------------------------------------------------------ the relay *)
Inductive ev :=
| Arrive (d : str)     (* the origin's bytes d reach the proxy *)
| Read (n : nat).      (* the copy loop's Read returns the first n+1 unread bytes (fewer if fewer
                          are there); with nothing unread it blocks: no step *)

Record rstate := mkRs {
  rs_avail : str;          (* arrived, not yet read *)
  rs_last : N;             (* patternFlushWriter.last *)
  rs_bw : bw;              (* the connection's bufio.Writer and what went to the connection *)
  rs_reads : list str;     (* ghost: the reads so far, oldest first *)
  rs_arrived : str }.      (* ghost: everything that arrived *)

(* the writes one read turns into: itself, or a chunk (modelled chunked writer) *)
Definition read_writes (chunked : bool) (d : str) : list str :=
  if chunked then chunk_writes d else [d].

(* the state when the head has been written (head = the writes of the response head) *)
Definition relay_init (cap : nat) (pats : list pat) (head : list str) : rstate :=
  let s := wsteps cap pats (0, bw_empty) head in
  mkRs [] (fst s) (snd s) [] [].

Definition relay_step (cap : nat) (pats : list pat) (chunked : bool) (s : rstate) (e : ev) : rstate :=
  match e with
  | Arrive d => mkRs (rs_avail s ++ d) (rs_last s) (rs_bw s) (rs_reads s) (rs_arrived s ++ d)
  | Read n =>
      match rs_avail s with
      | [] => s
      | _ =>
          let d := firstn (S n) (rs_avail s) in
          let s' := wsteps cap pats (rs_last s, rs_bw s) (read_writes chunked d) in
          mkRs (skipn (S n) (rs_avail s)) (fst s') (snd s') (rs_reads s ++ [d]) (rs_arrived s)
      end
  end.
Definition relay_run cap pats chunked (s : rstate) (evs : list ev) : rstate :=
  fold_left (relay_step cap pats chunked) evs s.

(* the bytes on the client connection *)
Definition delivered (s : rstate) : str := concat (bw_conn (rs_bw s)).

(* the end of the response: the writes after the body (last chunk, trailers, blank line) and
   the unconditional Flush at the end of writeResponse *)
Definition relay_finish (cap : nat) (pats : list pat) (s : rstate) (tail : list str) : rstate :=
  let s' := wsteps cap pats (rs_last s, rs_bw s) tail in
  mkRs (rs_avail s) (fst s') (bw_flush (snd s')) (rs_reads s) (rs_arrived s).

(* ------------------------------------------------------------------ link to the model of Response.Write *)
(* the writes after the last read (modelled Response.Write): last chunk, trailer section *)
Definition go_tail (meth : str) (r : resp) : list str :=
  if g_te (go_state meth r) then [b "0" ++ crlf] ++ header_writes [] (final_trailer r) ++ [crlf] else [].
(* the schedule in which every read arrives and is read at once *)
Definition seq_schedule (reads : list str) : list ev :=
  flat_map (fun d => [Arrive d; Read (length d - 1)]) reads.
