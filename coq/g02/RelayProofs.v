(* C02 — proofs about the relay LTS (Relay.v): whatever the schedule of arrivals and reads
   and whatever the capacity of the connection's buffer,
     - the client connection carries a prefix of head ++ encoded body, nothing else, in order;
     - (event streams, no chunked coding) every occurrence of a flush pattern that has been
       read — in particular every complete event — is on the connection;
     - (chunked coding to the client) everything that has been read is on the connection as
       complete chunks;
     - at the end everything is on the connection. *)
From G02 Require Import RespFraming Relay FlushProofs.
Open Scope N_scope.

(* ------------------------------------------------------------------ lists *)
Lemma concat_snoc (l : list str) (x : str) : concat (l ++ [x]) = concat l ++ x.
Proof. rewrite concat_app. simpl. rewrite app_nil_r. reflexivity. Qed.

(* x ++ y = u ++ v with y no longer than v: u is a prefix of x *)
Lemma app_eq_prefix (x y u v : str) :
  x ++ y = u ++ v -> (length y <= length v)%nat -> exists r, x = u ++ r /\ v = r ++ y.
Proof.
  intros H Hl. apply app_eq_app in H as (l & [[-> Hy] | [-> Hv]]).
  - exists l. split; [reflexivity | exact Hy].
  - assert (l = []).
    { subst y. rewrite app_length in Hl. destruct l; [reflexivity | simpl in Hl; lia]. }
    subst l. exists []. split; [rewrite !app_nil_r; reflexivity | symmetry; exact Hv].
Qed.

(* ------------------------------------------------------------------ bufio.Writer *)
Definition total (w : bw) : str := concat (bw_conn w) ++ bw_buf w.

(* a Write moves a prefix of buffer ++ p to the connection and keeps the rest: no byte is lost,
   duplicated or reordered, whatever the capacity *)
Lemma bw_write_split cap w p :
  exists m, concat (bw_conn (bw_write cap w p)) = concat (bw_conn w) ++ m /\
            bw_buf w ++ p = m ++ bw_buf (bw_write cap w p).
Proof.
  unfold bw_write. destruct (length p <=? cap - length (bw_buf w))%nat.
  - exists []. simpl. rewrite app_nil_r. auto.
  - destruct (bw_buf w) as [|b0 buf] eqn:Eb.
    + exists p. simpl. rewrite concat_snoc, app_nil_r. auto.
    + set (av := (cap - length (b0 :: buf))%nat).
      destruct (length (skipn av p) <=? cap)%nat; cbn [bw_conn bw_buf].
      * exists ((b0 :: buf) ++ firstn av p). rewrite concat_snoc. split; [reflexivity|].
        rewrite <- app_assoc. f_equal. symmetry. apply firstn_skipn.
      * exists ((b0 :: buf) ++ p). rewrite !concat_snoc, app_nil_r. split; [|reflexivity].
        rewrite <- !app_assoc. do 2 f_equal. apply firstn_skipn.
Qed.

Lemma bw_write_total cap w p : total (bw_write cap w p) = total w ++ p.
Proof.
  destruct (bw_write_split cap w p) as (m & H1 & H2). unfold total. rewrite H1, <- !app_assoc.
  f_equal. symmetry. exact H2.
Qed.

Lemma bw_write_buf_len cap w p :
  (length (bw_buf (bw_write cap w p)) <= length (bw_buf w) + length p)%nat.
Proof.
  destruct (bw_write_split cap w p) as (m & _ & H2). apply (f_equal (@length N)) in H2.
  rewrite !app_length in H2. lia.
Qed.

Lemma bw_flush_total w : total (bw_flush w) = total w.
Proof.
  unfold bw_flush, total. destruct (bw_buf w) eqn:E; [rewrite E; reflexivity|].
  cbn [bw_conn bw_buf]. rewrite concat_snoc, app_nil_r. reflexivity.
Qed.
Lemma bw_flush_buf w : bw_buf (bw_flush w) = [].
Proof. unfold bw_flush. destruct (bw_buf w) eqn:E; [exact E | reflexivity]. Qed.

(* ------------------------------------------------------------------ one write on the pattern writer *)
Lemma wstep_fst cap pats s w : fst (wstep cap pats s w) = snd (flush_step pats (fst s) w).
Proof. unfold wstep. destruct (flush_step pats (fst s) w). destruct flush_after_write; reflexivity. Qed.

Lemma wstep_total cap pats s w : total (snd (wstep cap pats s w)) = total (snd s) ++ w.
Proof.
  unfold wstep. destruct (flush_step pats (fst s) w) as [f l].
  destruct flush_after_write; cbn [snd]; destruct f; rewrite ?bw_flush_total, ?bw_write_total, ?bw_flush_total; reflexivity.
Qed.

(* the flush comes after the write (extracted: flush_after_write), so nothing stays behind *)
Lemma wstep_flag cap pats s w :
  flush_after_write = true ->
  fst (flush_step pats (fst s) w) = true -> bw_buf (snd (wstep cap pats s w)) = [].
Proof.
  intro Hfaw. unfold wstep. rewrite Hfaw. destruct (flush_step pats (fst s) w) as [f l]. cbn [fst snd]. intros ->. apply bw_flush_buf.
Qed.

Lemma wstep_buf_len cap pats s w :
  (length (bw_buf (snd (wstep cap pats s w))) <= length (bw_buf (snd s)) + length w)%nat.
Proof.
  unfold wstep. destruct (flush_step pats (fst s) w) as [f l].
  destruct flush_after_write; cbn [snd].
  - destruct f; [rewrite bw_flush_buf; simpl; lia | apply bw_write_buf_len].
  - destruct f; [|apply bw_write_buf_len].
    pose proof (bw_write_buf_len cap (bw_flush (snd s)) w) as Hb. rewrite bw_flush_buf in Hb. simpl in Hb. lia.
Qed.

Lemma wsteps_total cap pats ws : forall s, total (snd (wsteps cap pats s ws)) = total (snd s) ++ concat ws.
Proof.
  unfold wsteps. induction ws as [|w ws IH]; intro s; simpl.
  - rewrite app_nil_r. reflexivity.
  - rewrite IH, wstep_total, <- app_assoc. reflexivity.
Qed.

Lemma wsteps_fst cap pats ws : forall s,
  fst (wsteps cap pats s ws) = fold_left (fun l y => snd (flush_step pats l y)) ws (fst s).
Proof.
  unfold wsteps. induction ws as [|w ws IH]; intro s; simpl; [reflexivity|].
  rewrite IH, wstep_fst. reflexivity.
Qed.

Lemma wsteps_snoc cap pats ws w s :
  wsteps cap pats s (ws ++ [w]) = wstep cap pats (wsteps cap pats s ws) w.
Proof. unfold wsteps. rewrite fold_left_app. reflexivity. Qed.

(* ------------------------------------------------------------------ the schedule *)
Fixpoint arrived_of (evs : list ev) : str :=
  match evs with
  | [] => []
  | Arrive d :: r => d ++ arrived_of r
  | Read _ :: r => arrived_of r
  end.

Definition encoded (chunked : bool) (reads : list str) : str := concat (flat_map (read_writes chunked) reads).

Lemma encoded_snoc chunked reads d :
  encoded chunked (reads ++ [d]) = encoded chunked reads ++ concat (read_writes chunked d).
Proof. unfold encoded. rewrite flat_map_app, concat_app. simpl. rewrite app_nil_r. reflexivity. Qed.

(* what holds in every reachable state, for every writer kind *)
Record inv_common (H : str) (chunked : bool) (s : rstate) : Prop := {
  ic_total : total (rs_bw s) = H ++ encoded chunked (rs_reads s);
  ic_reads : concat (rs_reads s) ++ rs_avail s = rs_arrived s;
  ic_nonempty : Forall (fun d => d <> []) (rs_reads s) }.

Lemma firstn_S_nonempty (n : nat) (l : str) : l <> [] -> firstn (S n) l <> [].
Proof. destruct l; [congruence | discriminate]. Qed.

Lemma step_common cap pats H chunked s e :
  inv_common H chunked s -> inv_common H chunked (relay_step cap pats chunked s e).
Proof.
  intros [Ht Hr Hn]. destruct e as [d | n]; cbn [relay_step].
  - constructor; cbn [rs_bw rs_reads rs_avail rs_arrived]; [exact Ht | | exact Hn].
    rewrite app_assoc, Hr. reflexivity.
  - destruct (rs_avail s) as [|a0 av] eqn:Ea; [constructor; rewrite ?Ea; assumption|].
    constructor; cbn [rs_bw rs_reads rs_avail rs_arrived].
    + rewrite wsteps_total. cbn [snd]. rewrite Ht, encoded_snoc, <- app_assoc. reflexivity.
    + rewrite concat_snoc, <- app_assoc, firstn_skipn. exact Hr.
    + apply Forall_app. split; [exact Hn|]. constructor; [discriminate | constructor].
Qed.

Lemma init_common cap pats chunked head : inv_common (concat head) chunked (relay_init cap pats head).
Proof.
  constructor; cbn [relay_init rs_bw rs_reads rs_avail rs_arrived]; [|reflexivity | constructor].
  rewrite wsteps_total. unfold encoded. simpl. rewrite app_nil_r. reflexivity.
Qed.

Lemma run_common cap pats H chunked evs : forall s,
  inv_common H chunked s -> inv_common H chunked (relay_run cap pats chunked s evs).
Proof.
  unfold relay_run. induction evs as [|e evs IH]; intros s Hs; simpl; [exact Hs|].
  apply IH, step_common, Hs.
Qed.

Lemma run_arrived cap pats chunked evs : forall s,
  rs_arrived (relay_run cap pats chunked s evs) = rs_arrived s ++ arrived_of evs.
Proof.
  unfold relay_run. induction evs as [|e evs IH]; intro s; simpl; [rewrite app_nil_r; reflexivity|].
  rewrite IH. destruct e as [d | n]; cbn [relay_step].
  - cbn [rs_arrived]. rewrite <- app_assoc. reflexivity.
  - destruct (rs_avail s); reflexivity.
Qed.

(* ------------------------------------------------------------------ T02_relay_conservative *)
(* For every capacity, pattern list, writer kind, head and schedule: what is on the client
   connection, followed by what the buffer holds, is the head followed by the encoded reads;
   the reads followed by what is still unread are what arrived.  No byte is lost, invented,
   duplicated or reordered on the way. *)
Theorem relay_conservative cap pats chunked head evs :
  let s := relay_run cap pats chunked (relay_init cap pats head) evs in
  delivered s ++ bw_buf (rs_bw s) = concat head ++ encoded chunked (rs_reads s) /\
  concat (rs_reads s) ++ rs_avail s = arrived_of evs /\
  Forall (fun d => d <> []) (rs_reads s).
Proof.
  intro s. destruct (run_common cap pats (concat head) chunked evs _ (init_common cap pats chunked head)) as [Ht Hr Hn].
  fold s in Ht, Hr, Hn. split; [exact Ht|]. split; [|exact Hn].
  rewrite Hr. unfold s. rewrite run_arrived. reflexivity.
Qed.

(* ------------------------------------------------------------------ event streams without chunked coding *)
Section Patterns.
  Hypothesis Hstraddle : flush_straddle_check = true.
  Hypothesis Hcontains : flush_contains_check = true.
  Hypothesis Hfaw : flush_after_write = true.
  Variable cap : nat.
  Variable pats : list pat.
  Hypothesis Hnz : Forall (fun p => fst p <> 0) pats.
  Variable H : str.

  (* every occurrence of a pattern that ends inside the body read so far lies before the
     bytes still held in the buffer *)
  Record inv_pat (s : rstate) : Prop := {
    ip_common : inv_common H false s;
    ip_state : state_of (H ++ concat (rs_reads s)) (rs_last s);
    ip_occ : forall p a c, In p pats -> H ++ concat (rs_reads s) = a ++ [fst p; snd p] ++ c ->
               (length c < length (concat (rs_reads s)))%nat ->
               (length (bw_buf (rs_bw s)) <= length c)%nat }.

  Lemma encoded_plain reads : encoded false reads = concat reads.
  Proof.
    unfold encoded. induction reads as [|d r IH]; [reflexivity|]. cbn [flat_map read_writes app concat].
    cbn [flat_map read_writes app concat] in IH. rewrite IH. reflexivity.
  Qed.

  Lemma step_pat s e : inv_pat s -> inv_pat (relay_step cap pats false s e).
  Proof.
    intros [Hc Hst Hocc]. pose proof (step_common cap pats H false s e Hc) as Hc'.
    destruct e as [d | n]; cbn [relay_step] in *.
    - constructor; cbn [rs_bw rs_reads rs_last]; assumption.
    - destruct (rs_avail s) as [|a0 av] eqn:Ea; [constructor; assumption|].
      set (d := firstn (S n) (a0 :: av)) in *.
      assert (Hd : d <> []) by (apply firstn_S_nonempty; discriminate).
      cbn [read_writes wsteps fold_left] in *.
      set (B := concat (rs_reads s)) in *.
      assert (EB : H ++ concat (rs_reads s ++ [d]) = (H ++ B) ++ d)
        by (rewrite concat_snoc; apply app_assoc).
      constructor; cbn [rs_bw rs_reads rs_last]; [exact Hc' | |].
      + rewrite EB, wstep_fst. cbn [fst]. apply state_step; assumption.
      + intros p a c Hin Heq Hlen. rewrite EB in Heq. rewrite concat_snoc, app_length in Hlen. fold B in Hlen.
        destruct (Nat.lt_ge_cases (length c) (length d)) as [Hlt | Hge].
        * (* the occurrence ends inside this read: the write flushes *)
          assert (Hf : fst (flush_step pats (rs_last s) d) = true).
          { apply (flush_step_iff Hstraddle Hcontains pats (H ++ B) (rs_last s) d Hst Hnz).
            exists p, a, c. auto. }
          rewrite (wstep_flag cap pats (rs_last s, rs_bw s) d Hfaw Hf). simpl. lia.
        * (* it ended earlier: it was before the buffered bytes already *)
          assert (Heq' : (H ++ B) ++ d = (a ++ [fst p; snd p]) ++ c)
            by (rewrite Heq; apply app_assoc).
          destruct (app_eq_prefix _ _ _ _ Heq' Hge) as (c0 & Hpre & ->).
          rewrite app_length in Hlen |- *.
          assert (Hle : (length (bw_buf (rs_bw s)) <= length c0)%nat).
          { apply (Hocc p a c0 Hin); [rewrite Hpre, <- app_assoc; reflexivity | lia]. }
          pose proof (wstep_buf_len cap pats (rs_last s, rs_bw s) d) as Hb. cbn [snd] in Hb. lia.
  Qed.

  Lemma run_pat evs : forall s, inv_pat s -> inv_pat (relay_run cap pats false s evs).
  Proof.
    unfold relay_run. induction evs as [|e evs IH]; intros s Hs; simpl; [exact Hs|].
    apply IH, step_pat, Hs.
  Qed.
End Patterns.

Lemma init_pat cap pats h x :
  x <> [] -> inv_pat pats (concat (h ++ [x])) (relay_init cap pats (h ++ [x])).
Proof.
  intro Hx. constructor.
  - apply init_common.
  - cbn [relay_init rs_reads rs_last concat]. rewrite app_nil_r, wsteps_snoc, wstep_fst, concat_snoc.
    right. split.
    + destruct (concat h); [exact Hx | discriminate].
    + unfold flush_step. cbn [snd]. destruct x as [|x0 x']; [congruence|].
      symmetry. apply last_byte_app_nonempty. discriminate.
  - cbn [relay_init rs_reads concat length]. intros p a c _ _ Hl. lia.
Qed.

(* T02_pattern_reaches_connection.  An event stream (or any body) relayed without chunked
   coding behind the pattern writer: for every capacity of the connection's buffer, every
   pattern list, every head whose last write is non-empty and EVERY schedule of arrivals and
   reads, each occurrence of a pattern in the bytes read so far is on the client connection. *)
Theorem pattern_reaches_connection :
  flush_straddle_check = true -> flush_contains_check = true -> flush_after_write = true ->
  forall cap pats h x evs,
    Forall (fun p => fst p <> 0) pats -> x <> [] ->
    let s := relay_run cap pats false (relay_init cap pats (h ++ [x])) evs in
    forall p a c, In p pats -> concat (rs_reads s) = a ++ [fst p; snd p] ++ c ->
      exists rest, delivered s = concat (h ++ [x]) ++ a ++ [fst p; snd p] ++ rest.
Proof.
  intros Hs Hc Hfaw cap pats h x evs Hnz Hx s p a c Hin Heq.
  destruct (run_pat Hs Hc Hfaw cap pats Hnz (concat (h ++ [x])) evs _ (init_pat cap pats h x Hx)) as [[Ht _ _] _ Hocc].
  fold s in Ht, Hocc. set (H := concat (h ++ [x])) in *.
  assert (E : H ++ concat (rs_reads s) = (H ++ a) ++ [fst p; snd p] ++ c)
    by (rewrite Heq, <- app_assoc; reflexivity).
  assert (Hl : (length (bw_buf (rs_bw s)) <= length c)%nat).
  { apply (Hocc p (H ++ a) c Hin E). rewrite Heq, !app_length. simpl. lia. }
  unfold total in Ht. rewrite encoded_plain, E in Ht. fold (delivered s) in Ht.
  assert (Ht' : delivered s ++ bw_buf (rs_bw s) = ((H ++ a) ++ [fst p; snd p]) ++ c)
    by (rewrite <- app_assoc; exact Ht).
  destruct (app_eq_prefix _ _ _ _ Ht' Hl) as (r & Hd & _).
  exists r. rewrite Hd, <- !app_assoc. reflexivity.
Qed.

(* T02_event_reaches_connection.  With the event-stream patterns: whatever two ends of line
   (LF, CR, CRLF, mixed) form the empty line after an event, once the read containing its last
   byte has happened the whole event is on the client connection — under every schedule. *)
Theorem event_reaches_connection :
  flush_straddle_check = true -> flush_contains_check = true -> flush_after_write = true ->
  forall pats, In (10, 10) pats -> In (13, 13) pats -> In (10, 13) pats -> In (13, 10) pats ->
  Forall (fun p => fst p <> 0) pats ->
  forall cap h x evs, x <> [] ->
    let s := relay_run cap pats false (relay_init cap pats (h ++ [x])) evs in
    forall e1 e2 a c, In e1 eols -> In e2 eols -> concat (rs_reads s) = a ++ (e1 ++ e2) ++ c ->
      exists rest, delivered s = concat (h ++ [x]) ++ a ++ (e1 ++ e2) ++ rest.
Proof.
  intros Hs Hc Hfaw pats P1 P2 P3 P4 Hnz cap h x evs Hx s e1 e2 a c H1 H2 Heq.
  destruct (blank_line_tail e1 e2 H1 H2) as (p & y & Hp & Hy).
  assert (Hin : In p pats).
  { simpl in Hp. destruct Hp as [<- | [<- | [<- | [<- | []]]]]; assumption. }
  assert (Heq' : concat (rs_reads s) = (a ++ y) ++ [fst p; snd p] ++ c).
  { rewrite Heq, Hy, <- !app_assoc. reflexivity. }
  destruct (pattern_reaches_connection Hs Hc Hfaw cap pats h x evs Hnz Hx p (a ++ y) c Hin Heq') as (rest & Hd).
  exists rest. fold s in Hd. rewrite Hd, Hy, <- !app_assoc. reflexivity.
Qed.

(* ... in terms of what the origin has sent: whenever the copy loop is waiting for data
   (nothing unread), every complete event that has arrived is on the client connection. *)
Corollary sent_event_delivered :
  flush_straddle_check = true -> flush_contains_check = true -> flush_after_write = true ->
  forall pats, In (10, 10) pats -> In (13, 13) pats -> In (10, 13) pats -> In (13, 10) pats ->
  Forall (fun p => fst p <> 0) pats ->
  forall cap h x evs, x <> [] ->
    let s := relay_run cap pats false (relay_init cap pats (h ++ [x])) evs in
    rs_avail s = [] ->
    forall e1 e2 a c, In e1 eols -> In e2 eols -> arrived_of evs = a ++ (e1 ++ e2) ++ c ->
      exists rest, delivered s = concat (h ++ [x]) ++ a ++ (e1 ++ e2) ++ rest.
Proof.
  intros Hs Hc Hfaw pats P1 P2 P3 P4 Hnz cap h x evs Hx s Hav e1 e2 a c H1 H2 Heq.
  destruct (relay_conservative cap pats false (h ++ [x]) evs) as (_ & Hr & _). fold s in Hr.
  rewrite Hav, app_nil_r in Hr.
  apply (event_reaches_connection Hs Hc Hfaw pats P1 P2 P3 P4 Hnz cap h x evs Hx e1 e2 a c H1 H2).
  fold s. rewrite Hr. exact Heq.
Qed.

(* ------------------------------------------------------------------ chunked coding to the client *)
(* T02_chunk_reaches_connection.  Behind a pattern writer whose list holds CR LF (the chunk
   writer's and the event-stream writer's both do): after every read the buffer is empty —
   everything read so far is on the client connection, as complete chunks, under every
   schedule and capacity. *)
Theorem chunk_reaches_connection :
  flush_contains_check = true -> flush_after_write = true ->
  forall cap pats head evs, In (13, 10) pats ->
    let s := relay_run cap pats true (relay_init cap pats head) evs in
    rs_reads s <> [] ->
    bw_buf (rs_bw s) = [] /\
    delivered s = concat head ++ concat (flat_map chunk_writes (rs_reads s)).
Proof.
  intros Hc Hfaw cap pats head evs Hin s Hne.
  assert (Hb : forall evs s0, (rs_reads s0 <> [] -> bw_buf (rs_bw s0) = []) ->
               let s1 := relay_run cap pats true s0 evs in rs_reads s1 <> [] -> bw_buf (rs_bw s1) = []).
  { clear s Hne evs. intros evs. unfold relay_run.
    induction evs as [|e evs IH]; intros s0 H0; simpl; [exact H0|].
    apply IH. destruct e as [d | n]; cbn [relay_step]; [exact H0|].
    destruct (rs_avail s0) as [|a0 av]; [exact H0|]. cbn [rs_reads rs_bw]. intros _.
    cbn [read_writes]. unfold chunk_writes.
    change [hex (N.of_nat (length (firstn (S n) (a0 :: av)))) ++ crlf; firstn (S n) (a0 :: av); crlf]
      with ([hex (N.of_nat (length (firstn (S n) (a0 :: av)))) ++ crlf; firstn (S n) (a0 :: av)] ++ [crlf]).
    rewrite wsteps_snoc. apply (wstep_flag _ _ _ _ Hfaw). unfold flush_step. cbn [fst].
    apply existsb_exists. exists (13, 10). split; [exact Hin|].
    unfold flush_hit. rewrite Hc. cbn [fst snd]. apply orb_true_iff. right. reflexivity. }
  assert (Hbuf : bw_buf (rs_bw s) = []).
  { apply (Hb evs (relay_init cap pats head)); [|exact Hne]. cbn [relay_init rs_reads]. congruence. }
  split; [exact Hbuf|].
  destruct (relay_conservative cap pats true head evs) as (Ht & _). fold s in Ht.
  rewrite Hbuf, app_nil_r in Ht. exact Ht.
Qed.

(* ------------------------------------------------------------------ the end of the response *)
(* T02_relay_complete: after the writes that follow the body and the final Flush of
   writeResponse, the connection carries head, encoded body and tail, and the buffer is empty. *)
Theorem relay_complete cap pats chunked head evs tail :
  let s := relay_finish cap pats (relay_run cap pats chunked (relay_init cap pats head) evs) tail in
  bw_buf (rs_bw s) = [] /\
  delivered s = concat head ++ encoded chunked (rs_reads s) ++ concat tail.
Proof.
  intro s. unfold s, relay_finish. cbn [rs_bw rs_reads]. split; [apply bw_flush_buf|].
  set (s0 := relay_run cap pats chunked (relay_init cap pats head) evs).
  destruct (run_common cap pats (concat head) chunked evs _ (init_common cap pats chunked head)) as [Ht _ _].
  fold s0 in Ht.
  pose proof (bw_flush_total (snd (wsteps cap pats (rs_last s0, rs_bw s0) tail))) as Hf.
  unfold total in Hf at 1. rewrite bw_flush_buf, app_nil_r in Hf. unfold delivered. cbn [rs_bw].
  rewrite Hf, wsteps_total. cbn [snd]. rewrite Ht, <- app_assoc. reflexivity.
Qed.

(* ------------------------------------------------------------------ the LTS and the write list of Response.Write *)
Lemma wsteps_app cap pats s ws1 ws2 :
  wsteps cap pats s (ws1 ++ ws2) = wsteps cap pats (wsteps cap pats s ws1) ws2.
Proof. unfold wsteps. apply fold_left_app. Qed.

Lemma run_seq cap pats chunked reads :
  Forall (fun d => d <> []) reads -> forall s, rs_avail s = [] ->
  let s' := relay_run cap pats chunked s (seq_schedule reads) in
  rs_avail s' = [] /\ rs_reads s' = rs_reads s ++ reads /\
  (rs_last s', rs_bw s') = wsteps cap pats (rs_last s, rs_bw s) (flat_map (read_writes chunked) reads).
Proof.
  unfold relay_run, seq_schedule.
  induction 1 as [|d reads Hd _ IH]; intros s Hav; cbn zeta.
  - cbn. rewrite app_nil_r. auto.
  - cbn [flat_map app fold_left].
    destruct d as [|d0 d']; [congruence|].
    assert (E1 : firstn (S (length (d0 :: d') - 1)) (d0 :: d') = d0 :: d').
    { cbn [length]. rewrite Nat.sub_succ, Nat.sub_0_r. apply (firstn_all (d0 :: d')). }
    assert (E2 : skipn (S (length (d0 :: d') - 1)) (d0 :: d') = []).
    { cbn [length]. rewrite Nat.sub_succ, Nat.sub_0_r. apply (skipn_all (d0 :: d')). }
    set (s1 := relay_step cap pats chunked (relay_step cap pats chunked s (Arrive (d0 :: d'))) (Read (length (d0 :: d') - 1))).
    assert (Es1 : s1 = mkRs [] (fst (wsteps cap pats (rs_last s, rs_bw s) (read_writes chunked (d0 :: d'))))
                            (snd (wsteps cap pats (rs_last s, rs_bw s) (read_writes chunked (d0 :: d'))))
                            (rs_reads s ++ [d0 :: d']) (rs_arrived s ++ d0 :: d')).
    { unfold s1. cbn [relay_step rs_avail rs_last rs_bw rs_reads rs_arrived]. rewrite Hav. cbn [app].
      rewrite E1, E2. reflexivity. }
    destruct (IH s1 ltac:(rewrite Es1; reflexivity)) as (Ha & Hr & Hw). split; [exact Ha|]. split.
    + rewrite Hr, Es1. cbn [rs_reads]. rewrite <- app_assoc. reflexivity.
    + rewrite Hw, Es1. cbn [rs_last rs_bw]. rewrite wsteps_app.
      destruct (wsteps cap pats (rs_last s, rs_bw s) (read_writes chunked (d0 :: d'))). reflexivity.
Qed.

Lemma flat_map_single (l : list str) : flat_map (read_writes false) l = l.
Proof. induction l as [|x l IH]; [reflexivity|]. cbn [flat_map read_writes app]. rewrite IH. reflexivity. Qed.

Lemma go_writes_relay_shape meth r :
  g_head (go_state meth r) = false ->
  g_te (go_state meth r) = true \/ (g_cl (go_state meth r) =? -1)%Z = true ->
  go_writes meth r =
  go_head_writes meth r ++ flat_map (read_writes (g_te (go_state meth r))) (reads_of r) ++ go_tail meth r.
Proof.
  intros Hh Hk. unfold go_writes, go_body_writes, go_tail. cbv zeta. rewrite Hh. f_equal.
  destruct (g_te (go_state meth r)) eqn:Ht.
  - change (flat_map (read_writes true)) with (flat_map chunk_writes). rewrite <- !app_assoc. reflexivity.
  - destruct Hk as [Hk | Hk]; [discriminate|]. rewrite Hk, flat_map_single. reflexivity.
Qed.

(* T02_relay_refines_response_write.  Under the schedule in which every read arrives and is read
   at once, the LTS does to the connection's buffer exactly what the write list of (modelled)
   Response.Write does — the list that gcases / ecases compare with the implementation byte for
   byte: same final state of the pattern writer, same Write calls on the connection. *)
Theorem relay_refines_response_write cap pats meth r :
  g_head (go_state meth r) = false ->
  g_te (go_state meth r) = true \/ (g_cl (go_state meth r) =? -1)%Z = true ->
  let s := relay_finish cap pats
             (relay_run cap pats (g_te (go_state meth r)) (relay_init cap pats (go_head_writes meth r))
                        (seq_schedule (reads_of r)))
             (go_tail meth r) in
  let W := wsteps cap pats (0, bw_empty) (go_writes meth r) in
  rs_last s = fst W /\ rs_bw s = bw_flush (snd W) /\ rs_reads s = reads_of r /\ rs_avail s = [].
Proof.
  intros Hh Hk. cbv zeta.
  assert (Hne : Forall (fun d => d <> []) (reads_of r)).
  { unfold reads_of. apply Forall_forall. intros y Hy. apply filter_In in Hy as [_ Hy]. destruct y; discriminate. }
  destruct (run_seq cap pats (g_te (go_state meth r)) (reads_of r) Hne (relay_init cap pats (go_head_writes meth r)) eq_refl)
    as (Ha & Hr & Hw).
  cbv zeta in Ha, Hr, Hw.
  rewrite (go_writes_relay_shape meth r Hh Hk), !wsteps_app.
  unfold relay_finish. cbn [rs_last rs_bw rs_reads rs_avail]. rewrite Hw.
  cbn [relay_init rs_last rs_bw] in *.
  destruct (wsteps cap pats (0, bw_empty) (go_head_writes meth r)) as [l0 b0]. cbn [fst snd].
  repeat split; [exact Hr | exact Ha].
Qed.

(* ------------------------------------------------------------------ non-vacuity *)
(* a 4-byte buffer, an event arriving in three pieces and read in other pieces, a second,
   incomplete event: the first event is on the connection, the second still in the buffer *)
Definition example_evs : list ev :=
  [Arrive (b "da"); Read 0; Arrive (b "ta: 1" ++ [10]); Read 99; Arrive ([10] ++ b "da"); Read 0; Read 5].
Example relay_example :
  let s := relay_run 4 sse_flush_patterns false (relay_init 4 sse_flush_patterns [b "HTTP/1.1 200 OK" ++ crlf; crlf]) example_evs in
  rs_avail s = [] /\ rs_reads s = [b "d"; b "ata: 1" ++ [10]; [10]; b "da"] /\
  delivered s = b "HTTP/1.1 200 OK" ++ crlf ++ crlf ++ b "data: 1" ++ [10; 10] /\
  bw_buf (rs_bw s) = b "da".
Proof. vm_compute. repeat split. Qed.
